/-
C09 — Definitions expand to their declared content and shrink back losslessly.
Theorems about the model `HedVerif.Defs` (Model/Defs.lean), for all dictionaries, annotations, histories.
-/
import HedVerif.Model.Defs
namespace HedVerif.C09
open HedVerif.Defs

/-! ## Induction on trees and list views of the mutual functions -/

mutual
theorem node_ind (P : Node → Prop) (ht : ∀ t, P (.tag t)) (hg : ∀ ks, (∀ k ∈ ks, P k) → P (.grp ks)) :
    ∀ n, P n
  | .tag t => ht t
  | .grp ks => hg ks (list_ind P ht hg ks)
theorem list_ind (P : Node → Prop) (ht : ∀ t, P (.tag t)) (hg : ∀ ks, (∀ k ∈ ks, P k) → P (.grp ks)) :
    ∀ ks : List Node, ∀ k ∈ ks, P k
  | [] => by simp
  | k :: ks => by
    intro x hx
    rcases List.mem_cons.1 hx with h | h
    · rw [h]; exact node_ind P ht hg k
    · exact list_ind P ht hg ks x h
end

theorem map_eq_self {f : Node → Node} {l : List Node} : l.map f = l ↔ ∀ x ∈ l, f x = x := by
  induction l with
  | nil => simp
  | cons a l ih => simp [ih]

theorem any_congr' {f g : Node → Bool} {l : List Node} (h : ∀ x ∈ l, f x = g x) : l.any f = l.any g := by
  induction l with
  | nil => rfl
  | cons a l ih =>
    simp only [List.any_cons, h a (by simp), ih (fun x hx => h x (List.mem_cons_of_mem _ hx))]

theorem eraseL_map (ks : List Node) : eraseL ks = ks.map erase := by
  induction ks with
  | nil => simp [eraseL]
  | cons k ks ih => simp [eraseL, ih]

theorem sortL_map (fold : Str → Str) (ks : List Node) : sortL fold ks = ks.map (sortN fold) := by
  induction ks with
  | nil => simp [sortL]
  | cons k ks ih => simp [sortL, ih]

theorem allTagsL_flat (ks : List Node) : allTagsL ks = ks.flatMap allTags := by
  induction ks with
  | nil => simp [allTagsL]
  | cons k ks ih => simp [allTagsL, ih]

theorem mem_allTagsL {t : Tag} {ks : List Node} : t ∈ allTagsL ks ↔ ∃ k ∈ ks, t ∈ allTags k := by
  rw [allTagsL_flat]; simp [List.mem_flatMap]

theorem shrL_map (fix : Bool) (ks : List Node) : shrL fix ks = ks.map (shrN fix) := by
  induction ks with
  | nil => simp [shrL]
  | cons k ks ih => simp [shrL, ih]

mutual
/-- some parenthesised group carries two Def-expand tags (where `shrink_defs` raises KeyError) -/
def sErrN : Node → Bool
  | .tag _ => false
  | .grp ks => decide ((deTags ks).length ≥ 2) || sErrL ks
def sErrL : List Node → Bool
  | [] => false
  | k :: ks => sErrN k || sErrL ks
end

theorem shrErrL_any (ks : List Node) : shrErrL ks = ks.any shrErrN := by
  induction ks with
  | nil => simp [shrErrL]
  | cons k ks ih => simp [shrErrL, ih]

theorem sErrL_any (ks : List Node) : sErrL ks = ks.any sErrN := by
  induction ks with
  | nil => simp [sErrL]
  | cons k ks ih => simp [sErrL, ih]

theorem anyTagL_any (p : Bool → Tag → Bool) (g : Bool) (ks : List Node) :
    anyTagL p g ks = ks.any (anyTag p g) := by
  induction ks with
  | nil => simp [anyTagL]
  | cons k ks ih => simp [anyTagL, ih]

section
variable (fold : Str → Str)

theorem expL_map (fix : Bool) (dd : DefDict) (g : Bool) (ks : List Node) :
    expL fold fix dd g ks = ks.map (expN fold fix dd g) := by
  induction ks with
  | nil => simp [expL]
  | cons k ks ih => simp [expL, ih]

/-! ## Sorting only reorders siblings -/

theorem insertBy_perm (le : Node → Node → Bool) (x : Node) (l : List Node) :
    (insertBy le x l).Perm (x :: l) := by
  induction l with
  | nil => simp [insertBy]
  | cons y ys ih =>
    simp only [insertBy]
    split
    · exact List.Perm.refl _
    · exact (List.Perm.cons y ih).trans (List.Perm.swap x y ys)

theorem isort_perm (le : Node → Node → Bool) (l : List Node) : (isort le l).Perm l := by
  induction l with
  | nil => simp [isort]
  | cons x xs ih =>
    simp only [isort]
    exact (insertBy_perm le x _).trans (List.Perm.cons x ih)

theorem filter_tag_grp_perm (l : List Node) : (l.filter isTag ++ l.filter isGrp).Perm l := by
  induction l with
  | nil => simp
  | cons x xs ih =>
    cases x with
    | tag t =>
      have h : (Node.tag t :: (xs.filter isTag ++ xs.filter isGrp)).Perm (Node.tag t :: xs) := List.Perm.cons _ ih
      simpa [List.filter_cons, isTag, isGrp] using h
    | grp ks =>
      have h : (xs.filter isTag ++ Node.grp ks :: xs.filter isGrp).Perm (Node.grp ks :: xs) :=
        List.perm_middle.trans (List.Perm.cons _ ih)
      simpa [List.filter_cons, isTag, isGrp] using h

theorem arrange_perm (l : List Node) : (arrange fold l).Perm l := by
  unfold arrange
  exact (List.Perm.append (isort_perm _ _) (isort_perm _ _)).trans (filter_tag_grp_perm l)

/-- `sorted()` keeps, at every level, exactly the (recursively sorted) children: it only reorders siblings. -/
theorem sort_perm (ks : List Node) :
    (sortG fold ks).Perm (ks.map (sortN fold)) ∧ ∀ ls, sortN fold (.grp ls) = .grp (sortG fold ls) := by
  constructor
  · unfold sortG; rw [sortL_map]; exact arrange_perm fold _
  · intro ls; simp [sortN, sortG]

theorem mem_arrange {n : Node} {l : List Node} : n ∈ arrange fold l ↔ n ∈ l := (arrange_perm fold l).mem_iff

theorem mem_allTags_sortN (t : Tag) : ∀ n, t ∈ allTags (sortN fold n) ↔ t ∈ allTags n := by
  apply node_ind
  · intro u; simp [sortN]
  · intro ks ih
    simp only [sortN, allTags, mem_allTagsL, mem_arrange, sortL_map, List.mem_map]
    constructor
    · rintro ⟨k, ⟨m, hm, rfl⟩, hk⟩; exact ⟨m, hm, (ih m hm).1 hk⟩
    · rintro ⟨m, hm, hk⟩; exact ⟨sortN fold m, ⟨m, hm, rfl⟩, (ih m hm).2 hk⟩

theorem mem_allTagsL_sortG {t : Tag} {ks : List Node} : t ∈ allTagsL (sortG fold ks) ↔ t ∈ allTagsL ks := by
  have := mem_allTags_sortN fold t (.grp ks)
  simpa [sortN, allTags, sortG] using this

theorem mem_allTags_erase (t : Tag) : ∀ n, t ∈ allTags (erase n) ↔ ∃ u ∈ allTags n, t = u.erase := by
  apply node_ind
  · intro u; simp [erase, allTags]
  · intro ks ih
    simp only [erase, allTags, mem_allTagsL, eraseL_map, List.mem_map]
    constructor
    · rintro ⟨k, ⟨m, hm, rfl⟩, hk⟩
      obtain ⟨u, hu, rfl⟩ := (ih m hm).1 hk
      exact ⟨u, ⟨m, hm, hu⟩, rfl⟩
    · rintro ⟨u, ⟨m, hm, hu⟩, rfl⟩
      exact ⟨erase m, ⟨m, hm, rfl⟩, (ih m hm).2 ⟨u, hu, rfl⟩⟩

theorem mem_allTagsL_eraseL {t : Tag} {ks : List Node} :
    t ∈ allTagsL (eraseL ks) ↔ ∃ u ∈ allTagsL ks, t = u.erase := by
  have := mem_allTags_erase t (.grp ks)
  simpa [erase, allTags] using this

theorem erase_erase : ∀ n, erase (erase n) = erase n := by
  apply node_ind
  · intro t; simp [erase, Tag.erase]
  · intro ks ih
    simp only [erase, eraseL_map, List.map_map, Node.grp.injEq]
    exact List.map_congr_left (fun k hk => by simpa using ih k hk)

theorem eraseL_eraseL (ks : List Node) : eraseL (eraseL ks) = eraseL ks := by
  have := erase_erase (.grp ks)
  simpa [erase] using this


/-! ## Acceptance of a definition (`check_for_definitions`) -/

/-- placeholder tags of a content: tags whose printout has a `#` -/
def phTags (cs : List Node) : List Tag := (allTagsL cs).filter (fun t => decide (t.hashes ≥ 1))

/-- The listed conditions for the top-level group with children `ks` anchored by the Definition tag `dt`. -/
structure Acceptable (dt : Tag) (ks : List Node) : Prop where
  /-- at most one inner group -/
  groups : (groupsOf ks).length ≤ 1
  /-- no content group and a `#` in the name is rejected -/
  content : (groupsOf ks).length = 0 → ¬ '#' ∈ dt.extension
  /-- the Definition tag is the only tag of the group -/
  oneTag : (tagsOf ks).length = 1
  /-- the name (without a final `/#`) has no slash and no `#` -/
  nameSlash : ¬ '/' ∈ (stripValue dt.extension).1
  nameHash : ¬ '#' ∈ (stripValue dt.extension).1
  /-- nothing definition-related, unique or required inside, and no tag with two `#` -/
  inner : ∀ t ∈ allTagsL (contentOf ks), t.base = .other ∧ t.uniqReq = false ∧ t.hashes ≤ 1
  /-- exactly one placeholder tag iff the name ends in `/#` -/
  placeholders : (phTags (contentOf ks)).length = 1 ↔ (stripValue dt.extension).2 = true
  /-- and that tag takes a value -/
  takesValue : (stripValue dt.extension).2 = true → ∀ p, (phTags (contentOf ks)).head? = some p → p.takesValue = true

/-- the entry stored for an accepted definition: folded key, name, sorted fresh copy of the content -/
def newEntry (dt : Tag) (ks : List Node) : Entry :=
  ⟨fold (stripValue dt.extension).1, (stripValue dt.extension).1, eraseL (sortG fold (contentOf ks)),
   (stripValue dt.extension).2⟩

theorem findGroupIssues_nil (dt : Tag) (ks : List Node) :
    findGroupIssues dt ks = [] ↔
      (groupsOf ks).length ≤ 1 ∧ ((groupsOf ks).length = 0 → ¬ '#' ∈ dt.extension) ∧ (tagsOf ks).length = 1 := by
  unfold findGroupIssues
  by_cases h1 : (groupsOf ks).length > 1
  · simp [h1]; omega
  · by_cases h2 : (groupsOf ks).length = 0
    · by_cases h3 : '#' ∈ dt.extension <;> simp [h2, h3]
    · have : (groupsOf ks).length = 1 := by omega
      simp [this]

theorem contentIssues_nil (cs : List Node) :
    contentIssues cs = [] ↔ ∀ t ∈ allTagsL cs, t.base = .other ∧ t.uniqReq = false := by
  simp only [contentIssues, List.append_eq_nil_iff, List.map_eq_nil_iff, List.filter_eq_nil_iff, Tag.isDefish]
  constructor
  · rintro ⟨h1, h2⟩ t ht
    have a := h1 t ht; have b := h2 t ht
    simp at a b; exact ⟨a, b⟩
  · intro h
    constructor <;> intro t ht <;> simp [(h t ht).1, (h t ht).2]

theorem placeholderIssues_nil (cs : List Node) (takes : Bool) :
    placeholderIssues cs takes = [] ↔
      (∀ t ∈ allTagsL cs, t.hashes ≤ 1) ∧ ((phTags cs).length = 1 ↔ takes = true) ∧
      (takes = true → ∀ p, (phTags cs).head? = some p → p.takesValue = true) := by
  unfold placeholderIssues phTags
  have hbad : ((allTagsL cs).filter (fun t => decide (t.hashes > 1))).isEmpty = true ↔
      ∀ t ∈ allTagsL cs, t.hashes ≤ 1 := by
    simp [List.isEmpty_iff, List.filter_eq_nil_iff]
  generalize (allTagsL cs).filter (fun t => decide (t.hashes ≥ 1)) = ph
  by_cases hb : ((allTagsL cs).filter (fun t => decide (t.hashes > 1))).isEmpty = true
  · have hb' := hbad.1 hb
    simp only [hb, if_true, List.nil_append]
    cases takes <;> cases hl : (ph.length == 1)
    all_goals simp_all
    · cases ph with
      | nil => simp at hl
      | cons p r => cases hp : p.takesValue <;> simp_all
  · have : ¬ ∀ t ∈ allTagsL cs, t.hashes ≤ 1 := fun h => hb (hbad.2 h)
    simp [hb, this]

theorem acceptable_iff (dt : Tag) (ks : List Node) :
    Acceptable dt ks ↔
      (findGroupIssues dt ks ++
        (if (stripValue dt.extension).1.contains '/' || (stripValue dt.extension).1.contains '#'
         then [Issue.invalidDefExtension] else [])) = [] ∧
      (contentIssues (contentOf ks) ++ placeholderIssues (contentOf ks) (stripValue dt.extension).2) = [] := by
  simp only [List.append_eq_nil_iff, findGroupIssues_nil, contentIssues_nil, placeholderIssues_nil]
  constructor
  · intro h
    refine ⟨⟨⟨h.groups, h.content, h.oneTag⟩, ?_⟩, ⟨fun t ht => ⟨(h.inner t ht).1, (h.inner t ht).2.1⟩,
      fun t ht => (h.inner t ht).2.2, h.placeholders, h.takesValue⟩⟩
    simp [h.nameSlash, h.nameHash]
  · rintro ⟨⟨⟨a, b, c⟩, d⟩, e, f, g, i⟩
    have d' : ¬ '/' ∈ (stripValue dt.extension).1 ∧ ¬ '#' ∈ (stripValue dt.extension).1 := by
      by_cases h1 : '/' ∈ (stripValue dt.extension).1 <;> by_cases h2 : '#' ∈ (stripValue dt.extension).1 <;>
        simp_all
    exact ⟨a, b, c, d'.1, d'.2, fun t ht => ⟨(e t ht).1, (e t ht).2, f t ht⟩, g, i⟩

def issues1 (dt : Tag) (ks : List Node) : List Issue :=
  findGroupIssues dt ks ++
    (if (stripValue dt.extension).1.contains '/' || (stripValue dt.extension).1.contains '#'
     then [Issue.invalidDefExtension] else [])
def issues2 (dt : Tag) (ks : List Node) : List Issue :=
  contentIssues (contentOf ks) ++ placeholderIssues (contentOf ks) (stripValue dt.extension).2

theorem accept_def (dd : DefDict) (dt : Tag) (ks : List Node) :
    accept fold dd dt ks =
      if !(issues1 dt ks).isEmpty then (dd, issues1 dt ks)
      else if !(issues2 dt ks).isEmpty then (dd, issues2 dt ks)
      else if (lookup dd (fold (stripValue dt.extension).1)).isSome then (dd, [Issue.duplicateDefinition])
      else (dd ++ [newEntry fold dt ks], []) := rfl

/-- **accept_iff**: a definition is added (as a sorted fresh copy under its folded name, nothing reported)
exactly when all listed conditions hold and the name is new; otherwise the dictionary is unchanged and at least
one issue is reported. -/
theorem accept_iff (dd : DefDict) (dt : Tag) (ks : List Node) :
    (Acceptable dt ks ∧ lookup dd (fold (stripValue dt.extension).1) = none →
        accept fold dd dt ks = (dd ++ [newEntry fold dt ks], [])) ∧
    (¬ (Acceptable dt ks ∧ lookup dd (fold (stripValue dt.extension).1) = none) →
        (accept fold dd dt ks).1 = dd ∧ (accept fold dd dt ks).2 ≠ []) := by
  have hA : Acceptable dt ks ↔ issues1 dt ks = [] ∧ issues2 dt ks = [] := acceptable_iff dt ks
  rw [accept_def]
  constructor
  · rintro ⟨h, hl⟩
    obtain ⟨h1, h2⟩ := hA.1 h
    simp [h1, h2, hl]
  · intro hn
    by_cases h1 : issues1 dt ks = []
    · by_cases h2 : issues2 dt ks = []
      · cases hl : lookup dd (fold (stripValue dt.extension).1) with
        | none => exact absurd ⟨hA.2 ⟨h1, h2⟩, hl⟩ hn
        | some e => simp [h1, h2]
      · simp [h1, h2]
    · simp [h1]

/-- **accept_duplicate**: an otherwise acceptable definition whose folded name is already present yields exactly
one issue (duplicate definition) and leaves the dictionary — hence the first definition — unchanged. -/
theorem accept_duplicate (dd : DefDict) (dt : Tag) (ks : List Node) (e : Entry)
    (h : Acceptable dt ks) (hl : lookup dd (fold (stripValue dt.extension).1) = some e) :
    accept fold dd dt ks = (dd, [Issue.duplicateDefinition]) := by
  have hA : Acceptable dt ks ↔ issues1 dt ks = [] ∧ issues2 dt ks = [] := acceptable_iff dt ks
  obtain ⟨h1, h2⟩ := hA.1 h
  rw [accept_def]
  simp [h1, h2, hl]


/-! ## Dictionaries built by `accept` are good -/

/-- nothing definition-related below this node -/
def NoDef (n : Node) : Prop := ∀ t ∈ allTags n, t.base = .other

/-- stored content: no Def/Def-expand/Definition inside, tags fresh; a value-taking entry has a placeholder -/
def GoodEntry (e : Entry) : Prop :=
  (∀ k ∈ e.content, NoDef k) ∧ eraseL e.content = e.content ∧
  (e.takes = true → ∃ t ∈ allTagsL e.content, t.hashes ≥ 1)

def Good (dd : DefDict) : Prop := ∀ e ∈ dd, GoodEntry e

theorem good_nil : Good [] := by intro e he; simp at he

theorem hashes_erase (t : Tag) : t.erase.hashes = t.hashes := rfl

/-- **accept_good**: every dictionary reachable from the empty one through `accept` is good. -/
theorem accept_good (dd : DefDict) (dt : Tag) (ks : List Node) (hg : Good dd) :
    Good (accept fold dd dt ks).1 := by
  by_cases h : Acceptable dt ks ∧ lookup dd (fold (stripValue dt.extension).1) = none
  · rw [(accept_iff fold dd dt ks).1 h]
    intro e he
    rcases List.mem_append.1 he with he | he
    · exact hg e he
    · simp only [List.mem_singleton] at he
      subst he
      obtain ⟨ha, _⟩ := h
      refine ⟨?_, ?_, ?_⟩
      · intro k hk t ht
        have : t ∈ allTagsL (eraseL (sortG fold (contentOf ks))) := mem_allTagsL.2 ⟨k, hk, ht⟩
        obtain ⟨u, hu, rfl⟩ := mem_allTagsL_eraseL.1 this
        exact (ha.inner u ((mem_allTagsL_sortG fold).1 hu)).1
      · exact eraseL_eraseL _
      · intro ht
        have h1 : (phTags (contentOf ks)).length = 1 := ha.placeholders.2 ht
        cases hp : phTags (contentOf ks) with
        | nil => simp [hp] at h1
        | cons p r =>
          have hm : p ∈ phTags (contentOf ks) := by simp [hp]
          simp only [phTags, List.mem_filter, decide_eq_true_eq] at hm
          exact ⟨p.erase, mem_allTagsL_eraseL.2 ⟨p, (mem_allTagsL_sortG fold).2 hm.1, rfl⟩, by rw [hashes_erase]; exact hm.2⟩
  · rw [((accept_iff fold dd dt ks).2 h).1]; exact hg

theorem acceptString_good (dd : DefDict) (root : List Node) (hg : Good dd) :
    Good (acceptString fold dd root).1 := by
  unfold acceptString
  generalize groupsOf root = gs
  suffices h : ∀ acc : DefDict × List Issue, Good acc.1 →
      Good (gs.foldl (fun acc ks => match defTagOf ks with
        | some dt => ((accept fold acc.1 dt ks).1, acc.2 ++ (accept fold acc.1 dt ks).2)
        | none => acc) acc).1 from h (dd, []) hg
  induction gs with
  | nil => intro acc h; simpa using h
  | cons g gs ih =>
    intro acc h
    simp only [List.foldl_cons]
    apply ih
    cases defTagOf g with
    | none => exact h
    | some dt => exact accept_good fold acc.1 dt g h

/-! ### plugging the value -/

theorem plug_found (v : Str) : ∀ n, (plugN v n).2 = true ↔ ∃ t ∈ allTags n, t.hashes ≥ 1 := by
  apply node_ind
  · intro t
    by_cases h : t.hashes ≥ 1 <;> simp [plugN, allTags, h]
  · intro ks ih
    simp only [plugN, allTags]
    induction ks with
    | nil => simp [plugL, allTagsL]
    | cons k r ihr =>
      have hk := ih k (by simp)
      have hr := ihr (fun x hx => ih x (List.mem_cons_of_mem _ hx))
      simp only [plugL, allTagsL, List.mem_append]
      by_cases hf : (plugN v k).2 = true
      · simp only [hf, if_true, true_iff]
        obtain ⟨t, ht, h⟩ := hk.1 hf
        exact ⟨t, Or.inl ht, h⟩
      · simp only [hf, Bool.false_eq_true, if_false]
        rw [hr]
        constructor
        · rintro ⟨t, ht, h⟩; exact ⟨t, Or.inr ht, h⟩
        · rintro ⟨t, ht | ht, h⟩
          · exact absurd (hk.2 ⟨t, ht, h⟩) hf
          · exact ⟨t, ht, h⟩

theorem plugL_found (v : Str) (ks : List Node) :
    (plugL v ks).2 = true ↔ ∃ t ∈ allTagsL ks, t.hashes ≥ 1 := by
  have := plug_found v (.grp ks)
  simpa [plugN, allTags] using this

theorem plug_nodef (v : Str) : ∀ n, NoDef n → NoDef (plugN v n).1 := by
  apply node_ind
  · intro t h u hu
    have hb := h t (by simp [allTags])
    by_cases hh : t.hashes ≥ 1 <;> simp [plugN, hh, allTags] at hu <;> subst hu
    · simpa [plugTag] using hb
    · exact hb
  · intro ks ih h
    have hks : ∀ k ∈ ks, NoDef k := fun k hk t ht => h t (by simp only [allTags]; exact mem_allTagsL.2 ⟨k, hk, ht⟩)
    suffices hl : ∀ k ∈ (plugL v ks).1, NoDef k by
      intro t ht
      simp only [plugN, allTags] at ht
      obtain ⟨k, hk, hkt⟩ := mem_allTagsL.1 ht
      exact hl k hk t hkt
    clear h
    induction ks with
    | nil => simp [plugL]
    | cons k r ihr =>
      intro x hx
      simp only [plugL] at hx
      split at hx
      · rcases List.mem_cons.1 hx with rfl | hx
        · exact ih k (by simp) (hks k (by simp))
        · exact hks x (List.mem_cons_of_mem _ hx)
      · rcases List.mem_cons.1 hx with rfl | hx
        · exact hks _ (by simp)
        · exact ihr (fun y hy => ih y (List.mem_cons_of_mem _ hy)) (fun y hy => hks y (List.mem_cons_of_mem _ hy)) x hx

theorem plugL_nodef (v : Str) (ks : List Node) (h : ∀ k ∈ ks, NoDef k) : ∀ k ∈ (plugL v ks).1, NoDef k := by
  have hg : NoDef (.grp ks) := fun t ht => by
    simp only [allTags] at ht
    obtain ⟨k, hk, hkt⟩ := mem_allTagsL.1 ht
    exact h k hk t hkt
  have := plug_nodef v (.grp ks) hg
  intro k hk t ht
  exact this t (by simp only [plugN, allTags]; exact mem_allTagsL.2 ⟨k, hk, ht⟩)

theorem plug_erase (v : Str) : ∀ n, erase n = n → erase (plugN v n).1 = (plugN v n).1 := by
  apply node_ind
  · intro t h
    simp only [erase, Node.tag.injEq] at h
    by_cases hh : t.hashes ≥ 1 <;> simp only [plugN, hh, if_true, if_false, erase, Node.tag.injEq]
    · rw [← h]; rfl
    · exact h
  · intro ks ih h
    simp only [erase, Node.grp.injEq] at h
    simp only [plugN, erase, Node.grp.injEq]
    have hks : ∀ k ∈ ks, erase k = k := by
      intro k hk
      rw [eraseL_map] at h
      exact (map_eq_self.1 h) k hk  -- placeholder
    clear h
    induction ks with
    | nil => simp [plugL, eraseL]
    | cons k r ihr =>
      simp only [plugL]
      split
      · simp only [eraseL, List.cons.injEq]
        refine ⟨ih k (by simp) (hks k (by simp)), ?_⟩
        rw [eraseL_map]
        exact map_eq_self.2 (fun x hx => hks x (List.mem_cons_of_mem _ hx))
      · simp only [eraseL, List.cons.injEq]
        exact ⟨hks k (by simp), ihr (fun y hy => ih y (List.mem_cons_of_mem _ hy))
          (fun y hy => hks y (List.mem_cons_of_mem _ hy))⟩

theorem plugL_erase (v : Str) (ks : List Node) (h : eraseL ks = ks) : eraseL (plugL v ks).1 = (plugL v ks).1 := by
  have := plug_erase v (.grp ks) (by simp [erase, h])
  simpa [plugN, erase] using this

/-- what the rest of the development needs from a good dictionary -/
theorem good_expansion (dd : DefDict) (hg : Good dd) (t : Tag) :
    (expansion fold dd t ≠ .internal) ∧
    ∀ cs, expansion fold dd t = .ok cs → (∀ k ∈ cs, NoDef k) ∧ eraseL cs = cs := by
  unfold expansion
  cases hl : lookup dd (fold (labelOf t)) with
  | none => simp
  | some e =>
    have he : e ∈ dd := List.mem_of_find?_eq_some hl
    obtain ⟨h1, h2, h3⟩ := hg e he
    simp only
    split
    · simp
    · rename_i hm
      split
      · refine ⟨by simp, ?_⟩
        intro cs hcs; cases hcs; simp [eraseL]
      · split
        · refine ⟨by simp, ?_⟩
          intro cs hcs; cases hcs
          refine ⟨?_, by simp [eraseL, erase, h2]⟩
          intro k hk; simp only [List.mem_singleton] at hk; subst hk
          intro u hu; simp only [allTags] at hu
          obtain ⟨k, hk, hku⟩ := mem_allTagsL.1 hu
          exact h1 k hk u hku
        · rename_i hv
          have htk : e.takes = true := by
            cases ht : e.takes
            · simp [ht, hv] at hm
            · rfl
          have hf : (plugL (valueOf t) e.content).2 = true := (plugL_found _ _).2 (h3 htk)
          simp only [hf, if_true]
          refine ⟨by simp, ?_⟩
          intro cs hcs; cases hcs
          refine ⟨?_, by simp [eraseL, erase, plugL_erase _ _ h2]⟩
          intro k hk; simp only [List.mem_singleton] at hk; subst hk
          intro u hu; simp only [allTags] at hu
          obtain ⟨k, hk, hku⟩ := mem_allTagsL.1 hu
          exact plugL_nodef _ _ h1 k hk u hku


/-! ## The two rewrites the property speaks of, on plain trees -/

/-- `Def/n[/v]` with `n` defined and matching value presence becomes `(Def-expand/n[/v], content[# := v])` -/
def sETag (dd : DefDict) (t : Tag) : Node :=
  if t.base = .def_ then
    match expansion fold dd t with
    | .ok cs => .grp (.tag { t with base := .defExpand } :: cs)
    | _ => .tag t
  else .tag t

mutual
/-- expansion of every such tag, nothing else changed -/
def sEN (dd : DefDict) : Node → Node
  | .tag t => sETag fold dd t
  | .grp ks => .grp (sEL dd ks)
def sEL (dd : DefDict) : List Node → List Node
  | [] => []
  | k :: ks => sEN dd k :: sEL dd ks
end

mutual
/-- every outermost parenthesised group holding a Def-expand tag becomes that tag renamed `Def` -/
def sSN : Node → Node
  | .tag t => .tag t
  | .grp ks => match deTags ks with
    | [] => .grp (sSL ks)
    | t :: _ => .tag { t with base := .def_ }
def sSL : List Node → List Node
  | [] => []
  | k :: ks => sSN k :: sSL ks
end

theorem sEL_map (dd : DefDict) (ks : List Node) : sEL fold dd ks = ks.map (sEN fold dd) := by
  induction ks with
  | nil => simp [sEL]
  | cons k ks ih => simp [sEL, ih]

theorem sSL_map (ks : List Node) : sSL ks = ks.map sSN := by
  induction ks with
  | nil => simp [sSL]
  | cons k ks ih => simp [sSL, ih]

theorem nodef_kids {ks : List Node} (h : NoDef (.grp ks)) : ∀ k ∈ ks, NoDef k :=
  fun k hk t ht => h t (by simp only [allTags]; exact mem_allTagsL.2 ⟨k, hk, ht⟩)

theorem mem_tagsOf {t : Tag} {ks : List Node} : t ∈ tagsOf ks ↔ Node.tag t ∈ ks := by
  induction ks with
  | nil => simp [tagsOf]
  | cons k r ih => cases k <;> simp [tagsOf, ih]

theorem deTags_nodef {ks : List Node} (h : ∀ k ∈ ks, NoDef k) : deTags ks = [] := by
  simp only [deTags, List.filter_eq_nil_iff]
  intro t ht
  have := h _ (mem_tagsOf.1 ht) t (by simp [allTags])
  simp [this]

/-- content of a good dictionary is inert under both rewrites and never makes `shrink_defs` fail -/
theorem nodef_inert (dd : DefDict) : ∀ n, NoDef n → sEN fold dd n = n ∧ sSN n = n ∧ sErrN n = false := by
  apply node_ind
  · intro t h
    have := h t (by simp [allTags])
    simp [sEN, sETag, sSN, sErrN, this]
  · intro ks ih h
    have hk := nodef_kids h
    have hd := deTags_nodef hk
    refine ⟨?_, ?_, ?_⟩
    · simp only [sEN, sEL_map, Node.grp.injEq]; exact map_eq_self.2 (fun k hx => (ih k hx (hk k hx)).1)
    · simp only [sSN, hd, sSL_map, Node.grp.injEq]; exact map_eq_self.2 (fun k hx => (ih k hx (hk k hx)).2.1)
    · simp only [sErrN, hd, sErrL_any, List.length_nil]
      have : ks.any sErrN = false := by
        simp only [List.any_eq_false]; intro k hx; simp [(ih k hx (hk k hx)).2.2]
      simp [this]

theorem nodefL_inert (dd : DefDict) (cs : List Node) (h : ∀ k ∈ cs, NoDef k) :
    sEL fold dd cs = cs ∧ sSL cs = cs ∧ sErrL cs = false ∧ deTags cs = [] := by
  refine ⟨?_, ?_, ?_, deTags_nodef h⟩
  · rw [sEL_map]; exact map_eq_self.2 (fun k hk => (nodef_inert fold dd k (h k hk)).1)
  · rw [sSL_map]; exact map_eq_self.2 (fun k hk => (nodef_inert fold dd k (h k hk)).2.1)
  · rw [sErrL_any]; simp only [List.any_eq_false]; intro k hk; simp [(nodef_inert fold dd k (h k hk)).2.2]

/-- direct Def-expand tags of a group are not touched by the expansion rewrite -/
theorem deTags_sEL (dd : DefDict) (ks : List Node) : deTags (sEL fold dd ks) = deTags ks := by
  induction ks with
  | nil => simp [sEL]
  | cons k r ih =>
    simp only [deTags] at ih ⊢
    cases k with
    | grp ls => simpa [sEL, sEN, tagsOf] using ih
    | tag t =>
      simp only [sEL, sEN, sETag]
      by_cases hb : t.base = .def_
      · simp only [hb, if_true]
        cases expansion fold dd t <;> simp [tagsOf, List.filter_cons, hb, ih]
      · simp only [hb, if_false, tagsOf, List.filter_cons, ih]

theorem deTags_sSL (ks : List Node) : deTags (sSL ks) = deTags ks := by
  induction ks with
  | nil => simp [sSL]
  | cons k r ih =>
    simp only [deTags] at ih ⊢
    cases k with
    | tag t => simp only [sSL, sSN, tagsOf, List.filter_cons, ih]
    | grp ls =>
      simp only [sSL, sSN]
      cases deTags ls <;> simp [tagsOf, List.filter_cons, ih]

variable {dd : DefDict} (hg : Good dd)
include hg

theorem sE_idem : ∀ n, sEN fold dd (sEN fold dd n) = sEN fold dd n := by
  apply node_ind
  · intro t
    simp only [sEN, sETag]
    by_cases hb : t.base = .def_
    · simp only [hb, if_true]
      cases he : expansion fold dd t with
      | ok cs =>
        have hc := ((good_expansion fold dd hg t).2 cs he).1
        simp [sEN, sEL, sETag, (nodefL_inert fold dd cs hc).1]
      | noEntry => simp [sEN, sETag, hb, he]
      | mismatch b => simp [sEN, sETag, hb, he]
      | internal => simp [sEN, sETag, hb, he]
    · simp [hb, sEN, sETag]
  · intro ks ih
    simp only [sEN, sEL_map, List.map_map, Node.grp.injEq]
    exact List.map_congr_left (fun k hk => by simpa using ih k hk)

theorem sS_sE : ∀ n, sSN (sEN fold dd n) = sSN n := by
  apply node_ind
  · intro t
    simp only [sEN, sETag]
    by_cases hb : t.base = .def_
    · simp only [hb, if_true]
      cases he : expansion fold dd t with
      | ok cs =>
        have hc := ((good_expansion fold dd hg t).2 cs he).1
        have hd := (nodefL_inert fold dd cs hc).2.2.2
        simp only [deTags] at hd
        simp only [sSN, deTags, tagsOf, List.filter_cons_of_pos, beq_self_eq_true, Node.tag.injEq]
        cases t; simp_all
      | noEntry => simp [sSN]
      | mismatch b => simp [sSN]
      | internal => simp [sSN]
    · simp [hb, sSN]
  · intro ks ih
    simp only [sEN, sSN, deTags_sEL]
    cases deTags ks with
    | nil =>
      simp only [sSL_map, sEL_map, List.map_map, Node.grp.injEq]
      exact List.map_congr_left (fun k hk => by simpa using ih k hk)
    | cons t r => rfl

omit hg in
theorem sS_idem : ∀ n, sSN (sSN n) = sSN n := by
  apply node_ind
  · intro t; simp [sSN]
  · intro ks ih
    cases hd : deTags ks with
    | nil =>
      simp only [sSN, hd, deTags_sSL]
      simp only [sSL_map, List.map_map, Node.grp.injEq]
      exact List.map_congr_left (fun k hk => by simpa using ih k hk)
    | cons t r => simp [sSN, hd]

theorem shrErr_sE : ∀ n, sErrN (sEN fold dd n) = sErrN n := by
  apply node_ind
  · intro t
    simp only [sEN, sETag]
    by_cases hb : t.base = .def_
    · simp only [hb, if_true]
      cases he : expansion fold dd t with
      | ok cs =>
        have hc := ((good_expansion fold dd hg t).2 cs he).1
        have hi := nodefL_inert fold dd cs hc
        have hd := hi.2.2.2
        simp only [deTags] at hd
        simp [sErrN, sErrL, deTags, tagsOf, hd, hi.2.2.1]
      | noEntry => rfl
      | mismatch b => rfl
      | internal => rfl
    · simp [hb]
  · intro ks ih
    simp only [sEN, sErrN, deTags_sEL]
    rw [sErrL_any, sErrL_any, sEL_map, List.any_map]
    congr 1
    exact any_congr' (fun k hk => by simpa using ih k hk)

omit hg in
theorem shrErr_sS : ∀ n, sErrN n = false → sErrN (sSN n) = false := by
  apply node_ind
  · intro t _; simp [sSN, sErrN]
  · intro ks ih h
    simp only [sErrN, Bool.or_eq_false_iff, sErrL_any, List.any_eq_false] at h
    cases hd : deTags ks with
    | cons t r => simp [sSN, hd, sErrN]
    | nil =>
      simp only [sSN, hd, sErrN, deTags_sSL, List.length_nil]
      rw [sErrL_any, sSL_map, List.any_map]
      have : ks.any (sErrN ∘ sSN) = false := by
        simp only [List.any_eq_false]
        intro k hk
        have := ih k hk (by simpa using h.2 k hk)
        simpa using this
      simp [this]


/-! ## The mutable object refines the two rewrites -/

/-- once `expandable` has been computed, `_expanded` tells whether the tag is in Def-expand form; and the tag's
`_parent` is the group that holds it -/
def InvT (t : Tag) : Prop := (t.cached = true → t.expanded = (t.base == .defExpand)) ∧ t.att = .ok
def InvN (n : Node) : Prop := ∀ t ∈ allTags n, InvT t

/-- a well-formed object: no cycle, flags consistent (true of every freshly parsed `HedString`) -/
def WF (o : Obj) : Prop := o.cyclic = false ∧ ∀ k ∈ o.kids, InvN k

omit hg in
theorem inv_kids {ks : List Node} (h : InvN (.grp ks)) : ∀ k ∈ ks, InvN k :=
  fun k hk t ht => h t (by simp only [allTags]; exact mem_allTagsL.2 ⟨k, hk, ht⟩)

omit hg in
theorem inv_grp {ks : List Node} (h : ∀ k ∈ ks, InvN k) : InvN (.grp ks) := by
  intro t ht
  simp only [allTags] at ht
  obtain ⟨k, hk, hkt⟩ := mem_allTagsL.1 ht
  exact h k hk t hkt

omit hg in
theorem inv_of_erased {cs : List Node} (h : eraseL cs = cs) : ∀ k ∈ cs, InvN k := by
  intro k hk t ht
  have : t ∈ allTagsL (eraseL cs) := by rw [h]; exact mem_allTagsL.2 ⟨k, hk, ht⟩
  obtain ⟨u, _, rfl⟩ := mem_allTagsL_eraseL.1 this
  exact ⟨fun hc => by simp [Tag.erase] at hc, rfl⟩

omit hg in
theorem wf_fresh (ks : List Node) : WF { kids := eraseL ks } :=
  ⟨rfl, inv_of_erased (eraseL_eraseL ks)⟩

omit hg in
theorem touch_facts (t : Tag) (hi : InvT t) :
    (touch t).expanded = (t.base == .defExpand) ∧ (touch t).cached = true ∧ (touch t).erase = t.erase ∧
    (touch t).base = t.base ∧ (touch t).att = .ok := by
  unfold touch
  cases hc : t.cached
  · simp [Tag.erase, hi.2]
  · simp [hi.1 hc, hc, hi.2]

omit hg in
theorem expansion_erase (t : Tag) : expansion fold dd t.erase = expansion fold dd t := rfl

theorem expTag_ref (g : Bool) (t : Tag) (hi : InvT t) :
    erase (expTag fold true dd g t) = sETag fold dd t.erase ∧ cycTag fold dd g t = false ∧
    intTag fold dd g t = false ∧ InvN (expTag fold true dd g t) := by
  obtain ⟨hne, hok⟩ := good_expansion fold dd hg t
  obtain ⟨h1, h2, h3, h4, h5⟩ := touch_facts t hi
  have hatt : t.att = .ok := hi.2
  have hit : InvN (.tag t) := by intro u hu; simp only [allTags, List.mem_singleton] at hu; subst hu; exact hi
  have hse : sETag fold dd t.erase = if t.base = .def_ then
      match expansion fold dd t with
      | .ok cs => .grp (.tag { t.erase with base := .defExpand } :: cs)
      | _ => .tag t.erase
    else .tag t.erase := rfl
  rw [hse]
  by_cases hcand : candidate g t = true
  · cases he : expansion fold dd t with
    | ok cs =>
      obtain ⟨hc1, hc2⟩ := hok cs he
      by_cases hde : t.base = .defExpand
      · have hexp : expTag fold true dd g t = .tag (touch t) := by
          unfold expTag; simp [hcand, he, h1, hde]
        have hnd : ¬ t.base = .def_ := by simp [hde]
        refine ⟨?_, ?_, ?_, ?_⟩
        · rw [hexp]; simp [erase, h3, hnd]
        · unfold cycTag; simp [h1, hde]
        · unfold intTag; simp [he]
        · rw [hexp]
          intro u hu; simp only [allTags, List.mem_singleton] at hu; subst hu
          exact ⟨fun _ => by rw [h1, h4], h5⟩
      · have hd : t.base = .def_ := by
          simp only [candidate, Bool.or_eq_true, beq_iff_eq, Bool.and_eq_true] at hcand
          rcases hcand with h | h
          · exact h
          · exact absurd h.1 hde
        have hexp : expTag fold true dd g t = .grp (.tag (toDE true (touch t)) :: cs) := by
          unfold expTag; simp [hcand, he, h1, hd, hatt]
        have hte : (toDE true (touch t)).erase = { t.erase with base := Base.defExpand } := by
          rw [← h3]; rfl
        refine ⟨?_, ?_, ?_, ?_⟩
        · rw [hexp]; simp [erase, eraseL, hc2, hte, hd]
        · unfold cycTag; simp [hd]
        · unfold intTag; simp [he]
        · rw [hexp]
          apply inv_grp
          intro k hk
          rcases List.mem_cons.1 hk with rfl | hk
          · intro u hu; simp only [allTags, List.mem_singleton] at hu; subst hu
            exact ⟨fun _ => by simp [toDE], by simpa [toDE] using h5⟩
          · exact inv_of_erased hc2 k hk
    | noEntry =>
      have hexp : expTag fold true dd g t = .tag t := by unfold expTag; simp [he]
      refine ⟨by rw [hexp]; simp [erase], by unfold cycTag; simp [he], by unfold intTag; simp [he],
        by rw [hexp]; exact hit⟩
    | mismatch b =>
      have hexp : expTag fold true dd g t = .tag t := by unfold expTag; simp [he]
      refine ⟨by rw [hexp]; simp [erase], by unfold cycTag; simp [he], by unfold intTag; simp [he],
        by rw [hexp]; exact hit⟩
    | internal => exact absurd he hne
  · have hnd : ¬ t.base = .def_ := by
      intro h; apply hcand; simp [candidate, h]
    have hexp : expTag fold true dd g t = .tag t := by unfold expTag; simp [hcand]
    refine ⟨by rw [hexp]; simp [erase, hnd], by unfold cycTag; simp [hcand], by unfold intTag; simp [hcand],
      by rw [hexp]; exact hit⟩

theorem exp_ref : ∀ n, ∀ g, InvN n →
    erase (expN fold true dd g n) = sEN fold dd (erase n) ∧ anyTag (cycTag fold dd) g n = false ∧
    anyTag (intTag fold dd) g n = false ∧ InvN (expN fold true dd g n) := by
  apply node_ind
  · intro t g hi
    have := expTag_ref fold hg g t (hi t (by simp [allTags]))
    simpa [expN, anyTag, erase, sEN] using this
  · intro ks ih g hi
    have hk := inv_kids hi
    refine ⟨?_, ?_, ?_, ?_⟩
    · simp only [expN, erase, sEN, eraseL_map, expL_map, sEL_map, List.map_map, Node.grp.injEq]
      exact List.map_congr_left (fun k hx => by simpa using (ih k hx true (hk k hx)).1)
    · simp only [anyTag, anyTagL_any, List.any_eq_false]
      intro k hx; simp [(ih k hx true (hk k hx)).2.1]
    · simp only [anyTag, anyTagL_any, List.any_eq_false]
      intro k hx; simp [(ih k hx true (hk k hx)).2.2.1]
    · simp only [expN, expL_map]
      apply inv_grp
      intro k hx
      obtain ⟨m, hm, rfl⟩ := List.mem_map.1 hx
      exact (ih m hm true (hk m hm)).2.2.2

omit hg in
theorem tagsOf_eraseL (ks : List Node) : tagsOf (eraseL ks) = (tagsOf ks).map Tag.erase := by
  induction ks with
  | nil => simp [eraseL, tagsOf]
  | cons k r ih => cases k <;> simp [eraseL, erase, tagsOf, ih]

omit hg in
theorem deTags_eraseL (ks : List Node) : deTags (eraseL ks) = (deTags ks).map Tag.erase := by
  simp only [deTags, tagsOf_eraseL, List.filter_map]
  rfl

omit hg in
theorem mem_deTags {t : Tag} {ks : List Node} (h : t ∈ deTags ks) : Node.tag t ∈ ks ∧ t.base = .defExpand := by
  simp only [deTags, List.mem_filter, beq_iff_eq] at h
  exact ⟨mem_tagsOf.1 h.1, h.2⟩

omit hg in
theorem deTagsA_inv {ks : List Node} (hk : ∀ k ∈ ks, InvN k) : deTagsA ks = deTags ks := by
  simp only [deTagsA, List.filter_eq_self]
  intro t ht
  have hm := mem_deTags ht
  simp [(hk _ hm.1 t (by simp [allTags])).2]

omit hg in
/-- on a well-formed object the KeyError test of `shrink_defs` is the plain "two Def-expand tags in a group" -/
theorem shrErr_spec : ∀ n, InvN n → shrErrN n = sErrN n := by
  apply node_ind
  · intro t _; simp [shrErrN, sErrN]
  · intro ks ih hi
    have hk := inv_kids hi
    simp only [shrErrN, sErrN, deTagsA_inv hk]
    rw [shrErrL_any, sErrL_any]
    congr 1
    exact any_congr' (fun k hx => ih k hx (hk k hx))

omit hg in
theorem shr_ref : ∀ n, sErrN (erase n) = sErrN n ∧
    (InvN n → erase (shrN true n) = sSN (erase n) ∧ InvN (shrN true n)) := by
  apply node_ind
  · intro t
    refine ⟨by simp [erase, sErrN], ?_⟩
    intro hi
    have ha : t.att = .ok := (hi t (by simp [allTags])).2
    simp [shrN, erase, sSN, ha, hi]
  · intro ks ih
    refine ⟨?_, ?_⟩
    · simp only [erase, sErrN, deTags_eraseL, List.length_map]
      rw [sErrL_any, sErrL_any, eraseL_map, List.any_map]
      congr 1
      exact any_congr' (fun k hx => by simpa using (ih k hx).1)
    · intro hi
      have hk := inv_kids hi
      have hA : deTagsA ks = deTags ks := deTagsA_inv hk
      simp only [shrN, erase, sSN, deTags_eraseL, hA]
      cases hd : deTags ks with
      | nil =>
        simp only [List.map_nil, erase, shrL_map, eraseL_map, sSL_map, List.map_map, Node.grp.injEq]
        refine ⟨List.map_congr_left (fun k hx => by simpa using ((ih k hx).2 (hk k hx)).1), ?_⟩
        apply inv_grp
        intro k hx
        obtain ⟨m, hm, rfl⟩ := List.mem_map.1 hx
        exact ((ih m hm).2 (hk m hm)).2
      | cons t r =>
        have hm := mem_deTags (show t ∈ deTags ks by rw [hd]; simp)
        have hit : InvT t := hk _ hm.1 t (by simp [allTags])
        simp only [List.map_cons]
        refine ⟨by simp [erase, toDef, Tag.erase], ?_⟩
        intro u hu; simp only [allTags, List.mem_singleton] at hu; subst hu
        exact ⟨fun _ => by simp [toDef], by simpa [toDef] using hit.2⟩

/-- `expand_defs` on a well-formed object succeeds, creates no cycle, and is the expansion rewrite -/
theorem expand_ok (o : Obj) (hw : WF o) :
    ∃ o', expandG fold true dd o = .ok o' ∧ WF o' ∧ eraseL o'.kids = sEL fold dd (eraseL o.kids) := by
  obtain ⟨hc, hk⟩ := hw
  have hcy : anyTagL (cycTag fold dd) false o.kids = false := by
    rw [anyTagL_any]; simp only [List.any_eq_false]
    intro k hx; simp [(exp_ref fold hg k false (hk k hx)).2.1]
  have hin : anyTagL (intTag fold dd) false o.kids = false := by
    rw [anyTagL_any]; simp only [List.any_eq_false]
    intro k hx; simp [(exp_ref fold hg k false (hk k hx)).2.2.1]
  refine ⟨{ kids := expL fold true dd false o.kids, cyclic := false }, ?_, ⟨rfl, ?_⟩, ?_⟩
  · simp [expandG, hc, hcy, hin]
  · intro k hx
    rw [expL_map] at hx
    obtain ⟨m, hm, rfl⟩ := List.mem_map.1 hx
    exact (exp_ref fold hg m false (hk m hm)).2.2.2
  · simp only [eraseL_map, expL_map, sEL_map, List.map_map]
    exact List.map_congr_left (fun k hx => by simpa using (exp_ref fold hg k false (hk k hx)).1)

omit hg in
theorem sErrL_eraseL (ks : List Node) : sErrL (eraseL ks) = sErrL ks := by
  rw [sErrL_any, sErrL_any, eraseL_map, List.any_map]
  exact any_congr' (fun k _ => by simpa using (shr_ref k).1)

omit hg in
/-- `shrink_defs` on a well-formed object succeeds and is the shrink rewrite -/
theorem shrink_ok (o : Obj) (hw : WF o) :
    ∃ o', shrinkG true o = .ok o' ∧ WF o' ∧ eraseL o'.kids = sSL (eraseL o.kids) := by
  obtain ⟨hc, hk⟩ := hw
  refine ⟨{ o with kids := shrL true o.kids }, ?_, ⟨hc, ?_⟩, ?_⟩
  · simp [shrinkG, hc]
  · intro k hx
    simp only [shrL_map] at hx
    obtain ⟨m, hm, rfl⟩ := List.mem_map.1 hx
    exact ((shr_ref m).2 (hk m hm)).2
  · simp only [eraseL_map, shrL_map, sSL_map, List.map_map]
    exact List.map_congr_left (fun k hx => by simpa using ((shr_ref k).2 (hk k hx)).1)


/-! ## Printed form -/

omit hg in
theorem strL_cc (a b : Node) (r : List Node) : strL (a :: b :: r) = str a ++ (',' :: strL (b :: r)) := by
  simp only [strL]

omit hg in
theorem strL_map_congr {f : Node → Node} : ∀ {ks : List Node}, (∀ k ∈ ks, str (f k) = str k) →
    strL (ks.map f) = strL ks
  | [], _ => rfl
  | [a], h => by simp [strL, h a]
  | a :: b :: r, h => by
    have ih := strL_map_congr (f := f) (ks := b :: r) (fun k hk => h k (List.mem_cons_of_mem _ hk))
    simp only [List.map_cons] at ih ⊢
    rw [strL_cc, strL_cc, h a (by simp), ih]

omit hg in
theorem str_erase : ∀ n, str (erase n) = str n := by
  apply node_ind
  · intro t; rfl
  · intro ks ih
    simp only [erase, str, eraseL_map]
    rw [strL_map_congr ih]

omit hg in
theorem strL_eraseL (ks : List Node) : strL (eraseL ks) = strL ks := by
  rw [eraseL_map]; exact strL_map_congr (fun k _ => str_erase k)

/-- the printout of the expansion, described on the printout side: a Def tag with an expansion prints as
`(Def-expand/…,content…)`, everything else prints as before -/
def substTag (dd : DefDict) (t : Tag) : Str :=
  if t.base = .def_ then
    match expansion fold dd t with
    | .ok cs => '(' :: (strL (.tag { t with base := .defExpand } :: cs) ++ [')'])
    | _ => t.str
  else t.str

mutual
def substN (dd : DefDict) : Node → Str
  | .tag t => substTag fold dd t
  | .grp ks => '(' :: (substL dd ks ++ [')'])
def substL (dd : DefDict) : List Node → Str
  | [] => []
  | k :: ks => match ks with
    | [] => substN dd k
    | _ :: _ => substN dd k ++ (',' :: substL dd ks)
end

omit hg in
theorem substL_cc (a b : Node) (r : List Node) :
    substL fold dd (a :: b :: r) = substN fold dd a ++ (',' :: substL fold dd (b :: r)) := by
  simp only [substL]

omit hg in
theorem strL_sEL : ∀ {ks : List Node}, (∀ k ∈ ks, str (sEN fold dd k) = substN fold dd k) →
    strL (sEL fold dd ks) = substL fold dd ks
  | [], _ => by simp [sEL, strL, substL]
  | [a], h => by simp [sEL, strL, substL, h a]
  | a :: b :: r, h => by
    have ih := strL_sEL (ks := b :: r) (fun k hk => h k (List.mem_cons_of_mem _ hk))
    simp only [sEL] at ih ⊢
    rw [strL_cc, substL_cc, h a (by simp), ih]

omit hg in
theorem str_sE : ∀ n, str (sEN fold dd n) = substN fold dd n := by
  apply node_ind
  · intro t
    simp only [sEN, sETag, substN, substTag]
    by_cases hb : t.base = .def_
    · simp only [hb, if_true]
      cases expansion fold dd t <;> simp [str]
    · simp [hb, str]
  · intro ks ih
    simp only [sEN, str, substN]
    rw [strL_sEL fold ih]

omit hg in
theorem substL_congr : ∀ {ks : List Node}, (∀ k ∈ ks, substN fold dd (erase k) = substN fold dd k) →
    substL fold dd (eraseL ks) = substL fold dd ks
  | [], _ => by simp [eraseL, substL]
  | [a], h => by simp [eraseL, substL, h a]
  | a :: b :: r, h => by
    have ih := substL_congr (ks := b :: r) (fun k hk => h k (List.mem_cons_of_mem _ hk))
    simp only [eraseL] at ih ⊢
    rw [substL_cc, substL_cc, h a (by simp), ih]

omit hg in
theorem subst_erase : ∀ n, substN fold dd (erase n) = substN fold dd n := by
  apply node_ind
  · intro t; rfl
  · intro ks ih
    simp only [erase, substN]
    rw [substL_congr fold ih]

/-! ## The property theorems -/

/-- **expand_spec**: on a well-formed object `expand_defs` succeeds, leaves no cycle, and its result is — up to
the two bookkeeping fields — the original tree with every `Def/n[/v]` whose `n` is defined and whose value
presence matches replaced by `(Def-expand/n[/v], content[# := v])` and nothing else changed; so the printout is
the original printout with exactly those tags replaced. -/
theorem expand_spec (o : Obj) (hw : WF o) :
    ∃ o', expandG fold true dd o = .ok o' ∧ WF o' ∧
      eraseL o'.kids = sEL fold dd (eraseL o.kids) ∧
      render o' = .ok (substL fold dd o.kids) := by
  obtain ⟨o', h1, h2, h3⟩ := expand_ok fold hg o hw
  refine ⟨o', h1, h2, h3, ?_⟩
  simp only [render, h2.1, Bool.false_eq_true, if_false]
  rw [← strL_eraseL, h3, strL_sEL fold (fun k _ => str_sE fold k),
    substL_congr fold (fun k _ => subst_erase fold k)]

theorem sEL_idem (ks : List Node) : sEL fold dd (sEL fold dd ks) = sEL fold dd ks := by
  simp only [sEL_map, List.map_map]
  exact List.map_congr_left (fun k _ => by simpa using sE_idem fold hg k)

theorem sSL_sEL (ks : List Node) : sSL (sEL fold dd ks) = sSL ks := by
  simp only [sEL_map, sSL_map, List.map_map]
  exact List.map_congr_left (fun k _ => by simpa using sS_sE fold hg k)

omit hg in
theorem sSL_idem (ks : List Node) : sSL (sSL ks) = sSL ks := by
  simp only [sSL_map, List.map_map]
  exact List.map_congr_left (fun k _ => by simpa using sS_idem k)

theorem sErrL_sEL (ks : List Node) : sErrL (sEL fold dd ks) = sErrL ks := by
  rw [sErrL_any, sErrL_any, sEL_map, List.any_map]
  exact any_congr' (fun k _ => by simpa using shrErr_sE fold hg k)

omit hg in
theorem sErrL_sSL (ks : List Node) (h : sErrL ks = false) : sErrL (sSL ks) = false := by
  rw [sErrL_any] at h ⊢
  rw [sSL_map, List.any_map]
  simp only [List.any_eq_false] at h ⊢
  intro k hk
  have := shrErr_sS k (by simpa using h k hk)
  simpa using this

omit hg in
theorem render_of_erase {a b : Obj} (ha : a.cyclic = false) (hb : b.cyclic = false)
    (h : eraseL a.kids = eraseL b.kids) : render a = render b := by
  simp only [render, ha, hb, Bool.false_eq_true, if_false]
  rw [← strL_eraseL a.kids, h, strL_eraseL]

/-- **expand_idem**: expanding twice equals expanding once (no failure, same tree up to bookkeeping, same printout). -/
theorem expand_idem (o : Obj) (hw : WF o) :
    ∃ o1 o2, expandG fold true dd o = .ok o1 ∧ expandG fold true dd o1 = .ok o2 ∧
      eraseL o2.kids = eraseL o1.kids ∧ render o2 = render o1 := by
  obtain ⟨o1, h1, w1, e1⟩ := expand_ok fold hg o hw
  obtain ⟨o2, h2, w2, e2⟩ := expand_ok fold hg o1 w1
  have : eraseL o2.kids = eraseL o1.kids := by rw [e2, e1, sEL_idem fold hg]
  exact ⟨o1, o2, h1, h2, this, render_of_erase w2.1 w1.1 this⟩

/-- **shrink_expand**: shrinking after expanding is shrinking (every Def-expand group, written or produced by
the expansion, is back in `Def` form — a written group with several Def-expand tags collapses to its first
one, with or without the expansion in between); no step fails. -/
theorem shrink_expand (o : Obj) (hw : WF o) :
    ∃ o1 o2 os, expandG fold true dd o = .ok o1 ∧ shrinkG true o1 = .ok o2 ∧ shrinkG true o = .ok os ∧
      eraseL o2.kids = eraseL os.kids ∧ render o2 = render os := by
  obtain ⟨o1, h1, w1, e1⟩ := expand_ok fold hg o hw
  obtain ⟨o2, h2, w2, e2⟩ := shrink_ok o1 w1
  obtain ⟨os, h3, w3, e3⟩ := shrink_ok o hw
  have : eraseL o2.kids = eraseL os.kids := by rw [e2, e1, sSL_sEL fold hg, e3]
  exact ⟨o1, o2, os, h1, h2, h3, this, render_of_erase w2.1 w3.1 this⟩

omit hg in
/-- an annotation written without Def-expand tags is a fixed point of the shrink rewrite -/
theorem noDE_fixed : ∀ n, (∀ t ∈ allTags n, t.base ≠ .defExpand) → sSN n = n ∧ sErrN n = false := by
  apply node_ind
  · intro t _; simp [sSN, sErrN]
  · intro ks ih h
    have hk : ∀ k ∈ ks, ∀ t ∈ allTags k, t.base ≠ .defExpand :=
      fun k hk t ht => h t (by simp only [allTags]; exact mem_allTagsL.2 ⟨k, hk, ht⟩)
    have hd : deTags ks = [] := by
      simp only [deTags, List.filter_eq_nil_iff]
      intro t ht
      have := hk _ (mem_tagsOf.1 ht) t (by simp [allTags])
      simpa using this
    refine ⟨?_, ?_⟩
    · simp only [sSN, hd, sSL_map, Node.grp.injEq]
      exact map_eq_self.2 (fun k hx => (ih k hx (hk k hx)).1)
    · simp only [sErrN, hd, sErrL_any, List.length_nil]
      have : ks.any sErrN = false := by
        simp only [List.any_eq_false]; intro k hx; simp [(ih k hx (hk k hx)).2]
      simp [this]

omit hg in
theorem noDE_fixedL (ks : List Node) (h : ∀ t ∈ allTagsL ks, t.base ≠ .defExpand) :
    sSL ks = ks ∧ sErrL ks = false := by
  have := noDE_fixed (.grp ks) (by simpa [allTags] using h)
  simpa [sSN, sErrN, deTags, show (tagsOf ks).filter (fun t => t.base == .defExpand) = [] from by
    simp only [List.filter_eq_nil_iff]
    intro t ht
    have := h t (mem_allTagsL.2 ⟨.tag t, mem_tagsOf.1 ht, by simp [allTags]⟩)
    simpa using this] using this

omit hg in
theorem noDE_erase (ks : List Node) (h : ∀ t ∈ allTagsL ks, t.base ≠ .defExpand) :
    ∀ t ∈ allTagsL (eraseL ks), t.base ≠ .defExpand := by
  intro t ht
  obtain ⟨u, hu, rfl⟩ := mem_allTagsL_eraseL.1 ht
  exact h u hu

/-- **shrink_expand_original**: for an annotation written in `Def` form, shrinking its expansion restores the
original (same tree up to bookkeeping, same printout), and neither step fails. -/
theorem shrink_expand_original (o : Obj) (hw : WF o) (hnd : ∀ t ∈ allTagsL o.kids, t.base ≠ .defExpand) :
    ∃ o1 o2, expandG fold true dd o = .ok o1 ∧ shrinkG true o1 = .ok o2 ∧
      eraseL o2.kids = eraseL o.kids ∧ render o2 = render o := by
  obtain ⟨o1, o2, os, h1, h2, h3, e, _⟩ := shrink_expand fold hg o hw
  obtain ⟨os', h3', w3, e3⟩ := shrink_ok o hw
  have : os' = os := by rw [h3] at h3'; cases h3'; rfl
  subst this
  have hw2 : o2.cyclic = false := by
    obtain ⟨o1', h1', w1, e1⟩ := expand_ok fold hg o hw
    have : o1' = o1 := by rw [h1] at h1'; cases h1'; rfl
    subst this
    obtain ⟨o2', h2', w2, _⟩ := shrink_ok o1' w1
    have : o2' = o2 := by rw [h2] at h2'; cases h2'; rfl
    subst this; exact w2.1
  have he : eraseL o2.kids = eraseL o.kids := by
    rw [e, e3, (noDE_fixedL _ (noDE_erase o.kids hnd)).1]
  exact ⟨o1, o2, h1, h2, he, render_of_erase hw2 hw.1 he⟩

/-! ### Histories -/

omit hg in
theorem valAttL_map (c : Bool) (ks : List Node) : valAttL fold c dd ks = ks.map (valAttN fold c dd) := by
  induction ks with
  | nil => simp [valAttL]
  | cons k ks ih => simp [valAttL, ih]

omit hg in
/-- **validate_identity**: `validate()` (which hands `get_definition` a copy of the tag) leaves the object's
state — tree, cached expansions, flags, parent pointers — exactly as it was. -/
theorem validate_identity (o : Obj) (hc : o.cyclic = false) : validateG fold true dd o = .ok o := by
  have h : ∀ n, valAttN fold true dd n = n := by
    apply node_ind
    · intro t; simp [valAttN, valTag]
    · intro ks ih
      simp only [valAttN, valAttL_map, Node.grp.injEq]
      exact map_eq_self.2 ih
  have hl : valAttL fold true dd o.kids = o.kids := by
    rw [valAttL_map]; exact map_eq_self.2 (fun k _ => h k)
  cases o with
  | mk kids cyc =>
    simp only at hc hl
    simp [validateG, hc, hl]

/-- what a history amounts to: nothing, expansion, shrinking, or expansion of the shrunk form -/
inductive Mode where
  | id | e | s | se
deriving DecidableEq, Repr

def next : Mode → Op → Mode
  | _, .shrink => .s
  | .id, .expand => .e
  | .e, .expand => .e
  | .s, .expand => .se
  | .se, .expand => .se
  | m, _ => m

def canon (dd : DefDict) : Mode → List Node → List Node
  | .id, t => t
  | .e, t => sEL fold dd t
  | .s, t => sSL t
  | .se, t => sEL fold dd (sSL t)

theorem canon_step (m : Mode) (op : Op) (t : List Node) :
    (match op with
      | .expand => sEL fold dd (canon fold dd m t)
      | .shrink => sSL (canon fold dd m t)
      | _ => canon fold dd m t) = canon fold dd (next m op) t := by
  cases m <;> cases op <;>
    simp [canon, next, sEL_idem fold hg, sSL_sEL fold hg, sSL_idem]

theorem history_aux : ∀ (ops : List Op) (o : Obj) (m : Mode) (t : List Node), WF o →
    eraseL o.kids = canon fold dd m t →
    ∃ o', runG fold true true dd o ops = .ok o' ∧ WF o' ∧ eraseL o'.kids = canon fold dd (ops.foldl next m) t := by
  intro ops
  induction ops with
  | nil => intro o m t hw he; exact ⟨o, rfl, hw, he⟩
  | cons op ops ih =>
    intro o m t hw he
    have hstep := canon_step fold hg m op t
    cases op with
    | expand =>
      obtain ⟨o1, h1, w1, e1⟩ := expand_ok fold hg o hw
      obtain ⟨o', h', w', e'⟩ := ih o1 (next m .expand) t w1 (by rw [e1, he]; exact hstep)
      exact ⟨o', by simp [runG, stepG, h1, h'], w', by simpa using e'⟩
    | shrink =>
      obtain ⟨o1, h1, w1, e1⟩ := shrink_ok o hw
      obtain ⟨o', h', w', e'⟩ := ih o1 (next m .shrink) t w1 (by rw [e1, he]; exact hstep)
      exact ⟨o', by simp [runG, stepG, h1, h'], w', by simpa using e'⟩
    | copy =>
      obtain ⟨o', h', w', e'⟩ := ih o (next m .copy) t hw (by rw [he]; exact hstep)
      exact ⟨o', by simp [runG, stepG, copy, h'], w', by simpa using e'⟩
    | str =>
      obtain ⟨o', h', w', e'⟩ := ih o (next m .str) t hw (by rw [he]; exact hstep)
      exact ⟨o', by simp [runG, stepG, render, hw.1, Except.map, h'], w', by simpa using e'⟩
    | validate =>
      obtain ⟨o', h', w', e'⟩ := ih o (next m .validate) t hw (by rw [he]; exact hstep)
      exact ⟨o', by simp [runG, stepG, validate_identity fold o hw.1, h'], w', by simpa using e'⟩

/-- **expand_shrink_history**: for every finite sequence of expand / shrink / copy / str / validate on one
well-formed object no step fails, the object stays well-formed, and the
final tree (hence the printout) is: the original if the sequence has no expand/shrink; its expansion if it
has only expands; its shrunk form if the last of them is a shrink; the expansion of its shrunk form if a
shrink occurred and the last is an expand. -/
theorem expand_shrink_history (o : Obj) (hw : WF o) (ops : List Op) :
    ∃ o', runG fold true true dd o ops = .ok o' ∧ WF o' ∧
      eraseL o'.kids = canon fold dd (ops.foldl next .id) (eraseL o.kids) ∧
      render o' = .ok (strL (canon fold dd (ops.foldl next .id) (eraseL o.kids))) := by
  obtain ⟨o', h, w, e⟩ := history_aux fold hg ops o .id (eraseL o.kids) hw rfl
  refine ⟨o', h, w, e, ?_⟩
  simp only [render, w.1, Bool.false_eq_true, if_false]
  rw [← strL_eraseL, e]

omit hg in
theorem run_append (f c : Bool) (o : Obj) (p q : List Op) :
    runG fold f c dd o (p ++ q) =
      match runG fold f c dd o p with
      | .ok o1 => runG fold f c dd o1 q
      | .error e => .error e := by
  induction p generalizing o with
  | nil => simp [runG]
  | cons op p ih =>
    simp only [List.cons_append, runG]
    cases stepG fold f c dd o op with
    | ok o' => simpa using ih o'
    | error e => rfl

omit hg in
theorem mode_filter_validate (p : List Op) (m : Mode) :
    (p.filter (fun op => op != Op.validate)).foldl next m = p.foldl next m := by
  induction p generalizing m with
  | nil => rfl
  | cons op p ih =>
    cases op <;> simp [List.filter_cons, ih] <;> cases m <;> simp [next, ih]

/-- **validate_preserves_expand_shrink**: take any history of validate / expand_defs / shrink_defs / copy / str
on one well-formed object and cut it anywhere (`p` = what has run so far, `q` = the rest).  No step fails; the
state reached after `p` is — tree up to bookkeeping, and printout — the state reached by `p` with every
`validate` removed; and the printout is the pure function of (source tree, definitions, last expand/shrink in
`p`) given by `canon`.  So `validate` is a no-op on the observable state at every point of every history. -/
theorem validate_preserves_expand_shrink (o : Obj) (hw : WF o) (p q : List Op) :
    ∃ o1 o2 o3, runG fold true true dd o (p ++ q) = .ok o3 ∧ runG fold true true dd o p = .ok o1 ∧
      runG fold true true dd o1 q = .ok o3 ∧
      runG fold true true dd o (p.filter (fun op => op != Op.validate)) = .ok o2 ∧
      eraseL o1.kids = eraseL o2.kids ∧ render o1 = render o2 ∧
      render o1 = .ok (strL (canon fold dd (p.foldl next .id) (eraseL o.kids))) := by
  obtain ⟨o3, h3, _, _, _⟩ := expand_shrink_history fold hg o hw (p ++ q)
  obtain ⟨o1, h1, w1, e1, r1⟩ := expand_shrink_history fold hg o hw p
  obtain ⟨o2, h2, w2, e2, _⟩ := expand_shrink_history fold hg o hw (p.filter (fun op => op != Op.validate))
  have hq : runG fold true true dd o1 q = .ok o3 := by
    have := run_append fold (dd := dd) true true o p q
    rw [h3, h1] at this; exact this.symm
  rw [mode_filter_validate] at e2
  have he : eraseL o1.kids = eraseL o2.kids := by rw [e1, e2]
  exact ⟨o1, o2, o3, h3, h1, hq, h2, he, render_of_erase w1.1 w2.1 he, r1⟩

/-- **expand_shrink_history_original**: for an annotation written in `Def` form the final printout of any
history is that of `expand o` if the last expand/shrink is an expand, and that of `o` (= `shrink o`) otherwise. -/
theorem expand_shrink_history_original (o : Obj) (hw : WF o)
    (hnd : ∀ t ∈ allTagsL o.kids, t.base ≠ .defExpand) (ops : List Op) :
    ∃ o' oe os, runG fold true true dd o ops = .ok o' ∧ expandG fold true dd o = .ok oe ∧
      shrinkG true o = .ok os ∧ render os = render o ∧
      render o' = (match ops.foldl next .id with
        | .id => render o
        | .s => render os
        | .e => render oe
        | .se => render oe) := by
  obtain ⟨hfix, _⟩ := noDE_fixedL o.kids hnd
  have hfe := (noDE_fixedL _ (noDE_erase o.kids hnd)).1
  obtain ⟨o', h, w, e, _⟩ := expand_shrink_history fold hg o hw ops
  obtain ⟨oe, h1, w1, e1⟩ := expand_ok fold hg o hw
  obtain ⟨os, h2, w2, e2⟩ := shrink_ok o hw
  have hos : render os = render o := render_of_erase w2.1 hw.1 (by rw [e2, hfe])
  refine ⟨o', oe, os, h, h1, h2, hos, ?_⟩
  cases hm : ops.foldl next .id <;> rw [hm] at e <;> simp only [canon, hfe] at e
  · exact render_of_erase w.1 hw.1 e
  · exact render_of_erase w.1 w1.1 (by rw [e, e1])
  · rw [hos]; exact render_of_erase w.1 hw.1 e
  · exact render_of_erase w.1 w1.1 (by rw [e, e1])

end

/-! ## The unrepaired flag handling, and the Def-expand content check -/

def tRed : Tag := { name := ['R', 'e', 'd'], org := ['r', 'e', 'd'] }
def tBlue : Tag := { name := ['B', 'l', 'u', 'e'], org := ['b', 'l', 'u', 'e'] }
def tDefA : Tag := { base := .def_, ext := ['/', 'A'], org := ['d', 'e', 'f', '/', 'a'] }
def tDeA : Tag := { base := .defExpand, ext := ['/', 'A'], org := ['d', 'e', 'f', '-', 'e', 'x', 'p', 'a', 'n', 'd', '/', 'a'] }
/-- `(Definition/A, (Red, Blue))` as stored: content sorted to `(Blue, Red)` -/
def ddA : DefDict := [⟨['A'], ['A'], [.tag tBlue, .tag tRed], false⟩]

/-- **expand_twice_counterexample**: with the original flag handling (`_expanded` never updated by
`expand_defs`/`shrink_defs`) the history expand, expand, str on `Def/A` fails with RecursionError; the repaired
code prints `(Def-expand/A,(Blue,Red))` — and a written Def-expand that was queried, shrunk and expanded again
stays `Def/A` in the original code. -/
theorem expand_twice_counterexample :
    (runG id false true ddA { kids := [.tag tDefA] } [.expand, .expand, .str]).toOption.isNone = true ∧
    ((runG id true true ddA { kids := [.tag tDefA] } [.expand, .expand, .str]).toOption.map
        (fun o => String.ofList (strL o.kids))) = some "(Def-expand/A,(Blue,Red))" ∧
    ((runG id false true ddA { kids := [.grp [.tag tDeA, .grp [.tag tBlue, .tag tRed]]] }
        [.expand, .shrink, .expand]).toOption.map (fun o => String.ofList (strL o.kids))) = some "Def/A" := by
  decide

def tDeB : Tag := { base := .defExpand, ext := ['/', 'B'], org := ['d', 'e', 'f', '-', 'e', 'x', 'p', 'a', 'n', 'd', '/', 'b'] }
def tDefB : Tag := { base := .def_, ext := ['/', 'B'], org := ['d', 'e', 'f', '/', 'b'] }
def ddAB : DefDict := ddA ++ [⟨['B'], ['B'], [.tag tRed], false⟩]

/-- **shrink_twice_keyerror_counterexample**: a group holding two Def-expand tags, `(Def-expand/A, Def-expand/B)`.
The former `shrink_defs` visited the group a second time after it had been replaced and raised KeyError; the
code now skips the second visit and the group becomes its first tag, `Def/A`.  What the code does with written
multi-tag groups, stated exactly: `(Def-expand/A, (Red), Def-expand/B, (Blue))` shrinks to `Def/A` (everything
but the first Def-expand tag is dropped).  Groups of several `Def` tags are a different matter: `(Def/A, Def/B)`
expands to `((Def-expand/A,(Blue,Red)),(Def-expand/B,(Red)))` and shrinks back to `(Def/A,Def/B)`. -/
theorem shrink_twice_keyerror_counterexample :
    (match shrinkLegacyG true { kids := [.grp [.tag tDeA, .tag tDeB]] } with
      | .error .keyError => true | _ => false) = true ∧
    ((shrinkG true { kids := [.grp [.tag tDeA, .tag tDeB]] }).toOption.map
        (fun o => String.ofList (strL o.kids))) = some "Def/A" ∧
    ((shrinkG true { kids := [.grp [.tag tDeA, .grp [.tag tRed], .tag tDeB, .grp [.tag tBlue]]] }).toOption.map
        (fun o => String.ofList (strL o.kids))) = some "Def/A" ∧
    ((runG id true true ddAB { kids := [.grp [.tag tDefA, .tag tDefB]] } [.expand]).toOption.map
        (fun o => String.ofList (strL o.kids))) = some "((Def-expand/A,(Blue,Red)),(Def-expand/B,(Red)))" ∧
    ((runG id true true ddAB { kids := [.grp [.tag tDefA, .tag tDefB]] } [.expand, .shrink]).toOption.map
        (fun o => String.ofList (strL o.kids))) = some "(Def/A,Def/B)" := by
  decide

/-- **shrink_total**: `shrink_defs` raises nothing on an object without a cycle — whatever its groups hold. -/
theorem shrink_total (fix : Bool) (o : Obj) (hc : o.cyclic = false) :
    shrinkG fix o = .ok { o with kids := shrL fix o.kids } := by
  simp [shrinkG, hc]

/-- **validate_detach_counterexample**: if `validate` handed the live tag to `get_definition` (no copy), the tag's
`_parent` would point outside the tree: a following `expand_defs` only renames the tag (`Def-expand/A` without its
content), and a written Def-expand group is no longer shrunk.  With the copy (the code) both behave. -/
theorem validate_detach_counterexample :
    ((runG id true false ddA { kids := [.tag tDefA] } [.validate, .expand]).toOption.map
        (fun o => String.ofList (strL o.kids))) = some "Def-expand/A" ∧
    ((runG id true true ddA { kids := [.tag tDefA] } [.validate, .expand]).toOption.map
        (fun o => String.ofList (strL o.kids))) = some "(Def-expand/A,(Blue,Red))" ∧
    ((runG id true false ddA { kids := [.tag tDefA] } [.validate, .expand, .shrink]).toOption.map
        (fun o => String.ofList (strL o.kids))) = some "Def/A" ∧
    ((runG id true false ddA { kids := [.grp [.tag tDeA, .grp [.tag tBlue, .tag tRed]]] }
        [.validate, .shrink]).toOption.map (fun o => String.ofList (strL o.kids))) = some "(Def-expand/A,(Blue,Red))" ∧
    ((runG id true true ddA { kids := [.grp [.tag tDeA, .grp [.tag tBlue, .tag tRed]]] }
        [.validate, .shrink]).toOption.map (fun o => String.ofList (strL o.kids))) = some "Def/A" := by
  decide

section
variable (fold : Str → Str)

/-- **defexpand_accept_iff**: what `_validate_def_contents` accepts for a Def-expand group with children `ks`:
the name is defined, the value presence matches, and — repaired code — the sorted group equals the sorted
expected group `[tag, content[# := v]]` element by element (`==` of tags/groups); the original code compared
the group as written with the expected group built from the *sorted* stored content. -/
theorem defexpand_accept_iff (dd : DefDict) (t : Tag) (ks : List Node) :
    (checkDefExpand fold true dd t (some ks) = [] ↔
      ∃ cs, expansion fold dd t = .ok cs ∧ eqvL fold (sortG fold ks) (sortG fold (.tag t :: cs)) = true) ∧
    (checkDefExpand fold false dd t (some ks) = [] ↔
      ∃ cs, expansion fold dd t = .ok cs ∧ eqvL fold ks (.tag t :: cs) = true) := by
  unfold checkDefExpand
  cases expansion fold dd t with
  | ok cs =>
    constructor
    · by_cases h : eqvL fold (sortG fold ks) (sortG fold (.tag t :: cs)) = true <;> simp [h]
    · by_cases h : eqvL fold ks (.tag t :: cs) = true <;> simp [h]
  | noEntry => simp
  | mismatch b => cases b <;> simp
  | internal => simp
end

/-! ### "up to sibling order": the repaired comparison does not depend on the order of siblings -/

theorem strLe_total : ∀ a b : Str, strLe a b = true ∨ strLe b a = true
  | [], _ => Or.inl (by simp [strLe])
  | _ :: _, [] => Or.inr (by simp [strLe])
  | a :: as, b :: bs => by
    simp only [strLe, Bool.or_eq_true, decide_eq_true_eq, Bool.and_eq_true, beq_iff_eq]
    rcases Nat.lt_trichotomy a.toNat b.toNat with h | h | h
    · exact Or.inl (Or.inl h)
    · have hab : a = b := Char.toNat_inj.1 h
      rcases strLe_total as bs with h2 | h2
      · exact Or.inl (Or.inr ⟨hab, h2⟩)
      · exact Or.inr (Or.inr ⟨hab.symm, h2⟩)
    · exact Or.inr (Or.inl h)

theorem strLe_trans : ∀ a b c : Str, strLe a b = true → strLe b c = true → strLe a c = true
  | [], _, _, _, _ => by simp [strLe]
  | _ :: _, [], _, h, _ => by simp [strLe] at h
  | _ :: _, _ :: _, [], _, h => by simp [strLe] at h
  | a :: as, b :: bs, c :: cs, h1, h2 => by
    simp only [strLe, Bool.or_eq_true, decide_eq_true_eq, Bool.and_eq_true, beq_iff_eq] at h1 h2 ⊢
    rcases h1 with h1 | ⟨rfl, h1⟩ <;> rcases h2 with h2 | ⟨rfl, h2⟩
    · exact Or.inl (by omega)
    · exact Or.inl h1
    · exact Or.inl h2
    · exact Or.inr ⟨rfl, strLe_trans as bs cs h1 h2⟩

theorem strLe_antisymm : ∀ a b : Str, strLe a b = true → strLe b a = true → a = b
  | [], [], _, _ => rfl
  | [], _ :: _, _, h => by simp [strLe] at h
  | _ :: _, [], h, _ => by simp [strLe] at h
  | a :: as, b :: bs, h1, h2 => by
    simp only [strLe, Bool.or_eq_true, decide_eq_true_eq, Bool.and_eq_true, beq_iff_eq] at h1 h2
    rcases h1 with h1 | ⟨rfl, h1⟩ <;> rcases h2 with h2 | ⟨h, h2⟩
    · omega
    · subst h; omega
    · omega
    · rw [strLe_antisymm as bs h1 h2]

theorem strLe_refl : ∀ a : Str, strLe a a = true
  | [] => by simp [strLe]
  | a :: as => by simp [strLe, strLe_refl as]

/-- the order on the sort key `(_sort_key, str)` unfolded -/
theorem leKey_iff (fold : Str → Str) (a b : Node) :
    leKey fold a b = true ↔
      strLe (skey fold a) (skey fold b) = true ∧ (skey fold a = skey fold b → strLe (str a) (str b) = true) := by
  unfold leKey
  by_cases h : skey fold a = skey fold b
  · simp [h, strLe_refl]
  · simp [h]

theorem leKey_total (fold : Str → Str) (a b : Node) : leKey fold a b = true ∨ leKey fold b a = true := by
  simp only [leKey_iff]
  by_cases h : skey fold a = skey fold b
  · rcases strLe_total (str a) (str b) with h' | h'
    · exact Or.inl ⟨by rw [h]; exact strLe_refl _, fun _ => h'⟩
    · exact Or.inr ⟨by rw [h]; exact strLe_refl _, fun _ => h'⟩
  · rcases strLe_total (skey fold a) (skey fold b) with h' | h'
    · exact Or.inl ⟨h', fun e => absurd e h⟩
    · exact Or.inr ⟨h', fun e => absurd e.symm h⟩

theorem leKey_trans (fold : Str → Str) (a b c : Node) (h1 : leKey fold a b = true) (h2 : leKey fold b c = true) :
    leKey fold a c = true := by
  rw [leKey_iff] at h1 h2 ⊢
  refine ⟨strLe_trans _ _ _ h1.1 h2.1, ?_⟩
  intro e
  have hab : skey fold a = skey fold b := strLe_antisymm _ _ h1.1 (by rw [e]; exact h2.1)
  have hbc : skey fold b = skey fold c := by rw [← hab, e]
  exact strLe_trans _ _ _ (h1.2 hab) (h2.2 hbc)

/-- elements tied in the order have the same canonical key and the same printout -/
theorem leKey_antisymm (fold : Str → Str) (a b : Node) (h1 : leKey fold a b = true) (h2 : leKey fold b a = true) :
    skey fold a = skey fold b ∧ str a = str b := by
  rw [leKey_iff] at h1 h2
  have hk := strLe_antisymm _ _ h1.1 h2.1
  exact ⟨hk, strLe_antisymm _ _ (h1.2 hk) (h2.2 hk.symm)⟩

theorem insertBy_pairwise (fold : Str → Str) (x : Node) :
    ∀ l : List Node, l.Pairwise (fun a b => leKey fold a b = true) →
    (insertBy (leKey fold) x l).Pairwise (fun a b => leKey fold a b = true)
  | [], _ => by simp [insertBy]
  | y :: ys, h => by
    obtain ⟨hy, hys⟩ := List.pairwise_cons.1 h
    simp only [insertBy]
    by_cases hxy : leKey fold x y = true
    · simp only [hxy, if_true]
      refine List.pairwise_cons.2 ⟨?_, h⟩
      intro z hz
      rcases List.mem_cons.1 hz with rfl | hz
      · exact hxy
      · exact leKey_trans fold _ _ _ hxy (hy z hz)
    · simp only [hxy, Bool.false_eq_true, if_false]
      refine List.pairwise_cons.2 ⟨?_, insertBy_pairwise fold x ys hys⟩
      intro z hz
      rcases List.mem_cons.1 ((insertBy_perm (leKey fold) x ys).mem_iff.1 hz) with rfl | hz
      · rcases leKey_total fold z y with h' | h'
        · exact absurd h' hxy
        · exact h'
      · exact hy z hz

theorem isort_pairwise (fold : Str → Str) :
    ∀ l : List Node, (isort (leKey fold) l).Pairwise (fun a b => leKey fold a b = true)
  | [] => by simp [isort]
  | x :: xs => by simp only [isort]; exact insertBy_pairwise fold x _ (isort_pairwise fold xs)

/-- sorting two permutations of the same siblings gives the same list when printouts identify siblings -/
theorem isort_eq_of_perm (fold : Str → Str) {l l' : List Node} (hp : l.Perm l')
    (hinj : ∀ a ∈ l, ∀ b ∈ l, str a = str b → a = b) : isort (leKey fold) l = isort (leKey fold) l' := by
  apply List.Perm.eq_of_pairwise (le := fun a b => leKey fold a b = true) _ (isort_pairwise fold l)
    (isort_pairwise fold l')
  · exact (isort_perm (leKey fold) l).trans (hp.trans (isort_perm (leKey fold) l').symm)
  · intro a b ha hb h1 h2
    have ha' : a ∈ l := (isort_perm (leKey fold) l).mem_iff.1 ha
    have hb' : b ∈ l := hp.mem_iff.2 ((isort_perm (leKey fold) l').mem_iff.1 hb)
    exact hinj a ha' b hb' (leKey_antisymm fold _ _ h1 h2).2

/-- **sortG_perm_partial** (extra hypothesis: distinct sorted siblings have distinct printouts): two sibling
lists whose recursively sorted members are permutations of each other have the same `sorted()` form — this is
"equal up to sibling order" at every level, by recursion through `sortN`.  The hypothesis cannot be dropped in
the model: see `sortG_perm_needs_hypothesis`. -/
theorem sortG_perm_partial (fold : Str → Str) (ks ks' : List Node)
    (hp : (ks.map (sortN fold)).Perm (ks'.map (sortN fold)))
    (hinj : ∀ a ∈ ks.map (sortN fold), ∀ b ∈ ks.map (sortN fold), str a = str b → a = b) :
    sortG fold ks = sortG fold ks' := by
  unfold sortG arrange
  rw [sortL_map, sortL_map]
  congr 1
  · exact isort_eq_of_perm fold (hp.filter _)
      (fun a ha b hb => hinj a (List.mem_filter.1 ha).1 b (List.mem_filter.1 hb).1)
  · exact isort_eq_of_perm fold (hp.filter _)
      (fun a ha b hb => hinj a (List.mem_filter.1 ha).1 b (List.mem_filter.1 hb).1)

/-- Why the hypothesis stays: in the model a tag text may contain a comma, so the two different sorted groups
`(a,b)` = one tag "a,b" and `(a,b)` = two tags have the same key and the same printout; the stable sort keeps
them as written, and the two orders are not `==`.  (The real parser never yields such a tag.) -/
theorem sortG_perm_needs_hypothesis :
    let g1 : Node := .grp [.tag { name := ['a', ',', 'b'] }]
    let g2 : Node := .grp [.tag { name := ['a'] }, .tag { name := ['b'] }]
    eqvL id (sortG id [g1, g2]) (sortG id [g2, g1]) = false := by
  decide

theorem eqv_refl (fold : Str → Str) : ∀ n, eqv fold n n = true := by
  apply node_ind
  · intro t; simp [eqv, Tag.eqv]
  · intro ks ih
    simp only [eqv]
    induction ks with
    | nil => simp [eqvL]
    | cons k r ihr =>
      simp only [eqvL, ih k (by simp), Bool.true_and]
      exact ihr (fun x hx => ih x (List.mem_cons_of_mem _ hx))

theorem eqvL_refl (fold : Str → Str) (ks : List Node) : eqvL fold ks ks = true := by
  have := eqv_refl fold (.grp ks)
  simpa [eqv] using this

/-- **defexpand_order_counterexample**: for `(Definition/A, (Red, Blue))` the group `(Def-expand/A, (Red, Blue))`
— the definition's own content, a sibling permutation of the expansion — is rejected by the original comparison
and accepted by the repaired one; so is `((Blue, Red), Def-expand/A)`; a wrong content is rejected by both. -/
theorem defexpand_order_counterexample :
    checkDefExpand id false ddA tDeA (some [.tag tDeA, .grp [.tag tRed, .tag tBlue]]) = [.defExpandInvalid] ∧
    checkDefExpand id true ddA tDeA (some [.tag tDeA, .grp [.tag tRed, .tag tBlue]]) = [] ∧
    checkDefExpand id false ddA tDeA (some [.grp [.tag tBlue, .tag tRed], .tag tDeA]) = [.defExpandInvalid] ∧
    checkDefExpand id true ddA tDeA (some [.grp [.tag tBlue, .tag tRed], .tag tDeA]) = [] ∧
    checkDefExpand id true ddA tDeA (some [.tag tDeA, .grp [.tag tRed]]) = [.defExpandInvalid] := by
  decide

/-! ## Canonical forms: `sorted()` is idempotent and commutes with forgetting the bookkeeping fields -/

section
variable (fold : Str → Str)

theorem isort_of_pairwise (le : Node → Node → Bool) :
    ∀ l : List Node, l.Pairwise (fun a b => le a b = true) → isort le l = l
  | [], _ => rfl
  | x :: xs, h => by
    obtain ⟨hx, hxs⟩ := List.pairwise_cons.1 h
    simp only [isort, isort_of_pairwise le xs hxs]
    cases xs with
    | nil => rfl
    | cons y ys => simp [insertBy, hx y (by simp)]

theorem isTag_not_isGrp (n : Node) : isTag n = !isGrp n := by cases n <;> rfl
theorem isGrp_not_isTag (n : Node) : isGrp n = !isTag n := by cases n <;> rfl

theorem arrange_arrange (l : List Node) : arrange fold (arrange fold l) = arrange fold l := by
  have hA : ∀ x ∈ isort (leKey fold) (l.filter isTag), isTag x = true :=
    fun x hx => (List.mem_filter.1 ((isort_perm _ _).mem_iff.1 hx)).2
  have hB : ∀ x ∈ isort (leKey fold) (l.filter isGrp), isGrp x = true :=
    fun x hx => (List.mem_filter.1 ((isort_perm _ _).mem_iff.1 hx)).2
  have e1 : (isort (leKey fold) (l.filter isTag)).filter isTag = isort (leKey fold) (l.filter isTag) :=
    List.filter_eq_self.2 hA
  have e2 : (isort (leKey fold) (l.filter isGrp)).filter isTag = [] :=
    List.filter_eq_nil_iff.2 (fun x hx => by simp [isTag_not_isGrp, hB x hx])
  have e3 : (isort (leKey fold) (l.filter isGrp)).filter isGrp = isort (leKey fold) (l.filter isGrp) :=
    List.filter_eq_self.2 hB
  have e4 : (isort (leKey fold) (l.filter isTag)).filter isGrp = [] :=
    List.filter_eq_nil_iff.2 (fun x hx => by simp [isGrp_not_isTag, hA x hx])
  have h1 : (arrange fold l).filter isTag = isort (leKey fold) (l.filter isTag) := by
    unfold arrange; rw [List.filter_append, e1, e2, List.append_nil]
  have h2 : (arrange fold l).filter isGrp = isort (leKey fold) (l.filter isGrp) := by
    unfold arrange; rw [List.filter_append, e3, e4, List.nil_append]
  rw [show arrange fold (arrange fold l) = isort (leKey fold) ((arrange fold l).filter isTag) ++
      isort (leKey fold) ((arrange fold l).filter isGrp) from rfl, h1, h2,
    isort_of_pairwise _ _ (isort_pairwise fold _), isort_of_pairwise _ _ (isort_pairwise fold _)]
  rfl

/-- **sortN_idem**: a sorted tree is a fixed point of `sorted()` (canonical forms are canonical). -/
theorem sortN_idem : ∀ n, sortN fold (sortN fold n) = sortN fold n := by
  apply node_ind
  · intro t; simp [sortN]
  · intro ks ih
    simp only [sortN, Node.grp.injEq]
    rw [sortL_map, sortL_map]
    have hfix : (arrange fold (ks.map (sortN fold))).map (sortN fold) = arrange fold (ks.map (sortN fold)) := by
      apply map_eq_self.2
      intro x hx
      obtain ⟨k, hk, rfl⟩ := List.mem_map.1 ((mem_arrange fold).1 hx)
      exact ih k hk
    rw [hfix, arrange_arrange]

/-- **sortG_idem**: `sorted()` of a sorted sibling list changes nothing. -/
theorem sortG_idem (ks : List Node) : sortG fold (sortG fold ks) = sortG fold ks := by
  have := sortN_idem fold (.grp ks)
  simpa [sortN, sortG] using this

theorem skeyL_cc (a b : Node) (r : List Node) :
    skeyL fold (a :: b :: r) = skey fold a ++ (',' :: skeyL fold (b :: r)) := by
  simp only [skeyL]

theorem skeyL_map_congr {f : Node → Node} : ∀ {ks : List Node}, (∀ k ∈ ks, skey fold (f k) = skey fold k) →
    skeyL fold (ks.map f) = skeyL fold ks
  | [], _ => rfl
  | [a], h => by simp [skeyL, h a]
  | a :: b :: r, h => by
    have ih := skeyL_map_congr (f := f) (ks := b :: r) (fun k hk => h k (List.mem_cons_of_mem _ hk))
    simp only [List.map_cons] at ih ⊢
    rw [skeyL_cc, skeyL_cc, h a (by simp), ih]

theorem skey_erase : ∀ n, skey fold (erase n) = skey fold n := by
  apply node_ind
  · intro t; rfl
  · intro ks ih
    simp only [erase, skey, eraseL_map]
    rw [skeyL_map_congr fold ih]

theorem leKey_erase (a b : Node) : leKey fold (erase a) (erase b) = leKey fold a b := by
  unfold leKey; rw [skey_erase, skey_erase, str_erase, str_erase]

theorem insertBy_map (le : Node → Node → Bool) (f : Node → Node) (hle : ∀ a b, le (f a) (f b) = le a b)
    (x : Node) : ∀ l : List Node, insertBy le (f x) (l.map f) = (insertBy le x l).map f
  | [] => rfl
  | y :: ys => by
    simp only [List.map_cons, insertBy, hle]
    split
    · rfl
    · simp [insertBy_map le f hle x ys]

theorem isort_map (le : Node → Node → Bool) (f : Node → Node) (hle : ∀ a b, le (f a) (f b) = le a b) :
    ∀ l : List Node, isort le (l.map f) = (isort le l).map f
  | [] => rfl
  | x :: xs => by simp only [List.map_cons, isort, isort_map le f hle xs, insertBy_map le f hle]

theorem arrange_map_erase (l : List Node) : arrange fold (l.map erase) = (arrange fold l).map erase := by
  have ht : (isTag ∘ erase) = isTag := by funext n; cases n <;> simp [erase, isTag]
  have hgp : (isGrp ∘ erase) = isGrp := by funext n; cases n <;> simp [erase, isGrp]
  unfold arrange
  rw [List.filter_map, List.filter_map, ht, hgp, isort_map _ _ (leKey_erase fold), isort_map _ _ (leKey_erase fold),
    List.map_append]

theorem sortN_erase : ∀ n, sortN fold (erase n) = erase (sortN fold n) := by
  apply node_ind
  · intro t; simp [sortN, erase]
  · intro ks ih
    simp only [erase, sortN, Node.grp.injEq]
    rw [sortL_map, sortL_map, eraseL_map, eraseL_map, List.map_map,
      List.map_congr_left (g := erase ∘ sortN fold) (fun k hk => by simpa using ih k hk),
      ← List.map_map, arrange_map_erase]

/-- **sortG_eraseL**: sorting does not look at the bookkeeping fields. -/
theorem sortG_eraseL (ks : List Node) : sortG fold (eraseL ks) = eraseL (sortG fold ks) := by
  have := sortN_erase fold (.grp ks)
  simpa [sortN, sortG, erase] using this

/-- an entry as `accept` stores it: content in sorted form, tags fresh -/
def Stored (e : Entry) : Prop := sortG fold e.content = e.content ∧ eraseL e.content = e.content

/-- **newEntry_stored**: what `accept` stores is in stored form. -/
theorem newEntry_stored (dt : Tag) (ks : List Node) : Stored fold (newEntry fold dt ks) := by
  refine ⟨?_, eraseL_eraseL _⟩
  show sortG fold (eraseL (sortG fold (contentOf ks))) = eraseL (sortG fold (contentOf ks))
  rw [sortG_eraseL, sortG_idem]

end

/-! ## "Equal up to sibling order" and the sorted comparison

Two distinct siblings tie under the sort key `(_sort_key, str)` exactly when they have the same canonical key
and the same printout (`leKey_antisymm`).  Tied TAGS are always `==` (`HedTag.__eq__` compares the folded
printout), so their relative order is invisible to the comparison.  Tied GROUPS are `==` whenever a printout
determines the tree, which holds for everything the parser builds (no tag text contains `,` `(` `)`), but not
for arbitrary model trees (`sortG_perm_needs_hypothesis`); that is the one hypothesis left below. -/

section
variable (fold : Str → Str)

/-- the sort key as a pair, and the tuple order on it -/
def ckey (n : Node) : Str × Str := (skey fold n, str n)
def leP (a b : Str × Str) : Prop := strLe a.1 b.1 = true ∧ (a.1 = b.1 → strLe a.2 b.2 = true)

theorem leP_antisymm (a b : Str × Str) (h1 : leP a b) (h2 : leP b a) : a = b := by
  have hk := strLe_antisymm _ _ h1.1 h2.1
  have hs := strLe_antisymm _ _ (h1.2 hk) (h2.2 hk.symm)
  cases a; cases b; simp_all

/-- two sorted arrangements of the same siblings carry the same keys (hence printouts) position by position -/
theorem sorted_keys_eq {l l' : List Node} (hp : l.Perm l')
    (h1 : l.Pairwise (fun a b => leKey fold a b = true)) (h2 : l'.Pairwise (fun a b => leKey fold a b = true)) :
    l.map (ckey fold) = l'.map (ckey fold) := by
  apply List.Perm.eq_of_pairwise (le := leP) (fun a b _ _ => leP_antisymm a b)
  · rw [List.pairwise_map]; exact h1.imp (fun h => (leKey_iff fold _ _).1 h)
  · rw [List.pairwise_map]; exact h2.imp (fun h => (leKey_iff fold _ _).1 h)
  · exact hp.map _

theorem eqvL_of_keys : ∀ (l l' : List Node), l.map (ckey fold) = l'.map (ckey fold) →
    (∀ a ∈ l, ∀ b ∈ l', str a = str b → eqv fold a b = true) → eqvL fold l l' = true
  | [], [], _, _ => by simp [eqvL]
  | [], _ :: _, h, _ => by simp at h
  | _ :: _, [], h, _ => by simp at h
  | a :: l, b :: l', h, H => by
    simp only [List.map_cons, List.cons.injEq] at h
    have hs : str a = str b := congrArg Prod.snd h.1
    simp only [eqvL, H a (by simp) b (by simp) hs, Bool.true_and]
    exact eqvL_of_keys l l' h.2 (fun x hx y hy => H x (List.mem_cons_of_mem _ hx) y (List.mem_cons_of_mem _ hy))

theorem eqvL_append : ∀ (a a' b b' : List Node), eqvL fold a a' = true → eqvL fold b b' = true →
    eqvL fold (a ++ b) (a' ++ b') = true
  | [], [], _, _, _, h => by simpa using h
  | [], _ :: _, _, _, h, _ => by simp [eqvL] at h
  | _ :: _, [], _, _, h, _ => by simp [eqvL] at h
  | x :: a, y :: a', b, b', h, hb => by
    simp only [eqvL, Bool.and_eq_true] at h
    simp only [List.cons_append, eqvL, h.1, Bool.true_and]
    exact eqvL_append a a' b b' h.2 hb

/-- tied tags are `==` -/
theorem tie_tags_eqv (a b : Node) (ha : isTag a = true) (hb : isTag b = true) (h : str a = str b) :
    eqv fold a b = true := by
  cases a <;> cases b <;> simp_all [isTag, eqv, Tag.eqv, str]

/-- **sortG_perm_eqv_partial**: if the recursively sorted members of two sibling lists are permutations of each
other, their `sorted()` forms are `==` element by element — provided sorted sub-GROUPS with the same printout
are `==` (tags need no such proviso). -/
theorem sortG_perm_eqv_partial (ks ks' : List Node) (hp : (ks.map (sortN fold)).Perm (ks'.map (sortN fold)))
    (hG : ∀ a ∈ ks.map (sortN fold), ∀ b ∈ ks.map (sortN fold), isGrp a = true → isGrp b = true →
      str a = str b → eqv fold a b = true) :
    eqvL fold (sortG fold ks) (sortG fold ks') = true := by
  unfold sortG arrange
  rw [sortL_map, sortL_map]
  have sub : ∀ (p : Node → Bool) (x : Node) (l : List Node), x ∈ isort (leKey fold) (l.filter p) → x ∈ l ∧ p x = true :=
    fun p x l hx => List.mem_filter.1 ((isort_perm _ _).mem_iff.1 hx)
  apply eqvL_append
  · apply eqvL_of_keys
    · exact sorted_keys_eq fold (((isort_perm _ _).trans (hp.filter _)).trans (isort_perm _ _).symm)
        (isort_pairwise fold _) (isort_pairwise fold _)
    · intro a ha b hb h
      exact tie_tags_eqv fold a b (sub _ a _ ha).2 (sub _ b _ hb).2 h
  · apply eqvL_of_keys
    · exact sorted_keys_eq fold (((isort_perm _ _).trans (hp.filter _)).trans (isort_perm _ _).symm)
        (isort_pairwise fold _) (isort_pairwise fold _)
    · intro a ha b hb h
      exact hG a (sub _ a _ ha).1 b (hp.mem_iff.2 (sub _ b _ hb).1) (sub _ a _ ha).2 (sub _ b _ hb).2 h

/-- **sortG_eq_perm**: conversely (no proviso) equal `sorted()` forms mean that the recursively sorted members are
permutations of each other; with `sortN_idem` and `sort_perm` this makes `sortN a = sortN b` the relation
"equal up to sibling order at every depth". -/
theorem sortG_eq_perm (ks ks' : List Node) (h : sortG fold ks = sortG fold ks') :
    (ks.map (sortN fold)).Perm (ks'.map (sortN fold)) :=
  ((sort_perm fold ks).1.symm.trans (h ▸ List.Perm.refl _)).trans (sort_perm fold ks').1

/-- **defexpand_accept_sound**: whatever the (repaired) check accepts is the expansion up to sibling order and
`==`: some arrangement of the sorted members of the written group is `==`, element by element, to some
arrangement of the sorted members of `[tag, content[# := v]]`.  No proviso. -/
theorem defexpand_accept_sound (dd : DefDict) (t : Tag) (ks : List Node)
    (h : checkDefExpand fold true dd t (some ks) = []) :
    ∃ cs p q, expansion fold dd t = .ok cs ∧ p.Perm (ks.map (sortN fold)) ∧
      q.Perm ((Node.tag t :: cs).map (sortN fold)) ∧ eqvL fold p q = true := by
  obtain ⟨cs, he, hq⟩ := (defexpand_accept_iff fold dd t ks).1.1 h
  exact ⟨cs, _, _, he, (sort_perm fold ks).1, (sort_perm fold _).1, hq⟩

end

/-- **defexpand_perm_partial**: the repaired check accepts every Def-expand group whose (recursively sorted)
members are a permutation of the (recursively sorted) expected members `[tag, content[# := v]]` — every group
equal to the expansion up to sibling order, placeholder plugged in — provided sorted sub-groups of the written
group with the same printout are `==` (true of every parsed annotation; see the section comment above). -/
theorem defexpand_perm_partial (fold : Str → Str) (dd : DefDict) (t : Tag) (ks cs : List Node)
    (he : expansion fold dd t = .ok cs)
    (hp : (ks.map (sortN fold)).Perm ((Node.tag t :: cs).map (sortN fold)))
    (hG : ∀ a ∈ ks.map (sortN fold), ∀ b ∈ ks.map (sortN fold), isGrp a = true → isGrp b = true →
      str a = str b → eqv fold a b = true) :
    checkDefExpand fold true dd t (some ks) = [] := by
  rw [(defexpand_accept_iff fold dd t ks).1]
  exact ⟨cs, he, sortG_perm_eqv_partial fold ks _ hp hG⟩

/-! ## Gathering definitions from Def-expand groups (`DefExpandGatherer._handle_known_definition`) -/

section
variable (fold : Str → Str)

/-- **gather_match_silent**: a Def-expand group of a known definition whose sorted form is `==` the sorted
expansion changes nothing. -/
theorem gather_match_silent (g : Bool) (st : GState) (t : Tag) (ks cs : List Node)
    (he : expansion fold st.dd t = .ok cs)
    (hm : eqvL fold (sortG fold (.tag t :: cs)) (sortG fold ks) = true) :
    gatherStep fold g st t ks = .ok st := by
  unfold gatherStep; simp [he, hm]

/-- **gather_conflict_reported**: a Def-expand group of a known definition that differs from the expansion is
appended to the errors under the folded name and the dictionary is left alone — reported, not merged. -/
theorem gather_conflict_reported (g : Bool) (st : GState) (t : Tag) (ks cs c : List Node)
    (he : expansion fold st.dd t = .ok cs)
    (hm : eqvL fold (sortG fold (.tag t :: cs)) (sortG fold ks) = false)
    (hc : (groupsOf (sortG fold ks)).head? = some c) :
    gatherStep fold g st t ks =
      .ok { st with errors := addError st.errors (fold (labelOf t)) c } := by
  unfold gatherStep; simp [he, hm, hc]

/-- **gather_new_valuefree**: an unknown name without a value adds the definition (sorted fresh content,
no placeholder) at the end of the dictionary; nothing is reported. -/
theorem gather_new_valuefree (g : Bool) (st : GState) (t : Tag) (ks c : List Node)
    (he : expansion fold st.dd t = .noEntry) (hv : t.extension.contains '/' = false)
    (hc : (groupsOf (sortG fold ks)).head? = some c) :
    gatherStep fold g st t ks =
      .ok { st with dd := st.dd ++ [⟨fold (labelOf t), labelOf t, eraseL (sortG fold c), false⟩] } := by
  have hl : lookup st.dd (fold (labelOf t)) = none := by
    unfold expansion at he
    cases h : lookup st.dd (fold (labelOf t)) with
    | none => rfl
    | some e => simp only [h] at he; split at he <;> (try split at he) <;> (try split at he) <;> (try split at he) <;> cases he
  have hany : st.dd.any (fun x => x.key == fold (labelOf t)) = false := by
    unfold lookup at hl
    simpa [List.find?_eq_none] using hl
  have hv' : ¬ '/' ∈ t.extension := by simpa using hv
  unfold gatherStep; simp [he, hv', hc, setEntry, hany]

/-- **gather_mismatch_reported** (the proposed repair `gfix`): a name that is defined but used with the wrong
value presence is reported and the definition is kept. -/
theorem gather_mismatch_reported (st : GState) (t : Tag) (ks c : List Node) (b : Bool)
    (he : expansion fold st.dd t = .mismatch b)
    (hc : (groupsOf (sortG fold ks)).head? = some c) :
    gatherStep fold true st t ks =
      .ok { st with errors := addError st.errors (fold (labelOf t)) c } := by
  unfold gatherStep; simp [he, hc]
end

section
variable (fold : Str → Str)

/-- the Def-expand tag that an expansion of the value-free definition `e` carries -/
def useTag (e : Entry) : Tag := { base := .defExpand, ext := '/' :: e.name }

/-- the (tag, group) pair `expand_defs` produces for a use of the value-free definition `e` -/
def usePair (e : Entry) : Tag × List Node := (useTag e, [.tag (useTag e), .grp e.content])

/-- a value-free definition as `accept` stores it: sorted fresh content (not empty), key = folded name,
name without a slash -/
structure ValueFree (e : Entry) : Prop where
  stored : Stored fold e
  content : e.content ≠ []
  takes : e.takes = false
  key : fold e.name = e.key
  name : ¬ '/' ∈ e.name

/-- **newEntry_valueFree**: a definition without `/#` that `accept` stores with a content is of that form. -/
theorem newEntry_valueFree (dt : Tag) (ks : List Node) (h : Acceptable dt ks)
    (ht : (stripValue dt.extension).2 = false) (hc : (newEntry fold dt ks).content ≠ []) :
    ValueFree fold (newEntry fold dt ks) :=
  ⟨newEntry_stored fold dt ks, hc, ht, rfl, h.nameSlash⟩

theorem takeWhile_no_slash : ∀ s : Str, ¬ '/' ∈ s → s.takeWhile (· != '/') = s
  | [], _ => rfl
  | c :: r, h => by
    have hc : c ≠ '/' := fun e => h (by simp [e])
    have hr : ¬ '/' ∈ r := fun e => h (by simp [e])
    have hb : (c != '/') = true := by simp [hc]
    simp [List.takeWhile, hb, takeWhile_no_slash r hr]

theorem useTag_facts (e : Entry) (h : ¬ '/' ∈ e.name) :
    labelOf (useTag e) = e.name ∧ (useTag e).extension.contains '/' = false := by
  refine ⟨?_, ?_⟩
  · simp [labelOf, Tag.extension, useTag, takeWhile_no_slash e.name h]
  · simpa [Tag.extension, useTag] using h

/-- what `expand_defs` puts in place of `Def/name` for a value-free definition with content -/
theorem expansion_valuefree (dd : DefDict) (t : Tag) (e : Entry)
    (hl : lookup dd (fold (labelOf t)) = some e) (ht : e.takes = false) (hv : valueOf t = [])
    (hc : e.content ≠ []) : expansion fold dd t = .ok [.grp e.content] := by
  unfold expansion
  cases hcc : e.content with
  | nil => exact absurd hcc hc
  | cons a r => simp [hl, ht, hv, hcc]

/-- **gather_roundtrip_step**: gathering the group that expansion produces for a use of a value-free
definition not yet known adds exactly that definition (same key, name, content, no placeholder). -/
theorem gather_roundtrip_step (g : Bool) (st : GState) (e : Entry) (hv : ValueFree fold e)
    (hl : lookup st.dd e.key = none) :
    gatherStep fold g st (usePair e).1 (usePair e).2 = .ok { st with dd := st.dd ++ [e] } := by
  obtain ⟨hlab, hext⟩ := useTag_facts e hv.name
  have he : expansion fold st.dd (useTag e) = .noEntry := by
    unfold expansion; rw [hlab, hv.key, hl]
  have hc : (groupsOf (sortG fold [.tag (useTag e), .grp e.content])).head? = some (sortG fold e.content) := by
    have e2 : ∀ X : List Node, arrange fold [Node.tag (useTag e), Node.grp X] = [Node.tag (useTag e), Node.grp X] := by
      intro X; simp [arrange, List.filter, isTag, isGrp, isort, insertBy]
    have e1 : sortG fold [Node.tag (useTag e), Node.grp e.content] =
        [Node.tag (useTag e), Node.grp (sortG fold e.content)] := by
      show arrange fold (sortL fold [Node.tag (useTag e), Node.grp e.content]) = _
      rw [show sortL fold [Node.tag (useTag e), Node.grp e.content] =
        [Node.tag (useTag e), Node.grp (sortG fold e.content)] from by simp [sortL, sortN, sortG], e2]
    rw [e1]; simp [groupsOf]
  have := gather_new_valuefree fold g st (useTag e) [.tag (useTag e), .grp e.content] _ he hext hc
  simp only [usePair]
  rw [this, hlab, hv.key, sortG_idem, hv.stored.1, hv.stored.2, ← hv.takes]

theorem lookup_append_none (dd : DefDict) (e : Entry) (k : Str) (h1 : lookup dd k = none) (h2 : e.key ≠ k) :
    lookup (dd ++ [e]) k = none := by
  unfold lookup at h1 ⊢
  rw [List.find?_append, h1]
  simp [h2]

/-- **gather_roundtrip**: gathering (from any state that does not know their names) the expansions of a
list `D` of value-free definitions with distinct keys, each used once, appends exactly `D`: nothing is
reported, nothing is ambiguous, every definition comes back as it was stored. -/
theorem gather_roundtrip (g : Bool) : ∀ (D : DefDict) (st : GState),
    (∀ e ∈ D, ValueFree fold e) → D.Pairwise (fun a b => a.key ≠ b.key) →
    (∀ e ∈ D, lookup st.dd e.key = none) →
    gatherAll fold g st (D.map usePair) = .ok { st with dd := st.dd ++ D }
  | [], st, _, _, _ => by simp [gatherAll]
  | e :: D, st, hv, hp, hl => by
    obtain ⟨hpe, hpD⟩ := List.pairwise_cons.1 hp
    have hstep := gather_roundtrip_step fold g st e (hv e (by simp)) (hl e (by simp))
    simp only [usePair] at hstep
    simp only [List.map_cons, gatherAll, usePair, hstep]
    have ih := gather_roundtrip g D { st with dd := st.dd ++ [e] }
      (fun x hx => hv x (List.mem_cons_of_mem _ hx)) hpD
      (fun x hx => lookup_append_none st.dd e x.key (hl x (List.mem_cons_of_mem _ hx)) (hpe x hx))
    simp only [usePair] at ih
    rw [ih]; simp

end

/-- **gather_overwrite_counterexample**: the code as it is — a known takes-value definition `A/# ↦ (L/#)` met
as `(Def-expand/A, (Red))` (no value) is silently replaced by the value-free `A ↦ (Red)` with nothing reported;
with the proposed repair it is kept and the group is reported.  (A conflict with matching value presence —
third clause, `A ↦ (Blue,Red)` against `(Def-expand/A, (Red))` — is reported by both.) -/
theorem gather_overwrite_counterexample :
    let ddV : DefDict := [⟨['A'], ['A'], [.tag { name := ['L'], ext := ['/', '#'] }], true⟩]
    let grp : List Node := [.tag tDeA, .grp [.tag tRed]]
    ((gatherStep id false { dd := ddV } tDeA grp).toOption.map
        (fun st => (st.dd.map (fun e => (String.ofList (strL e.content), e.takes)), st.errors.length))) =
      some ([("Red", false)], 0) ∧
    ((gatherStep id true { dd := ddV } tDeA grp).toOption.map
        (fun st => (st.dd.map (fun e => (String.ofList (strL e.content), e.takes)), st.errors.length))) =
      some ([("L/#", true)], 1) ∧
    ((gatherStep id false { dd := ddA } tDeA grp).toOption.map
        (fun st => (st.dd.map (fun e => String.ofList (strL e.content)), st.errors.length))) =
      some (["Blue,Red"], 1) := by
  decide

/-! ## Merging dictionaries: the first definition of a name wins -/

theorem addEntry_keeps (acc : DefDict × List Issue) (e : Entry) (k : Str) (x : Entry)
    (h : lookup acc.1 k = some x) : lookup (addEntry acc e).1 k = some x := by
  unfold addEntry
  split
  · exact h
  · unfold lookup at h ⊢
    simp [List.find?_append, h]

/-- **merge_duplicate_reported**: adding an entry whose key is present reports exactly one duplicate and leaves
the dictionary as it was. -/
theorem merge_duplicate_reported (acc : DefDict × List Issue) (e x : Entry) (h : lookup acc.1 e.key = some x) :
    addEntry acc e = (acc.1, acc.2 ++ [Issue.duplicateDefinition]) := by
  simp [addEntry, h]

theorem mergeDict_keeps (d : DefDict) : ∀ (acc : DefDict × List Issue) (k : Str) (x : Entry),
    lookup acc.1 k = some x → lookup (mergeDict acc d).1 k = some x := by
  induction d with
  | nil => intro acc k x h; exact h
  | cons e d ih =>
    intro acc k x h
    simp only [mergeDict, List.foldl_cons]
    exact ih (addEntry acc e) k x (addEntry_keeps acc e k x h)

/-- **merge_first_wins**: once a name has an entry, merging any further dictionaries (through
`DefinitionDict([…])`, `DefValidator([…])`, `add_definitions(dict)`) never changes it: lookups — hence expansion
and the Def-expand check — keep using the first definition's content and takes-value flag. -/
theorem merge_first_wins (ds : List DefDict) : ∀ (acc : DefDict × List Issue) (k : Str) (x : Entry),
    lookup acc.1 k = some x → lookup (ds.foldl mergeDict acc).1 k = some x := by
  induction ds with
  | nil => intro acc k x h; exact h
  | cons d ds ih =>
    intro acc k x h
    simp only [List.foldl_cons]
    exact ih (mergeDict acc d) k x (mergeDict_keeps d acc k x h)

/-- `A ↦ (Blue,Red)` merged with a dictionary redefining `A ↦ (L/#)` with a placeholder (and defining `B`):
one duplicate, `A` unchanged, `B` added; `Def/A` still expands with the first content. -/
theorem merge_example :
    let d2 : DefDict := [⟨['A'], ['A'], [.tag { name := ['L'], ext := ['/', '#'] }], true⟩,
                         ⟨['B'], ['B'], [.tag tRed], false⟩]
    ((mergeDicts [ddA, d2]).1.map (fun e => (e.key, String.ofList (strL e.content), e.takes)),
      (mergeDicts [ddA, d2]).2) =
      ([(['A'], "Blue,Red", false), (['B'], "Red", false)], [Issue.duplicateDefinition]) ∧
    ((runG id true true (mergeDicts [ddA, d2]).1 { kids := [.tag tDefA] } [.expand]).toOption.map
        (fun o => String.ofList (strL o.kids))) = some "(Def-expand/A,(Blue,Red))" := by
  decide

/-! ## Non-vacuity -/

example : Good ddA := by
  intro e he
  simp only [ddA, List.mem_singleton] at he
  subst he
  refine ⟨?_, rfl, by simp⟩
  intro k hk t ht
  simp only [List.mem_cons, List.not_mem_nil, or_false] at hk
  rcases hk with rfl | rfl <;> simp only [allTags, List.mem_singleton] at ht <;> subst ht <;> rfl

/-- the hypotheses of `defexpand_perm_partial` hold for the permuted group of the counter-example -/
example : checkDefExpand id true ddA tDeA (some [.grp [.tag tRed, .tag tBlue], .tag tDeA]) = [] := by
  have e : List.map (sortN id) [Node.grp [.tag tRed, .tag tBlue], .tag tDeA] =
      [Node.grp [.tag tBlue, .tag tRed], .tag tDeA] := rfl
  apply defexpand_perm_partial id ddA tDeA _ [.grp [.tag tBlue, .tag tRed]] rfl
  · rw [e]; exact List.Perm.swap _ _ _
  · rw [e]
    intro a ha b hb hga hgb _
    simp only [List.mem_cons, List.not_mem_nil, or_false] at ha hb
    rcases ha with rfl | rfl <;> rcases hb with rfl | rfl <;>
      first | exact eqv_refl id _ | exact absurd hga (by decide) | exact absurd hgb (by decide)

/-- placeholder case (fix ab4569a): `(Definition/S/#, (Label/#, Label/Middle))`, stored sorted with `#` in place;
with the value `Zulu` the plugged tag belongs after its sibling, and the group `expand_defs()` produces
(stored order) as well as its permutation are accepted -/
example :
    let lh : Tag := { name := ['L'], ext := ['/', '#'], org := ['l', '#'] }
    let lm : Tag := { name := ['L'], ext := ['/', 'M'], org := ['l', 'm'] }
    let lz : Tag := { name := ['L'], ext := ['/', 'Z'], org := ['l', 'z'] }
    let dd : DefDict := [⟨['S'], ['S'], [.tag lh, .tag lm], true⟩]
    let t : Tag := { base := .defExpand, ext := ['/', 'S', '/', 'Z'], org := ['t'] }
    checkDefExpand id true dd t (some [.tag t, .grp [.tag lz, .tag lm]]) = [] ∧
    checkDefExpand id true dd t (some [.grp [.tag lm, .tag lz], .tag t]) = [] ∧
    checkDefExpand id false dd t (some [.tag t, .grp [.tag lm, .tag lz]]) = [.defExpandInvalid] := by
  decide

/-- the hypotheses of `gather_roundtrip` hold for `ddA`, and the round trip gives it back -/
example : ∀ e ∈ ddA, ValueFree id e := by
  intro e he
  simp only [ddA, List.mem_singleton] at he
  subst he
  exact ⟨⟨rfl, rfl⟩, by simp, rfl, rfl, by decide⟩
example : ((gatherAll id false {} (ddA.map usePair)).toOption.map
    (fun st => (st.dd.map (fun e => (e.key, String.ofList (strL e.content), e.takes)), st.errors.length,
      st.ambiguous.length))) = some ([(['A'], "Blue,Red", false)], 0, 0) := by decide

example : WF { kids := [.tag tDefA] } := wf_fresh [.tag tDefA]
example : sErrL [.tag tDefA] = false := by decide
example : ∀ t ∈ allTagsL [Node.tag tDefA], t.base ≠ .defExpand := by decide
example : Acceptable { base := .definition, ext := ['/', 'A'] } [.tag { base := .definition, ext := ['/', 'A'] }, .grp [.tag tRed, .tag tBlue]] :=
  ⟨by decide, by decide, by decide, by decide, by decide, by decide, by decide, by decide⟩
/-- the model's own acceptance builds `ddA` (up to the `org` texts) from `(Definition/A, (Red, Blue))` -/
example : ((accept id [] { base := .definition, ext := ['/', 'A'] }
    [.tag { base := .definition, ext := ['/', 'A'] }, .grp [.tag tRed, .tag tBlue]]).1.map
      (fun e => (e.key, strL e.content, e.takes))) = [(['A'], "Blue,Red".toList, false)] := by decide

end HedVerif.C09
