/-
C03 — Every spelling of a schema tag resolves to the same node and canonical forms.
Theorems about `Schema.register`, `Table.get`, `Schema.walk`, `Schema.findComps`.
`KeysNodup` (no folded form is registered for two different entries) is the well-formedness
condition; the driver evaluates it on every bundled vocabulary.

The last part (from "C03, bulk conversion") is about `Schema.tagForm/convertText/convertFrame`
(Model/SchemaBulk.lean): `df_util.convert_to_form`, `HedString.get_as_short/get_as_long`; it lifts the
tag-level theorems through the parse tree with the round-trip theorems of C02.
-/
import HedVerif.Model.Schema
import HedVerif.Model.SchemaBulk
import HedVerif.Props.C02

namespace HedVerif.Schema

/-! ### the table -/

theorem get_cons (e : Name × Nat) (t : Table) (k : Name) :
    Table.get (e :: t) k = if e.1 == k then some e.2 else Table.get t k := by
  unfold Table.get
  simp only [List.find?_cons]
  split <;> simp_all

/-- keys of the dictionary are pairwise distinct as bindings: one value per key -/
def Functional (t : Table) : Prop := ∀ k i j, (k, i) ∈ t → (k, j) ∈ t → i = j

theorem get_of_mem (t : Table) (h : Functional t) (k : Name) (i : Nat) (hm : (k, i) ∈ t) :
    t.get k = some i := by
  induction t with
  | nil => cases hm
  | cons e rest ih =>
    rw [get_cons]
    by_cases he : e.1 = k
    · have : (e.1 == k) = true := by simpa using he
      simp only [this, ↓reduceIte]
      have h1 : (k, e.2) ∈ e :: rest := by
        subst he; exact List.mem_cons_self
      exact congrArg some (h k e.2 i h1 hm)
    · have : (e.1 == k) = false := by simpa using he
      simp only [this, Bool.false_eq_true, ↓reduceIte]
      apply ih
      · intro k' a b ha hb
        exact h k' a b (List.mem_cons_of_mem _ ha) (List.mem_cons_of_mem _ hb)
      · rcases List.mem_cons.mp hm with h2 | h2
        · exact absurd (by rw [← h2]) he
        · exact h2

theorem get_some_mem (t : Table) (k : Name) (i : Nat) (h : t.get k = some i) : (k, i) ∈ t := by
  induction t with
  | nil => simp [Table.get] at h
  | cons e rest ih =>
    rw [get_cons] at h
    by_cases he : e.1 = k
    · have : (e.1 == k) = true := by simpa using he
      simp only [this, ↓reduceIte, Option.some.injEq] at h
      subst he; subst h
      exact List.mem_cons_self
    · have : (e.1 == k) = false := by simpa using he
      simp only [this, Bool.false_eq_true, ↓reduceIte] at h
      exact List.mem_cons_of_mem _ (ih h)

/-! ### registration -/

theorem register_mono (fold : Str → Str) (rest : List Name) (i0 : Nat) (tbl : Table) (dups : List Nat) :
    (∀ e ∈ tbl, e ∈ (register fold rest i0 tbl dups).1) ∧
    (∀ d ∈ dups, d ∈ (register fold rest i0 tbl dups).2) := by
  induction rest generalizing i0 tbl dups with
  | nil => simp [register]
  | cons n rest ih =>
    simp only [register]
    split
    · obtain ⟨a, b⟩ := ih (i0 + 1) tbl (i0 :: dups)
      exact ⟨a, fun d hd => b d (List.mem_cons_of_mem _ hd)⟩
    · obtain ⟨a, b⟩ := ih (i0 + 1) (((forms n).map fun f => (foldName fold f, i0)).reverse ++ tbl) dups
      exact ⟨fun e he => a e (List.mem_append_right _ he), b⟩

/-- Every form of every tag that was not flagged as duplicate is bound to that tag. -/
theorem register_complete (fold : Str → Str) (rest : List Name) (i0 : Nat) (tbl : Table)
    (dups : List Nat) (p : Nat) (n : Name) (hp : rest[p]? = some n)
    (hnd : (i0 + p) ∉ (register fold rest i0 tbl dups).2) :
    ∀ f ∈ forms n, (foldName fold f, i0 + p) ∈ (register fold rest i0 tbl dups).1 := by
  induction rest generalizing i0 tbl dups p with
  | nil => simp at hp
  | cons m rest ih =>
    simp only [register] at hnd ⊢
    cases p with
    | zero =>
      simp only [List.getElem?_cons_zero, Option.some.injEq] at hp
      subst hp
      split
      · rename_i hd
        simp only [hd, ↓reduceIte] at hnd
        exact absurd ((register_mono fold rest (i0 + 1) tbl (i0 :: dups)).2 i0 List.mem_cons_self) hnd
      · intro f hf
        apply (register_mono fold rest (i0 + 1) _ dups).1
        apply List.mem_append_left
        simp only [List.mem_reverse, List.mem_map]
        exact ⟨f, hf, rfl⟩
    | succ p' =>
      simp only [List.getElem?_cons_succ] at hp
      have e1 : i0 + (p' + 1) = (i0 + 1) + p' := by omega
      rw [e1] at hnd ⊢
      split
      · rename_i hd
        simp only [hd, ↓reduceIte] at hnd
        exact ih (i0 + 1) tbl (i0 :: dups) p' hp hnd
      · rename_i hd
        simp only [hd, Bool.false_eq_true, ↓reduceIte] at hnd
        exact ih (i0 + 1) _ dups p' hp hnd

/-! ### splitting and joining at `/` -/

def NoSlash (n : Name) : Prop := ∀ c ∈ n, '/' ∉ c

theorem splitSlash_go_noslash (cur c : Str) (h : '/' ∉ c) (rest : Str) :
    splitSlash.go cur (c ++ rest) = splitSlash.go (c.reverse ++ cur) rest := by
  induction c generalizing cur with
  | nil => rfl
  | cons x xs ih =>
    have hx : (x == '/') = false := by
      have : x ≠ '/' := fun e => h (by simp [e])
      simpa using this
    simp only [List.cons_append, splitSlash.go, hx, Bool.false_eq_true, ↓reduceIte]
    rw [ih (x :: cur) (fun hm => h (List.mem_cons_of_mem _ hm))]
    simp

theorem splitSlash_joinSlash (n : Name) (hne : n ≠ []) (h : NoSlash n) :
    splitSlash (joinSlash n) = n := by
  unfold splitSlash
  induction n with
  | nil => exact absurd rfl hne
  | cons c cs ih =>
    cases cs with
    | nil =>
      have := splitSlash_go_noslash [] c (h c (by simp)) []
      simp only [List.append_nil] at this
      simp [joinSlash, this, splitSlash.go]
    | cons d ds =>
      have hc := h c (by simp)
      have := splitSlash_go_noslash [] c hc ('/' :: joinSlash (d :: ds))
      simp only [joinSlash, this, splitSlash.go, beq_self_eq_true, ↓reduceIte, List.append_nil,
        List.reverse_reverse]
      congr 1
      exact ih (by simp) (fun x hx => h x (List.mem_cons_of_mem _ hx))

/-! ### the walk -/

/-- If the first `k` prefixes beyond `k0` are all known and the next one is not (or the text ends),
the walk stops exactly there with the entry of the last known prefix. -/
theorem walk_spec (tbl : Table) (w : Name) (e : Nat → Nat) (k : Nat) (hk : k ≤ w.length)
    (hknown : ∀ j, 1 ≤ j → j ≤ k → walkGet tbl (w.take j) = some (e j))
    (hstop : k < w.length → walkGet tbl (w.take (k + 1)) = none)
    (k0 : Nat) (hk0 : k0 ≤ k) (cur : Option Nat) (hcur : 1 ≤ k0 → cur = some (e k0))
    (fuel : Nat) (hfuel : k - k0 ≤ fuel) :
    walk tbl w fuel cur k0 = (if k0 = k then cur else some (e k)).map (·, k) := by
  induction fuel generalizing k0 cur with
  | zero =>
    have : k0 = k := by omega
    subst this
    simp [walk]
  | succ fuel ih =>
    simp only [walk]
    by_cases hend : k0 ≥ w.length
    · have : k0 = k := by omega
      subst this
      rw [if_pos hend]
      simp
    · rw [if_neg hend]
      by_cases heq : k0 = k
      · subst heq
        rw [hstop (by omega)]
        simp
      · have h1 := hknown (k0 + 1) (by omega) (by omega)
        simp only [h1]
        have := ih (k0 + 1) (by omega) (some (e (k0 + 1))) (fun _ => rfl) (by omega)
        rw [this]
        by_cases h2 : k0 + 1 = k
        · subst h2; simp [heq]
        · simp [heq, h2]

/-! ### the lookup of a prefix inside the walk -/

theorem walkGet_eq_get (tbl : Table) (p : Name) (h : p.getLast? ≠ some ['#']) : walkGet tbl p = tbl.get p := by
  unfold walkGet
  have : (p.getLast? == some ['#']) = false := by simpa using h
  simp [this]

theorem walkGet_none_of_get (tbl : Table) (p : Name) (h : tbl.get p = none) : walkGet tbl p = none := by
  unfold walkGet; split <;> simp [h]

theorem walkGet_sharp (tbl : Table) (p : Name) (h1 : p.getLast? = some ['#']) (h2 : 2 ≤ p.length) :
    walkGet tbl p = none := by
  unfold walkGet; simp [h1, h2]

theorem walkGet_cases (tbl : Table) (p : Name) (h : walkGet tbl p = none) :
    tbl.get p = none ∨ (p.getLast? = some ['#'] ∧ 2 ≤ p.length) := by
  unfold walkGet at h
  split at h
  · rename_i hc
    right
    simpa using hc
  · left; exact h

theorem walkGet_some (tbl : Table) (p : Name) (e : Nat) (h : walkGet tbl p = some e) :
    tbl.get p = some e ∧ ¬ (p.getLast? = some ['#'] ∧ 2 ≤ p.length) := by
  unfold walkGet at h
  split at h
  · cases h
  · rename_i hc
    exact ⟨h, by simpa using hc⟩

end HedVerif.Schema

namespace HedVerif.C03
open HedVerif.Schema

/-- the vocabulary's dictionary binds each key to one entry -/
def WF (v : Vocab) : Prop := Functional v.table

/-- **Every suffix form of a registered tag is bound to it** (whatever the case of the spelling:
`direct_hit_case`).  `i` is the index of a tag that was not flagged as a duplicate. -/
theorem direct_hit (fold : Str → Str) (tags : List Name) (i : Nat) (n : Name)
    (hi : tags[i]? = some n) (hnd : i ∉ (Vocab.build fold tags).dups)
    (hwf : WF (Vocab.build fold tags)) (f : Name) (hf : f ∈ forms n) :
    (Vocab.build fold tags).table.get (foldName fold f) = some i := by
  apply get_of_mem _ hwf
  have := register_complete fold tags 0 [] [] i n hi (by simpa [Vocab.build] using hnd) f hf
  simpa [Vocab.build] using this

theorem direct_hit_case (fold : Str → Str) (tags : List Name) (i : Nat) (n : Name)
    (hi : tags[i]? = some n) (hnd : i ∉ (Vocab.build fold tags).dups)
    (hwf : WF (Vocab.build fold tags)) (f f' : Name) (hf : f ∈ forms n)
    (hcase : foldName fold f' = foldName fold f) (hnv : (foldName fold f).getLast? ≠ some ['#']) :
    findComps (Vocab.build fold tags) fold f' = .found i [] := by
  have h := direct_hit fold tags i n hi hnd hwf f hf
  unfold findComps
  simp only [hcase, h]
  have : ((foldName fold f).getLast? == some ['#']) = false := by simpa using hnv
  simp [this]

/-- On a text (not a component list): joining a slash-free spelling and parsing it back gives the
same components, so `find` on the spelled-out text is `findComps` on the components. -/
theorem find_text (v : Vocab) (fold : Str → Str) (f : Name) (hne : f ≠ []) (h : NoSlash f) :
    find v fold (joinSlash f) = findComps v fold f := by
  unfold find; rw [splitSlash_joinSlash f hne h]

/-- Registered bindings are sound: a key bound to `i` is a folded form of tag `i`. (Used to read
`WF` as "no folded form is shared by two registered tags".) -/
theorem registered_forms_disjoint (v : Vocab) (hwf : WF v) (k : Name) (i j : Nat)
    (hi : v.table.get k = some i) (hj : (k, j) ∈ v.table) : i = j :=
  hwf k i j (get_some_mem _ _ _ hi) hj

/-- **The walk stops at the deepest known prefix.** -/
theorem walk_stops (tbl : Table) (w : Name) (e : Nat → Nat) (k : Nat) (hk1 : 1 ≤ k) (hk : k ≤ w.length)
    (hknown : ∀ j, 1 ≤ j → j ≤ k → walkGet tbl (w.take j) = some (e j))
    (hstop : k < w.length → walkGet tbl (w.take (k + 1)) = none) :
    walk tbl w w.length none 0 = some (e k, k) := by
  have := walk_spec tbl w e k hk hknown hstop 0 (by omega) none (by omega) w.length (by omega)
  rw [this]
  have : ¬ (0 = k) := by omega
  simp [this]

/-- **Remainder carried over verbatim.** If the whole text is not itself a form, its first `k ≥ 1`
prefixes are forms (of entries `e 1 … e k`) and the next prefix is not, then the tag resolves to
`e k` — or to its `#` child when it has one — and the remainder is the rest of the text exactly as
written (original case), introduced by its slash; unless `e k` takes no value and one of the remaining
terms is itself a schema tag, which is the invalid-parent error. -/
theorem remainder_verbatim (v : Vocab) (fold : Str → Str) (comps : Name) (e : Nat → Nat) (k : Nat)
    (hk1 : 1 ≤ k) (hk : k < comps.length)
    (hnot : v.table.get (foldName fold comps) = none)
    (hknown : ∀ j, 1 ≤ j → j ≤ k → walkGet v.table ((foldName fold comps).take j) = some (e j))
    (hstop : walkGet v.table ((foldName fold comps).take (k + 1)) = none) :
    findComps v fold comps =
      match v.valueChild fold (e k) with
      | some ch => .found ch ('/' :: joinSlash (comps.drop k))
      | none =>
        match badTerm v.table (joinLen (comps.take k) + 1) ((foldName fold comps).drop k) with
        | some (a, b, x) => .invalidParent a b x
        | none => .found (e k) ('/' :: joinSlash (comps.drop k)) := by
  have hlen : (foldName fold comps).length = comps.length := by simp [foldName]
  have hw := walk_stops v.table (foldName fold comps) e k hk1 (by omega) hknown (fun _ => hstop)
  unfold findComps
  simp only [hnot, hw]
  have hne : (comps.drop k).isEmpty = false := by
    cases hd : comps.drop k with
    | nil => have := congrArg List.length hd; simp at this; omega
    | cons a b => rfl
  simp only [hne, Bool.false_eq_true, ↓reduceIte]
  cases v.valueChild fold (e k) with
  | some ch => rfl
  | none =>
    cases badTerm v.table (joinLen (comps.take k) + 1) ((foldName fold comps).drop k) with
    | none => rfl
    | some x => obtain ⟨a, b, c⟩ := x; rfl

/-- **Forms.** For a registered non-value tag `n`, its short form (last component) and its long form
(all components), in any case, resolve to the same entry with empty remainder; hence
`long(short t) = long(t)`, `short(long t) = short(t)` and both name the node of `t`. -/
theorem forms_roundtrip (fold : Str → Str) (tags : List Name) (i : Nat) (n : Name) (last : Str)
    (hi : tags[i]? = some n) (hnd : i ∉ (Vocab.build fold tags).dups)
    (hwf : WF (Vocab.build fold tags)) (hlast : n.getLast? = some last) (hnv : fold last ≠ ['#'])
    (hl : last ≠ ['#']) (s l : Name)
    (hs : foldName fold s = foldName fold [last]) (hlg : foldName fold l = foldName fold n) :
    findComps (Vocab.build fold tags) fold s = .found i [] ∧
    findComps (Vocab.build fold tags) fold l = .found i [] := by
  have hsuf : ∀ m : Name, m.getLast? = some last → [last] ∈ suffixes m := by
    intro m
    induction m with
    | nil => simp
    | cons c cs ih =>
      cases cs with
      | nil => intro h; simp at h; subst h; simp [suffixes]
      | cons d ds =>
        intro h
        simp only [suffixes, List.mem_cons]
        right
        have : (d :: ds).getLast? = some last := by simpa [List.getLast?_cons_cons] using h
        have := ih this
        simpa [suffixes] using this
  have hn_ne : n ≠ [] := by intro h; subst h; simp at hlast
  have hself : n ∈ suffixes n := by
    cases n with
    | nil => exact absurd rfl hn_ne
    | cons c cs => simp [suffixes]
  have hf1 : [last] ∈ forms n := by
    simp only [forms, List.mem_filter]
    refine ⟨hsuf n hlast, ?_⟩
    simp only [bne_iff_ne, ne_eq, List.cons.injEq, and_true]
    exact hl
  have hf2 : n ∈ forms n := by
    simp only [forms, List.mem_filter]
    refine ⟨hself, ?_⟩
    simp only [bne_iff_ne, ne_eq]
    intro h; subst h; simp at hlast; exact hl hlast.symm
  constructor
  · apply direct_hit_case fold tags i n hi hnd hwf [last] s hf1 hs
    simp [foldName, hnv]
  · apply direct_hit_case fold tags i n hi hnd hwf n l hf2 hlg
    simp only [foldName, List.getLast?_map, hlast, Option.map_some, ne_eq, Option.some.injEq]
    exact hnv

/-- The namespace of a text without ':' is empty; a colon before the first slash ends it. -/
theorem namespace_ascii (p rest : Str) (hp : ':' ∉ p) (hp2 : '/' ∉ p) :
    namespaceOf (p ++ ':' :: rest) = p ++ [':'] := by
  unfold namespaceOf
  have h1 : (p ++ ':' :: rest).idxOf? ':' = some p.length := by
    induction p with
    | nil => simp [List.idxOf?, List.findIdx?_cons]
    | cons c cs ih =>
      have hc : c ≠ ':' := fun e => hp (by simp [e])
      have := ih (fun h => hp (List.mem_cons_of_mem _ h)) (fun h => hp2 (List.mem_cons_of_mem _ h))
      simp only [List.idxOf?, List.cons_append, List.findIdx?_cons] at this ⊢
      have hc' : (c == ':') = false := by simpa using hc
      simp [hc', this]
  have htake : (p ++ ':' :: rest).take (p.length + 1) = p ++ [':'] := by
    clear h1 hp hp2
    induction p with
    | nil => simp
    | cons c cs ih => simpa using ih
  rw [h1]
  simp only
  cases hs : (p ++ ':' :: rest).idxOf? '/' with
  | none => simpa using htake
  | some is =>
    have : p.length ≤ is := by
      -- the first slash cannot be inside p
      simp only [List.idxOf?] at hs
      have := (List.findIdx?_eq_some_iff_getElem.mp hs)
      obtain ⟨hlt, hget, _⟩ := this
      by_cases hcmp : is < p.length
      · have : (p ++ ':' :: rest)[is] = p[is] := List.getElem_append_left hcmp
        rw [this] at hget
        have hpe : p[is] = '/' := by simpa using hget
        exact absurd (hpe ▸ List.getElem_mem hcmp) hp2
      · omega
    have : ¬ (p.length > is) := by omega
    simpa [this] using htake

/-- non-vacuity on a small vocabulary -/
example :
    let v := Vocab.build id ["Item".toList |> splitSlash, "Item/Object".toList |> splitSlash,
      "Item/Label".toList |> splitSlash, "Item/Label/#".toList |> splitSlash]
    find v id "Object".toList = .found 1 [] ∧
    find v id "Item/Label/abc".toList = .found 3 "/abc".toList ∧
    find v id "Object/Ext".toList = .found 1 "/Ext".toList ∧
    find v id "Object/Ext/Label".toList = .invalidParent 11 16 2 := by decide

end HedVerif.C03

namespace HedVerif.Schema

/-! ### growth: soundness of registration, structural well-formedness -/

theorem mem_suffixes {g m : Name} : g ∈ suffixes m ↔ g ≠ [] ∧ g <:+ m := by
  induction m with
  | nil => simp [suffixes]
  | cons c cs ih =>
    simp only [suffixes, List.mem_cons, ih, List.suffix_cons_iff]
    constructor
    · rintro (h | ⟨h1, h2⟩)
      · subst h; exact ⟨by simp, Or.inl rfl⟩
      · exact ⟨h1, Or.inr h2⟩
    · rintro ⟨h1, h | h⟩
      · exact Or.inl h
      · exact Or.inr ⟨h1, h⟩

theorem mem_forms {g m : Name} : g ∈ forms m ↔ g ≠ [] ∧ g <:+ m ∧ g ≠ [['#']] := by
  simp only [forms, List.mem_filter, mem_suffixes, bne_iff_ne, ne_eq, and_assoc]

theorem get_ne_none_of_mem (t : Table) (k : Name) (i : Nat) (h : (k, i) ∈ t) : t.get k ≠ none := by
  unfold Table.get
  intro hn
  simp only [Option.map_eq_none_iff, List.find?_eq_none] at hn
  exact hn (k, i) h (by simp)

theorem register_dups_ge (fold : Str → Str) (rest : List Name) (i0 : Nat) (tbl : Table) (dups : List Nat) :
    ∀ d ∈ (register fold rest i0 tbl dups).2, d ∈ dups ∨ i0 ≤ d := by
  induction rest generalizing i0 tbl dups with
  | nil => intro d hd; left; simpa [register] using hd
  | cons n rest ih =>
    intro d hd
    simp only [register] at hd
    split at hd
    · rcases ih _ _ _ d hd with h | h
      · rcases List.mem_cons.mp h with h | h
        · right; omega
        · left; exact h
      · right; omega
    · rcases ih _ _ _ d hd with h | h
      · left; exact h
      · right; omega

/-- Every binding of the final table was there initially or is a folded form of a tag that was
registered (not flagged as duplicate). -/
theorem register_sound_aux (fold : Str → Str) (rest : List Name) (i0 : Nat) (tbl : Table) (dups : List Nat)
    (hd : ∀ d ∈ dups, d < i0) (k : Name) (i : Nat) (h : (k, i) ∈ (register fold rest i0 tbl dups).1) :
    (k, i) ∈ tbl ∨ ∃ p n, i = i0 + p ∧ rest[p]? = some n ∧ i ∉ (register fold rest i0 tbl dups).2 ∧
      ∃ f ∈ forms n, k = foldName fold f := by
  induction rest generalizing i0 tbl dups with
  | nil => left; simpa [register] using h
  | cons n rest ih =>
    simp only [register] at h ⊢
    split at h
    · rename_i hdup
      simp only [hdup, ↓reduceIte]
      have hd' : ∀ d ∈ i0 :: dups, d < i0 + 1 := by
        intro d hm
        rcases List.mem_cons.mp hm with h | h
        · omega
        · have := hd d h; omega
      rcases ih (i0 + 1) tbl (i0 :: dups) hd' h with h | ⟨p, m, h1, h2, h3, h4⟩
      · left; exact h
      · right; exact ⟨p + 1, m, by omega, by simpa using h2, h3, h4⟩
    · rename_i hdup
      simp only [hdup, Bool.false_eq_true, ↓reduceIte]
      have hd' : ∀ d ∈ dups, d < i0 + 1 := fun d hm => by have := hd d hm; omega
      rcases ih (i0 + 1) _ dups hd' h with h | ⟨p, m, h1, h2, h3, h4⟩
      · rcases List.mem_append.mp h with h | h
        · right
          simp only [List.mem_reverse, List.mem_map, Prod.mk.injEq] at h
          obtain ⟨f, hf, hk, hi⟩ := h
          refine ⟨0, n, by omega, by simp, ?_, f, hf, hk.symm⟩
          intro hmem
          rcases register_dups_ge fold rest (i0 + 1) _ dups i hmem with h | h
          · have := hd i h; omega
          · omega
        · left; exact h
      · right; exact ⟨p + 1, m, by omega, by simpa using h2, h3, h4⟩

/-- A flagged duplicate is a tag whose folded last component was, at that moment, already a key
bound to an earlier index. -/
theorem register_dups_spec (fold : Str → Str) (rest : List Name) (i0 : Nat) (tbl : Table) (dups : List Nat)
    (ht : ∀ e ∈ tbl, e.2 < i0) (d : Nat) (h : d ∈ (register fold rest i0 tbl dups).2) :
    d ∈ dups ∨ ∃ p n j, d = i0 + p ∧ rest[p]? = some n ∧ j < d ∧
      ([fold (nameKey n)], j) ∈ (register fold rest i0 tbl dups).1 := by
  induction rest generalizing i0 tbl dups with
  | nil => left; simpa [register] using h
  | cons n rest ih =>
    simp only [register] at h ⊢
    split at h
    · rename_i hdup
      simp only [hdup, ↓reduceIte]
      have ht' : ∀ e ∈ tbl, e.2 < i0 + 1 := fun e he => by have := ht e he; omega
      rcases ih (i0 + 1) tbl (i0 :: dups) ht' h with h | ⟨p, m, j, h1, h2, h3, h4⟩
      · rcases List.mem_cons.mp h with h | h
        · right
          obtain ⟨j, hj⟩ := Option.isSome_iff_exists.mp hdup
          have hm := get_some_mem _ _ _ hj
          refine ⟨0, n, j, by omega, by simp, ?_, (register_mono fold rest (i0 + 1) tbl (i0 :: dups)).1 _ hm⟩
          have := ht _ hm; simp only at this; omega
        · left; exact h
      · right; exact ⟨p + 1, m, j, by omega, by simpa using h2, h3, h4⟩
    · rename_i hdup
      simp only [hdup, Bool.false_eq_true, ↓reduceIte]
      have ht' : ∀ e ∈ ((forms n).map fun f => (foldName fold f, i0)).reverse ++ tbl, e.2 < i0 + 1 := by
        intro e he
        rcases List.mem_append.mp he with he | he
        · simp only [List.mem_reverse, List.mem_map] at he
          obtain ⟨f, _, rfl⟩ := he; simp
        · have := ht e he; omega
      rcases ih (i0 + 1) _ dups ht' h with h | ⟨p, m, j, h1, h2, h3, h4⟩
      · left; exact h
      · right; exact ⟨p + 1, m, j, by omega, by simpa using h2, h3, h4⟩


theorem nameKey_suffix {f n : Name} (hne : f ≠ []) (hs : f <:+ n) : nameKey n = nameKey f := by
  obtain ⟨pre, rfl⟩ := hs
  unfold nameKey
  rw [List.getLast?_append]
  cases h : f.getLast? with
  | none => simp [List.getLast?_eq_none_iff] at h; exact absurd h hne
  | some x => simp

theorem getLast?_suffix {f n : Name} (hne : f ≠ []) (hs : f <:+ n) : n.getLast? = f.getLast? := by
  obtain ⟨pre, rfl⟩ := hs
  rw [List.getLast?_append]
  cases h : f.getLast? with
  | none => simp [List.getLast?_eq_none_iff] at h; exact absurd h hne
  | some x => simp

theorem getLast?_of_nameKey {n : Name} (h : nameKey n = ['#']) : n.getLast? = some ['#'] := by
  unfold nameKey at h
  cases hl : n.getLast? with
  | none => simp [hl] at h
  | some x => simp [hl] at h; simp [h]

theorem nameKey_of_getLast? {n : Name} {x : Str} (h : n.getLast? = some x) : nameKey n = x := by
  simp [nameKey, h]

/-- the key that must be unique per tag: the last component, or for a `#` node the last two -/
def shortKey (n : Name) : Name :=
  if n.getLast? = some ['#'] then n.drop (n.length - 2) else [nameKey n]

theorem foldName_length (fold : Str → Str) (n : Name) : (foldName fold n).length = n.length := by
  simp [foldName]

theorem shortKey_fold_value (fold : Str → Str) {f n : Name} (hf : f ∈ forms n)
    (h : n.getLast? = some ['#']) :
    foldName fold (shortKey n) = (foldName fold f).drop (f.length - 2) := by
  obtain ⟨hne, hs, hv⟩ := mem_forms.mp hf
  have hfl := (getLast?_suffix hne hs).symm.trans h
  have h2 : 2 ≤ f.length := by
    match f, hne, hv, hfl with
    | [x], _, hv, hfl => simp at hfl; subst hfl; exact absurd rfl hv
    | _ :: _ :: _, _, _, _ => simp
  obtain ⟨pre, rfl⟩ := hs
  simp only [shortKey, h, ↓reduceIte, foldName, List.length_append]
  rw [← List.map_drop, show pre.length + f.length - 2 = pre.length + (f.length - 2) by omega,
    ← List.drop_drop, List.drop_left]

theorem shortKey_fold_plain (fold : Str → Str) {f n : Name} (hf : f ∈ forms n)
    (h : n.getLast? ≠ some ['#']) :
    foldName fold (shortKey n) = (foldName fold f).drop (f.length - 1) := by
  obtain ⟨hne, hs, _⟩ := mem_forms.mp hf
  simp only [shortKey, h, ↓reduceIte, nameKey_suffix hne hs]
  obtain ⟨a, x, rfl⟩ : ∃ a x, f = a ++ [x] := ⟨f.dropLast, f.getLast hne, (List.dropLast_concat_getLast hne).symm⟩
  simp [foldName, nameKey]

/-- first clause of `ShortDistinct`-style reasoning: two forms with the same folded spelling belong to
tags with the same folded short key -/
theorem shortKey_fold_eq (fold : Str → Str) {f g n m : Name} (hf : f ∈ forms n) (hg : g ∈ forms m)
    (h : foldName fold f = foldName fold g)
    (hn : fold (nameKey n) = fold ['#'] → nameKey n = ['#'])
    (hm : fold (nameKey m) = fold ['#'] → nameKey m = ['#']) :
    foldName fold (shortKey n) = foldName fold (shortKey m) := by
  have hlen : f.length = g.length := by
    have := congrArg List.length h; simpa [foldName] using this
  obtain ⟨hfne, hfs, _⟩ := mem_forms.mp hf
  obtain ⟨hgne, hgs, _⟩ := mem_forms.mp hg
  have hkey : fold (nameKey n) = fold (nameKey m) := by
    have a := shortKey_fold_plain fold (f := f) (n := f) (mem_forms.mpr ⟨hfne, List.suffix_refl _, (mem_forms.mp hf).2.2⟩)
    have b := shortKey_fold_plain fold (f := g) (n := g) (mem_forms.mpr ⟨hgne, List.suffix_refl _, (mem_forms.mp hg).2.2⟩)
    rw [nameKey_suffix hfne hfs, nameKey_suffix hgne hgs]
    by_cases h1 : f.getLast? = some ['#']
    · have h2 : g.getLast? = some ['#'] := by
        have e1 : nameKey f = ['#'] := nameKey_of_getLast? h1
        have : fold (nameKey g) = fold ['#'] := by
          have := congrArg (fun l => l.getLast?) h
          simp only [foldName, List.getLast?_map, h1, Option.map_some] at this
          cases hl : g.getLast? with
          | none => simp [hl] at this
          | some x => simp [hl] at this; simp [nameKey, hl, this]
        have := hm (by rw [nameKey_suffix hgne hgs]; exact this)
        rw [nameKey_suffix hgne hgs] at this
        exact getLast?_of_nameKey this
      rw [nameKey_of_getLast? h1, nameKey_of_getLast? h2]
    · by_cases h2 : g.getLast? = some ['#']
      · exfalso
        have : fold (nameKey f) = fold ['#'] := by
          have := congrArg (fun l => l.getLast?) h
          simp only [foldName, List.getLast?_map, h2, Option.map_some] at this
          cases hl : f.getLast? with
          | none => simp [hl] at this
          | some x => simp [hl] at this; simp [nameKey, hl, this]
        have := hn (by rw [nameKey_suffix hfne hfs]; exact this)
        rw [nameKey_suffix hfne hfs] at this
        exact h1 (getLast?_of_nameKey this)
      · have a' := a h1
        have b' := b h2
        simp only [shortKey, h1, h2, ↓reduceIte, foldName, List.map_cons, List.map_nil] at a' b'
        have : [fold (nameKey f)] = [fold (nameKey g)] := by
          rw [a', b']; simp only [foldName] at h; rw [h, hlen]
        simpa using this
  by_cases h1 : n.getLast? = some ['#']
  · have h2 : m.getLast? = some ['#'] := by
      apply getLast?_of_nameKey
      apply hm
      rw [← hkey, nameKey_of_getLast? h1]
    rw [shortKey_fold_value fold hf h1, shortKey_fold_value fold hg h2, h, hlen]
  · have h2 : m.getLast? ≠ some ['#'] := by
      intro h2
      apply h1
      apply getLast?_of_nameKey
      apply hn
      rw [hkey, nameKey_of_getLast? h2]
    rw [shortKey_fold_plain fold hf h1, shortKey_fold_plain fold hg h2, h, hlen]

end HedVerif.Schema

namespace HedVerif.C03
open HedVerif.Schema

theorem build_table (fold : Str → Str) (tags : List Name) :
    (Vocab.build fold tags).table = (register fold tags 0 [] []).1 := rfl
theorem build_dups (fold : Str → Str) (tags : List Name) :
    (Vocab.build fold tags).dups = (register fold tags 0 [] []).2 := rfl
theorem build_name (fold : Str → Str) (tags : List Name) (i : Nat) :
    (Vocab.build fold tags).name i = tags[i]?.getD [] := by simp [Vocab.build, Vocab.name]

/-- **Registration is sound** (converse of `register_complete`): every binding `(k, i)` of the
dictionary comes from tag `i`, which was not flagged as duplicate, and `k` is the folded spelling of one
of its suffix forms. -/
theorem register_sound (fold : Str → Str) (tags : List Name) (k : Name) (i : Nat)
    (h : (k, i) ∈ (Vocab.build fold tags).table) :
    i ∉ (Vocab.build fold tags).dups ∧ ∃ n, tags[i]? = some n ∧ ∃ f ∈ forms n, k = foldName fold f := by
  rw [build_table] at h
  rcases register_sound_aux fold tags 0 [] [] (by simp) k i h with h | ⟨p, n, h1, h2, h3, h4⟩
  · cases h
  · have : i = p := by omega
    subst this
    exact ⟨h3, n, h2, h4⟩

/-- `register_complete` at the top level -/
theorem registered_mem (fold : Str → Str) (tags : List Name) (i : Nat) (n : Name)
    (hi : tags[i]? = some n) (hnd : i ∉ (Vocab.build fold tags).dups) (f : Name) (hf : f ∈ forms n) :
    (foldName fold f, i) ∈ (Vocab.build fold tags).table := by
  have := register_complete fold tags 0 [] [] i n hi (by simpa [build_dups] using hnd) f hf
  simpa [build_table] using this

/-- parents are tags: every non-empty proper prefix of a long name is itself a long name -/
def TreeClosed (tags : List Name) : Prop := ∀ n ∈ tags, ∀ b, b < n.length → 0 < b → n.take b ∈ tags

instance (tags : List Name) : Decidable (TreeClosed tags) := by unfold TreeClosed; infer_instance

/-- short names are unique after folding (for `#` nodes: together with the parent's short name), and only
`#` folds to what `#` folds to -/
def ShortDistinct (fold : Str → Str) (tags : List Name) : Prop :=
  (tags.map fun n => foldName fold (shortKey n)).Nodup ∧
  ∀ n ∈ tags, fold (nameKey n) = fold ['#'] → nameKey n = ['#']

instance (fold : Str → Str) (tags : List Name) : Decidable (ShortDistinct fold tags) := by
  unfold ShortDistinct; infer_instance

theorem TreeClosed.prefix_mem {tags : List Name} (h : TreeClosed tags) {n p : Name} (hn : n ∈ tags)
    (hp : p ≠ []) (hpre : p <+: n) : p ∈ tags := by
  have e := List.prefix_iff_eq_take.mp hpre
  have hle := hpre.length_le
  by_cases hlt : p.length < n.length
  · rw [e]; exact h n hn _ hlt (List.length_pos_iff.mpr hp)
  · have : p.length = n.length := by omega
    rw [e, this, List.take_length]; exact hn

/-- the condition as the driver evaluates it: the parent of every tag of depth ≥ 2 is a tag -/
theorem treeClosed_iff_parents (tags : List Name) :
    TreeClosed tags ↔ ∀ n ∈ tags, 2 ≤ n.length → n.dropLast ∈ tags := by
  constructor
  · intro h n hn h2
    rw [List.dropLast_eq_take]
    exact h n hn _ (by omega) (by omega)
  · intro h
    have key : ∀ k, ∀ n ∈ tags, 1 ≤ n.length - k → n.take (n.length - k) ∈ tags := by
      intro k
      induction k with
      | zero => intro n hn _; simpa using hn
      | succ k ih =>
        intro n hn h1
        have hp := ih n hn (by omega)
        have := h _ hp (by simp; omega)
        rw [List.dropLast_eq_take, List.take_take] at this
        have e : min ((n.take (n.length - k)).length - 1) (n.length - k) = n.length - (k + 1) := by
          simp; omega
        rwa [e] at this
    intro n hn b hb h0
    have := key (n.length - b) n hn (by omega)
    rwa [show n.length - (n.length - b) = b by omega] at this

theorem ShortDistinct.inj {fold : Str → Str} {tags : List Name} (h : ShortDistinct fold tags)
    {i j : Nat} {n m : Name} (hi : tags[i]? = some n) (hj : tags[j]? = some m)
    (he : foldName fold (shortKey n) = foldName fold (shortKey m)) : i = j := by
  have hlt : i < (tags.map fun n => foldName fold (shortKey n)).length := by
    have := (List.getElem?_eq_some_iff.mp hi).1; simpa using this
  apply (List.getElem?_inj hlt h.1).mp
  simp [List.getElem?_map, hi, hj, he]

/-- **Well-formedness from two readable conditions (only the second is needed here).** If folded short
names are pairwise distinct, every key of the dictionary is bound to one entry. -/
theorem wf_of_shortDistinct (fold : Str → Str) (tags : List Name) (hsd : ShortDistinct fold tags) :
    WF (Vocab.build fold tags) := by
  intro k i j hi hj
  obtain ⟨_, n, hn, f, hf, hkf⟩ := register_sound fold tags k i hi
  obtain ⟨_, m, hm, g, hg, hkg⟩ := register_sound fold tags k j hj
  exact hsd.inj hn hm (shortKey_fold_eq fold hf hg (hkf.symm.trans hkg)
    (hsd.2 n (List.mem_of_getElem? hn)) (hsd.2 m (List.mem_of_getElem? hm)))

/-- ... and the loader flags no duplicate. -/
theorem dups_nil_of_shortDistinct (fold : Str → Str) (tags : List Name) (hsd : ShortDistinct fold tags) :
    (Vocab.build fold tags).dups = [] := by
  apply List.eq_nil_iff_forall_not_mem.mpr
  intro d hd
  rw [build_dups] at hd
  rcases register_dups_spec fold tags 0 [] [] (by simp) d hd with h | ⟨p, n, j, h1, h2, h3, h4⟩
  · cases h
  · have : d = p := by omega
    subst this
    obtain ⟨_, m, hm, g, hg, hkg⟩ := register_sound fold tags _ j h4
    have hn2 := hsd.2 n (List.mem_of_getElem? h2)
    have hm2 := hsd.2 m (List.mem_of_getElem? hm)
    obtain ⟨hgne, hgs, hgv⟩ := mem_forms.mp hg
    -- g = [x], x the last component of m, x ≠ '#'
    have hg1 : ∃ x, g = [x] := by
      have := congrArg List.length hkg
      simp only [List.length_cons, List.length_nil, foldName_length] at this
      match g, this with
      | [x], _ => exact ⟨x, rfl⟩
    obtain ⟨x, rfl⟩ := hg1
    have hx : nameKey m = x := by rw [nameKey_suffix hgne hgs]; simp [nameKey]
    have hxv : x ≠ ['#'] := fun e => hgv (by rw [e])
    have hfx : fold (nameKey n) = fold x := by simpa [foldName] using hkg
    have hmv : m.getLast? ≠ some ['#'] := fun e => hxv (hx ▸ nameKey_of_getLast? e)
    have hnv : n.getLast? ≠ some ['#'] := by
      intro e
      apply hxv
      rw [← hx]; apply hm2
      rw [hx, ← hfx, nameKey_of_getLast? e]
    have : d = j := hsd.inj h2 hm (by simp [shortKey, hnv, hmv, foldName, hfx, hx])
    omega


/-- Under `TreeClosed`, a prefix of a suffix form is a suffix form of an ancestor (which is a tag). -/
theorem prefix_form {tags : List Name} (htc : TreeClosed tags) {pre g : Name} (hn : pre ++ g ∈ tags)
    (b : Nat) (hb1 : 1 ≤ b) (hb : b ≤ g.length) (hv : g.take b ≠ [['#']]) :
    ∃ a : Nat, tags[a]? = some (pre ++ g.take b) ∧ g.take b ∈ forms (pre ++ g.take b) := by
  have hne : g.take b ≠ [] := by
    intro h; have := congrArg List.length h
    rw [List.length_take] at this; simp only [List.length_nil] at this; omega
  have hmem : pre ++ g.take b ∈ tags :=
    htc.prefix_mem hn (by simp [hne]) ((List.prefix_append_right_inj pre).mpr (List.take_prefix b g))
  obtain ⟨a, ha⟩ := List.getElem?_of_mem hmem
  exact ⟨a, ha, mem_forms.mpr ⟨hne, List.suffix_append _ _, hv⟩⟩

/-- **Prefixes of a spelling are known.** For a registered tag `n` without `#` component, a suffix form
`n.drop j` and any case variant `f'` of it, the first `m` components of the folded spelling are a key
bound to (the index of) the ancestor `n.take (j+m)`; the whole spelling is bound to `n` itself.  This is
the `hknown` hypothesis of `remainder_verbatim`. -/
theorem prefixes_known (fold : Str → Str) (tags : List Name) (htc : TreeClosed tags)
    (hd : (Vocab.build fold tags).dups = []) (hwf : WF (Vocab.build fold tags))
    (i : Nat) (n : Name) (hi : tags[i]? = some n) (hv : ['#'] ∉ n) (j : Nat) (hj : j < n.length)
    (f' : Name) (hcase : foldName fold f' = foldName fold (n.drop j)) :
    (Vocab.build fold tags).table.get (foldName fold f') = some i ∧
    ∀ m, 1 ≤ m → m ≤ n.length - j → ∃ a, tags[a]? = some (n.take (j + m)) ∧
      (Vocab.build fold tags).table.get ((foldName fold f').take m) = some a := by
  have hnd : ∀ a, a ∉ (Vocab.build fold tags).dups := by simp [hd]
  have hsplit : n.take j ++ n.drop j = n := List.take_append_drop j n
  have hnov : ∀ m, (n.drop j).take m ≠ [['#']] := by
    intro m h
    apply hv
    have : ['#'] ∈ (n.drop j).take m := by rw [h]; simp
    exact List.mem_of_mem_drop (List.mem_of_mem_take this)
  constructor
  · rw [hcase]
    apply direct_hit fold tags i n hi (hnd i) hwf
    refine mem_forms.mpr ⟨?_, List.drop_suffix j n, ?_⟩
    · intro h; have := congrArg List.length h; simp at this; omega
    · have := hnov (n.drop j).length; rwa [List.take_length] at this
  · intro m hm1 hm
    have hn : n.take j ++ n.drop j ∈ tags := by rw [hsplit]; exact List.mem_of_getElem? hi
    obtain ⟨a, ha, hfa⟩ := prefix_form htc hn m hm1 (by simpa using hm) (hnov m)
    refine ⟨a, by rw [List.take_add]; exact ha, ?_⟩
    rw [hcase]
    have := direct_hit fold tags a _ ha (hnd a) hwf _ hfa
    simpa [foldName, List.map_take] using this

/-- Keys are closed under prefixes of length ≥ 2 (a prefix of length 1 may be the bare `#`). -/
theorem key_prefix (fold : Str → Str) (tags : List Name) (htc : TreeClosed tags)
    (hd : (Vocab.build fold tags).dups = []) (k : Name) (c : Nat)
    (h : (k, c) ∈ (Vocab.build fold tags).table) (b : Nat) (hb2 : 2 ≤ b) (hb : b ≤ k.length) :
    ∃ c', (k.take b, c') ∈ (Vocab.build fold tags).table := by
  obtain ⟨_, m, hm, g, hg, rfl⟩ := register_sound fold tags k c h
  obtain ⟨_, ⟨pre, rfl⟩, _⟩ := mem_forms.mp hg
  rw [foldName_length] at hb
  have hv : g.take b ≠ [['#']] := by
    intro e; have := congrArg List.length e; simp at this; omega
  obtain ⟨a, ha, hfa⟩ := prefix_form htc (List.mem_of_getElem? hm) b (by omega) hb hv
  refine ⟨a, ?_⟩
  have := registered_mem fold tags a _ ha (by simp [hd]) _ hfa
  simpa [foldName, List.map_take] using this

theorem get_none_of_prefix (fold : Str → Str) (tags : List Name) (htc : TreeClosed tags)
    (hd : (Vocab.build fold tags).dups = []) (k : Name) (b : Nat) (hb2 : 2 ≤ b) (hb : b ≤ k.length)
    (h : (Vocab.build fold tags).table.get (k.take b) = none) :
    (Vocab.build fold tags).table.get k = none := by
  cases hk : (Vocab.build fold tags).table.get k with
  | none => rfl
  | some c =>
    obtain ⟨c', hc'⟩ := key_prefix fold tags htc hd k c (get_some_mem _ _ _ hk) b hb2 hb
    exact absurd h (get_ne_none_of_mem _ _ _ hc')

theorem badTerm_none (tbl : Table) (pos : Nat) (l : Name) (h : ∀ c ∈ l, tbl.get [c] = none) :
    badTerm tbl pos l = none := by
  induction l generalizing pos with
  | nil => rfl
  | cons c cs ih =>
    simp only [badTerm, h c (by simp)]
    exact ih _ (fun x hx => h x (List.mem_cons_of_mem _ hx))

/-- the whole text is not a key when its first `|f'|+1` components are not -/
theorem whole_none_of_stop (fold : Str → Str) (tags : List Name) (htc : TreeClosed tags)
    (hd : (Vocab.build fold tags).dups = []) (n : Name) (j : Nat)
    (f' : Name) (hcase : foldName fold f' = foldName fold (n.drop j)) (e0 : Str) (es : Name)
    (hf1 : 1 ≤ f'.length)
    (hstop : (Vocab.build fold tags).table.get (foldName fold (n.drop j ++ [e0])) = none) :
    (Vocab.build fold tags).table.get (foldName fold (f' ++ e0 :: es)) = none := by
  have hw : foldName fold (f' ++ e0 :: es) = foldName fold f' ++ fold e0 :: foldName fold es := by
    simp [foldName]
  have : (foldName fold (f' ++ e0 :: es)).take (f'.length + 1) = foldName fold (n.drop j ++ [e0]) := by
    rw [hw, ← foldName_length fold f', List.take_add, List.take_left, List.drop_left]
    simp only [foldName] at hcase ⊢
    simp [hcase]
  apply get_none_of_prefix fold tags htc hd _ (f'.length + 1) (by omega) (by simp [foldName])
  rw [this]; exact hstop

/-- prefixes of a spelling of a `#`-free tag do not end in the placeholder -/
theorem take_last_ne_sharp (fold : Str → Str) (n : Name) (hfv : ∀ c ∈ n, fold c ≠ ['#']) (j m : Nat)
    (f' : Name) (hcase : foldName fold f' = foldName fold (n.drop j)) :
    ((foldName fold f').take m).getLast? ≠ some ['#'] := by
  intro h
  have hm := List.mem_of_getLast? h
  rw [hcase] at hm
  have hm2 := List.mem_of_mem_take hm
  simp only [foldName, List.mem_map] at hm2
  obtain ⟨c, hc, hfc⟩ := hm2
  exact hfv c (List.mem_of_mem_drop hc) hfc

/-- **Extension / value after any spelling of a tag (all cases), general stop.**  `f'` is a case variant
of the suffix form `n.drop j` of the registered tag `n` (index `i`); `e₀ :: es` is what follows.  If the
whole text is not a key and the walk does not continue from `f'` with `e₀` (`walkGet` answers `none`: the
prefix is unknown, or it ends in the placeholder), lookup stops at `n`. -/
theorem extension_cases_gen (fold : Str → Str) (tags : List Name) (htc : TreeClosed tags)
    (hd : (Vocab.build fold tags).dups = []) (hwf : WF (Vocab.build fold tags))
    (i : Nat) (n : Name) (hi : tags[i]? = some n) (hv : ['#'] ∉ n) (hfv : ∀ c ∈ n, fold c ≠ ['#'])
    (j : Nat) (hj : j < n.length)
    (f' : Name) (hcase : foldName fold f' = foldName fold (n.drop j)) (e0 : Str) (es : Name)
    (hnot : (Vocab.build fold tags).table.get (foldName fold (f' ++ e0 :: es)) = none)
    (hstop : walkGet (Vocab.build fold tags).table (foldName fold (n.drop j ++ [e0])) = none) :
    findComps (Vocab.build fold tags) fold (f' ++ e0 :: es) =
      match (Vocab.build fold tags).valueChild fold i with
      | some ch => .found ch ('/' :: joinSlash (e0 :: es))
      | none =>
        match badTerm (Vocab.build fold tags).table (joinLen f' + 1) (foldName fold (e0 :: es)) with
        | some (a, b, x) => .invalidParent a b x
        | none => .found i ('/' :: joinSlash (e0 :: es)) := by
  obtain ⟨hfull, hpre⟩ := prefixes_known fold tags htc hd hwf i n hi hv j hj f' hcase
  have hlen : f'.length = n.length - j := by
    have := congrArg List.length hcase; simpa [foldName] using this
  have hw : foldName fold (f' ++ e0 :: es) = foldName fold f' ++ fold e0 :: foldName fold es := by
    simp [foldName]
  have hstop' : walkGet (Vocab.build fold tags).table ((foldName fold (f' ++ e0 :: es)).take (f'.length + 1)) = none := by
    have : (foldName fold (f' ++ e0 :: es)).take (f'.length + 1) = foldName fold (n.drop j ++ [e0]) := by
      rw [hw, ← foldName_length fold f', List.take_add, List.take_left, List.drop_left]
      simp only [foldName] at hcase ⊢
      simp [hcase]
    rw [this]; exact hstop
  have hknown : ∀ m, 1 ≤ m → m ≤ f'.length →
      walkGet (Vocab.build fold tags).table ((foldName fold (f' ++ e0 :: es)).take m) =
        some (((Vocab.build fold tags).table.get ((foldName fold f').take m)).getD 0) := by
    intro m hm1 hm
    rw [hw, List.take_append_of_le_length (by rw [foldName_length]; exact hm),
      walkGet_eq_get _ _ (take_last_ne_sharp fold n hfv j m f' hcase)]
    obtain ⟨a, _, ha⟩ := hpre m hm1 (by omega)
    simp [ha]
  have := remainder_verbatim (Vocab.build fold tags) fold (f' ++ e0 :: es)
    (fun m => ((Vocab.build fold tags).table.get ((foldName fold f').take m)).getD 0) f'.length
    (by omega) (by simp) hnot hknown hstop'
  rw [this]
  have hek : ((Vocab.build fold tags).table.get ((foldName fold f').take f'.length)).getD 0 = i := by
    rw [← foldName_length fold f', List.take_length, hfull]; rfl
  simp only [hek, List.drop_left, List.take_left]
  have : (foldName fold (f' ++ e0 :: es)).drop f'.length = foldName fold (e0 :: es) := by
    rw [hw, ← foldName_length fold f', List.drop_left]; simp [foldName]
  rw [this] <;> rfl

/-- **Extension / value after any spelling of a tag (all cases).**  `f'` is a case variant of the suffix
form `n.drop j` of the registered tag `n` (index `i`); `e₀ :: es` is what follows.  If `e₀` does not
continue the form to a known key, lookup stops at `n`: it answers the `#` child of `n` when there is one,
the invalid-parent error when some remaining term is itself a tag, and `n` otherwise — in both positive
cases with the remainder `/e₀/…` exactly as written.  (`hfv`: no component of `n` folds to `#`.) -/
theorem extension_cases (fold : Str → Str) (tags : List Name) (htc : TreeClosed tags)
    (hd : (Vocab.build fold tags).dups = []) (hwf : WF (Vocab.build fold tags))
    (i : Nat) (n : Name) (hi : tags[i]? = some n) (hv : ['#'] ∉ n) (hfv : ∀ c ∈ n, fold c ≠ ['#'])
    (j : Nat) (hj : j < n.length)
    (f' : Name) (hcase : foldName fold f' = foldName fold (n.drop j)) (e0 : Str) (es : Name)
    (hstop : (Vocab.build fold tags).table.get (foldName fold (n.drop j ++ [e0])) = none) :
    findComps (Vocab.build fold tags) fold (f' ++ e0 :: es) =
      match (Vocab.build fold tags).valueChild fold i with
      | some ch => .found ch ('/' :: joinSlash (e0 :: es))
      | none =>
        match badTerm (Vocab.build fold tags).table (joinLen f' + 1) (foldName fold (e0 :: es)) with
        | some (a, b, x) => .invalidParent a b x
        | none => .found i ('/' :: joinSlash (e0 :: es)) := by
  have hlen : f'.length = n.length - j := by
    have := congrArg List.length hcase; simpa [foldName] using this
  exact extension_cases_gen fold tags htc hd hwf i n hi hv hfv j hj f' hcase e0 es
    (whole_none_of_stop fold tags htc hd n j f' hcase e0 es (by omega) hstop)
    (walkGet_none_of_get _ _ hstop)

/-- **Extension carried over verbatim** (closed form): `n` has no `#` child, the first extension term is
not a child of `n`, no extension term is itself a tag: any spelling of `n` followed by the extension
resolves to `n` with the extension as written. -/
theorem extension_resolves (fold : Str → Str) (tags : List Name) (htc : TreeClosed tags)
    (hd : (Vocab.build fold tags).dups = []) (hwf : WF (Vocab.build fold tags))
    (i : Nat) (n : Name) (hi : tags[i]? = some n) (hv : ['#'] ∉ n) (hfv : ∀ c ∈ n, fold c ≠ ['#'])
    (j : Nat) (hj : j < n.length)
    (f' : Name) (hcase : foldName fold f' = foldName fold (n.drop j)) (e0 : Str) (es : Name)
    (hstop : (Vocab.build fold tags).table.get (foldName fold (n.drop j ++ [e0])) = none)
    (hnoval : (Vocab.build fold tags).valueChild fold i = none)
    (hterms : ∀ c ∈ e0 :: es, (Vocab.build fold tags).table.get [fold c] = none) :
    findComps (Vocab.build fold tags) fold (f' ++ e0 :: es) = .found i ('/' :: joinSlash (e0 :: es)) := by
  rw [extension_cases fold tags htc hd hwf i n hi hv hfv j hj f' hcase e0 es hstop, hnoval]
  simp only
  rw [badTerm_none]
  intro c hc
  simp only [foldName, List.mem_map] at hc
  obtain ⟨c0, hc0, rfl⟩ := hc
  exact hterms c0 hc0

/-- **Value carried over verbatim**: `n` has the `#` child `ch`; any spelling of `n` followed by a value
(whose first term is not a child of `n`) resolves to `ch` with the value as written. -/
theorem value_resolves (fold : Str → Str) (tags : List Name) (htc : TreeClosed tags)
    (hd : (Vocab.build fold tags).dups = []) (hwf : WF (Vocab.build fold tags))
    (i : Nat) (n : Name) (hi : tags[i]? = some n) (hv : ['#'] ∉ n) (hfv : ∀ c ∈ n, fold c ≠ ['#'])
    (j : Nat) (hj : j < n.length)
    (f' : Name) (hcase : foldName fold f' = foldName fold (n.drop j)) (e0 : Str) (es : Name)
    (hstop : (Vocab.build fold tags).table.get (foldName fold (n.drop j ++ [e0])) = none)
    (ch : Nat) (hval : (Vocab.build fold tags).valueChild fold i = some ch) :
    findComps (Vocab.build fold tags) fold (f' ++ e0 :: es) = .found ch ('/' :: joinSlash (e0 :: es)) := by
  rw [extension_cases fold tags htc hd hwf i n hi hv hfv j hj f' hcase e0 es hstop, hval]

/-- the `#` child of the model is the tag `n/#` when that is a tag -/
theorem valueChild_of_tag (fold : Str → Str) (tags : List Name) (hd : (Vocab.build fold tags).dups = [])
    (hwf : WF (Vocab.build fold tags)) (i ch : Nat) (n : Name) (hi : tags[i]? = some n) (hne : n ≠ [])
    (hch : tags[ch]? = some (n ++ [['#']])) :
    (Vocab.build fold tags).valueChild fold i = some ch := by
  unfold Vocab.valueChild
  rw [build_name, hi]
  apply direct_hit fold tags ch _ hch (by simp [hd]) hwf
  refine mem_forms.mpr ⟨by simp, List.suffix_refl _, ?_⟩
  intro e; have := congrArg List.length e; simp at this
  exact hne this


theorem drop_mem_forms {n : Name} (hv : ['#'] ∉ n) {j : Nat} (hj : j < n.length) : n.drop j ∈ forms n := by
  refine mem_forms.mpr ⟨?_, List.drop_suffix j n, ?_⟩
  · intro h; have := congrArg List.length h; simp at this; omega
  · intro h; apply hv
    have : ['#'] ∈ n.drop j := by rw [h]; simp
    exact List.mem_of_mem_drop this

theorem drop_last {n : Name} {last : Str} (h : n.getLast? = some last) : n.drop (n.length - 1) = [last] := by
  obtain ⟨a, rfl⟩ := List.getLast?_eq_some_iff.mp h
  simp

/-- A key that extends a spelling of `n` by one component is a spelling of a child of `n`. -/
theorem child_key (fold : Str → Str) (tags : List Name) (htc : TreeClosed tags)
    (hd : (Vocab.build fold tags).dups = []) (hwf : WF (Vocab.build fold tags))
    (i : Nat) (n : Name) (hi : tags[i]? = some n) (hv : ['#'] ∉ n) (last : Str)
    (hlast : n.getLast? = some last) (hfold : fold last ≠ fold ['#']) (j : Nat) (hj : j < n.length)
    (e0 : Str) (c : Nat)
    (h : (foldName fold (n.drop j ++ [e0]), c) ∈ (Vocab.build fold tags).table) :
    ∃ x, fold x = fold e0 ∧ tags[c]? = some (n ++ [x]) := by
  have hnd : ∀ a, a ∉ (Vocab.build fold tags).dups := by simp [hd]
  obtain ⟨_, m, hm, h', hh', hk⟩ := register_sound fold tags _ c h
  simp only [foldName, List.map_append, List.map_cons, List.map_nil] at hk
  obtain ⟨h0, l2, rfl, hk0, hk2⟩ := List.map_eq_append_iff.mp hk.symm
  obtain ⟨x, rfl, hx⟩ := List.map_eq_singleton_iff.mp hk2
  obtain ⟨_, ⟨pre, hpre⟩, _⟩ := mem_forms.mp hh'
  have hlen0 : h0.length = n.length - j := by
    have := congrArg List.length hk0; simpa using this
  have h0ne : h0 ≠ [] := by
    intro e; rw [e] at hlen0; simp at hlen0; omega
  have hP : pre ++ h0 ∈ tags := by
    apply htc.prefix_mem (List.mem_of_getElem? hm) (by simp [h0ne])
    rw [← hpre, ← List.append_assoc]; exact List.prefix_append _ _
  obtain ⟨c', hc'⟩ := List.getElem?_of_mem hP
  have h0v : h0 ≠ [['#']] := by
    intro e
    rw [e] at hk0
    simp only [List.map_cons, List.map_nil] at hk0
    obtain ⟨y, hy, hfy⟩ := List.map_eq_singleton_iff.mp hk0.symm
    have hjl : j = n.length - 1 := by
      have := congrArg List.length hy; simp at this; omega
    rw [hjl, drop_last hlast] at hy
    simp only [List.cons.injEq, and_true] at hy
    exact hfold (hy ▸ hfy)
  have hf0 : h0 ∈ forms (pre ++ h0) := mem_forms.mpr ⟨h0ne, List.suffix_append _ _, h0v⟩
  have m1 := registered_mem fold tags c' _ hc' (hnd c') _ hf0
  have m2 := registered_mem fold tags i n hi (hnd i) _ (drop_mem_forms hv hj)
  simp only [foldName] at m1 m2
  rw [hk0] at m1
  have : c' = i := hwf _ _ _ m1 m2
  subst this
  have hPn : pre ++ h0 = n := by rw [hi] at hc'; exact (Option.some.inj hc').symm
  refine ⟨x, hx, ?_⟩
  rw [hm, ← hpre, ← List.append_assoc, hPn]

/-- ... and conversely every spelling of `n` extended by a child's name is a key. -/
theorem child_key_conv (fold : Str → Str) (tags : List Name) (hd : (Vocab.build fold tags).dups = [])
    (n : Name) (x e0 : Str) (hx : fold x = fold e0) (c : Nat) (hc : tags[c]? = some (n ++ [x]))
    (j : Nat) (hj : j < n.length) :
    (foldName fold (n.drop j ++ [e0]), c) ∈ (Vocab.build fold tags).table := by
  have hf : n.drop j ++ [x] ∈ forms (n ++ [x]) := by
    refine mem_forms.mpr ⟨by simp, ?_, ?_⟩
    · rw [← List.drop_append_of_le_length (by omega)]; exact List.drop_suffix _ _
    · intro e; have := congrArg List.length e; simp at this; omega
  have := registered_mem fold tags c _ hc (by simp [hd]) _ hf
  simpa [foldName, hx] using this

/-- **The stop condition does not depend on the spelling**: if `e₀` does not continue one suffix form of
`n` to a key, it does not continue any other (in particular the short and the long form). -/
theorem stop_transfer (fold : Str → Str) (tags : List Name) (htc : TreeClosed tags)
    (hd : (Vocab.build fold tags).dups = []) (hwf : WF (Vocab.build fold tags))
    (i : Nat) (n : Name) (hi : tags[i]? = some n) (hv : ['#'] ∉ n) (last : Str)
    (hlast : n.getLast? = some last) (hfold : fold last ≠ fold ['#']) (j j' : Nat) (hj : j < n.length)
    (hj' : j' < n.length) (e0 : Str)
    (hstop : (Vocab.build fold tags).table.get (foldName fold (n.drop j ++ [e0])) = none) :
    (Vocab.build fold tags).table.get (foldName fold (n.drop j' ++ [e0])) = none := by
  cases hk : (Vocab.build fold tags).table.get (foldName fold (n.drop j' ++ [e0])) with
  | none => rfl
  | some c =>
    obtain ⟨x, hx, hc⟩ := child_key fold tags htc hd hwf i n hi hv last hlast hfold j' hj' e0 c
      (get_some_mem _ _ _ hk)
    exact absurd hstop (get_ne_none_of_mem _ _ _ (child_key_conv fold tags hd n x e0 hx c hc j hj))

theorem badTerm_eq_none_iff (tbl : Table) (pos : Nat) (l : Name) :
    badTerm tbl pos l = none ↔ ∀ c ∈ l, tbl.get [c] = none := by
  refine ⟨?_, badTerm_none tbl pos l⟩
  induction l generalizing pos with
  | nil => simp
  | cons c cs ih =>
    intro h
    simp only [badTerm] at h
    cases hc : tbl.get [c] with
    | some e => simp [hc] at h
    | none =>
      simp only [hc] at h
      intro x hx
      rcases List.mem_cons.mp hx with rfl | hx
      · exact hc
      · exact ih _ h x hx

/-- the stop condition of the walk does not depend on the spelling either -/
theorem stop_transfer_walk (fold : Str → Str) (tags : List Name) (htc : TreeClosed tags)
    (hd : (Vocab.build fold tags).dups = []) (hwf : WF (Vocab.build fold tags))
    (i : Nat) (n : Name) (hi : tags[i]? = some n) (hv : ['#'] ∉ n) (last : Str)
    (hlast : n.getLast? = some last) (hfold : fold last ≠ fold ['#']) (j j' : Nat) (hj : j < n.length)
    (hj' : j' < n.length) (e0 : Str)
    (hstop : walkGet (Vocab.build fold tags).table (foldName fold (n.drop j ++ [e0])) = none) :
    walkGet (Vocab.build fold tags).table (foldName fold (n.drop j' ++ [e0])) = none := by
  rcases walkGet_cases _ _ hstop with h | ⟨h1, _⟩
  · exact walkGet_none_of_get _ _
      (stop_transfer fold tags htc hd hwf i n hi hv last hlast hfold j j' hj hj' e0 h)
  · apply walkGet_sharp
    · simpa [foldName] using h1
    · simp [foldName]; omega

/-- **Forms with value / extension, general stop.** As `forms_roundtrip_remainder`, with the stop of the
walk (`walkGet`) and the three texts known not to be keys. -/
theorem forms_roundtrip_remainder_gen (fold : Str → Str) (tags : List Name) (htc : TreeClosed tags)
    (hd : (Vocab.build fold tags).dups = []) (hwf : WF (Vocab.build fold tags))
    (i : Nat) (n : Name) (hi : tags[i]? = some n) (hv : ['#'] ∉ n) (hfv : ∀ c ∈ n, fold c ≠ ['#'])
    (last : Str)
    (hlast : n.getLast? = some last) (hfold : fold last ≠ fold ['#']) (j : Nat) (hj : j < n.length)
    (f' : Name) (hcase : foldName fold f' = foldName fold (n.drop j)) (e0 : Str) (es : Name)
    (hstop : walkGet (Vocab.build fold tags).table (foldName fold (n.drop j ++ [e0])) = none)
    (s l : Name) (hs : foldName fold s = foldName fold [last]) (hl : foldName fold l = foldName fold n)
    (hnotF : (Vocab.build fold tags).table.get (foldName fold (f' ++ e0 :: es)) = none)
    (hnotS : (Vocab.build fold tags).table.get (foldName fold (s ++ e0 :: es)) = none)
    (hnotL : (Vocab.build fold tags).table.get (foldName fold (l ++ e0 :: es)) = none)
    (i' : Nat) (r : Str)
    (hres : findComps (Vocab.build fold tags) fold (f' ++ e0 :: es) = .found i' r) :
    r = '/' :: joinSlash (e0 :: es) ∧
    ((Vocab.build fold tags).valueChild fold i = some i' ∨
      ((Vocab.build fold tags).valueChild fold i = none ∧ i' = i)) ∧
    findComps (Vocab.build fold tags) fold (s ++ e0 :: es) = .found i' r ∧
    findComps (Vocab.build fold tags) fold (l ++ e0 :: es) = .found i' r := by
  have hn0 : 0 < n.length := by omega
  have hs0 := stop_transfer_walk fold tags htc hd hwf i n hi hv last hlast hfold j (n.length - 1) hj (by omega) e0 hstop
  have hl0 := stop_transfer_walk fold tags htc hd hwf i n hi hv last hlast hfold j 0 hj hn0 e0 hstop
  have A := extension_cases_gen fold tags htc hd hwf i n hi hv hfv j hj f' hcase e0 es hnotF hstop
  have B := extension_cases_gen fold tags htc hd hwf i n hi hv hfv (n.length - 1) (by omega) s
    (by rw [drop_last hlast]; exact hs) e0 es hnotS hs0
  have C := extension_cases_gen fold tags htc hd hwf i n hi hv hfv 0 hn0 l (by simpa using hl) e0 es hnotL hl0
  cases hvc : (Vocab.build fold tags).valueChild fold i with
  | some ch =>
    simp only [hvc] at A B C
    rw [A] at hres
    injection hres with h1 h2
    subst h1; subst h2
    exact ⟨rfl, Or.inl rfl, B, C⟩
  | none =>
    simp only [hvc] at A B C
    by_cases hall : ∀ c ∈ foldName fold (e0 :: es), (Vocab.build fold tags).table.get [c] = none
    · rw [badTerm_none _ _ _ hall] at A B C
      simp only at A B C
      rw [A] at hres
      injection hres with h1 h2
      subst h1; subst h2
      exact ⟨rfl, Or.inr ⟨rfl, rfl⟩, B, C⟩
    · exfalso
      cases hb : badTerm (Vocab.build fold tags).table (joinLen f' + 1) (foldName fold (e0 :: es)) with
      | none => exact hall ((badTerm_eq_none_iff _ _ _).mp hb)
      | some x =>
        rw [hb] at A
        rw [A] at hres
        cases hres

/-- **Forms with value / extension.** Whenever a spelling `f'` (case variant of a suffix form of `n`)
followed by `e₀/…` resolves, the short form and the long form of `n` (in any case) followed by the same
text resolve to the same node with the same remainder, which is the text as written; the node is the
`#` child of `n` when there is one and `n` otherwise. -/
theorem forms_roundtrip_remainder (fold : Str → Str) (tags : List Name) (htc : TreeClosed tags)
    (hd : (Vocab.build fold tags).dups = []) (hwf : WF (Vocab.build fold tags))
    (i : Nat) (n : Name) (hi : tags[i]? = some n) (hv : ['#'] ∉ n) (hfv : ∀ c ∈ n, fold c ≠ ['#'])
    (last : Str)
    (hlast : n.getLast? = some last) (hfold : fold last ≠ fold ['#']) (j : Nat) (hj : j < n.length)
    (f' : Name) (hcase : foldName fold f' = foldName fold (n.drop j)) (e0 : Str) (es : Name)
    (hstop : (Vocab.build fold tags).table.get (foldName fold (n.drop j ++ [e0])) = none)
    (s l : Name) (hs : foldName fold s = foldName fold [last]) (hl : foldName fold l = foldName fold n)
    (i' : Nat) (r : Str)
    (hres : findComps (Vocab.build fold tags) fold (f' ++ e0 :: es) = .found i' r) :
    r = '/' :: joinSlash (e0 :: es) ∧
    ((Vocab.build fold tags).valueChild fold i = some i' ∨
      ((Vocab.build fold tags).valueChild fold i = none ∧ i' = i)) ∧
    findComps (Vocab.build fold tags) fold (s ++ e0 :: es) = .found i' r ∧
    findComps (Vocab.build fold tags) fold (l ++ e0 :: es) = .found i' r := by
  have hn0 : 0 < n.length := by omega
  have hs0 := stop_transfer fold tags htc hd hwf i n hi hv last hlast hfold j (n.length - 1) hj (by omega) e0 hstop
  have hl0 := stop_transfer fold tags htc hd hwf i n hi hv last hlast hfold j 0 hj hn0 e0 hstop
  have hlenF : f'.length = n.length - j := by
    have := congrArg List.length hcase; simpa [foldName] using this
  have hlenS : s.length = 1 := by
    have := congrArg List.length hs; simpa [foldName] using this
  have hlenL : l.length = n.length := by
    have := congrArg List.length hl; simpa [foldName] using this
  exact forms_roundtrip_remainder_gen fold tags htc hd hwf i n hi hv hfv last hlast hfold j hj f' hcase e0 es
    (walkGet_none_of_get _ _ hstop) s l hs hl
    (whole_none_of_stop fold tags htc hd n j f' hcase e0 es (by omega) hstop)
    (whole_none_of_stop fold tags htc hd n (n.length - 1) s (by rw [drop_last hlast]; exact hs) e0 es (by omega) hs0)
    (whole_none_of_stop fold tags htc hd n 0 l (by simpa using hl) e0 es (by omega) hl0)
    i' r hres

theorem joinSlash_append (a b : Name) (ha : a ≠ []) (hb : b ≠ []) :
    joinSlash (a ++ b) = joinSlash a ++ '/' :: joinSlash b := by
  induction a with
  | nil => exact absurd rfl ha
  | cons c cs ih =>
    cases cs with
    | nil =>
      cases b with
      | nil => exact absurd rfl hb
      | cons d ds => simp [joinSlash]
    | cons d ds =>
      have := ih (by simp)
      simp only [List.cons_append] at this ⊢
      simp [joinSlash, this]

/-- general-stop version of `short_long_fixpoint` (the stop of the walk, the three texts not keys) -/
theorem short_long_fixpoint_gen (fold : Str → Str) (tags : List Name) (htc : TreeClosed tags)
    (hd : (Vocab.build fold tags).dups = []) (hwf : WF (Vocab.build fold tags))
    (hsharp : ∀ x, fold x = fold ['#'] → x = ['#']) (hfs : fold ['#'] = ['#'])
    (i : Nat) (n : Name) (hi : tags[i]? = some n) (hv : ['#'] ∉ n) (hns : NoSlash n)
    (j : Nat) (hj : j < n.length)
    (f' : Name) (hcase : foldName fold f' = foldName fold (n.drop j)) (e0 : Str) (es : Name)
    (hes : NoSlash (e0 :: es))
    (hstop : walkGet (Vocab.build fold tags).table (foldName fold (n.drop j ++ [e0])) = none)
    (hnotF : (Vocab.build fold tags).table.get (foldName fold (f' ++ e0 :: es)) = none)
    (hnotS : ∀ last, n.getLast? = some last →
      (Vocab.build fold tags).table.get (foldName fold ([last] ++ e0 :: es)) = none)
    (hnotL : (Vocab.build fold tags).table.get (foldName fold (n ++ e0 :: es)) = none)
    (i' : Nat) (r : Str)
    (hres : findComps (Vocab.build fold tags) fold (f' ++ e0 :: es) = .found i' r) :
    find (Vocab.build fold tags) fold ((Vocab.build fold tags).shortName i' ++ r) = .found i' r ∧
    find (Vocab.build fold tags) fold ((Vocab.build fold tags).longName i' ++ r) = .found i' r := by
  have hnne : n ≠ [] := by intro e; subst e; simp at hj
  obtain ⟨last, hlast⟩ : ∃ last, n.getLast? = some last := by
    cases h : n.getLast? with
    | none => exact absurd (List.getLast?_eq_none_iff.mp h) hnne
    | some x => exact ⟨x, rfl⟩
  have hlm : last ∈ n := List.mem_of_getLast? hlast
  have hlv : last ≠ ['#'] := fun e => hv (e ▸ hlm)
  have hfold : fold last ≠ fold ['#'] := fun e => hlv (hsharp _ e)
  have hfv : ∀ c ∈ n, fold c ≠ ['#'] := by
    intro c hc e
    exact hv ((hsharp c (by rw [e, hfs])) ▸ hc)
  obtain ⟨hr, hnode, hS, hL⟩ := forms_roundtrip_remainder_gen fold tags htc hd hwf i n hi hv hfv last hlast hfold
    j hj f' hcase e0 es hstop [last] n rfl rfl hnotF (hnotS last hlast) hnotL i' r hres
  -- the name of the answered node is `n` or `n/#`
  have hname : (Vocab.build fold tags).name i' = n ∨ (Vocab.build fold tags).name i' = n ++ [['#']] := by
    rcases hnode with h | ⟨_, h⟩
    · right
      unfold Vocab.valueChild at h
      rw [build_name, hi] at h
      simp only [Option.getD_some] at h
      have h' : (Vocab.build fold tags).table.get (foldName fold (n.drop 0 ++ [['#']])) = some i' := by
        simpa using h
      obtain ⟨x, hx, hc⟩ := child_key fold tags htc hd hwf i n hi hv last hlast hfold 0 (by omega) ['#'] i'
        (get_some_mem _ _ _ h')
      rw [build_name, hc, hsharp x hx]; rfl
    · left; rw [h, build_name, hi]; rfl
  have hshort : (Vocab.build fold tags).shortName i' = last := by
    unfold Vocab.shortName
    rcases hname with h | h <;> rw [h]
    · simp [hlast, hlv]
    · simp [hlast]
  have hlong : (Vocab.build fold tags).longName i' = joinSlash n := by
    unfold Vocab.longName
    rcases hname with h | h <;> rw [h]
    · have : n.getLast? ≠ some ['#'] := by rw [hlast]; simpa using hlv
      simp [this]
    · simp
  have hnsS : NoSlash ([last] ++ e0 :: es) := by
    intro c hc
    rcases List.mem_append.mp hc with h | h
    · simp only [List.mem_singleton] at h; subst h; exact hns _ hlm
    · exact hes c h
  have hnsL : NoSlash (n ++ e0 :: es) := by
    intro c hc
    rcases List.mem_append.mp hc with h | h
    · exact hns c h
    · exact hes c h
  constructor
  · rw [hshort, hr, ← hr, ← hS, ← find_text _ _ _ (by simp) hnsS, hr]
    rfl
  · rw [hlong, hr, ← joinSlash_append n (e0 :: es) hnne (by simp), ← hr, ← hL,
      find_text _ _ _ (by simp) hnsL]

/-- **`long(short t) = long t`, `short(long t) = short t`, with value or extension.**  If any spelling
of `n` followed by `/e₀/…` resolves to `(node, remainder)`, then the texts `short_tag` and `long_tag`
built from that result (`shortName node ++ remainder`, `longName node ++ remainder`) resolve again to the
same `(node, remainder)` — so converting them to long / short form gives the same strings again.
`hsharp`, `hfs`: only `#` folds to `#`. -/
theorem short_long_fixpoint (fold : Str → Str) (tags : List Name) (htc : TreeClosed tags)
    (hd : (Vocab.build fold tags).dups = []) (hwf : WF (Vocab.build fold tags))
    (hsharp : ∀ x, fold x = fold ['#'] → x = ['#']) (hfs : fold ['#'] = ['#'])
    (i : Nat) (n : Name) (hi : tags[i]? = some n) (hv : ['#'] ∉ n) (hns : NoSlash n)
    (j : Nat) (hj : j < n.length)
    (f' : Name) (hcase : foldName fold f' = foldName fold (n.drop j)) (e0 : Str) (es : Name)
    (hes : NoSlash (e0 :: es))
    (hstop : (Vocab.build fold tags).table.get (foldName fold (n.drop j ++ [e0])) = none)
    (i' : Nat) (r : Str)
    (hres : findComps (Vocab.build fold tags) fold (f' ++ e0 :: es) = .found i' r) :
    find (Vocab.build fold tags) fold ((Vocab.build fold tags).shortName i' ++ r) = .found i' r ∧
    find (Vocab.build fold tags) fold ((Vocab.build fold tags).longName i' ++ r) = .found i' r := by
  have hlenF : f'.length = n.length - j := by
    have := congrArg List.length hcase; simpa [foldName] using this
  have hstops : ∀ last, n.getLast? = some last → ∀ j', j' < n.length →
      (Vocab.build fold tags).table.get (foldName fold (n.drop j' ++ [e0])) = none := by
    intro last hlast j' hj'
    have hlv : last ≠ ['#'] := fun e => hv (e ▸ List.mem_of_getLast? hlast)
    exact stop_transfer fold tags htc hd hwf i n hi hv last hlast (fun e => hlv (hsharp _ e)) j j' hj hj' e0 hstop
  obtain ⟨last0, hlast0⟩ : ∃ last, n.getLast? = some last := by
    cases h : n.getLast? with
    | none => rw [List.getLast?_eq_none_iff] at h; subst h; simp at hj
    | some x => exact ⟨x, rfl⟩
  exact short_long_fixpoint_gen fold tags htc hd hwf hsharp hfs i n hi hv hns j hj f' hcase e0 es hes
    (walkGet_none_of_get _ _ hstop)
    (whole_none_of_stop fold tags htc hd n j f' hcase e0 es (by omega) hstop)
    (fun last hlast => whole_none_of_stop fold tags htc hd n (n.length - 1) [last]
      (by rw [drop_last hlast]) e0 es (by simp) (hstops last hlast (n.length - 1) (by omega)))
    (whole_none_of_stop fold tags htc hd n 0 n (by simp) e0 es (by omega) (hstops last0 hlast0 0 (by omega)))
    i' r hres

/-- **No aliasing.** Under `WF`, a text whose folded components are a key resolves to the one registered
tag that has this folded spelling among its suffix forms: two different registered tags never share a
spelling. -/
theorem no_aliasing (fold : Str → Str) (tags : List Name) (hwf : WF (Vocab.build fold tags))
    (comps : Name) (i : Nat)
    (hget : (Vocab.build fold tags).table.get (foldName fold comps) = some i) :
    (∃ r, findComps (Vocab.build fold tags) fold comps = .found i r) ∧
    (i ∉ (Vocab.build fold tags).dups ∧
      ∃ n, tags[i]? = some n ∧ ∃ f ∈ forms n, foldName fold comps = foldName fold f) ∧
    (∀ j m g, tags[j]? = some m → j ∉ (Vocab.build fold tags).dups → g ∈ forms m →
      foldName fold g = foldName fold comps → j = i) := by
  refine ⟨?_, register_sound fold tags _ i (get_some_mem _ _ _ hget), ?_⟩
  · unfold findComps
    simp only [hget]
    exact ⟨_, rfl⟩
  · intro j m g hj hnd hg he
    have := direct_hit fold tags j m hj hnd hwf g hg
    rw [he, hget] at this
    exact (Option.some.inj this).symm


/-! non-vacuity of the growth theorems: vocabulary `A, A/B, A/C, A/C/#` (fold = identity) -/
section NonVacuity
def exTags : List Name := [[['A']], [['A'], ['B']], [['A'], ['C']], [['A'], ['C'], ['#']]]

example : TreeClosed exTags := by decide
example : ShortDistinct id exTags := by decide
example : ¬ TreeClosed [[['A'], ['B']]] := by decide
example : ¬ ShortDistinct id [[['A'], ['B']], [['C'], ['B']]] := by decide

theorem exTC : TreeClosed exTags := by decide
theorem exSD : ShortDistinct id exTags := by decide

/-- the hypotheses of `extension_resolves` hold for `B/X/Y` (spelling `B` of `A/B`, extension `X/Y`) -/
example : findComps (Vocab.build id exTags) id ([['B']] ++ ['X'] :: [['Y']]) =
    .found 1 ('/' :: joinSlash (['X'] :: [['Y']])) :=
  extension_resolves id exTags exTC (dups_nil_of_shortDistinct id exTags exSD)
    (wf_of_shortDistinct id exTags exSD) 1 [['A'], ['B']] rfl (by decide) (by decide) 1 (by decide) [['B']] rfl
    ['X'] [['Y']] (by decide) (by decide) (by decide)

/-- ... of `value_resolves` for `C/12` (spelling `C` of `A/C`, which has the `#` child 3) -/
example : findComps (Vocab.build id exTags) id ([['C']] ++ ['1', '2'] :: []) =
    .found 3 ('/' :: joinSlash (['1', '2'] :: [])) :=
  value_resolves id exTags exTC (dups_nil_of_shortDistinct id exTags exSD)
    (wf_of_shortDistinct id exTags exSD) 2 [['A'], ['C']] rfl (by decide) (by decide) 1 (by decide) [['C']] rfl
    ['1', '2'] [] (by decide) 3 (by decide)

/-- ... and of `short_long_fixpoint`: `C/12` ↦ node 3, remainder `/12`; short and long text resolve back -/
example : find (Vocab.build id exTags) id ((Vocab.build id exTags).shortName 3 ++ ['/', '1', '2']) =
      .found 3 ['/', '1', '2'] ∧
    find (Vocab.build id exTags) id ((Vocab.build id exTags).longName 3 ++ ['/', '1', '2']) =
      .found 3 ['/', '1', '2'] :=
  short_long_fixpoint id exTags exTC (dups_nil_of_shortDistinct id exTags exSD)
    (wf_of_shortDistinct id exTags exSD) (fun _ h => h) rfl 2 [['A'], ['C']] rfl (by decide) (by unfold NoSlash; decide) 1
    (by decide) [['C']] rfl ['1', '2'] [] (by unfold NoSlash; decide) (by decide) 3 ['/', '1', '2'] (by decide)
end NonVacuity

end HedVerif.C03

/-! ## C03, bulk conversion (`df_util.convert_to_form`, `HedString.get_as_short/get_as_long`) -/

namespace HedVerif.Schema

/-! ### `splitSlash` and `joinSlash` are inverse -/

theorem splitSlash_go_ne_nil (cur s : Str) : splitSlash.go cur s ≠ [] := by
  induction s generalizing cur with
  | nil => simp [splitSlash.go]
  | cons c cs ih =>
    simp only [splitSlash.go]
    split
    · simp
    · exact ih _

theorem splitSlash_ne_nil (s : Str) : splitSlash s ≠ [] := splitSlash_go_ne_nil [] s

theorem joinSlash_cons (a : Str) (l : Name) (h : l ≠ []) :
    joinSlash (a :: l) = a ++ '/' :: joinSlash l := by
  cases l with
  | nil => exact absurd rfl h
  | cons b bs => rfl

theorem joinSlash_go (cur s : Str) : joinSlash (splitSlash.go cur s) = cur.reverse ++ s := by
  induction s generalizing cur with
  | nil => simp [splitSlash.go, joinSlash]
  | cons c cs ih =>
    simp only [splitSlash.go]
    split
    · rename_i h
      have hc : c = '/' := by simpa using h
      rw [joinSlash_cons _ _ (splitSlash_go_ne_nil _ _), ih]
      simp [hc]
    · rw [ih]; simp

theorem joinSlash_splitSlash (s : Str) : joinSlash (splitSlash s) = s := by
  unfold splitSlash
  simpa using joinSlash_go [] s

theorem splitSlash_go_noSlash (cur s : Str) (hc : '/' ∉ cur) : NoSlash (splitSlash.go cur s) := by
  induction s generalizing cur with
  | nil =>
    intro c hc'
    simp only [splitSlash.go, List.mem_singleton] at hc'
    subst hc'
    simpa using hc
  | cons x xs ih =>
    simp only [splitSlash.go]
    split
    · intro c hc'
      simp only [List.mem_cons] at hc'
      rcases hc' with rfl | h
      · simpa using hc
      · exact ih [] (by simp) c h
    · rename_i h
      apply ih
      intro hm
      simp only [List.mem_cons] at hm
      rcases hm with rfl | hm
      · simp at h
      · exact hc hm

theorem splitSlash_noSlash (s : Str) : NoSlash (splitSlash s) := splitSlash_go_noSlash [] s (by simp)

/-! ### inversion of the walk and of a positive lookup -/

theorem walk_inv (tbl : Table) (w : Name) : ∀ (fuel : Nat) (cur : Option Nat) (k0 e k : Nat),
    walk tbl w fuel cur k0 = some (e, k) →
    k0 ≤ k ∧ (k = k0 → cur = some e) ∧ (k0 < k → walkGet tbl (w.take k) = some e ∧ k ≤ w.length) ∧
    (k < w.length → k - k0 < fuel → walkGet tbl (w.take (k + 1)) = none) := by
  intro fuel
  induction fuel with
  | zero =>
    intro cur k0 e k h
    cases cur with
    | none => simp [walk] at h
    | some c =>
      simp only [walk, Option.map_some, Option.some.injEq, Prod.mk.injEq] at h
      obtain ⟨rfl, rfl⟩ := h
      exact ⟨Nat.le_refl _, fun _ => rfl, fun h => absurd h (Nat.lt_irrefl _), fun _ h => by omega⟩
  | succ fuel ih =>
    intro cur k0 e k h
    simp only [walk] at h
    split at h
    · rename_i hge
      cases cur with
      | none => simp at h
      | some c =>
        simp only [Option.map_some, Option.some.injEq, Prod.mk.injEq] at h
        obtain ⟨rfl, rfl⟩ := h
        exact ⟨Nat.le_refl _, fun _ => rfl, fun h => absurd h (Nat.lt_irrefl _), fun h _ => by omega⟩
    · rename_i hlt
      split at h
      · rename_i e' he'
        obtain ⟨a, b, c, d⟩ := ih (some e') (k0 + 1) e k h
        refine ⟨by omega, fun hk => by omega, ?_, fun h1 h2 => d h1 (by omega)⟩
        intro _
        by_cases hk : k = k0 + 1
        · have := b hk
          simp only [Option.some.injEq] at this
          subst this; subst hk
          exact ⟨he', by omega⟩
        · exact c (by omega)
      · rename_i hnone
        cases cur with
        | none => simp at h
        | some c =>
          simp only [Option.map_some, Option.some.injEq, Prod.mk.injEq] at h
          obtain ⟨rfl, rfl⟩ := h
          exact ⟨Nat.le_refl _, fun _ => rfl, fun h => absurd h (Nat.lt_irrefl _), fun _ _ => hnone⟩

/-- What a positive answer looks like: the node comes out of the dictionary, and the remainder is empty,
the literal `/#`, or the text from one of its slashes on. -/
theorem found_inv (v : Vocab) (fold : Str → Str) (comps : Name) (i : Nat) (r : Str)
    (h : findComps v fold comps = .found i r) :
    (∃ key, v.table.get key = some i) ∧
    (r = [] ∨ r = ['/', '#'] ∨ ∃ k, 0 < k ∧ k < comps.length ∧ r = '/' :: joinSlash (comps.drop k)) := by
  unfold findComps at h
  simp only at h
  split at h
  · rename_i e he
    injection h with h1 h2
    subst h1
    refine ⟨⟨_, he⟩, ?_⟩
    subst h2
    split
    · right; left; rfl
    · left; rfl
  · rename_i hnone
    split at h
    · cases h
    · rename_i e k hw
      obtain ⟨_, hk0, hk1, _⟩ := walk_inv _ _ _ _ _ _ _ hw
      have hkpos : 0 < k := by
        rcases Nat.eq_zero_or_pos k with h0 | h0
        · have := hk0 h0; cases this
        · exact h0
      have hget := (walkGet_some _ _ _ (hk1 hkpos).1).1
      have hrem : ∀ r', r' = (if (comps.drop k).isEmpty then [] else '/' :: joinSlash (comps.drop k)) →
          (r' = [] ∨ r' = ['/', '#'] ∨ ∃ k, 0 < k ∧ k < comps.length ∧ r' = '/' :: joinSlash (comps.drop k)) := by
        intro r' hr'
        by_cases hd : (comps.drop k).isEmpty = true
        · left; simp [hr', hd]
        · right; right
          refine ⟨k, hkpos, ?_, by simp [hr', hd]⟩
          have : comps.drop k ≠ [] := by simpa using hd
          have := List.length_pos_iff.mpr this
          simp at this; omega
      split at h
      · rename_i ch hch
        split at h
        · injection h with h1 h2
          subst h1; subst h2
          exact ⟨⟨_, hget⟩, Or.inl rfl⟩
        · rename_i hne
          injection h with h1 h2
          subst h1
          exact ⟨⟨_, hch⟩, hrem _ (by simp [← h2, hne])⟩
      · split at h
        · cases h
        · injection h with h1 h2
          subst h1
          exact ⟨⟨_, hget⟩, hrem _ h2.symm⟩

end HedVerif.Schema

namespace HedVerif.C03
open HedVerif.Schema

/-! ### vocabulary hypotheses of the bulk theorems -/

/-- The well-formedness conditions under which bulk conversion is proved: `TreeClosed`, `ShortDistinct`
(hence `WF` and no duplicates), printable names (`cleanNamesB`, evaluated by the driver), and a `fold`
for which only `#` folds to `#`. -/
structure BulkOK (fold : Str → Str) (tags : List Name) : Prop where
  tc : TreeClosed tags
  sd : ShortDistinct fold tags
  clean : cleanNamesB tags = true
  sharp : ∀ x, fold x = fold ['#'] → x = ['#']
  foldSharp : fold ['#'] = ['#']

theorem cleanComp_spec {c : Str} (h : cleanComp c = true) :
    c ≠ [] ∧ (∀ ch ∈ c, Tok.isDelim ch = false ∧ ch ≠ '/' ∧ ch ≠ ':') ∧
    c.head? ≠ some ' ' ∧ c.getLast? ≠ some ' ' := by
  simp only [cleanComp, Bool.and_eq_true, Bool.not_eq_true', List.all_eq_true, bne_iff_ne, ne_eq,
    List.isEmpty_eq_false_iff] at h
  obtain ⟨⟨⟨h1, h2⟩, h3⟩, h4⟩ := h
  exact ⟨h1, fun ch hch => by have := h2 ch hch; simp_all, h3, h4⟩

theorem clean_of {tags : List Name} (h : cleanNamesB tags = true) {n : Name} (hn : n ∈ tags) :
    n ≠ [] ∧ ['#'] ∉ n.dropLast ∧ ∀ c ∈ n, cleanComp c = true := by
  simp only [cleanNamesB, List.all_eq_true, Bool.and_eq_true, Bool.not_eq_true',
    List.isEmpty_eq_false_iff] at h
  obtain ⟨⟨h1, h2⟩, h3⟩ := h n hn
  refine ⟨h1, ?_, h3⟩
  intro hm
  have : n.dropLast.contains ['#'] = true := by simpa using hm
  rw [this] at h2; cases h2

theorem noSlash_of_clean {n : Name} (h : ∀ c ∈ n, cleanComp c = true) : NoSlash n := by
  intro c hc hm
  exact ((cleanComp_spec (h c hc)).2.1 '/' hm).2.1 rfl

theorem mem_of_dropLast_or_last {α} {n : List α} {x : α} (hx : x ∈ n) :
    x ∈ n.dropLast ∨ n.getLast? = some x := by
  induction n with
  | nil => cases hx
  | cons a l ih =>
    cases l with
    | nil => simp at hx; subst hx; right; simp
    | cons b bs =>
      simp only [List.mem_cons] at hx
      rcases hx with rfl | hx
      · left; simp
      · rcases ih (by simpa using hx) with h | h
        · left; simp only [List.dropLast_cons₂]; exact List.mem_cons_of_mem _ h
        · right; simpa [List.getLast?_cons_cons] using h

/-- a form of a `#` node has at least two components -/
theorem form_sharp_len {f n : Name} (hf : f ∈ forms n) (hl : n.getLast? = some ['#']) : 2 ≤ f.length := by
  obtain ⟨hne, hs, hv⟩ := mem_forms.mp hf
  have hfl := (getLast?_suffix hne hs).symm.trans hl
  match f, hne, hv, hfl with
  | [x], _, hv, hfl => simp at hfl; subst hfl; exact absurd rfl hv
  | _ :: _ :: _, _, _, _ => simp

/-- a key has no placeholder among its components other than the last one -/
theorem get_none_of_interior_sharp (fold : Str → Str) (tags : List Name) (H : BulkOK fold tags) (k : Name)
    (h : ['#'] ∈ k.dropLast) : (Vocab.build fold tags).table.get k = none := by
  cases hk : (Vocab.build fold tags).table.get k with
  | none => rfl
  | some c =>
    exfalso
    obtain ⟨_, n, hn, f, hf, rfl⟩ := register_sound fold tags k c (get_some_mem _ _ _ hk)
    obtain ⟨hfne, ⟨pre, hpre⟩, _⟩ := mem_forms.mp hf
    obtain ⟨_, hsl, _⟩ := clean_of H.clean (List.mem_of_getElem? hn)
    have e1 : (foldName fold f).dropLast = foldName fold f.dropLast := by
      simp [foldName, List.dropLast_eq_take, List.map_take]
    rw [e1] at h
    simp only [foldName, List.mem_map] at h
    obtain ⟨x, hx, hfx⟩ := h
    have hxs := H.sharp x (by rw [hfx, H.foldSharp])
    subst hxs
    apply hsl
    rw [← hpre, List.dropLast_append_of_ne_nil hfne]
    exact List.mem_append_right _ hx

/-- **Fixpoint of a tag, every text** (full strength, after fix bb9eaaf). Whatever text resolved to
`(node, remainder)`, the short and the long text built from that answer resolve to the same
`(node, remainder)`.  (`legacy_walk_counterexample`: false for the walk before the fix.) -/
theorem tag_fix (fold : Str → Str) (tags : List Name) (H : BulkOK fold tags) (clean : Str)
    (i : Nat) (r : Str)
    (h : find (Vocab.build fold tags) fold clean = .found i r) :
    find (Vocab.build fold tags) fold ((Vocab.build fold tags).shortName i ++ r) = .found i r ∧
    find (Vocab.build fold tags) fold ((Vocab.build fold tags).longName i ++ r) = .found i r := by
  have hwf := wf_of_shortDistinct fold tags H.sd
  have hd := dups_nil_of_shortDistinct fold tags H.sd
  have hnd : ∀ a, a ∉ (Vocab.build fold tags).dups := by simp [hd]
  unfold find at h
  generalize hcomps : splitSlash clean = comps at h
  have hcns : NoSlash comps := hcomps ▸ splitSlash_noSlash clean
  have h0 := h
  unfold findComps at h
  simp only at h
  split at h
  · -- direct hit
    rename_i e hget
    injection h with h1 h2
    subst h1
    obtain ⟨_, n, hn, f, hf, hkf⟩ := register_sound fold tags _ e (get_some_mem _ _ _ hget)
    obtain ⟨hfne, hfs, hfv⟩ := mem_forms.mp hf
    have hnm := List.mem_of_getElem? hn
    obtain ⟨hnne, hsl, hcl⟩ := clean_of H.clean hnm
    have hns := noSlash_of_clean hcl
    have hname : (Vocab.build fold tags).name e = n := by rw [build_name, hn]; rfl
    by_cases hl : n.getLast? = some ['#']
    · -- a `#` node: remainder "/#"
      have hf2 := form_sharp_len hf hl
      have hn2 : 2 ≤ n.length := Nat.le_trans hf2 hfs.length_le
      have hr : r = ['/', '#'] := by
        rw [← h2, hkf]
        have : (foldName fold f).getLast? = some ['#'] := by
          simp only [foldName, List.getLast?_map, ← getLast?_suffix hfne hfs, hl, Option.map_some,
            H.foldSharp]
        simp [this, foldName_length, hf2]
      subst hr
      obtain ⟨m, rfl⟩ : ∃ m, n = m ++ [['#']] := by
        obtain ⟨m, hm⟩ := List.getLast?_eq_some_iff.mp hl
        exact ⟨m, hm⟩
      have hmne : m ≠ [] := by intro e; subst e; simp at hn2
      obtain ⟨m0, lm, rfl⟩ : ∃ m0 lm, m = m0 ++ [lm] :=
        ⟨m.dropLast, m.getLast hmne, (List.dropLast_concat_getLast hmne).symm⟩
      have hshort : (Vocab.build fold tags).shortName e = lm := by
        unfold Vocab.shortName; rw [hname]; simp
      have hlong : (Vocab.build fold tags).longName e = joinSlash (m0 ++ [lm]) := by
        unfold Vocab.longName; rw [hname]; simp
      have hlm : '/' ∉ lm := hns lm (by simp)
      constructor
      · rw [hshort]
        have e1 : lm ++ ['/', '#'] = joinSlash [lm, ['#']] := by simp [joinSlash]
        rw [e1, find_text _ _ _ (by simp) (by
          intro c hc; simp only [List.mem_cons, List.not_mem_nil, or_false] at hc
          rcases hc with rfl | rfl
          · exact hlm
          · simp)]
        have hform : [lm, ['#']] ∈ forms (m0 ++ [lm] ++ [['#']]) := by
          refine mem_forms.mpr ⟨by simp, ⟨m0, by simp⟩, by simp⟩
        have := direct_hit fold tags e _ hn (hnd e) hwf _ hform
        unfold findComps
        simp only [this]
        simp [foldName, H.foldSharp]
      · rw [hlong]
        have e1 : joinSlash (m0 ++ [lm]) ++ ['/', '#'] = joinSlash (m0 ++ [lm] ++ [['#']]) := by
          rw [joinSlash_append (m0 ++ [lm]) [['#']] (by simp) (by simp)]; simp [joinSlash]
        rw [e1, find_text _ _ _ hnne hns]
        have hform : (m0 ++ [lm] ++ [['#']]) ∈ forms (m0 ++ [lm] ++ [['#']]) := by
          refine mem_forms.mpr ⟨hnne, List.suffix_refl _, ?_⟩
          intro e; have := congrArg List.length e; simp at this
        have := direct_hit fold tags e _ hn (hnd e) hwf _ hform
        unfold findComps
        simp only [this]
        simp [foldName, H.foldSharp]
    · -- a plain node: empty remainder
      obtain ⟨last, hlast⟩ : ∃ last, n.getLast? = some last := by
        cases hh : n.getLast? with
        | none => exact absurd (List.getLast?_eq_none_iff.mp hh) hnne
        | some x => exact ⟨x, rfl⟩
      have hlv : last ≠ ['#'] := by intro e; apply hl; rw [hlast, e]
      have hnv : fold last ≠ ['#'] := by
        intro e; apply hlv; apply H.sharp; rw [e, H.foldSharp]
      have hr : r = [] := by
        rw [← h2, hkf]
        have : (foldName fold f).getLast? = some (fold last) := by
          simp only [foldName, List.getLast?_map, ← getLast?_suffix hfne hfs, hlast, Option.map_some]
        simp [this, hnv]
      subst hr
      obtain ⟨hS, hL⟩ := forms_roundtrip fold tags e n last hn (hnd e) hwf hlast hnv hlv [last] n rfl rfl
      have hshort : (Vocab.build fold tags).shortName e = last := by
        unfold Vocab.shortName; rw [hname]; simp [hlast, hlv]
      have hlong : (Vocab.build fold tags).longName e = joinSlash n := by
        unfold Vocab.longName; rw [hname]; simp [hlast, hlv]
      have hlm : '/' ∉ last := hns last (List.mem_of_getLast? hlast)
      constructor
      · rw [hshort, List.append_nil]
        have e1 : last = joinSlash [last] := by simp [joinSlash]
        rw [e1, find_text _ _ _ (by simp) (by intro c hc; simp at hc; subst hc; exact hlm)]
        exact hS
      · rw [hlong, List.append_nil, find_text _ _ _ hnne hns]
        exact hL
  · -- the walk
    rename_i hnone
    split at h
    · cases h
    · rename_i e k hw
      clear h
      obtain ⟨_, hk0, hk1, hk2⟩ := walk_inv _ _ _ _ _ _ _ hw
      have hkpos : 0 < k := by
        rcases Nat.eq_zero_or_pos k with hz | hz
        · have := hk0 hz; cases this
        · exact hz
      obtain ⟨hwget, hkle⟩ := hk1 hkpos
      obtain ⟨hget, hnsharp⟩ := walkGet_some _ _ _ hwget
      rw [foldName_length] at hkle
      have hklt : k < comps.length := by
        rcases Nat.lt_or_ge k comps.length with hlt | hge
        · exact hlt
        · exfalso
          have : (foldName fold comps).take k = foldName fold comps := by
            apply List.take_of_length_le; rw [foldName_length]; exact hge
          rw [this, hnone] at hget; cases hget
      have hstop0 := hk2 (by rw [foldName_length]; exact hklt) (by rw [foldName_length]; omega)
      obtain ⟨_, n, hn, f, hf, hkf⟩ := register_sound fold tags _ e (get_some_mem _ _ _ hget)
      obtain ⟨hfne, hfs, hfv⟩ := mem_forms.mp hf
      have hnm := List.mem_of_getElem? hn
      obtain ⟨hnne, hsl, hcl⟩ := clean_of H.clean hnm
      have hns := noSlash_of_clean hcl
      have htake : (foldName fold comps).take k = foldName fold (comps.take k) := by
        simp [foldName, List.map_take]
      have hflen : f.length = k := by
        have := congrArg List.length hkf
        rw [foldName_length, htake, foldName_length, List.length_take] at this
        omega
      have hfd : f = n.drop (n.length - k) := by
        rw [← hflen]; exact List.suffix_iff_eq_drop.mp hfs
      have hnk : k ≤ n.length := by rw [← hflen]; exact hfs.length_le
      -- `#` is not a component of `n`: the walk does not step onto a placeholder node
      have hv : ['#'] ∉ n := by
        intro hm
        rcases mem_of_dropLast_or_last hm with hm' | hm'
        · exact hsl hm'
        · apply hnsharp
          refine ⟨?_, ?_⟩
          · rw [hkf]
            simp only [foldName, List.getLast?_map, ← getLast?_suffix hfne hfs, hm', Option.map_some,
              H.foldSharp]
          · rw [hkf, foldName_length]; exact form_sharp_len hf hm'
      cases hdrop : comps.drop k with
      | nil =>
        have := congrArg List.length hdrop
        simp at this; omega
      | cons e0 es =>
        have hsplit : comps.take k ++ e0 :: es = comps := by rw [← hdrop]; exact List.take_append_drop k comps
        have hes : NoSlash (e0 :: es) := by
          intro c hc; apply hcns c; rw [← hsplit]; exact List.mem_append_right _ hc
        have hcase : foldName fold (comps.take k) = foldName fold (n.drop (n.length - k)) := by
          rw [← htake, hkf, hfd]
        have hpre1 : foldName fold (n.drop (n.length - k) ++ [e0]) = (foldName fold comps).take (k + 1) := by
          have e2 : (foldName fold comps).take (k + 1) = foldName fold (comps.take (k + 1)) := by
            simp [foldName, List.map_take]
          rw [e2, List.take_add, hdrop]
          simp only [foldName, List.map_append] at hcase ⊢
          rw [hcase]; simp
        have hstop : walkGet (Vocab.build fold tags).table (foldName fold (n.drop (n.length - k) ++ [e0])) = none := by
          rw [hpre1]; exact hstop0
        rw [← hsplit] at h0 hnone
        have hjlt : n.length - k < n.length := by omega
        -- the short and the long text are not keys either
        have hnots : ∀ last, n.getLast? = some last →
            (Vocab.build fold tags).table.get (foldName fold ([last] ++ e0 :: es)) = none ∧
            (Vocab.build fold tags).table.get (foldName fold (n ++ e0 :: es)) = none := by
          intro last hlast
          have hlv : last ≠ ['#'] := fun e => hv (e ▸ List.mem_of_getLast? hlast)
          cases hg1 : (Vocab.build fold tags).table.get (foldName fold (n.drop (n.length - k) ++ [e0])) with
          | none =>
            have hst := fun j' hj' => stop_transfer fold tags H.tc hd hwf e n hn hv last hlast
              (fun e => hlv (H.sharp _ e)) (n.length - k) j' hjlt hj' e0 hg1
            exact ⟨whole_none_of_stop fold tags H.tc hd n (n.length - 1) [last] (by rw [drop_last hlast]) e0 es
                (by simp) (hst (n.length - 1) (by omega)),
              whole_none_of_stop fold tags H.tc hd n 0 n (by simp) e0 es (by omega) (hst 0 (by omega))⟩
          | some c =>
            -- then the walk stopped because `e₀` is the placeholder, and more text follows
            rcases walkGet_cases _ _ hstop with hg0 | ⟨hsh1, _⟩
            · rw [hg0] at hg1; cases hg1
            · have he0 : fold e0 = ['#'] := by simpa [foldName] using hsh1
              have hesne : es ≠ [] := by
                intro e; subst e
                have : foldName fold (comps.take k ++ [e0]) = foldName fold (n.drop (n.length - k) ++ [e0]) := by
                  simp only [foldName, List.map_append] at hcase ⊢; rw [hcase]
                rw [this, hg1] at hnone; cases hnone
              have hmem : ∀ pre : Name, ['#'] ∈ (foldName fold (pre ++ e0 :: es)).dropLast := by
                intro pre
                obtain ⟨es0, x, rfl⟩ : ∃ es0 x, es = es0 ++ [x] :=
                  ⟨es.dropLast, es.getLast hesne, (List.dropLast_concat_getLast hesne).symm⟩
                have : foldName fold (pre ++ e0 :: (es0 ++ [x])) =
                    (foldName fold pre ++ fold e0 :: foldName fold es0) ++ [fold x] := by simp [foldName]
                rw [this, List.dropLast_concat, he0]
                simp
              exact ⟨get_none_of_interior_sharp fold tags H _ (hmem [last]),
                get_none_of_interior_sharp fold tags H _ (hmem n)⟩
        exact short_long_fixpoint_gen fold tags H.tc hd hwf H.sharp H.foldSharp e n hn hv hns (n.length - k) hjlt
          (comps.take k) hcase e0 es hes hstop hnone (fun last hlast => (hnots last hlast).1)
          (by
            obtain ⟨last, hlast⟩ : ∃ last, n.getLast? = some last := by
              cases hh : n.getLast? with
              | none => exact absurd (List.getLast?_eq_none_iff.mp hh) hnne
              | some x => exact ⟨x, rfl⟩
            exact (hnots last hlast).2)
          i r h0

end HedVerif.C03

namespace HedVerif.Schema
/-! ### namespaces -/

theorem namespaceOf_prefix (t : Str) : namespaceOf t <+: t := by
  unfold namespaceOf
  split
  · exact List.nil_prefix
  · split
    · split
      · exact List.nil_prefix
      · exact List.take_prefix _ _
    · exact List.take_prefix _ _

theorem prefix_append_drop {p t : Str} (h : p <+: t) : p ++ t.drop p.length = t := by
  obtain ⟨s, rfl⟩ := h; simp

theorem namespaceOf_append_drop (t : Str) : namespaceOf t ++ t.drop (namespaceOf t).length = t :=
  prefix_append_drop (namespaceOf_prefix t)

theorem findIdx?_none_of_not_mem (a : Str) (x : Char) (h : x ∉ a) : a.findIdx? (fun y => y == x) = none := by
  rw [List.findIdx?_eq_none_iff]
  intro y hy
  simp only [beq_eq_false_iff_ne, ne_eq]
  intro e; exact h (e ▸ hy)

/-- a text that starts with a `:`-free run ending at a slash (or at the end) has no namespace -/
theorem namespaceOf_nil_of (a rest : Str) (h1 : ':' ∉ a) (h2 : rest = [] ∨ rest.head? = some '/') :
    namespaceOf (a ++ rest) = [] := by
  have ha := findIdx?_none_of_not_mem a ':' h1
  unfold namespaceOf
  rcases h2 with rfl | h2
  · simp [List.idxOf?, ha]
  · cases rest with
    | nil => simp at h2
    | cons c rest' =>
      simp only [List.head?_cons, Option.some.injEq] at h2
      subst h2
      simp only [List.idxOf?, List.findIdx?_append, ha, Option.none_or, List.findIdx?_cons]
      cases hr : List.findIdx? (fun x => x == ':') rest' with
      | none => simp
      | some ic' =>
        cases hs : List.findIdx? (fun x => x == '/') a with
        | none => simp <;> omega
        | some is =>
          have := (List.findIdx?_eq_some_iff_getElem.mp hs).1
          simp <;> omega

/-- a non-empty namespace is a `:`-free, `/`-free run followed by the colon -/
theorem namespaceOf_shape (t : Str) (h : namespaceOf t ≠ []) :
    ∃ p, namespaceOf t = p ++ [':'] ∧ ':' ∉ p ∧ '/' ∉ p := by
  unfold namespaceOf at h ⊢
  cases hc : t.idxOf? ':' with
  | none => simp [hc] at h
  | some ic =>
    simp only [hc] at h ⊢
    simp only [List.idxOf?] at hc
    obtain ⟨hlt, hget, hmin⟩ := List.findIdx?_eq_some_iff_getElem.mp hc
    have hget' : t[ic] = ':' := by simpa using hget
    have htake : t.take (ic + 1) = t.take ic ++ [':'] := by
      rw [List.take_add_one]; simp [hlt, hget']
    have hp : ':' ∉ t.take ic := by
      intro hm
      obtain ⟨j, hj, hjx⟩ := List.getElem_of_mem hm
      have hj' : j < ic := by simp at hj; omega
      have : t[j]'(by omega) = ':' := by rw [List.getElem_take] at hjx; exact hjx
      exact hmin j hj' (by simp [this])
    cases hs : t.idxOf? '/' with
    | none =>
      refine ⟨t.take ic, by simp [htake], hp, ?_⟩
      simp only [List.idxOf?, List.findIdx?_eq_none_iff] at hs
      intro hm
      have := hs '/' (List.mem_of_mem_take hm)
      simp at this
    | some is =>
      simp only [hs] at h ⊢
      by_cases hgt : ic > is
      · simp [hgt] at h
      · simp only [hgt, ↓reduceIte]
        refine ⟨t.take ic, htake, hp, ?_⟩
        simp only [List.idxOf?] at hs
        obtain ⟨_, _, hmin2⟩ := List.findIdx?_eq_some_iff_getElem.mp hs
        intro hm
        obtain ⟨j, hj, hjx⟩ := List.getElem_of_mem hm
        have hj' : j < ic := by simp at hj; omega
        have : t[j]'(by omega) = '/' := by rw [List.getElem_take] at hjx; exact hjx
        exact hmin2 j (by omega) (by simp [this])

end HedVerif.Schema

namespace HedVerif.C03
open HedVerif.Schema HedVerif.Tok

/-- the name of node `i` in a form, without namespace and remainder -/
def baseForm (v : Vocab) (f : Form) (i : Nat) : Str :=
  match f with
  | .short => v.shortName i
  | .long => v.longName i

theorem tagForm_found (v : Vocab) (fold : Str → Str) (sns : Str) (f : Form) (t : Str) (i : Nat) (r : Str)
    (hns : namespaceOf t = sns) (hf : find v fold (t.drop (namespaceOf t).length) = .found i r) :
    tagForm v fold sns f t = namespaceOf t ++ baseForm v f i ++ r := by
  unfold tagForm
  simp only [hns, bne_self_eq_false, Bool.false_eq_true, ↓reduceIte]
  rw [hns] at hf
  rw [hf]
  cases f <;> simp [baseForm, shortTag, longTag]

theorem tagForm_other (v : Vocab) (fold : Str → Str) (sns : Str) (f : Form) (t : Str)
    (h : namespaceOf t ≠ sns ∨ ∀ i r, find v fold (t.drop (namespaceOf t).length) ≠ .found i r) :
    tagForm v fold sns f t = t := by
  unfold tagForm
  rcases h with h | h
  · simp [h]
  · simp only
    cases hf : find v fold (t.drop (namespaceOf t).length) with
    | found i r => exact absurd hf (h i r)
    | noValidTag s => simp
    | invalidParent a b x => simp

/-- the components that make up the names of node `n`: the `#` is not part of them -/
theorem names_of_index (fold : Str → Str) (tags : List Name) (hcn : cleanNamesB tags = true) (i : Nat)
    (hk : ∃ key, (Vocab.build fold tags).table.get key = some i) :
    ∃ n' : Name, n' ≠ [] ∧ (∀ c ∈ n', cleanComp c = true) ∧
      (Vocab.build fold tags).longName i = joinSlash n' ∧
      (Vocab.build fold tags).shortName i = n'.getLast?.getD [] := by
  obtain ⟨key, hkey⟩ := hk
  obtain ⟨_, n, hn, f, hf, _⟩ := register_sound fold tags _ i (get_some_mem _ _ _ hkey)
  obtain ⟨hnne, _, hcl⟩ := clean_of hcn (List.mem_of_getElem? hn)
  have hname : (Vocab.build fold tags).name i = n := by rw [build_name, hn]; rfl
  by_cases hl : n.getLast? = some ['#']
  · have hf2 := form_sharp_len hf hl
    have hn2 : 2 ≤ n.length := Nat.le_trans hf2 (mem_forms.mp hf).2.1.length_le
    refine ⟨n.dropLast, ?_, fun c hc => hcl c (List.dropLast_subset _ hc), ?_, ?_⟩
    · intro e; have := congrArg List.length e; simp at this; omega
    · unfold Vocab.longName; rw [hname]; simp [hl]
    · unfold Vocab.shortName; rw [hname]; simp [hl]
  · refine ⟨n, hnne, hcl, ?_, ?_⟩
    · unfold Vocab.longName; rw [hname]; simp [hl]
    · unfold Vocab.shortName; rw [hname]; simp [hl]

theorem validText_of_clean {c : Str} (h : cleanComp c = true) : ValidText c := by
  obtain ⟨h1, h2, h3, h4⟩ := cleanComp_spec h
  exact ⟨h1, fun ch hch => (h2 ch hch).1, h3, h4⟩

theorem validText_joinSlash (n : Name) (hne : n ≠ []) (hc : ∀ c ∈ n, cleanComp c = true) :
    ValidText (joinSlash n) := by
  induction n with
  | nil => exact absurd rfl hne
  | cons c l ih =>
    have hcv := validText_of_clean (hc c (by simp))
    cases l with
    | nil => simpa [joinSlash] using hcv
    | cons d ds =>
      have ihv := ih (by simp) (fun x hx => hc x (List.mem_cons_of_mem _ hx))
      obtain ⟨a1, a2, a3, a4⟩ := hcv
      obtain ⟨b1, b2, b3, b4⟩ := ihv
      rw [joinSlash_cons _ _ (by simp)]
      refine ⟨by simp [a1], ?_, ?_, ?_⟩
      · intro ch hch
        simp only [List.mem_append, List.mem_cons] at hch
        rcases hch with h | rfl | h
        · exact a2 ch h
        · rfl
        · exact b2 ch h
      · rw [List.head?_append]
        cases c with
        | nil => exact absurd rfl a1
        | cons x xs => simpa using a3
      · rw [List.getLast?_append]
        cases hj : joinSlash (d :: ds) with
        | nil => exact absurd hj b1
        | cons x xs =>
          rw [hj] at b4
          simpa [List.getLast?_cons_cons] using b4

/-- glue a printable core between a harmless prefix and a harmless suffix -/
theorem validText_assemble (p b r : Str) (hb : ValidText b)
    (hp : (∀ ch ∈ p, isDelim ch = false) ∧ p.head? ≠ some ' ')
    (hr : (∀ ch ∈ r, isDelim ch = false) ∧ r.getLast? ≠ some ' ') : ValidText (p ++ b ++ r) := by
  obtain ⟨b1, b2, b3, b4⟩ := hb
  refine ⟨by simp [b1], ?_, ?_, ?_⟩
  · intro ch hch
    simp only [List.mem_append] at hch
    rcases hch with (h | h) | h
    · exact hp.1 ch h
    · exact b2 ch h
    · exact hr.1 ch h
  · cases p with
    | nil =>
      cases b with
      | nil => exact absurd rfl b1
      | cons x xs => simpa using b3
    | cons x xs => simpa using hp.2
  · cases hrr : r with
    | nil =>
      rw [List.append_nil, List.getLast?_append]
      cases hbb : b.getLast? with
      | none => exact absurd (List.getLast?_eq_none_iff.mp hbb) b1
      | some y => rw [hbb] at b4; simpa using b4
    | cons x xs =>
      rw [List.getLast?_append]
      have := hr.2
      rw [hrr] at this
      cases hx : (x :: xs).getLast? with
      | none => simp at hx
      | some y => rw [hx] at this; simpa using this


theorem validText_baseForm (fold : Str → Str) (tags : List Name) (hcn : cleanNamesB tags = true) (f : Form) (i : Nat)
    (hk : ∃ key, (Vocab.build fold tags).table.get key = some i) :
    ValidText (baseForm (Vocab.build fold tags) f i) ∧
    ∃ a rest, baseForm (Vocab.build fold tags) f i = a ++ rest ∧ ':' ∉ a ∧
      (rest = [] ∨ rest.head? = some '/') := by
  obtain ⟨n', hne, hcl, hlong, hshort⟩ := names_of_index fold tags hcn i hk
  cases f with
  | short =>
    simp only [baseForm, hshort]
    obtain ⟨last, hlast⟩ : ∃ last, n'.getLast? = some last := by
      cases hh : n'.getLast? with
      | none => exact absurd (List.getLast?_eq_none_iff.mp hh) hne
      | some x => exact ⟨x, rfl⟩
    have hc := hcl last (List.mem_of_getLast? hlast)
    simp only [hlast, Option.getD_some]
    refine ⟨validText_of_clean hc, last, [], by simp, ?_, Or.inl rfl⟩
    intro hm; exact ((cleanComp_spec hc).2.1 ':' hm).2.2 rfl
  | long =>
    simp only [baseForm, hlong]
    refine ⟨validText_joinSlash n' hne hcl, ?_⟩
    cases n' with
    | nil => exact absurd rfl hne
    | cons a l =>
      have hc := hcl a (by simp)
      have ha : ':' ∉ a := fun hm => ((cleanComp_spec hc).2.1 ':' hm).2.2 rfl
      cases l with
      | nil => exact ⟨a, [], by simp [joinSlash], ha, Or.inl rfl⟩
      | cons d ds => exact ⟨a, '/' :: joinSlash (d :: ds), by rw [joinSlash_cons _ _ (by simp)], ha, Or.inr rfl⟩

/-- the remainder of a resolved printable tag text is harmless -/
theorem rem_ok (v : Vocab) (fold : Str → Str) (t : Str) (hv : ValidText t) (i : Nat) (r : Str)
    (hf : find v fold (t.drop (namespaceOf t).length) = .found i r) :
    (∀ ch ∈ r, isDelim ch = false) ∧ r.getLast? ≠ some ' ' ∧ (r = [] ∨ r.head? = some '/') := by
  unfold find at hf
  obtain ⟨_, hr⟩ := found_inv v fold _ i r hf
  rcases hr with rfl | rfl | ⟨k, hk0, hk1, rfl⟩
  · simp
  · refine ⟨?_, by simp, Or.inr rfl⟩
    intro ch hch
    simp only [List.mem_cons, List.not_mem_nil, or_false] at hch
    rcases hch with rfl | rfl <;> rfl
  · generalize hcomps : splitSlash (t.drop (namespaceOf t).length) = comps at hk1
    have hc : t.drop (namespaceOf t).length = joinSlash (comps.take k) ++ '/' :: joinSlash (comps.drop k) := by
      rw [← joinSlash_append _ _ (by
            intro e; have := congrArg List.length e
            simp only [List.length_take, List.length_nil] at this; omega) (by
            intro e; have := congrArg List.length e
            simp only [List.length_drop, List.length_nil] at this; omega),
        List.take_append_drop, ← hcomps, joinSlash_splitSlash]
    have ht : t = namespaceOf t ++ joinSlash (comps.take k) ++ '/' :: joinSlash (comps.drop k) := by
      rw [List.append_assoc, ← hc, namespaceOf_append_drop]
    obtain ⟨_, h2, _, h4⟩ := hv
    refine ⟨?_, ?_, Or.inr rfl⟩
    · intro ch hch
      apply h2
      rw [ht]
      exact List.mem_append_right _ hch
    · rw [ht, List.getLast?_append] at h4
      cases hx : ('/' :: joinSlash (comps.drop k)).getLast? with
      | none => simp at hx
      | some y => rw [hx] at h4; simpa using h4

/-- **Forms are printable**: the short / long text of a printable tag text is printable (non-empty, no
delimiter, no blank at either end) — so the converted string parses back tag by tag. -/
theorem tagForm_valid (fold : Str → Str) (tags : List Name) (hcn : cleanNamesB tags = true) (sns : Str) (f : Form)
    (t : Str) (hv : ValidText t) : ValidText (tagForm (Vocab.build fold tags) fold sns f t) := by
  by_cases hns : namespaceOf t = sns
  · cases hf : find (Vocab.build fold tags) fold (t.drop (namespaceOf t).length) with
    | found i r =>
      rw [tagForm_found _ _ _ _ _ i r hns hf]
      unfold find at hf
      obtain ⟨hk, _⟩ := found_inv _ _ _ _ _ hf
      obtain ⟨hr1, hr2, _⟩ := rem_ok _ _ t hv i r hf
      refine validText_assemble _ _ _ (validText_baseForm fold tags hcn f i hk).1 ⟨?_, ?_⟩ ⟨hr1, hr2⟩
      · intro ch hch
        exact hv.2.1 ch ((namespaceOf_prefix t).subset hch)
      · obtain ⟨s, hs⟩ := namespaceOf_prefix t
        cases hn : namespaceOf t with
        | nil => simp
        | cons x xs =>
          have h3 := hv.2.2.1
          rw [← hs, hn] at h3
          simpa using h3
    | noValidTag s => rw [tagForm_other _ _ _ _ _ (Or.inr (by simp [hf]))]; exact hv
    | invalidParent a b x => rw [tagForm_other _ _ _ _ _ (Or.inr (by simp [hf]))]; exact hv
  · rw [tagForm_other _ _ _ _ _ (Or.inl hns)]; exact hv

/-- **Tag level: converting a converted tag.** `form'(form(t)) = form'(t)` for the four combinations of
short and long — `long(short t) = long t`, `short(long t) = short t`, and both idempotent — for every
text `t` (resolved or not). -/
theorem tagForm_tagForm (fold : Str → Str) (tags : List Name) (H : BulkOK fold tags) (sns : Str)
    (f f' : Form) (t : Str) (hv : ValidText t) :
    tagForm (Vocab.build fold tags) fold sns f' (tagForm (Vocab.build fold tags) fold sns f t) =
      tagForm (Vocab.build fold tags) fold sns f' t := by
  by_cases hns : namespaceOf t = sns
  · cases hf : find (Vocab.build fold tags) fold (t.drop (namespaceOf t).length) with
    | found i r =>
      obtain ⟨hfix1, hfix2⟩ := tag_fix fold tags H _ i r hf
      have hfix : find (Vocab.build fold tags) fold (baseForm (Vocab.build fold tags) f i ++ r) = .found i r := by
        cases f
        · exact hfix1
        · exact hfix2
      rw [tagForm_found _ _ _ f _ i r hns hf, tagForm_found _ _ _ f' _ i r hns hf]
      have hk : ∃ key, (Vocab.build fold tags).table.get key = some i := by
        unfold find at hf; exact (found_inv _ _ _ _ _ hf).1
      obtain ⟨_, a, rest, hab, ha, hrest⟩ := validText_baseForm fold tags H.clean f i hk
      obtain ⟨_, _, hr3⟩ := rem_ok _ _ t hv i r hf
      -- the namespace of the converted text is the namespace of `t`
      have hnsu : namespaceOf (namespaceOf t ++ baseForm (Vocab.build fold tags) f i ++ r) = namespaceOf t := by
        by_cases hnil : namespaceOf t = []
        · rw [hnil, List.nil_append, hab, List.append_assoc]
          apply namespaceOf_nil_of a (rest ++ r) ha
          rcases hrest with rfl | h
          · simpa using hr3
          · right
            cases rest with
            | nil => simp at h
            | cons x xs => simpa using h
        · obtain ⟨p, hp, hp1, hp2⟩ := namespaceOf_shape t hnil
          rw [hp]
          have := namespace_ascii p (baseForm (Vocab.build fold tags) f i ++ r) hp1 hp2
          simpa [List.append_assoc] using this
      have hdrop : (namespaceOf t ++ baseForm (Vocab.build fold tags) f i ++ r).drop (namespaceOf t).length =
          baseForm (Vocab.build fold tags) f i ++ r := by
        rw [List.append_assoc, List.drop_left]
      have := tagForm_found (Vocab.build fold tags) fold sns f'
        (namespaceOf t ++ baseForm (Vocab.build fold tags) f i ++ r) i r (by rw [hnsu, hns])
        (by rw [hnsu, hdrop]; exact hfix)
      rw [this, hnsu]
    | noValidTag s => rw [tagForm_other _ _ _ f _ (Or.inr (by simp [hf]))]
    | invalidParent a b x => rw [tagForm_other _ _ _ f _ (Or.inr (by simp [hf]))]
  · rw [tagForm_other _ _ _ f _ (Or.inl hns)]


end HedVerif.C03

namespace HedVerif
open Tok Tree

/-! ### mapping a function over the tag texts of an abstract forest -/

mutual
def mapNode (g : Str → Str) : ATree → ATree
  | .tag w => .tag (g w)
  | .group kids => .group (mapList g kids)
def mapList (g : Str → Str) : List ATree → List ATree
  | [] => []
  | n :: ns => mapNode g n :: mapList g ns
end

mutual
/-- the tag texts of a forest, left to right -/
def leavesNode : ATree → List Str
  | .tag w => [w]
  | .group kids => leavesList kids
def leavesList : List ATree → List Str
  | [] => []
  | n :: ns => leavesNode n ++ leavesList ns
end

mutual
theorem formNode_comp (g : Str → Str) (form : Nat → Nat → Str) :
    ∀ n : Node, formNode (fun a b => g (form a b)) n = mapNode g (formNode form n)
  | .tag a b => by simp [formNode, mapNode]
  | .group _ _ kids => by simp [formNode, mapNode, formList_comp g form kids]
theorem formList_comp (g : Str → Str) (form : Nat → Nat → Str) :
    ∀ l : List Node, formList (fun a b => g (form a b)) l = mapList g (formList form l)
  | [] => by simp [formList, mapList]
  | n :: ns => by simp [formList, mapList, formNode_comp g form n, formList_comp g form ns]
end

mutual
theorem mapNode_mapNode (g h : Str → Str) : ∀ n : ATree, mapNode g (mapNode h n) = mapNode (fun w => g (h w)) n
  | .tag w => by simp [mapNode]
  | .group kids => by simp [mapNode, mapList_mapList g h kids]
theorem mapList_mapList (g h : Str → Str) : ∀ l : List ATree, mapList g (mapList h l) = mapList (fun w => g (h w)) l
  | [] => by simp [mapList]
  | n :: ns => by simp [mapList, mapNode_mapNode g h n, mapList_mapList g h ns]
end

mutual
theorem mapNode_congr (g h : Str → Str) : ∀ n : ATree, (∀ w ∈ leavesNode n, g w = h w) → mapNode g n = mapNode h n
  | .tag w, hw => by simp [mapNode, hw w (by simp [leavesNode])]
  | .group kids, hw => by
    simp only [mapNode]
    rw [mapList_congr g h kids (fun w hm => hw w (by simpa [leavesNode] using hm))]
theorem mapList_congr (g h : Str → Str) : ∀ l : List ATree, (∀ w ∈ leavesList l, g w = h w) → mapList g l = mapList h l
  | [], _ => by simp [mapList]
  | n :: ns, hw => by
    simp only [mapList]
    rw [mapNode_congr g h n (fun w hm => hw w (by simp [leavesList, hm])),
      mapList_congr g h ns (fun w hm => hw w (by simp [leavesList, hm]))]
end

mutual
theorem leavesNode_map (g : Str → Str) : ∀ n : ATree, leavesNode (mapNode g n) = (leavesNode n).map g
  | .tag w => by simp [mapNode, leavesNode]
  | .group kids => by simp [mapNode, leavesNode, leavesList_map g kids]
theorem leavesList_map (g : Str → Str) : ∀ l : List ATree, leavesList (mapList g l) = (leavesList l).map g
  | [] => by simp [mapList, leavesList]
  | n :: ns => by simp [mapList, leavesList, leavesNode_map g n, leavesList_map g ns]
end

mutual
theorem validNode_leaves : ∀ n : ATree, ValidNode n → ∀ w ∈ leavesNode n, ValidText w
  | .tag w, hv => by intro x hx; simp only [leavesNode, List.mem_singleton] at hx; subst hx; simpa [ValidNode] using hv
  | .group kids, hv => by
    intro x hx
    exact validList_leaves kids (by simpa [ValidNode] using hv) x (by simpa [leavesNode] using hx)
theorem validList_leaves : ∀ l : List ATree, ValidList l → ∀ w ∈ leavesList l, ValidText w
  | [], _ => by intro x hx; simp [leavesList] at hx
  | n :: ns, hv => by
    intro x hx
    simp only [ValidList] at hv
    simp only [leavesList, List.mem_append] at hx
    rcases hx with hx | hx
    · exact validNode_leaves n hv.1 x hx
    · exact validList_leaves ns hv.2 x hx
end

mutual
theorem validNode_map (g : Str → Str) (hg : ∀ w, ValidText w → ValidText (g w)) :
    ∀ n : ATree, ValidNode n → ValidNode (mapNode g n)
  | .tag w, hv => by simp only [mapNode, ValidNode] at hv ⊢; exact hg w hv
  | .group kids, hv => by simp only [mapNode, ValidNode] at hv ⊢; exact validList_map g hg kids hv
theorem validList_map (g : Str → Str) (hg : ∀ w, ValidText w → ValidText (g w)) :
    ∀ l : List ATree, ValidList l → ValidList (mapList g l)
  | [], _ => by simp [mapList, ValidList]
  | n :: ns, hv => by
    simp only [ValidList, mapList] at hv ⊢
    exact ⟨validNode_map g hg n hv.1, validList_map g hg ns hv.2⟩
end

end HedVerif

namespace HedVerif.C03
open HedVerif.Schema HedVerif.Tok HedVerif.Tree

/-- the tag texts of a string (source slices of the tags of its parse tree), left to right -/
def tagTexts (s : Str) : List Str := leavesList (absList s (construct s))

/-- the shape of the parse tree of a string: group nesting with the tag texts erased -/
def shape (s : Str) : List ATree := mapList (fun _ => []) (absList s (construct s))

/-- `convertText` prints the parse tree with every tag text replaced by its form -/
theorem convert_render (v : Vocab) (fold : Str → Str) (sns : Str) (f : Form) (s : Str) :
    convertText v fold sns f s = renderList (mapList (tagForm v fold sns f) (absList s (construct s))) := by
  unfold convertText
  rw [print_form_list, formList_comp]

/-- **The converted text parses to the converted tree.**  If the vocabulary's names are printable
(`cleanNamesB`: non-empty components without `,` `(` `)` `/` `:` and without a blank at either end), the
parse tree of `convertText s`, with spans forgotten, is the parse tree of `s` with every tag text replaced
by its form: no tag is split, merged, lost or moved to another group. -/
theorem convert_tree (fold : Str → Str) (tags : List Name) (hcn : cleanNamesB tags = true) (sns : Str)
    (f : Form) (s : Str) :
    absList (convertText (Vocab.build fold tags) fold sns f s)
        (construct (convertText (Vocab.build fold tags) fold sns f s)) =
      mapList (tagForm (Vocab.build fold tags) fold sns f) (absList s (construct s)) := by
  have hv : ValidList (formList (fun a b => tagForm (Vocab.build fold tags) fold sns f (slice s a b)) (construct s)) := by
    rw [formList_comp]
    exact validList_map _ (fun w hw => tagForm_valid fold tags hcn sns f w hw) _ (construct_valid s)
  have := (C02.roundtrip_form _ (construct s) hv).2.1
  rw [formList_comp] at this
  exact this

/-- **(c) Shape preserved**: same group nesting, same number of tags. -/
theorem convert_preserves_shape (fold : Str → Str) (tags : List Name) (hcn : cleanNamesB tags = true)
    (sns : Str) (f : Form) (s : Str) :
    shape (convertText (Vocab.build fold tags) fold sns f s) = shape s ∧
    (tagTexts (convertText (Vocab.build fold tags) fold sns f s)).length = (tagTexts s).length := by
  unfold shape tagTexts
  rw [convert_tree fold tags hcn sns f s, mapList_mapList, leavesList_map]
  simp

/-- **(d) Bulk conversion is per-tag conversion**: the tag texts of the converted string are the forms
of the tag texts of the input, in order (the i-th tag of the output is the form of the i-th tag of the
input). -/
theorem convert_tagwise (fold : Str → Str) (tags : List Name) (hcn : cleanNamesB tags = true)
    (sns : Str) (f : Form) (s : Str) :
    tagTexts (convertText (Vocab.build fold tags) fold sns f s) =
      (tagTexts s).map (tagForm (Vocab.build fold tags) fold sns f) := by
  unfold tagTexts
  rw [convert_tree fold tags hcn sns f s, leavesList_map]

/-- **Converting a converted string**, the four combinations at once, every text. -/
theorem convert_convert (fold : Str → Str) (tags : List Name) (H : BulkOK fold tags) (sns : Str)
    (f f' : Form) (s : Str) :
    convertText (Vocab.build fold tags) fold sns f' (convertText (Vocab.build fold tags) fold sns f s) =
      convertText (Vocab.build fold tags) fold sns f' s := by
  rw [convert_render _ _ _ f' (convertText _ _ _ f s), convert_tree fold tags H.clean sns f s,
    mapList_mapList, convert_render _ _ _ f' s]
  congr 1
  apply mapList_congr
  intro w hw
  exact tagForm_tagForm fold tags H sns f f' w (validList_leaves _ (construct_valid s) w hw)

/-- **(a) `long(short(s)) = long(s)` and `short(long(s)) = short(s)`** for whole strings, every text. -/
theorem convert_short_long (fold : Str → Str) (tags : List Name) (H : BulkOK fold tags) (sns : Str)
    (s : Str) :
    convertText (Vocab.build fold tags) fold sns .long (convertText (Vocab.build fold tags) fold sns .short s) =
      convertText (Vocab.build fold tags) fold sns .long s ∧
    convertText (Vocab.build fold tags) fold sns .short (convertText (Vocab.build fold tags) fold sns .long s) =
      convertText (Vocab.build fold tags) fold sns .short s :=
  ⟨convert_convert fold tags H sns .short .long s, convert_convert fold tags H sns .long .short s⟩

/-- **(b) Both conversions are idempotent** on whole strings, every text. -/
theorem convert_idempotent (fold : Str → Str) (tags : List Name) (H : BulkOK fold tags) (sns : Str)
    (f : Form) (s : Str) :
    convertText (Vocab.build fold tags) fold sns f (convertText (Vocab.build fold tags) fold sns f s) =
      convertText (Vocab.build fold tags) fold sns f s :=
  convert_convert fold tags H sns f f s

/-- A text with unbalanced parentheses converts to the empty text (the tree of `HedString` is empty). -/
theorem convert_unbalanced (v : Vocab) (fold : Str → Str) (sns : Str) (f : Form) (s : Str)
    (h : ¬ balanced s) : convertText v fold sns f s = [] := by
  unfold convertText
  rw [C02.unbalanced_empty s h]
  rfl

/-! ### the Series / DataFrame wrapper -/

theorem convertColumn_names (g : Str → Str) (df df' : DataFrame) (c : Str)
    (h : convertColumn g df c = .ok df') : df'.map (·.1) = df.map (·.1) := by
  unfold convertColumn at h
  split at h
  · injection h with h; subst h
    rw [List.map_map]
    apply List.map_congr_left
    intro col _
    simp only [Function.comp]
    split <;> rfl
  · cases h


theorem count_eq_one_of_nodup {l : List Str} {a : Str} (h : l.Nodup) (hm : a ∈ l) : l.count a = 1 := by
  induction l with
  | nil => cases hm
  | cons x xs ih =>
    rw [List.nodup_cons] at h
    rw [List.count_cons]
    by_cases hx : x = a
    · subst hx
      have : xs.count x = 0 := List.count_eq_zero_of_not_mem h.1
      simp [this]
    · have : a ∈ xs := by
        rcases List.mem_cons.mp hm with h1 | h1
        · exact absurd h1.symm hx
        · exact h1
      simp [hx, ih h.2 this]

theorem convertColumns_spec (g : Str → Str) : ∀ (cs : List Str) (df : DataFrame),
    (∀ c ∈ cs, c ∈ df.map (·.1)) →
    convertColumns g df cs = .ok (df.map fun col => (col.1, col.2.map (iter g (cs.count col.1))))
  | [], df, _ => by
    simp only [convertColumns, List.count_nil]
    congr 1
    symm
    have : (fun col : Column => (col.1, col.2.map (iter g (0)))) = id := by
      funext col; simp [iter]
    rw [this, List.map_id]
  | c :: cs, df, hcs => by
    have hc : df.any (fun col => col.1 == c) = true := by
      have := hcs c (by simp)
      simp only [List.mem_map] at this
      obtain ⟨col, hcol, rfl⟩ := this
      exact List.any_eq_true.mpr ⟨col, hcol, by simp⟩
    simp only [convertColumns, convertColumn, hc, ↓reduceIte]
    have hnames : (df.map fun col => if col.1 == c then (col.1, col.2.map g) else col).map (·.1) = df.map (·.1) := by
      rw [List.map_map]; apply List.map_congr_left; intro col _; simp only [Function.comp]; split <;> rfl
    rw [convertColumns_spec g cs _ (by intro x hx; rw [hnames]; exact hcs x (by simp [hx])), List.map_map]
    congr 1
    apply List.map_congr_left
    intro col _
    simp only [Function.comp, List.count_cons]
    by_cases h : (col.1 == c) = true
    · have h' : (c == col.1) = true := by rw [beq_iff_eq] at h ⊢; exact h.symm
      simp only [h, h', ↓reduceIte, List.map_map]
      rfl
    · have h' : (c == col.1) = false := by
        cases hh : (c == col.1) with
        | false => rfl
        | true => rw [beq_iff_eq] at hh; exact absurd (by rw [hh]; simp) h
      simp [h, h']

/-- **(e) The wrapper changes exactly the selected columns, cell by cell.** For a frame `df` and a list
`cs` of its column names, `convert_to_form(df, schema, form, cs)` succeeds; the frame afterwards has the
same columns in the same order with the same number of cells; a column that is not selected is untouched;
a selected column has `g` applied to each of its cells (as many times as its name is listed; once when
the list has no repetition). -/
theorem convert_df_columns (g : Str → Str) (df : DataFrame) (cs : List Str)
    (hcs : ∀ c ∈ cs, c ∈ df.map (·.1)) :
    ∃ r, convertFrame g df (some cs) = .ok r ∧ r.length = df.length ∧
      ∀ (p : Nat) (name : Str) (cells : List Str), df[p]? = some (name, cells) →
        r[p]? = some (name, cells.map (iter g (cs.count name))) ∧
        (name ∉ cs → r[p]? = some (name, cells)) ∧
        (cs.Nodup → name ∈ cs → r[p]? = some (name, cells.map g)) := by
  refine ⟨_, convertColumns_spec g cs df hcs, by simp, ?_⟩
  intro p name cells hp
  have h1 : (df.map fun col : Column => (col.1, col.2.map (iter g (cs.count col.1))))[p]? =
      some (name, cells.map (iter g (cs.count name))) := by
    rw [List.getElem?_map, hp]; rfl
  refine ⟨h1, ?_, ?_⟩
  · intro hn
    rw [h1, List.count_eq_zero_of_not_mem hn]
    have : (iter g (0)) = id := by funext x; rfl
    rw [this, List.map_id]
  · intro hnd hm
    rw [h1, count_eq_one_of_nodup hnd hm]
    rfl

/-- `columns=None` converts every column (column names pairwise distinct). -/
theorem convert_df_all (g : Str → Str) (df : DataFrame) (hnd : (df.map (·.1)).Nodup) :
    convertFrame g df none = .ok (df.map fun col => (col.1, col.2.map g)) := by
  unfold convertFrame
  simp only [Option.getD_none]
  rw [convertColumns_spec g _ df (fun c hc => hc)]
  congr 1
  apply List.map_congr_left
  intro col hcol
  have : col.1 ∈ df.map (·.1) := List.mem_map.mpr ⟨col, hcol, rfl⟩
  rw [count_eq_one_of_nodup hnd this]
  rfl

/-- a series is converted cell by cell, nothing else changes -/
theorem convert_series (g : Str → Str) (cells : List Str) :
    (convertSeries g cells).length = cells.length ∧
    ∀ p : Nat, (convertSeries g cells)[p]? = (cells[p]?).map g := by
  simp [convertSeries]


/-- a column that does not exist: `KeyError` -/
theorem convert_df_keyerror (g : Str → Str) (df : DataFrame) (c : Str) (cs : List Str)
    (hc : c ∉ df.map (·.1)) : convertFrame g df (some (c :: cs)) = .error (.keyError c) := by
  have : df.any (fun col => col.1 == c) = false := by
    cases h : df.any (fun col => col.1 == c) with
    | false => rfl
    | true =>
      obtain ⟨col, hcol, he⟩ := List.any_eq_true.mp h
      exact absurd (List.mem_map.mpr ⟨col, hcol, by simpa using he⟩) hc
  simp [convertFrame, convertColumns, convertColumn, this]

/-! ### non-vacuity: a small vocabulary with case folding

`Aa`, `Aa/Bb`, `Aa/Bb/Dd`, `Aa/Cc`, `Aa/Cc/#`; `foldEx` lowers `A B C D`. -/
section BulkExample

def lowerEx (c : Char) : Char :=
  if c = 'A' then 'a' else if c = 'B' then 'b' else if c = 'C' then 'c' else if c = 'D' then 'd' else c
def foldEx (s : Str) : Str := s.map lowerEx

def exTags2 : List Name :=
  [[['A', 'a']], [['A', 'a'], ['B', 'b']], [['A', 'a'], ['B', 'b'], ['D', 'd']],
   [['A', 'a'], ['C', 'c']], [['A', 'a'], ['C', 'c'], ['#']]]

theorem lowerEx_sharp (c : Char) (h : lowerEx c = '#') : c = '#' := by
  unfold lowerEx at h
  split at h
  · exact absurd h (by decide)
  · split at h
    · exact absurd h (by decide)
    · split at h
      · exact absurd h (by decide)
      · split at h
        · exact absurd h (by decide)
        · exact h

theorem exBulkOK : BulkOK foldEx exTags2 where
  tc := by decide
  sd := by decide
  clean := by decide
  foldSharp := by decide
  sharp := by
    intro x hx
    have e : foldEx ['#'] = ['#'] := by decide
    rw [e] at hx
    match x, hx with
    | [], hx => simp [foldEx] at hx
    | [c], hx =>
      simp only [foldEx, List.map_cons, List.map_nil, List.cons.injEq, and_true] at hx
      rw [lowerEx_sharp c hx]
    | _ :: _ :: _, hx => simp [foldEx] at hx

/-- `( bB/dd , cC/12 ),AA/BB/Ext , Zz` : mixed case, partial paths, a value, an extension, a group, an unknown tag -/
def exText : Str :=
  ['(', ' ', 'b', 'B', '/', 'd', 'd', ' ', ',', ' ', 'c', 'C', '/', '1', '2', ' ', ')', ',',
   'A', 'A', '/', 'B', 'B', '/', 'E', 'x', 't', ' ', ',', ' ', 'Z', 'z']

example : convertText (Vocab.build foldEx exTags2) foldEx [] .short exText =
    ['(', 'D', 'd', ',', 'C', 'c', '/', '1', '2', ')', ',', 'B', 'b', '/', 'E', 'x', 't', ',', 'Z', 'z'] := by decide
example : convertText (Vocab.build foldEx exTags2) foldEx [] .long exText =
    ['(', 'A', 'a', '/', 'B', 'b', '/', 'D', 'd', ',', 'A', 'a', '/', 'C', 'c', '/', '1', '2', ')', ',',
     'A', 'a', '/', 'B', 'b', '/', 'E', 'x', 't', ',', 'Z', 'z'] := by decide

/-- the hypotheses of the bulk theorems hold together on `exText` -/
example :
    convertText (Vocab.build foldEx exTags2) foldEx [] .long
        (convertText (Vocab.build foldEx exTags2) foldEx [] .short exText) =
      convertText (Vocab.build foldEx exTags2) foldEx [] .long exText :=
  (convert_short_long foldEx exTags2 exBulkOK [] exText).1
example : (tagTexts (convertText (Vocab.build foldEx exTags2) foldEx [] .short exText)).length = 4 := by
  rw [(convert_preserves_shape foldEx exTags2 exBulkOK.clean [] .short exText).2]; decide

/-- a placeholder followed by more text: the value is carried over verbatim and conversion is stable -/
example :
    let s : Str := ['c', 'c', '/', '#', '/', '#', '/', 'x']
    convertText (Vocab.build foldEx exTags2) foldEx [] .short s = ['C', 'c', '/', '#', '/', '#', '/', 'x'] ∧
    convertText (Vocab.build foldEx exTags2) foldEx [] .long s =
      ['A', 'a', '/', 'C', 'c', '/', '#', '/', '#', '/', 'x'] := by decide

/-- **The walk before fix bb9eaaf violated the property**: it stepped onto the placeholder node, so
`cc/#/#/x` (in HED 8.3.0 `Label/#/#/x`) had short form `Cc/#/x` — the value `#/#/x` was not carried over
verbatim — and converting that again gave `Cc/x`: not idempotent.  With the current walk (`find`) the
same text resolves with the remainder as written. -/
theorem legacy_walk_counterexample :
    let v := Vocab.build foldEx exTags2
    let s : Str := ['c', 'c', '/', '#', '/', '#', '/', 'x']
    shortTagLegacy v foldEx s = ['C', 'c', '/', '#', '/', 'x'] ∧
    shortTagLegacy v foldEx (shortTagLegacy v foldEx s) = ['C', 'c', '/', 'x'] ∧
    find v foldEx s = .found 4 ['/', '#', '/', '#', '/', 'x'] := by decide

end BulkExample

end HedVerif.C03

namespace HedVerif.C03
open HedVerif.Schema

theorem toLower_sharp (c : Char) (h : c.toLower = '#') : c = '#' := by
  unfold Char.toLower at h
  split at h
  · rename_i hc
    exfalso
    have := congrArg (fun x => x.val.toNat) h
    simp at this
    have h1 : 65 ≤ c.val.toNat := by
      have := hc.1; simpa [UInt32.le_iff_toNat_le] using this
    have h2 : c.val.toNat ≤ 90 := by
      have := hc.2; simpa [UInt32.le_iff_toNat_le] using this
    have h3 : c.toNat = c.val.toNat := rfl
    omega
  · exact h

/-- the driver's fold (ASCII lower-casing, `Driver.foldAscii`) satisfies the two `fold` clauses of `BulkOK` -/
theorem foldLower_sharp : (∀ x : Str, x.map Char.toLower = (['#'] : Str).map Char.toLower → x = ['#']) ∧
    (['#'] : Str).map Char.toLower = ['#'] := by
  have e : (['#'] : Str).map Char.toLower = ['#'] := by decide
  refine ⟨?_, e⟩
  intro x hx
  rw [e] at hx
  match x, hx with
  | [], hx => simp at hx
  | [c], hx =>
    simp only [List.map_cons, List.map_nil, List.cons.injEq, and_true] at hx
    rw [toLower_sharp c hx]
  | _ :: _ :: _, hx => simp at hx
end HedVerif.C03
