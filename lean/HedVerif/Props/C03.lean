/-
C03 — Every spelling of a schema tag resolves to the same node and canonical forms.
Theorems about `Schema.register`, `Table.get`, `Schema.walk`, `Schema.findComps`.
`KeysNodup` (no folded form is registered for two different entries) is the well-formedness
condition; the driver evaluates it on every bundled vocabulary.
-/
import HedVerif.Model.Schema

namespace HedVerif.Schema

/-! ### the table -/

theorem get_cons (e : Name × Nat) (t : Table) (k : Name) :
    Table.get (e :: t) k = if e.1 == k then some e.2 else Table.get t k := by
  unfold Table.get
  simp only [List.find?_cons]
  split <;> simp_all

/-- keys of the dictionary are pairwise distinct as bindings: one value per key -/
def Functional (t : Table) : Prop := ∀ k i j, (k, i) ∈ t → (k, j) ∈ t → i = j

theorem get_of_mem (t : Table) (h : Functional t) (k : Name) (i : Nat) (hm : (k, i) ∈ t) :
    t.get k = some i := by
  induction t with
  | nil => cases hm
  | cons e rest ih =>
    rw [get_cons]
    by_cases he : e.1 = k
    · have : (e.1 == k) = true := by simpa using he
      simp only [this, ↓reduceIte]
      have h1 : (k, e.2) ∈ e :: rest := by
        subst he; exact List.mem_cons_self
      exact congrArg some (h k e.2 i h1 hm)
    · have : (e.1 == k) = false := by simpa using he
      simp only [this, Bool.false_eq_true, ↓reduceIte]
      apply ih
      · intro k' a b ha hb
        exact h k' a b (List.mem_cons_of_mem _ ha) (List.mem_cons_of_mem _ hb)
      · rcases List.mem_cons.mp hm with h2 | h2
        · exact absurd (by rw [← h2]) he
        · exact h2

theorem get_some_mem (t : Table) (k : Name) (i : Nat) (h : t.get k = some i) : (k, i) ∈ t := by
  induction t with
  | nil => simp [Table.get] at h
  | cons e rest ih =>
    rw [get_cons] at h
    by_cases he : e.1 = k
    · have : (e.1 == k) = true := by simpa using he
      simp only [this, ↓reduceIte, Option.some.injEq] at h
      subst he; subst h
      exact List.mem_cons_self
    · have : (e.1 == k) = false := by simpa using he
      simp only [this, Bool.false_eq_true, ↓reduceIte] at h
      exact List.mem_cons_of_mem _ (ih h)

/-! ### registration -/

theorem register_mono (fold : Str → Str) (rest : List Name) (i0 : Nat) (tbl : Table) (dups : List Nat) :
    (∀ e ∈ tbl, e ∈ (register fold rest i0 tbl dups).1) ∧
    (∀ d ∈ dups, d ∈ (register fold rest i0 tbl dups).2) := by
  induction rest generalizing i0 tbl dups with
  | nil => simp [register]
  | cons n rest ih =>
    simp only [register]
    split
    · obtain ⟨a, b⟩ := ih (i0 + 1) tbl (i0 :: dups)
      exact ⟨a, fun d hd => b d (List.mem_cons_of_mem _ hd)⟩
    · obtain ⟨a, b⟩ := ih (i0 + 1) (((forms n).map fun f => (foldName fold f, i0)).reverse ++ tbl) dups
      exact ⟨fun e he => a e (List.mem_append_right _ he), b⟩

/-- Every form of every tag that was not flagged as duplicate is bound to that tag. -/
theorem register_complete (fold : Str → Str) (rest : List Name) (i0 : Nat) (tbl : Table)
    (dups : List Nat) (p : Nat) (n : Name) (hp : rest[p]? = some n)
    (hnd : (i0 + p) ∉ (register fold rest i0 tbl dups).2) :
    ∀ f ∈ forms n, (foldName fold f, i0 + p) ∈ (register fold rest i0 tbl dups).1 := by
  induction rest generalizing i0 tbl dups p with
  | nil => simp at hp
  | cons m rest ih =>
    simp only [register] at hnd ⊢
    cases p with
    | zero =>
      simp only [List.getElem?_cons_zero, Option.some.injEq] at hp
      subst hp
      split
      · rename_i hd
        simp only [hd, ↓reduceIte] at hnd
        exact absurd ((register_mono fold rest (i0 + 1) tbl (i0 :: dups)).2 i0 List.mem_cons_self) hnd
      · intro f hf
        apply (register_mono fold rest (i0 + 1) _ dups).1
        apply List.mem_append_left
        simp only [List.mem_reverse, List.mem_map]
        exact ⟨f, hf, rfl⟩
    | succ p' =>
      simp only [List.getElem?_cons_succ] at hp
      have e1 : i0 + (p' + 1) = (i0 + 1) + p' := by omega
      rw [e1] at hnd ⊢
      split
      · rename_i hd
        simp only [hd, ↓reduceIte] at hnd
        exact ih (i0 + 1) tbl (i0 :: dups) p' hp hnd
      · rename_i hd
        simp only [hd, Bool.false_eq_true, ↓reduceIte] at hnd
        exact ih (i0 + 1) _ dups p' hp hnd

/-! ### splitting and joining at `/` -/

def NoSlash (n : Name) : Prop := ∀ c ∈ n, '/' ∉ c

theorem splitSlash_go_noslash (cur c : Str) (h : '/' ∉ c) (rest : Str) :
    splitSlash.go cur (c ++ rest) = splitSlash.go (c.reverse ++ cur) rest := by
  induction c generalizing cur with
  | nil => rfl
  | cons x xs ih =>
    have hx : (x == '/') = false := by
      have : x ≠ '/' := fun e => h (by simp [e])
      simpa using this
    simp only [List.cons_append, splitSlash.go, hx, Bool.false_eq_true, ↓reduceIte]
    rw [ih (x :: cur) (fun hm => h (List.mem_cons_of_mem _ hm))]
    simp

theorem splitSlash_joinSlash (n : Name) (hne : n ≠ []) (h : NoSlash n) :
    splitSlash (joinSlash n) = n := by
  unfold splitSlash
  induction n with
  | nil => exact absurd rfl hne
  | cons c cs ih =>
    cases cs with
    | nil =>
      have := splitSlash_go_noslash [] c (h c (by simp)) []
      simp only [List.append_nil] at this
      simp [joinSlash, this, splitSlash.go]
    | cons d ds =>
      have hc := h c (by simp)
      have := splitSlash_go_noslash [] c hc ('/' :: joinSlash (d :: ds))
      simp only [joinSlash, this, splitSlash.go, beq_self_eq_true, ↓reduceIte, List.append_nil,
        List.reverse_reverse]
      congr 1
      exact ih (by simp) (fun x hx => h x (List.mem_cons_of_mem _ hx))

/-! ### the walk -/

/-- If the first `k` prefixes beyond `k0` are all known and the next one is not (or the text ends),
the walk stops exactly there with the entry of the last known prefix. -/
theorem walk_spec (tbl : Table) (w : Name) (e : Nat → Nat) (k : Nat) (hk : k ≤ w.length)
    (hknown : ∀ j, 1 ≤ j → j ≤ k → tbl.get (w.take j) = some (e j))
    (hstop : k < w.length → tbl.get (w.take (k + 1)) = none)
    (k0 : Nat) (hk0 : k0 ≤ k) (cur : Option Nat) (hcur : 1 ≤ k0 → cur = some (e k0))
    (fuel : Nat) (hfuel : k - k0 ≤ fuel) :
    walk tbl w fuel cur k0 = (if k0 = k then cur else some (e k)).map (·, k) := by
  induction fuel generalizing k0 cur with
  | zero =>
    have : k0 = k := by omega
    subst this
    simp [walk]
  | succ fuel ih =>
    simp only [walk]
    by_cases hend : k0 ≥ w.length
    · have : k0 = k := by omega
      subst this
      rw [if_pos hend]
      simp
    · rw [if_neg hend]
      by_cases heq : k0 = k
      · subst heq
        rw [hstop (by omega)]
        simp
      · have h1 := hknown (k0 + 1) (by omega) (by omega)
        simp only [h1]
        have := ih (k0 + 1) (by omega) (some (e (k0 + 1))) (fun _ => rfl) (by omega)
        rw [this]
        by_cases h2 : k0 + 1 = k
        · subst h2; simp [heq]
        · simp [heq, h2]

end HedVerif.Schema

namespace HedVerif.C03
open HedVerif.Schema

/-- the vocabulary's dictionary binds each key to one entry -/
def WF (v : Vocab) : Prop := Functional v.table

/-- **Every suffix form of a registered tag is bound to it** (whatever the case of the spelling:
`direct_hit_case`).  `i` is the index of a tag that was not flagged as a duplicate. -/
theorem direct_hit (fold : Str → Str) (tags : List Name) (i : Nat) (n : Name)
    (hi : tags[i]? = some n) (hnd : i ∉ (Vocab.build fold tags).dups)
    (hwf : WF (Vocab.build fold tags)) (f : Name) (hf : f ∈ forms n) :
    (Vocab.build fold tags).table.get (foldName fold f) = some i := by
  apply get_of_mem _ hwf
  have := register_complete fold tags 0 [] [] i n hi (by simpa [Vocab.build] using hnd) f hf
  simpa [Vocab.build] using this

theorem direct_hit_case (fold : Str → Str) (tags : List Name) (i : Nat) (n : Name)
    (hi : tags[i]? = some n) (hnd : i ∉ (Vocab.build fold tags).dups)
    (hwf : WF (Vocab.build fold tags)) (f f' : Name) (hf : f ∈ forms n)
    (hcase : foldName fold f' = foldName fold f) (hnv : (foldName fold f).getLast? ≠ some ['#']) :
    findComps (Vocab.build fold tags) fold f' = .found i [] := by
  have h := direct_hit fold tags i n hi hnd hwf f hf
  unfold findComps
  simp only [hcase, h]
  have : ((foldName fold f).getLast? == some ['#']) = false := by simpa using hnv
  simp [this]

/-- On a text (not a component list): joining a slash-free spelling and parsing it back gives the
same components, so `find` on the spelled-out text is `findComps` on the components. -/
theorem find_text (v : Vocab) (fold : Str → Str) (f : Name) (hne : f ≠ []) (h : NoSlash f) :
    find v fold (joinSlash f) = findComps v fold f := by
  unfold find; rw [splitSlash_joinSlash f hne h]

/-- Registered bindings are sound: a key bound to `i` is a folded form of tag `i`. (Used to read
`WF` as "no folded form is shared by two registered tags".) -/
theorem registered_forms_disjoint (v : Vocab) (hwf : WF v) (k : Name) (i j : Nat)
    (hi : v.table.get k = some i) (hj : (k, j) ∈ v.table) : i = j :=
  hwf k i j (get_some_mem _ _ _ hi) hj

/-- **The walk stops at the deepest known prefix.** -/
theorem walk_stops (tbl : Table) (w : Name) (e : Nat → Nat) (k : Nat) (hk1 : 1 ≤ k) (hk : k ≤ w.length)
    (hknown : ∀ j, 1 ≤ j → j ≤ k → tbl.get (w.take j) = some (e j))
    (hstop : k < w.length → tbl.get (w.take (k + 1)) = none) :
    walk tbl w w.length none 0 = some (e k, k) := by
  have := walk_spec tbl w e k hk hknown hstop 0 (by omega) none (by omega) w.length (by omega)
  rw [this]
  have : ¬ (0 = k) := by omega
  simp [this]

/-- **Remainder carried over verbatim.** If the whole text is not itself a form, its first `k ≥ 1`
prefixes are forms (of entries `e 1 … e k`) and the next prefix is not, then the tag resolves to
`e k` — or to its `#` child when it has one — and the remainder is the rest of the text exactly as
written (original case), introduced by its slash; unless `e k` takes no value and one of the remaining
terms is itself a schema tag, which is the invalid-parent error. -/
theorem remainder_verbatim (v : Vocab) (fold : Str → Str) (comps : Name) (e : Nat → Nat) (k : Nat)
    (hk1 : 1 ≤ k) (hk : k < comps.length)
    (hnot : v.table.get (foldName fold comps) = none)
    (hknown : ∀ j, 1 ≤ j → j ≤ k → v.table.get ((foldName fold comps).take j) = some (e j))
    (hstop : v.table.get ((foldName fold comps).take (k + 1)) = none) :
    findComps v fold comps =
      match v.valueChild fold (e k) with
      | some ch => .found ch ('/' :: joinSlash (comps.drop k))
      | none =>
        match badTerm v.table (joinLen (comps.take k) + 1) ((foldName fold comps).drop k) with
        | some (a, b, x) => .invalidParent a b x
        | none => .found (e k) ('/' :: joinSlash (comps.drop k)) := by
  have hlen : (foldName fold comps).length = comps.length := by simp [foldName]
  have hw := walk_stops v.table (foldName fold comps) e k hk1 (by omega) hknown (fun _ => hstop)
  unfold findComps
  simp only [hnot, hw]
  have hne : (comps.drop k).isEmpty = false := by
    cases hd : comps.drop k with
    | nil => have := congrArg List.length hd; simp at this; omega
    | cons a b => rfl
  simp only [hne, Bool.false_eq_true, ↓reduceIte]
  cases v.valueChild fold (e k) with
  | some ch => rfl
  | none =>
    cases badTerm v.table (joinLen (comps.take k) + 1) ((foldName fold comps).drop k) with
    | none => rfl
    | some x => obtain ⟨a, b, c⟩ := x; rfl

/-- **Forms.** For a registered non-value tag `n`, its short form (last component) and its long form
(all components), in any case, resolve to the same entry with empty remainder; hence
`long(short t) = long(t)`, `short(long t) = short(t)` and both name the node of `t`. -/
theorem forms_roundtrip (fold : Str → Str) (tags : List Name) (i : Nat) (n : Name) (last : Str)
    (hi : tags[i]? = some n) (hnd : i ∉ (Vocab.build fold tags).dups)
    (hwf : WF (Vocab.build fold tags)) (hlast : n.getLast? = some last) (hnv : fold last ≠ ['#'])
    (hl : last ≠ ['#']) (s l : Name)
    (hs : foldName fold s = foldName fold [last]) (hlg : foldName fold l = foldName fold n) :
    findComps (Vocab.build fold tags) fold s = .found i [] ∧
    findComps (Vocab.build fold tags) fold l = .found i [] := by
  have hsuf : ∀ m : Name, m.getLast? = some last → [last] ∈ suffixes m := by
    intro m
    induction m with
    | nil => simp
    | cons c cs ih =>
      cases cs with
      | nil => intro h; simp at h; subst h; simp [suffixes]
      | cons d ds =>
        intro h
        simp only [suffixes, List.mem_cons]
        right
        have : (d :: ds).getLast? = some last := by simpa [List.getLast?_cons_cons] using h
        have := ih this
        simpa [suffixes] using this
  have hn_ne : n ≠ [] := by intro h; subst h; simp at hlast
  have hself : n ∈ suffixes n := by
    cases n with
    | nil => exact absurd rfl hn_ne
    | cons c cs => simp [suffixes]
  have hf1 : [last] ∈ forms n := by
    simp only [forms, List.mem_filter]
    refine ⟨hsuf n hlast, ?_⟩
    simp only [bne_iff_ne, ne_eq, List.cons.injEq, and_true]
    exact hl
  have hf2 : n ∈ forms n := by
    simp only [forms, List.mem_filter]
    refine ⟨hself, ?_⟩
    simp only [bne_iff_ne, ne_eq]
    intro h; subst h; simp at hlast; exact hl hlast.symm
  constructor
  · apply direct_hit_case fold tags i n hi hnd hwf [last] s hf1 hs
    simp [foldName, hnv]
  · apply direct_hit_case fold tags i n hi hnd hwf n l hf2 hlg
    simp only [foldName, List.getLast?_map, hlast, Option.map_some, ne_eq, Option.some.injEq]
    exact hnv

/-- The namespace of a text without ':' is empty; a colon before the first slash ends it. -/
theorem namespace_ascii (p rest : Str) (hp : ':' ∉ p) (hp2 : '/' ∉ p) :
    namespaceOf (p ++ ':' :: rest) = p ++ [':'] := by
  unfold namespaceOf
  have h1 : (p ++ ':' :: rest).idxOf? ':' = some p.length := by
    induction p with
    | nil => simp [List.idxOf?, List.findIdx?_cons]
    | cons c cs ih =>
      have hc : c ≠ ':' := fun e => hp (by simp [e])
      have := ih (fun h => hp (List.mem_cons_of_mem _ h)) (fun h => hp2 (List.mem_cons_of_mem _ h))
      simp only [List.idxOf?, List.cons_append, List.findIdx?_cons] at this ⊢
      have hc' : (c == ':') = false := by simpa using hc
      simp [hc', this]
  have htake : (p ++ ':' :: rest).take (p.length + 1) = p ++ [':'] := by
    clear h1 hp hp2
    induction p with
    | nil => simp
    | cons c cs ih => simpa using ih
  rw [h1]
  simp only
  cases hs : (p ++ ':' :: rest).idxOf? '/' with
  | none => simpa using htake
  | some is =>
    have : p.length ≤ is := by
      -- the first slash cannot be inside p
      simp only [List.idxOf?] at hs
      have := (List.findIdx?_eq_some_iff_getElem.mp hs)
      obtain ⟨hlt, hget, _⟩ := this
      by_cases hcmp : is < p.length
      · have : (p ++ ':' :: rest)[is] = p[is] := List.getElem_append_left hcmp
        rw [this] at hget
        have hpe : p[is] = '/' := by simpa using hget
        exact absurd (hpe ▸ List.getElem_mem hcmp) hp2
      · omega
    have : ¬ (p.length > is) := by omega
    simpa [this] using htake

/-- non-vacuity on a small vocabulary -/
example :
    let v := Vocab.build id ["Item".toList |> splitSlash, "Item/Object".toList |> splitSlash,
      "Item/Label".toList |> splitSlash, "Item/Label/#".toList |> splitSlash]
    find v id "Object".toList = .found 1 [] ∧
    find v id "Item/Label/abc".toList = .found 3 "/abc".toList ∧
    find v id "Object/Ext".toList = .found 1 "/Ext".toList ∧
    find v id "Object/Ext/Label".toList = .invalidParent 11 16 2 := by decide

end HedVerif.C03
