/-
C12 — Every reported issue is well-formed and points at the offending text.
-/
import HedVerif.Model.Issue
import HedVerif.Props.C12Stack
import HedVerif.Generated.C12Sort

namespace HedVerif.Issue

theorem updateCharPos_severity (hs : Bool) (i : Issue) : (updateCharPos hs i).severity = i.severity := by
  unfold updateCharPos
  split
  · rfl
  · split <;> rfl

theorem addContext_severity (i : Issue) (ctx : List (Str × Val)) : (addContext i ctx).severity = i.severity := rfl

theorem updateCharPos_code (hs : Bool) (i : Issue) : (updateCharPos hs i).code = i.code := by
  unfold updateCharPos
  split
  · rfl
  · split <;> rfl

theorem filter_map_comm (f : Issue → Issue) (hf : ∀ i, (f i).severity = i.severity) (l : List Issue) :
    filterErrors (l.map f) = (filterErrors l).map f := by
  have hc : (isError ∘ f) = isError := by
    funext i; simp [isError, hf]
  simp only [filterErrors, List.filter_map, hc]

theorem filterErrors_idem (l : List Issue) : filterErrors (filterErrors l) = filterErrors l := by
  simp [filterErrors]

theorem anyErrors_filter (l : List Issue) : anyErrors (filterErrors l) = anyErrors l := by
  induction l with
  | nil => rfl
  | cons x xs ih =>
    simp only [filterErrors, List.filter_cons, anyErrors] at ih ⊢
    by_cases hx : isError x = true
    · simp [hx]
    · have : isError x = false := by simpa using hx
      simp [this, ih]

theorem anyErrors_map (f : Issue → Issue) (hf : ∀ i, (f i).severity = i.severity) (l : List Issue) :
    anyErrors (l.map f) = anyErrors l := by
  induction l with
  | nil => rfl
  | cons x xs ih => simp only [anyErrors, List.map_cons, List.any_cons, isError, hf] at ih ⊢; rw [ih]

theorem noErrors_filter_nil (l : List Issue) (h : anyErrors l = false) : filterErrors l = [] := by
  induction l with
  | nil => rfl
  | cons x xs ih =>
    simp only [anyErrors, List.any_cons, Bool.or_eq_false_iff] at h
    simp only [filterErrors, List.filter_cons, h.1, Bool.false_eq_true, ↓reduceIte]
    exact ih h.2

/-! ### sorting -/

theorem ins_perm (key : Issue → List KeyPart) (x : Issue) (l : List Issue) :
    (sortBy.ins key x l).Perm (x :: l) := by
  induction l with
  | nil => exact List.Perm.refl _
  | cons y ys ih =>
    simp only [sortBy.ins]
    split
    · exact (List.Perm.cons y ih).trans (List.Perm.swap x y ys)
    · exact List.Perm.refl _

/-- no element is strictly smaller than an earlier one -/
def Sorted (key : Issue → List KeyPart) : List Issue → Prop
  | [] => True
  | x :: xs => (∀ y ∈ xs, keyLt (key y) (key x) = false) ∧ Sorted key xs

theorem ins_mem (key : Issue → List KeyPart) (x : Issue) (l : List Issue) (z : Issue) :
    z ∈ sortBy.ins key x l ↔ z = x ∨ z ∈ l := by
  have := (ins_perm key x l).mem_iff (a := z)
  simpa using this

theorem strLt_irrefl (a : Str) : strLt a a = false := by
  induction a with
  | nil => rfl
  | cons c cs ih => simp [strLt, ih]

theorem strLt_asymm (a b : Str) (h : strLt a b = true) : strLt b a = false := by
  induction a generalizing b with
  | nil => cases b <;> simp_all [strLt]
  | cons c cs ih =>
    cases b with
    | nil => simp [strLt] at h
    | cons d ds =>
      simp only [strLt, Bool.or_eq_true, decide_eq_true_eq, Bool.and_eq_true, beq_iff_eq] at h ⊢
      rcases h with h | ⟨h1, h2⟩
      · have : ¬ d.toNat < c.toNat := by omega
        have hne : d ≠ c := by intro e; subst e; omega
        simp [this, hne]
      · subst h1
        simp [ih ds h2]

theorem partLt_irrefl (a : KeyPart) : a.lt a = false := by
  cases a with
  | n v => simp [KeyPart.lt]
  | s v => simp [KeyPart.lt, strLt_irrefl]

theorem partLt_asymm (a b : KeyPart) (h : a.lt b = true) : b.lt a = false := by
  cases a <;> cases b <;> simp_all [KeyPart.lt]
  · omega
  · exact strLt_asymm _ _ h

theorem keyLt_irrefl (k : List KeyPart) : keyLt k k = false := by
  induction k with
  | nil => rfl
  | cons a as ih => simp [keyLt, partLt_irrefl, ih]

theorem keyLt_asymm (a b : List KeyPart) (h : keyLt a b = true) : keyLt b a = false := by
  induction a generalizing b with
  | nil => cases b <;> simp_all [keyLt]
  | cons x xs ih =>
    cases b with
    | nil => simp [keyLt] at h
    | cons y ys =>
      simp only [keyLt, Bool.or_eq_true, Bool.and_eq_true, beq_iff_eq] at h
      simp only [keyLt, Bool.or_eq_false_iff, Bool.and_eq_false_iff]
      rcases h with h | ⟨h1, h2⟩
      · refine ⟨partLt_asymm _ _ h, Or.inl ?_⟩
        have : y ≠ x := by intro e; subst e; rw [partLt_irrefl] at h; cases h
        simpa using this
      · subst h1
        exact ⟨partLt_irrefl _, Or.inr (ih ys h2)⟩

/-- consecutive elements are never in strictly descending key order -/
def AdjSorted (key : Issue → List KeyPart) : List Issue → Prop
  | [] => True
  | [_] => True
  | a :: b :: rest => keyLt (key b) (key a) = false ∧ AdjSorted key (b :: rest)

theorem ins_adjSorted (key : Issue → List KeyPart) (x : Issue) (l : List Issue)
    (h : AdjSorted key l) : AdjSorted key (sortBy.ins key x l) := by
  induction l with
  | nil => trivial
  | cons y ys ih =>
    simp only [sortBy.ins]
    by_cases hyx : keyLt (key y) (key x) = true
    · simp only [hyx, ↓reduceIte]
      have htail : AdjSorted key ys := by
        cases ys with
        | nil => trivial
        | cons z zs => exact h.2
      have ih' := ih htail
      cases ys with
      | nil => exact ⟨keyLt_asymm _ _ hyx, trivial⟩
      | cons z zs =>
        simp only [sortBy.ins] at ih' ⊢
        by_cases hzx : keyLt (key z) (key x) = true
        · simp only [hzx, ↓reduceIte] at ih' ⊢
          exact ⟨h.1, ih'⟩
        · have hzx' : keyLt (key z) (key x) = false := by simpa using hzx
          simp only [hzx', Bool.false_eq_true, ↓reduceIte] at ih' ⊢
          exact ⟨keyLt_asymm _ _ hyx, ih'⟩
    · have hyx' : keyLt (key y) (key x) = false := by simpa using hyx
      simp only [hyx', Bool.false_eq_true, ↓reduceIte]
      exact ⟨hyx', h⟩

theorem ins_filter_key (key : Issue → List KeyPart) (x : Issue) (l : List Issue) (k : List KeyPart) :
    (sortBy.ins key x l).filter (fun i => key i == k) =
      (if key x == k then x :: l.filter (fun i => key i == k) else l.filter (fun i => key i == k)) := by
  induction l with
  | nil => simp only [sortBy.ins, List.filter_cons, List.filter_nil]
  | cons y ys ih =>
    simp only [sortBy.ins]
    by_cases hyx : keyLt (key y) (key x) = true
    · simp only [hyx, ↓reduceIte, List.filter_cons, ih]
      -- y is strictly smaller than x, so it does not share x's key
      have hne : key y ≠ key x := by intro e; rw [e, keyLt_irrefl] at hyx; cases hyx
      by_cases hxk : key x = k
      · have hyk : (key y == k) = false := by subst hxk; simpa using hne
        simp [hxk, hyk]
      · have hxk' : (key x == k) = false := by simpa using hxk
        simp [hxk']
    · have hyx' : keyLt (key y) (key x) = false := by simpa using hyx
      simp only [hyx', Bool.false_eq_true, ↓reduceIte, List.filter_cons]

theorem export_isJson : ∀ v : Val, v.export.isJson = true
  | .num _ => rfl
  | .str _ => rfl
  | .ref _ => rfl
  | .list xs => by
    simp only [Val.export, Val.isJson]
    exact exportList_allJson xs
where exportList_allJson : ∀ xs : List Val, Val.isJson.allJson (Val.export.exportList xs) = true
  | [] => rfl
  | x :: xs => by
    simp only [Val.export.exportList, Val.isJson.allJson, Bool.and_eq_true]
    exact ⟨export_isJson x, exportList_allJson xs⟩

end HedVerif.Issue

namespace HedVerif.C12
open HedVerif.Issue

/-- **Fields.** Decoration and filtering never change an issue's code or severity. -/
theorem decorate_keeps_code_severity (w hs : Bool) (ctx : List (Str × Val)) (l : List Issue) :
    ∀ j ∈ decorate w hs ctx l, ∃ i ∈ l, j.code = i.code ∧ j.severity = i.severity := by
  intro j hj
  unfold decorate at hj
  simp only [List.mem_map] at hj
  obtain ⟨i, hi, rfl⟩ := hj
  refine ⟨i, ?_, by rw [updateCharPos_code]; rfl, by rw [updateCharPos_severity]; rfl⟩
  split at hi
  · exact hi
  · exact (List.mem_filter.mp hi).1

/-- **Offsets.** If the tag-relative indices lie inside the tag (`idx ≤ idxEnd ≤ e − s`) and the tag
span lies inside the text, the character offsets lie inside the text and inside the tag's span. -/
theorem offsets_in_range (i : Issue) (s e n : Nat) (hspan : i.span = some (s, e)) (hse : s ≤ e) (hen : e ≤ n)
    (hidx : i.idx.getD 0 ≤ (i.idxEnd.getD (e - s))) (hend : i.idxEnd.getD (e - s) ≤ e - s) :
    ∃ a b, (updateCharPos true i).charIdx = some (a, b) ∧ s ≤ a ∧ a ≤ b ∧ b ≤ e ∧ e ≤ n := by
  unfold updateCharPos
  simp only [Bool.not_true, Bool.false_eq_true, ↓reduceIte, hspan]
  by_cases hm : i.modified = true
  · simp only [hm, ↓reduceIte]
    exact ⟨s, e, rfl, Nat.le_refl _, hse, Nat.le_refl _, hen⟩
  · have : i.modified = false := by simpa using hm
    simp only [this, Bool.false_eq_true, ↓reduceIte]
    cases hie : i.idxEnd with
    | none =>
      simp only [hie, Option.getD_none] at hidx hend
      exact ⟨s + i.idx.getD 0, e, rfl, by omega, by omega, Nat.le_refl _, hen⟩
    | some k =>
      simp only [hie, Option.getD_some] at hidx hend
      exact ⟨s + i.idx.getD 0, s + k, rfl, by omega, by omega, by omega, hen⟩

/-- **Quoted fragment.** The fragment quoted in the message, `tag[idx:idxEnd]` with
`tag = text[s:e]`, is exactly `text[s+idx : s+idxEnd]`. -/
theorem fragment_is_text_slice (text : Str) (s e a b : Nat) (hb : b ≤ e - s) :
    Tree.slice (Tree.slice text s e) a b = Tree.slice text (s + a) (s + b) := by
  unfold Tree.slice
  rw [List.drop_take, List.take_take, List.drop_drop]
  congr 1
  omega

/-- n-fold application -/
def iter {α : Type} (f : α → α) : Nat → α → α
  | 0, a => a
  | n + 1, a => iter f n (f a)

/-- **Location suffix once.** However often an issue passes through decoration, the location text
is appended at most once (code after fix 10acb36). -/
theorem suffix_once (hs : Bool) (i : Issue) (n : Nat) (h0 : i.charIdx = none) :
    (iter (updateCharPos hs) n i).suffixes ≤ i.suffixes + 1 := by
  have key : ∀ (j : Issue), (updateCharPos hs j).suffixes ≤ j.suffixes + 1 ∧
      ((updateCharPos hs j).charIdx.isSome ∨ updateCharPos hs j = j) ∧
      (j.charIdx.isSome → (updateCharPos hs j).suffixes = j.suffixes ∧ (updateCharPos hs j).charIdx.isSome) := by
    intro j
    unfold updateCharPos
    split
    · simp
    · split
      · simp
      · rename_i s e hsp
        refine ⟨?_, Or.inl rfl, ?_⟩
        · simp only; split <;> omega
        · intro hj
          have : j.charIdx.isNone = false := by
            cases hc : j.charIdx <;> simp_all
          simp [this]
  -- once charIdx is set the count stays; before that the issue is unchanged
  have gen : ∀ (n : Nat) (j : Issue),
      (j.charIdx.isSome → (iter (updateCharPos hs) n j).suffixes = j.suffixes) := by
    intro n
    induction n with
    | zero => intro j _; rfl
    | succ n ih =>
      intro j hj
      simp only [iter]
      have k := (key j).2.2 hj
      rw [ih _ k.2, k.1]
  induction n generalizing i with
  | zero => simp [iter]
  | succ n ih =>
    simp only [iter]
    rcases (key i).2.1 with hset | hsame
    · rw [gen n _ hset]; exact (key i).1
    · rw [hsame]; exact ih i h0

/-- the code before the fix appended the suffix on every pass -/
theorem suffix_twice_counterexample :
    let i : Issue := { code := [], severity := 10, span := some (0, 3) }
    (updateCharPosOld true (updateCharPosOld true i)).suffixes = 2 := by decide

/-- **Errors only = the error-severity subset.** The validation pipeline run with warnings off returns
exactly the error-severity issues of the run with warnings on (the short-circuit looks at errors only). -/
theorem pipeline_filter (hs : Bool) (ctx : List (Str × Val)) (basic full : List Issue) :
    pipeline false hs ctx basic full = filterErrors (pipeline true hs ctx basic full) := by
  have hf : ∀ i, (updateCharPos hs (addContext i ctx)).severity = i.severity := by
    intro i; rw [updateCharPos_severity]; rfl
  unfold pipeline decorate
  simp only [Bool.false_eq_true, ↓reduceIte]
  have h1 : anyErrors ((filterErrors basic).map fun i => updateCharPos hs (addContext i ctx)) =
      anyErrors (basic.map fun i => updateCharPos hs (addContext i ctx)) := by
    rw [anyErrors_map _ hf, anyErrors_map _ hf, anyErrors_filter]
  rw [h1]
  split
  · rw [filter_map_comm _ hf]
  · rw [filter_map_comm _ hf]
    congr 1
    simp only [filterErrors, List.filter_append]
    congr 1
    have := filter_map_comm _ hf basic
    have h2 := filter_map_comm _ hf (filterErrors basic)
    simp only [filterErrors] at this h2
    rw [this, h2, List.filter_filter]
    simp

/-- **Sorting** is a permutation, never puts a strictly smaller key after a larger one, and is
stable: issues with equal keys keep their relative order. -/
theorem sort_perm (key : Issue → List KeyPart) (l : List Issue) : (sortBy key l).Perm l := by
  induction l with
  | nil => exact List.Perm.refl _
  | cons x xs ih => exact (ins_perm key x _).trans (List.Perm.cons x ih)

theorem sort_ordered (key : Issue → List KeyPart) (l : List Issue) : AdjSorted key (sortBy key l) := by
  induction l with
  | nil => trivial
  | cons x xs ih => exact ins_adjSorted key x _ ih

theorem sort_stable (key : Issue → List KeyPart) (l : List Issue) (k : List KeyPart) :
    (sortBy key l).filter (fun i => key i == k) = l.filter (fun i => key i == k) := by
  induction l with
  | nil => rfl
  | cons x xs ih =>
    simp only [sortBy, ins_filter_key, ih, List.filter_cons]

/-- The order is lexicographic in the order of the sort list: a strictly smaller first component
decides, whatever follows (with the generated `default_sort_list` the first components are file,
sidecar column, sidecar key, row). -/
theorem key_lexicographic (a b : KeyPart) (as bs : List KeyPart) :
    keyLt (a :: as) (b :: bs) = (a.lt b || (a == b && keyLt as bs)) := rfl

/-- **Export.** After reference replacement every field value is JSON-serialisable, and code and
severity are unchanged. -/
theorem export_json (i : Issue) :
    (∀ kv ∈ (exportIssue i).ctx, kv.2.isJson = true) ∧
    (exportIssue i).code = i.code ∧ (exportIssue i).severity = i.severity := by
  refine ⟨?_, rfl, rfl⟩
  intro kv hkv
  simp only [exportIssue, List.mem_map] at hkv
  obtain ⟨⟨k, v⟩, _, rfl⟩ := hkv
  exact export_isJson v

/-- non-vacuity: a warning decorated twice under a string context -/
example :
    let i : Issue := { code := "TAG_EXTENDED".toList, severity := 10, span := some (4, 11), idx := some 3,
                       idxEnd := some 7 }
    let d := updateCharPos true (updateCharPos true i)
    d.charIdx = some (7, 11) ∧ d.suffixes = 1 := by decide

end HedVerif.C12

namespace HedVerif.C12
open HedVerif.Generated.C12 in
/-- **Regenerated table obligation**: in the source's `default_sort_list`, file name, sidecar column,
sidecar key and row come in this order and before every other context except the custom title. -/
theorem sort_list_spec :
    ((sortList.map (·.1)).filter (fun n => specOrder.contains n) = specOrder) ∧
    (((sortList.map (·.1)).drop 1).take 4 = specOrder) ∧
    (sortList.filter (·.2) |>.map (·.1)) = [specOrder.getLast!] := by decide
end HedVerif.C12
