/-
C10 — Onset/Offset/Inset bookkeeping follows the event history exactly.
-/
import HedVerif.Model.Temporal

namespace HedVerif.Temporal

/-! ### abstract specification: the open scopes as a set (characteristic function) -/

abbrev SSet := Str → Bool

def specHandle (S : SSet) (kind : MKind) (key : Str) : SSet × Option Err :=
  match kind with
  | .onset => (fun k => k == key || S k, none)
  | .offset => if S key then (fun k => !(k == key) && S k, none) else (S, some .offsetBeforeOnset)
  | .inset => if S key then (S, none) else (S, some .insetBeforeOnset)

def specMarker (fold : Str → Str) (st : SSet × SSet) (m : Marker) : (SSet × SSet) × Option Err :=
  let key := fold m.name
  if st.2 key then (st, some .sameDefs)
  else
    let (S', e) := specHandle st.1 m.kind key
    ((S', fun k => k == key || st.2 k), e)

def specPointGo (fold : Str → Str) (st : SSet × SSet) (i : Nat) :
    List Marker → SSet × List (Nat × Err)
  | [] => (st.1, [])
  | m :: rest =>
    let (st', e) := specMarker fold st m
    let (S', es) := specPointGo fold st' (i + 1) rest
    (S', match e with | some x => (i, x) :: es | none => es)

def specRun (fold : Str → Str) : SSet → Nat → List (List Marker) → List (Nat × Nat × Err)
  | _, _, [] => []
  | S, t, ms :: rest =>
    let (S', es) := specPointGo fold (S, fun _ => false) 0 ms
    es.map (fun (i, e) => (t, i, e)) ++ specRun fold S' (t + 1) rest

/-- abstraction: a key list denotes its membership function -/
def abs (l : List Str) : SSet := fun k => l.contains k

theorem insertKey_nodup (op : List Str) (k : Str) (h : op.Nodup) : (insertKey op k).Nodup := by
  unfold insertKey
  split
  · exact h
  · rename_i hc
    simp only [List.contains_eq_mem, decide_eq_true_eq] at hc
    exact List.nodup_cons.mpr ⟨hc, h⟩

theorem abs_insertKey (op : List Str) (k : Str) :
    abs (insertKey op k) = fun x => x == k || abs op x := by
  funext x
  unfold insertKey abs
  by_cases hc : op.contains k = true
  · simp only [hc, ↓reduceIte]
    by_cases hx : x = k
    · subst hx; simpa using hc
    · simp [hx]
  · simp only [hc, Bool.false_eq_true, ↓reduceIte, List.contains_cons]

theorem abs_erase (op : List Str) (k : Str) (h : op.Nodup) :
    abs (op.erase k) = fun x => !(x == k) && abs op x := by
  funext x
  unfold abs
  by_cases hx : x = k
  · subst hx
    simp [List.Nodup.mem_erase_iff h]
  · simp [hx, List.mem_erase_of_ne hx]

theorem handle_refines (op : List Str) (kind : MKind) (key : Str) (hn : op.Nodup) :
    (handle op kind key).1.Nodup ∧
    abs (handle op kind key).1 = (specHandle (abs op) kind key).1 ∧
    (handle op kind key).2 = (specHandle (abs op) kind key).2 := by
  cases kind with
  | onset => exact ⟨insertKey_nodup op key hn, abs_insertKey op key, rfl⟩
  | offset =>
    unfold handle specHandle
    by_cases hc : op.contains key = true
    · have h2 : abs op key = true := hc
      simp only [hc, h2, ↓reduceIte]
      exact ⟨hn.erase key, abs_erase op key hn, (by first | trivial | rfl)⟩
    · have hc' : op.contains key = false := by simpa using hc
      have h2 : abs op key = false := hc'
      simp only [hc', h2, Bool.false_eq_true, ↓reduceIte]
      exact ⟨hn, (by first | trivial | rfl), (by first | trivial | rfl)⟩
  | inset =>
    unfold handle specHandle
    by_cases hc : op.contains key = true
    · have h2 : abs op key = true := hc
      simp only [hc, h2, ↓reduceIte]
      exact ⟨hn, (by first | trivial | rfl), (by first | trivial | rfl)⟩
    · have hc' : op.contains key = false := by simpa using hc
      have h2 : abs op key = false := hc'
      simp only [hc', h2, Bool.false_eq_true, ↓reduceIte]
      exact ⟨hn, (by first | trivial | rfl), (by first | trivial | rfl)⟩

theorem stepMarker_refines (fold : Str → Str) (st : List Str × List Str) (m : Marker)
    (hn : st.1.Nodup) :
    (stepMarker fold st m).1.1.Nodup ∧
    abs (stepMarker fold st m).1.1 = (specMarker fold (abs st.1, abs st.2) m).1.1 ∧
    abs (stepMarker fold st m).1.2 = (specMarker fold (abs st.1, abs st.2) m).1.2 ∧
    (stepMarker fold st m).2 = (specMarker fold (abs st.1, abs st.2) m).2 := by
  unfold stepMarker specMarker
  by_cases hc : st.2.contains (fold m.name) = true
  · have h2 : abs st.2 (fold m.name) = true := hc
    simp only [hc, h2, ↓reduceIte]
    exact ⟨hn, (by first | trivial | rfl), (by first | trivial | rfl), (by first | trivial | rfl)⟩
  · have hc' : st.2.contains (fold m.name) = false := by simpa using hc
    have h2 : abs st.2 (fold m.name) = false := hc'
    obtain ⟨a, b, c⟩ := handle_refines st.1 m.kind (fold m.name) hn
    simp only [hc', h2, Bool.false_eq_true, ↓reduceIte]
    refine ⟨a, b, ?_, c⟩
    funext x
    by_cases hx : x = fold m.name <;> simp [abs, hx]

theorem go_refines (fold : Str → Str) (ms : List Marker) (st : List Str × List Str) (i : Nat)
    (hn : st.1.Nodup) :
    (stepPoint.go fold st i ms).1.Nodup ∧
    abs (stepPoint.go fold st i ms).1 = (specPointGo fold (abs st.1, abs st.2) i ms).1 ∧
    (stepPoint.go fold st i ms).2 = (specPointGo fold (abs st.1, abs st.2) i ms).2 := by
  induction ms generalizing st i with
  | nil => exact ⟨hn, (by first | trivial | rfl), (by first | trivial | rfl)⟩
  | cons m rest ih =>
    obtain ⟨a, b, c, d⟩ := stepMarker_refines fold st m hn
    have ih' := ih (stepMarker fold st m).1 (i + 1) a
    simp only [stepPoint.go, specPointGo]
    have e : (specMarker fold (abs st.1, abs st.2) m).1 =
        (abs (stepMarker fold st m).1.1, abs (stepMarker fold st m).1.2) := by
      rw [b, c]
    rw [e, ← d]
    refine ⟨ih'.1, ih'.2.1, ?_⟩
    rw [ih'.2.2]
    cases (stepMarker fold st m).2 <;> rfl

theorem run_refines (fold : Str → Str) (h : List (List Marker)) (op : List Str) (t : Nat)
    (hn : op.Nodup) : run fold op t h = specRun fold (abs op) t h := by
  induction h generalizing op t with
  | nil => rfl
  | cons ms rest ih =>
    obtain ⟨a, b, c⟩ := go_refines fold ms (op, []) 0 hn
    have e0 : abs ([] : List Str) = fun _ => false := by funext x; simp [abs]
    simp only [run, specRun, stepPoint]
    rw [e0] at b c
    rw [← b, ← c, ih _ _ a]

/-! ### what "open" means: the last non-Inset effective marker of that name is an Onset -/

/-- the effective marker stream: key-folded markers that were not skipped as same-time-point
duplicates, in processing order, with kind -/
def lastNonInset (evs : List (MKind × Str)) (k : Str) : Option MKind :=
  match evs with
  | [] => none
  | (kind, key) :: rest =>
    match lastNonInset rest k with
    | some r => some r
    | none => if key == k && kind != .inset then some kind else none

/-- process an effective stream on the abstract set (errors ignored) -/
def specFold (S : SSet) : List (MKind × Str) → SSet
  | [] => S
  | (kind, key) :: rest => specFold (specHandle S kind key).1 rest

theorem specFold_char (evs : List (MKind × Str)) (S : SSet) (k : Str) :
    specFold S evs k =
      match lastNonInset evs k with
      | some kind => kind == .onset
      | none => S k := by
  induction evs generalizing S with
  | nil => rfl
  | cons ev rest ih =>
    obtain ⟨kind, key⟩ := ev
    simp only [specFold, lastNonInset]
    rw [ih]
    cases hl : lastNonInset rest k with
    | some r => rfl
    | none =>
      simp only
      by_cases hk : key = k
      · subst hk
        cases kind <;> simp [specHandle] <;> split <;> simp_all
      · have : (key == k) = false := by simpa using hk
        have hk' : (k == key) = false := by simpa using (Ne.symm hk)
        cases kind <;> simp [specHandle, this, hk'] <;> split <;> simp_all

end HedVerif.Temporal

namespace HedVerif.C10
open HedVerif.Temporal

/-- **Refinement.** For every history, the errors of the implementation's dictionary machine are
exactly those of the set specification: a marker whose folded name already occurred in this time point
is `sameDefs` (and has no effect); otherwise Offset/Inset is an error iff the name is not open; Onset
opens (or restarts), Offset closes, Inset leaves the set unchanged. -/
theorem refines (fold : Str → Str) (h : List (List Marker)) :
    run fold [] 0 h = specRun fold (fun _ => false) 0 h := by
  have := run_refines fold h [] 0 List.nodup_nil
  have e0 : abs ([] : List Str) = fun _ => false := by funext x; simp [abs]
  rw [e0] at this
  exact this

/-- **Meaning of "open".** After any stream of effective markers, a name is open iff its last
non-Inset marker is an Onset. -/
theorem open_iff_last_onset (evs : List (MKind × Str)) (k : Str) :
    specFold (fun _ => false) evs k = (lastNonInset evs k == some .onset) := by
  rw [specFold_char]
  cases lastNonInset evs k with
  | none => rfl
  | some kind => cases kind <;> rfl

/-- **Scopes still open at the end are legal**: reaching the end of the history adds nothing;
every error is tagged with a time point of the history. -/
theorem errors_belong_to_markers (fold : Str → Str) (h : List (List Marker)) (op : List Str) (t : Nat) :
    ∀ x ∈ run fold op t h, t ≤ x.1 ∧ x.1 < t + h.length := by
  induction h generalizing op t with
  | nil => simp [run]
  | cons ms rest ih =>
    intro x hx
    simp only [run, List.mem_append, List.mem_map] at hx
    rcases hx with ⟨y, _, rfl⟩ | hx
    · simp
    · have := ih _ _ x hx
      simp only [List.length_cons]
      omega

theorem onsets_never_error (fold : Str → Str) (op used : List Str) (m : Marker)
    (hk : m.kind = .onset) (hu : used.contains (fold m.name) = false) :
    (stepMarker fold (op, used) m).2 = none := by
  have : fold m.name ∉ used := by simpa using hu
  simp [stepMarker, this, handle, hk]

/-- **Case-insensitive.** Respelling marker names without changing their folded form changes no
error. -/
theorem case_insensitive (fold : Str → Str) (ren : Str → Str)
    (hren : ∀ n, fold (ren n) = fold n) (h : List (List Marker)) (op : List Str) (t : Nat) :
    run fold op t (h.map (List.map fun m => { m with name := ren m.name })) = run fold op t h := by
  have hstep : ∀ st m, stepMarker fold st { m with name := ren m.name } = stepMarker fold st m := by
    intro st m; simp [stepMarker, hren]
  have hgo : ∀ ms st i, stepPoint.go fold st i (ms.map fun m => { m with name := ren m.name }) =
      stepPoint.go fold st i ms := by
    intro ms
    induction ms with
    | nil => intros; rfl
    | cons m rest ih => intro st i; simp only [List.map_cons, stepPoint.go, hstep, ih]
  induction h generalizing op t with
  | nil => rfl
  | cons ms rest ih => simp only [List.map_cons, run, stepPoint, hgo, ih]

/-! ### time points -/

def Sorted : List TRow → Prop
  | [] => True
  | [_] => True
  | x :: y :: rest => x.time ≤ y.time ∧ Sorted (y :: rest)

def StrictSorted : List TRow → Prop
  | [] => True
  | [_] => True
  | x :: y :: rest => x.time < y.time ∧ StrictSorted (y :: rest)

theorem sorted_tail {x : TRow} {l : List TRow} (h : Sorted (x :: l)) : Sorted l := by
  cases l with
  | nil => trivial
  | cons y ys => exact h.2

theorem insertRow_sorted (x : TRow) (l : List TRow) (h : Sorted l) : Sorted (insertRow x l) := by
  induction l with
  | nil => trivial
  | cons y ys ih =>
    simp only [insertRow]
    split
    · rename_i hle; exact ⟨hle, h⟩
    · rename_i hle
      have ih' := ih (sorted_tail h)
      cases ys with
      | nil => simp only [insertRow]; exact ⟨by omega, trivial⟩
      | cons z zs =>
        simp only [insertRow] at ih' ⊢
        split
        · rename_i h2; exact ⟨by omega, h2, h.2⟩
        · rename_i h2
          simp only [h2, ↓reduceIte] at ih'
          exact ⟨h.1, ih'⟩

theorem sortRows_sorted (l : List TRow) : Sorted (sortRows l) := by
  induction l with
  | nil => trivial
  | cons x xs ih => exact insertRow_sorted x _ ih

theorem insertRow_perm (x : TRow) (l : List TRow) : (insertRow x l).Perm (x :: l) := by
  induction l with
  | nil => exact List.Perm.refl _
  | cons y ys ih =>
    simp only [insertRow]
    split
    · exact List.Perm.refl _
    · exact (List.Perm.cons y ih).trans (List.Perm.swap x y ys)

theorem sortRows_perm (l : List TRow) : (sortRows l).Perm l := by
  induction l with
  | nil => exact List.Perm.refl _
  | cons x xs ih => exact (insertRow_perm x _).trans (List.Perm.cons x ih)

theorem mergeRows_head_time (l : List TRow) (x : TRow) :
    ∃ y ys, mergeRows (x :: l) = y :: ys ∧ y.time = x.time := by
  simp only [mergeRows]
  cases mergeRows l with
  | nil => exact ⟨x, [], rfl, rfl⟩
  | cons y ys =>
    simp only
    split
    · exact ⟨_, _, rfl, rfl⟩
    · exact ⟨_, _, rfl, rfl⟩

theorem mergeRows_strict (l : List TRow) (h : Sorted l) : StrictSorted (mergeRows l) := by
  induction l with
  | nil => trivial
  | cons x xs ih =>
    have ih' := ih (sorted_tail h)
    cases xs with
    | nil => simp [mergeRows, StrictSorted]
    | cons z zs =>
      obtain ⟨y, ys, hy, hyt⟩ := mergeRows_head_time zs z
      rw [mergeRows, hy]
      rw [hy] at ih'
      simp only
      split
      · -- merged: new head has x.time = y.time, and ys is strictly above y
        rename_i heq
        cases ys with
        | nil => trivial
        | cons w ws =>
          refine ⟨?_, ih'.2⟩
          show x.time < w.time
          have := ih'.1
          omega
      · rename_i hne
        exact ⟨by have := h.1; omega, ih'⟩

/-- the (time, marker) occurrences of a frame -/
def occ (l : List TRow) : List (Int × Marker) := l.flatMap fun r => r.markers.map fun m => (r.time, m)

theorem occ_mergeRows (l : List TRow) : occ (mergeRows l) = occ l := by
  induction l with
  | nil => rfl
  | cons x xs ih =>
    simp only [mergeRows]
    cases hm : mergeRows xs with
    | nil =>
      have : occ xs = [] := by rw [← ih, hm]; rfl
      simp [occ, List.flatMap_cons] at this ⊢
      exact this
    | cons y ys =>
      rw [hm] at ih
      simp only
      split
      · rename_i heq
        simp only [occ, List.flatMap_cons, List.map_append] at ih ⊢
        rw [← ih, heq]
        simp
      · simp only [occ, List.flatMap_cons] at ih ⊢
        rw [← ih]

theorem occ_perm {a b : List TRow} (h : a.Perm b) : (occ a).Perm (occ b) := by
  unfold occ
  exact List.Perm.flatMap_right _ h

/-- **Time points.** The frame handed to the Onset/Offset machine has strictly increasing times
(rows sharing an effective time have become one time point), and its (time, marker) occurrences are
exactly — as a multiset — those of the rows, a Delay group taking effect at `onset + delay`. -/
theorem timePoints_strict (rows : List Row) : StrictSorted (timePoints rows) :=
  mergeRows_strict _ (sortRows_sorted _)

theorem timePoints_content (rows : List Row) :
    (occ (timePoints rows)).Perm (occ (splitRows rows)) := by
  unfold timePoints
  rw [occ_mergeRows]
  exact occ_perm (sortRows_perm _)

/-- non-vacuity: a restart, a close, an unmatched inset, a same-time-point duplicate -/
example :
    run id [] 0 [[⟨.onset, ['a']⟩], [⟨.onset, ['a']⟩, ⟨.offset, ['a']⟩], [⟨.offset, ['a']⟩, ⟨.inset, ['b']⟩]]
      = [(1, 1, .sameDefs), (2, 1, .insetBeforeOnset)] := by decide

example : (timePoints [⟨8, [⟨.onset, ['a']⟩], [(8, [⟨.offset, ['a']⟩])]⟩, ⟨16, [⟨.inset, ['a']⟩], []⟩]).map
    (fun r => (r.time, r.markers.length, r.orig)) = [(8, 1, 0), (16, 2, 1)] := by decide


/-! ## growth: stability, order inside a time point, closed form, file order, group shape -/

/-- the rows of a frame whose (effective) time is `τ` -/
def atTime (τ : Int) (r : TRow) : Bool := r.time == τ

theorem insertRow_filter (τ : Int) (x : TRow) (l : List TRow) :
    (insertRow x l).filter (atTime τ) = (x :: l).filter (atTime τ) := by
  induction l with
  | nil => rfl
  | cons y ys ih =>
    simp only [insertRow]
    split
    · rfl
    · rename_i hle
      simp only [List.filter_cons, ih]
      by_cases hx : x.time = τ <;> by_cases hy : y.time = τ <;> simp_all [atTime]

/-- **Stable.** Sorting keeps the frame order of the rows that share an effective time. -/
theorem sortRows_stable (l : List TRow) (τ : Int) :
    (sortRows l).filter (atTime τ) = l.filter (atTime τ) := by
  induction l with
  | nil => rfl
  | cons x xs ih => simp only [sortRows, insertRow_filter, List.filter_cons, ih]

/-- what `filter_series_by_onset` makes of the rows sharing one time: one row, the first one's index -/
def squash : List TRow → List TRow
  | [] => []
  | r :: rs => [⟨r.time, (r :: rs).flatMap (·.markers), r.orig⟩]

theorem sorted_head_le {x : TRow} {l : List TRow} (h : Sorted (x :: l)) : ∀ y ∈ l, x.time ≤ y.time := by
  induction l generalizing x with
  | nil => simp
  | cons z zs ih =>
    intro y hy
    rcases List.mem_cons.mp hy with rfl | hy
    · exact h.1
    · have := ih h.2 y hy
      have := h.1
      omega

theorem filter_eq_nil_of_lt {x : TRow} {l : List TRow} (h : ∀ y ∈ l, x.time < y.time) :
    l.filter (atTime x.time) = [] := by
  simp only [List.filter_eq_nil_iff, atTime]
  intro y hy
  have := h y hy
  simp; omega

theorem mergeRows_filter (l : List TRow) (h : Sorted l) (τ : Int) :
    (mergeRows l).filter (atTime τ) = squash (l.filter (atTime τ)) := by
  induction l with
  | nil => rfl
  | cons x xs ih =>
    have ih' := ih (sorted_tail h)
    cases xs with
    | nil =>
      by_cases hx : x.time = τ
      · subst hx; simp [mergeRows, atTime, squash]
      · simp [mergeRows, atTime, hx, squash]
    | cons z zs =>
      obtain ⟨y, ys, hy, hyt⟩ := mergeRows_head_time zs z
      have hle := sorted_head_le h
      rw [mergeRows, hy]
      rw [hy] at ih'
      simp only
      split
      · rename_i heq
        by_cases hx : x.time = τ
        · subst hx
          have hyτ : atTime x.time y = true := by simp [atTime]; omega
          have hzτ : atTime x.time z = true := by simp [atTime]; omega
          have hxτ : atTime x.time x = true := by simp [atTime]
          have hmτ : atTime x.time ⟨x.time, x.markers ++ y.markers, x.orig⟩ = true := by simp [atTime]
          rw [List.filter_cons, hyτ, List.filter_cons, hzτ] at ih'
          rw [List.filter_cons, hmτ, List.filter_cons, hxτ, List.filter_cons, hzτ]
          simp only [↓reduceIte, squash, List.cons.injEq] at ih' ⊢
          obtain ⟨ih1, ih2⟩ := ih'
          rw [ih2, ih1]
          simp [List.flatMap_cons]
        · have hyτ : atTime τ y = false := by simp [atTime]; omega
          have hxτ : atTime τ x = false := by simp [atTime]; omega
          have hmτ : atTime τ ⟨x.time, x.markers ++ y.markers, x.orig⟩ = false := by simp [atTime]; omega
          rw [List.filter_cons, hyτ] at ih'
          rw [List.filter_cons, hmτ, List.filter_cons, hxτ]
          simpa using ih'
      · rename_i hne
        have hlt : ∀ w ∈ z :: zs, x.time < w.time := by
          intro w hw
          have h2 := hle z (by simp)
          have h3 := sorted_head_le (sorted_tail h)
          rcases List.mem_cons.mp hw with rfl | hw'
          · omega
          · have := h3 w hw'; omega
        by_cases hx : x.time = τ
        · subst hx
          have hnil := filter_eq_nil_of_lt hlt
          have hxτ : atTime x.time x = true := by simp [atTime]
          rw [List.filter_cons, hxτ, ih', hnil]
          rw [List.filter_cons, hxτ, hnil]
          simp [squash]
        · have hxτ : atTime τ x = false := by simp [atTime]; omega
          rw [List.filter_cons (x := x) (xs := y :: ys), hxτ, List.filter_cons (x := x) (xs := z :: zs), hxτ]
          simpa using ih'

theorem timePoints_filter (rows : List Row) (τ : Int) :
    (timePoints rows).filter (atTime τ) = squash ((splitRows rows).filter (atTime τ)) := by
  unfold timePoints
  rw [mergeRows_filter _ (sortRows_sorted _), sortRows_stable]

theorem strict_tail {x : TRow} {l : List TRow} (h : StrictSorted (x :: l)) : StrictSorted l := by
  cases l with
  | nil => trivial
  | cons y ys => exact h.2

theorem strict_head_lt {x : TRow} {l : List TRow} (h : StrictSorted (x :: l)) :
    ∀ y ∈ l, x.time < y.time := by
  induction l generalizing x with
  | nil => simp
  | cons z zs ih =>
    intro y hy
    rcases List.mem_cons.mp hy with rfl | hy
    · exact h.1
    · have := ih h.2 y hy
      have := h.1
      omega

theorem strict_filter_self {l : List TRow} (h : StrictSorted l) {tp : TRow} (hm : tp ∈ l) :
    l.filter (atTime tp.time) = [tp] := by
  induction l with
  | nil => simp at hm
  | cons x xs ih =>
    rcases List.mem_cons.mp hm with rfl | hm'
    · have hxτ : atTime tp.time tp = true := by simp [atTime]
      rw [List.filter_cons, hxτ, filter_eq_nil_of_lt (strict_head_lt h)]
      rfl
    · have := strict_head_lt h tp hm'
      have hxτ : atTime tp.time x = false := by simp [atTime]; omega
      rw [List.filter_cons, hxτ]
      exact ih (strict_tail h) hm'

theorem strict_pairwise {l : List TRow} (h : StrictSorted l) : (l.map (·.time)).Pairwise (· < ·) := by
  induction l with
  | nil => simp
  | cons x xs ih =>
    simp only [List.map_cons, List.pairwise_cons, List.mem_map]
    refine ⟨?_, ih (strict_tail h)⟩
    rintro t ⟨y, hy, rfl⟩
    exact strict_head_lt h y hy

/-- the time point at `τ`: the markers of the frame rows with time `τ`, concatenated in frame order,
labelled with the original index of the first such frame row -/
def pointAt (l : List TRow) (τ : Int) : TRow :=
  ⟨τ, (l.filter (atTime τ)).flatMap (·.markers), ((l.filter (atTime τ)).head?.map (·.orig)).getD 0⟩

theorem timePoints_point (rows : List Row) (tp : TRow) (h : tp ∈ timePoints rows) :
    tp = pointAt (splitRows rows) tp.time ∧ ∃ r ∈ splitRows rows, r.time = tp.time ∧ r.orig = tp.orig := by
  have h1 := timePoints_filter rows tp.time
  rw [strict_filter_self (timePoints_strict rows) h] at h1
  unfold pointAt
  cases hf : (splitRows rows).filter (atTime tp.time) with
  | nil => rw [hf] at h1; simp [squash] at h1
  | cons r rs =>
    rw [hf] at h1
    have hr : r ∈ (splitRows rows).filter (atTime tp.time) := by rw [hf]; simp
    have hrt : r.time = tp.time := by simpa [atTime] using (List.mem_filter.mp hr).2
    simp only [squash, List.cons.injEq, and_true] at h1
    refine ⟨?_, r, (List.mem_filter.mp hr).1, hrt, by rw [h1]⟩
    rw [h1]
    simp

/-- **Order inside a time point.** The markers of the merged time point at `τ` are the markers of the
frame rows whose effective time is `τ`, concatenated in frame order. -/
theorem timePoints_markers_order (rows : List Row) (tp : TRow) (h : tp ∈ timePoints rows) :
    tp.markers = ((splitRows rows).filter (atTime tp.time)).flatMap (·.markers) := by
  have := (timePoints_point rows tp h).1
  exact congrArg TRow.markers this

/-- the distinct effective times of a file, increasing -/
def effTimes (rows : List Row) : List Int := (timePoints rows).map (·.time)

theorem effTimes_increasing (rows : List Row) : (effTimes rows).Pairwise (· < ·) :=
  strict_pairwise (timePoints_strict rows)

theorem mem_effTimes (rows : List Row) (τ : Int) :
    τ ∈ effTimes rows ↔ ∃ r ∈ splitRows rows, r.time = τ := by
  constructor
  · intro h
    simp only [effTimes, List.mem_map] at h
    obtain ⟨tp, htp, rfl⟩ := h
    obtain ⟨r, hr, ht, _⟩ := (timePoints_point rows tp htp).2
    exact ⟨r, hr, ht⟩
  · rintro ⟨r, hr, rfl⟩
    have h1 := timePoints_filter rows r.time
    have hr' : r ∈ (splitRows rows).filter (atTime r.time) := List.mem_filter.mpr ⟨hr, by simp [atTime]⟩
    cases hf : (splitRows rows).filter (atTime r.time) with
    | nil => rw [hf] at hr'; simp at hr'
    | cons a as =>
      rw [hf] at h1
      have : (⟨a.time, (a :: as).flatMap (·.markers), a.orig⟩ : TRow) ∈ (timePoints rows).filter (atTime r.time) := by
        rw [h1]; simp [squash]
      have hm := List.mem_filter.mp this
      simp only [effTimes, List.mem_map]
      refine ⟨_, hm.1, ?_⟩
      simpa [atTime] using hm.2

/-- a strictly increasing list is determined by its members -/
theorem increasing_unique (a b : List Int) (ha : a.Pairwise (· < ·)) (hb : b.Pairwise (· < ·))
    (h : ∀ x, x ∈ a ↔ x ∈ b) : a = b := by
  have na : a.Nodup := ha.imp (fun h => by omega)
  have nb : b.Nodup := hb.imp (fun h => by omega)
  exact List.Perm.eq_of_pairwise (le := (· < ·)) (fun x y _ _ h1 h2 => by omega) ha hb
    ((List.perm_ext_iff_of_nodup na nb).mpr h)

/-- **Closed form of the time points.** `timePoints rows` is the list, in increasing `τ` over the
distinct effective times (own onsets and onset + delay), of: `τ`, the markers of the frame rows at `τ`
concatenated in frame order, and the original index of the first such frame row. `effTimes` is *the*
strictly increasing enumeration of the effective times (`increasing_unique`). -/
theorem timePoints_spec (rows : List Row) :
    timePoints rows = (effTimes rows).map (pointAt (splitRows rows)) ∧
    (effTimes rows).Pairwise (· < ·) ∧
    ∀ τ, τ ∈ effTimes rows ↔ ∃ r ∈ splitRows rows, r.time = τ := by
  refine ⟨?_, effTimes_increasing rows, mem_effTimes rows⟩
  rw [effTimes, List.map_map]
  conv => lhs; rw [← List.map_id (timePoints rows)]
  apply List.map_congr_left
  intro tp h
  exact (timePoints_point rows tp h).1

/-! ### file order does not matter when effective times differ -/

/-- what a file row contributes at time `τ`: its own markers, and the markers of its Delay groups -/
def ownC (τ : Int) (r : Row) : List Marker := if r.time = τ then r.markers else []
def delC (τ : Int) (r : Row) : List Marker :=
  r.delayed.flatMap fun p => if r.time + p.1 = τ then p.2 else []

/-- the effective times of a file row: its onset and onset + delay of each Delay group -/
def effTimesOf (r : Row) : List Int := r.time :: r.delayed.map (fun p => r.time + p.1)

/-- effective times of different rows are different -/
def DistinctAcross (rows : List Row) : Prop :=
  rows.Pairwise fun a b => ∀ x ∈ effTimesOf a, ∀ y ∈ effTimesOf b, x ≠ y

theorem own_filter (τ : Int) (rows : List Row) (i : Nat) :
    ((splitRows.own i rows).filter (atTime τ)).flatMap (·.markers) = rows.flatMap (ownC τ) := by
  induction rows generalizing i with
  | nil => rfl
  | cons r rs ih =>
    simp only [splitRows.own, List.filter_cons, List.flatMap_cons, ownC, atTime, beq_iff_eq]
    split <;> simp [ih]

theorem delayed_filter (τ t : Int) (i : Nat) (ds : List (Int × List Marker)) :
    ((ds.map (fun (p : Int × List Marker) => (⟨t + p.1, p.2, i⟩ : TRow))).filter (atTime τ)).flatMap (·.markers)
      = ds.flatMap fun p => if t + p.1 = τ then p.2 else [] := by
  induction ds with
  | nil => rfl
  | cons d ds ih =>
    simp only [List.map_cons, List.filter_cons, List.flatMap_cons, atTime, beq_iff_eq]
    split <;> simp_all

theorem del_filter (τ : Int) (rows : List Row) (i : Nat) :
    ((splitRows.del i rows).filter (atTime τ)).flatMap (·.markers) = rows.flatMap (delC τ) := by
  induction rows generalizing i with
  | nil => rfl
  | cons r rs ih =>
    simp only [splitRows.del, List.filter_append, List.flatMap_append, List.flatMap_cons, ih, delC]
    congr 1
    exact delayed_filter τ r.time i r.delayed

theorem frame_markers (rows : List Row) (τ : Int) :
    ((splitRows rows).filter (atTime τ)).flatMap (·.markers) =
      rows.flatMap (ownC τ) ++ rows.flatMap (delC τ) := by
  simp only [splitRows, List.filter_append, List.flatMap_append, own_filter, del_filter]

theorem own_times (rows : List Row) (i : Nat) :
    (splitRows.own i rows).map (·.time) = rows.map (·.time) := by
  induction rows generalizing i with
  | nil => rfl
  | cons r rs ih => simp [splitRows.own, ih]

theorem del_times (rows : List Row) (i : Nat) :
    (splitRows.del i rows).map (·.time) = rows.flatMap fun r => r.delayed.map (fun p => r.time + p.1) := by
  induction rows generalizing i with
  | nil => rfl
  | cons r rs ih => simp [splitRows.del, ih, List.flatMap_cons]

theorem mem_frame_times (rows : List Row) (τ : Int) :
    (∃ r ∈ splitRows rows, r.time = τ) ↔ ∃ row ∈ rows, τ ∈ effTimesOf row := by
  have : (∃ r ∈ splitRows rows, r.time = τ) ↔ τ ∈ (splitRows rows).map (·.time) := by simp
  rw [this, splitRows, List.map_append, own_times, del_times]
  simp only [List.mem_append, List.mem_map, List.mem_flatMap, effTimesOf, List.mem_cons]
  constructor
  · rintro (⟨r, hr, rfl⟩ | ⟨r, hr, p, hp, rfl⟩)
    · exact ⟨r, hr, Or.inl rfl⟩
    · exact ⟨r, hr, Or.inr ⟨p, hp, rfl⟩⟩
  · rintro ⟨r, hr, (rfl | ⟨p, hp, rfl⟩)⟩
    · exact Or.inl ⟨r, hr, rfl⟩
    · exact Or.inr ⟨r, hr, p, hp, rfl⟩

/-- at most one element contributes: `flatMap` does not depend on the order -/
theorem flatMap_perm_sparse {α β : Type} (f : α → List β) {l l' : List α} (hp : l.Perm l')
    (hs : l.Pairwise fun a b => f a = [] ∨ f b = []) : l.flatMap f = l'.flatMap f := by
  induction hp with
  | nil => rfl
  | cons x _ ih => simp [List.flatMap_cons, ih (List.pairwise_cons.mp hs).2]
  | swap x y l =>
    have := (List.pairwise_cons.mp hs).1 x (by simp)
    rcases this with h | h <;> simp [List.flatMap_cons, h]
  | trans p1 _ ih1 ih2 =>
    rw [ih1 hs]
    exact ih2 (p1.pairwise hs (fun h => h.symm))

theorem delC_nil (τ : Int) (r : Row) (h : ¬ ∃ p ∈ r.delayed, r.time + p.1 = τ) : delC τ r = [] := by
  simp only [delC, List.flatMap_eq_nil_iff]
  intro p hp
  have : ¬ r.time + p.1 = τ := fun e => h ⟨p, hp, e⟩
  simp [this]

theorem sparse_of_distinct (rows : List Row) (hd : DistinctAcross rows) (τ : Int) :
    (rows.Pairwise fun a b => ownC τ a = [] ∨ ownC τ b = []) ∧
    (rows.Pairwise fun a b => delC τ a = [] ∨ delC τ b = []) := by
  constructor
  · refine hd.imp ?_
    intro a b hab
    by_cases ha : a.time = τ
    · by_cases hb : b.time = τ
      · exact absurd (ha.trans hb.symm) (hab a.time (by simp [effTimesOf]) b.time (by simp [effTimesOf]))
      · right; simp [ownC, hb]
    · left; simp [ownC, ha]
  · refine hd.imp ?_
    intro a b hab
    by_cases ha : ∃ p ∈ a.delayed, a.time + p.1 = τ
    · by_cases hb : ∃ p ∈ b.delayed, b.time + p.1 = τ
      · obtain ⟨p, hp, e1⟩ := ha
        obtain ⟨q, hq, e2⟩ := hb
        exact absurd (e1.trans e2.symm)
          (hab _ (by simp only [effTimesOf, List.mem_cons, List.mem_map]; exact Or.inr ⟨p, hp, rfl⟩)
               _ (by simp only [effTimesOf, List.mem_cons, List.mem_map]; exact Or.inr ⟨q, hq, rfl⟩))
      · right; exact delC_nil τ b hb
    · left; exact delC_nil τ a ha

theorem effTimes_perm (rows rows' : List Row) (hp : rows.Perm rows') : effTimes rows' = effTimes rows := by
  apply increasing_unique _ _ (effTimes_increasing _) (effTimes_increasing _)
  intro τ
  rw [mem_effTimes, mem_effTimes, mem_frame_times, mem_frame_times]
  constructor
  · rintro ⟨r, hr, h⟩; exact ⟨r, hp.mem_iff.mpr hr, h⟩
  · rintro ⟨r, hr, h⟩; exact ⟨r, hp.mem_iff.mp hr, h⟩

/-- **Rows take effect at their effective time, whatever the file order.** If the effective times
(own onset, onset + delay) of different rows are all different, the time points of any permutation
of the rows are the same list of (time, markers). -/
theorem permutation_invariant (rows rows' : List Row) (hp : rows.Perm rows') (hd : DistinctAcross rows) :
    (timePoints rows').map (fun r => (r.time, r.markers)) =
      (timePoints rows).map (fun r => (r.time, r.markers)) := by
  have e1 := (timePoints_spec rows).1
  have e2 := (timePoints_spec rows').1
  rw [e1, e2, effTimes_perm rows rows' hp, List.map_map, List.map_map]
  apply List.map_congr_left
  intro τ _
  obtain ⟨s1, s2⟩ := sparse_of_distinct rows hd τ
  simp only [Function.comp, pointAt, frame_markers]
  rw [flatMap_perm_sparse (ownC τ) hp s1, flatMap_perm_sparse (delC τ) hp s2]

/-- hence the temporal errors are the same -/
theorem run_permutation_invariant (fold : Str → Str) (op : List Str) (t : Nat) (rows rows' : List Row)
    (hp : rows.Perm rows') (hd : DistinctAcross rows) :
    run fold op t ((timePoints rows').map (·.markers)) = run fold op t ((timePoints rows).map (·.markers)) := by
  have := congrArg (List.map Prod.snd) (permutation_invariant rows rows' hp hd)
  simp only [List.map_map] at this
  exact congrArg (run fold op t) this

theorem mem_own_orig (rows : List Row) (i : Nat) (t : TRow) (h : t ∈ splitRows.own i rows) :
    ∃ row, i ≤ t.orig ∧ rows[t.orig - i]? = some row ∧ t.time ∈ effTimesOf row := by
  induction rows generalizing i with
  | nil => simp [splitRows.own] at h
  | cons r rs ih =>
    simp only [splitRows.own, List.mem_cons] at h
    rcases h with rfl | h
    · exact ⟨r, Nat.le_refl _, by simp, by simp [effTimesOf]⟩
    · obtain ⟨row, h1, h2, h3⟩ := ih (i + 1) h
      refine ⟨row, by omega, ?_, h3⟩
      have : t.orig - i = (t.orig - (i + 1)) + 1 := by omega
      rw [this, List.getElem?_cons_succ]; exact h2

theorem mem_del_orig (rows : List Row) (i : Nat) (t : TRow) (h : t ∈ splitRows.del i rows) :
    ∃ row, i ≤ t.orig ∧ rows[t.orig - i]? = some row ∧ t.time ∈ effTimesOf row := by
  induction rows generalizing i with
  | nil => simp [splitRows.del] at h
  | cons r rs ih =>
    simp only [splitRows.del, List.mem_append, List.mem_map] at h
    rcases h with ⟨p, hp, rfl⟩ | h
    · refine ⟨r, Nat.le_refl _, by simp, ?_⟩
      simp only [effTimesOf, List.mem_cons, List.mem_map]
      exact Or.inr ⟨p, hp, rfl⟩
    · obtain ⟨row, h1, h2, h3⟩ := ih (i + 1) h
      refine ⟨row, by omega, ?_, h3⟩
      have : t.orig - i = (t.orig - (i + 1)) + 1 := by omega
      rw [this, List.getElem?_cons_succ]; exact h2

/-- **The label of a time point** is the index of a file row one of whose effective times it is
(under `DistinctAcross`, *the* row owning that time: indices follow the permutation). -/
theorem timePoints_orig (rows : List Row) (tp : TRow) (h : tp ∈ timePoints rows) :
    ∃ row, rows[tp.orig]? = some row ∧ tp.time ∈ effTimesOf row := by
  obtain ⟨r, hr, ht, ho⟩ := (timePoints_point rows tp h).2
  rw [← ht, ← ho]
  simp only [splitRows, List.mem_append] at hr
  rcases hr with hr | hr
  · obtain ⟨row, _, h2, h3⟩ := mem_own_orig rows 0 r hr; exact ⟨row, by simpa using h2, h3⟩
  · obtain ⟨row, _, h2, h3⟩ := mem_del_orig rows 0 r hr; exact ⟨row, by simpa using h2, h3⟩

/-- non-vacuity: two rows with one Delay group each, all four effective times different; swapped -/
example : DistinctAcross [⟨8, [⟨.onset, ['a']⟩], [(16, [⟨.offset, ['a']⟩])]⟩, ⟨16, [⟨.inset, ['a']⟩], [(4, [])]⟩] := by
  simp [DistinctAcross, effTimesOf]
example : (timePoints [⟨16, [⟨.inset, ['a']⟩], [(4, [])]⟩, ⟨8, [⟨.onset, ['a']⟩], [(16, [⟨.offset, ['a']⟩])]⟩]).map
    (fun r => (r.time, r.markers.length, r.orig)) = [(8, 1, 1), (16, 1, 0), (20, 0, 0), (24, 1, 1)] := by decide
/-- rows sharing a time keep frame order inside the merged time point -/
example : (timePoints [⟨8, [⟨.onset, ['a']⟩], []⟩, ⟨0, [], [(8, [⟨.inset, ['b']⟩])]⟩, ⟨8, [⟨.offset, ['a']⟩], []⟩]).map
    (fun r => (r.time, r.markers.map (·.kind), r.orig)) = [(0, [], 1), (8, [.onset, .offset, .inset], 0)] := by decide

/-! ### per-group structural checks (`DefValidator.validate_onset_offset`) -/

/-- a well-formed temporal group: exactly one Def / Def-expand; apart from it, the anchor tag and
Delay tags at most one child (none for Offset), which must be a group; the definition is known and is
given a value exactly when it takes one -/
def ShapeOk (defs : Str → Option Bool) (fold : Str → Str) (g : List Child) : Prop :=
  ∀ k ai, firstAnchor 0 g = some (k, ai) →
    ∃ ext di, defTagsOf 0 g = [(ext, di)] ∧
      (restOf di ai 0 g).length ≤ (if k = .offset then 0 else 1) ∧
      (∀ ch ∈ restOf di ai 0 g, ch.isGroup = true) ∧
      ∃ tv, defs (fold (partitionSlash ext).1) = some tv ∧ tv = !(partitionSlash ext).2.isEmpty

theorem handleDef_nil_iff (defs : Str → Option Bool) (fold : Str → Str) (ext : Str) :
    handleDef defs fold ext = [] ↔
      ∃ tv, defs (fold (partitionSlash ext).1) = some tv ∧ tv = !(partitionSlash ext).2.isEmpty := by
  unfold handleDef
  cases h : defs (fold (partitionSlash ext).1) with
  | none => simp [h]
  | some tv =>
    simp only [h, Option.some.injEq, exists_eq_left']
    cases tv <;> cases (partitionSlash ext).2.isEmpty <;> simp

/-- **No structural issue iff the group is well formed.** -/
theorem shape_ok_iff (defs : Str → Option Bool) (fold : Str → Str) (g : List Child) :
    groupShapeIssues defs fold g = [] ↔ ShapeOk defs fold g := by
  unfold groupShapeIssues ShapeOk
  cases ha : firstAnchor 0 g with
  | none => simp
  | some a =>
    obtain ⟨k, ai⟩ := a
    cases hd : defTagsOf 0 g with
    | nil => simp
    | cons d ds =>
      obtain ⟨ext, di⟩ := d
      cases ds with
      | cons d2 ds2 => simp
      | nil =>
        simp only [Option.some.injEq, Prod.mk.injEq, List.cons.injEq, and_true, and_imp]
        constructor
        · intro h
          rintro k' ai' rfl rfl
          refine ⟨ext, di, ⟨rfl, rfl⟩, ?_⟩
          by_cases hlen : (restOf di ai 0 g).length > (if k = .offset then 0 else 1)
          · simp [hlen] at h
          · simp only [hlen, ↓reduceIte] at h
            have h' := List.append_eq_nil_iff.mp h
            refine ⟨by omega, ?_, (handleDef_nil_iff defs fold ext).mp h'.2⟩
            intro ch hch
            cases hr : restOf di ai 0 g with
            | nil => rw [hr] at hch; cases hch
            | cons c cs =>
              rw [hr] at hch hlen h'
              have hcs : cs = [] := by
                cases cs with
                | nil => rfl
                | cons _ _ => simp only [List.length_cons] at hlen; split at hlen <;> omega
              subst hcs
              have : ch = c := by simpa using hch
              subst this
              have h1 := h'.1
              simp only at h1
              split at h1
              · assumption
              · cases h1
        · intro h
          obtain ⟨ext', di', ⟨e1, e2⟩, hlen, hall, hdef⟩ := h k ai rfl rfl
          subst e1; subst e2
          have : ¬ (restOf di ai 0 g).length > (if k = .offset then 0 else 1) := by omega
          simp only [this, ↓reduceIte]
          rw [(handleDef_nil_iff defs fold ext).mpr hdef, List.append_nil]
          cases hr : restOf di ai 0 g with
          | nil => rfl
          | cons c cs => simp [hall c (by rw [hr]; simp)]

/-- **Each malformation is reported with its kind.** No Def / Def-expand in a temporal group -/
theorem no_def_kind (defs : Str → Option Bool) (fold : Str → Str) (g : List Child) (a : MKind × Nat)
    (ha : firstAnchor 0 g = some a) (hd : defTagsOf 0 g = []) :
    groupShapeIssues defs fold g = [.noDef] := by
  simp [groupShapeIssues, ha, hd]

/-- two or more Def / Def-expand -/
theorem too_many_kind (defs : Str → Option Bool) (fold : Str → Str) (g : List Child) (a : MKind × Nat)
    (ha : firstAnchor 0 g = some a) (hd : 2 ≤ (defTagsOf 0 g).length) :
    groupShapeIssues defs fold g = [.tooManyDefs] := by
  unfold groupShapeIssues
  match h : defTagsOf 0 g, hd with
  | _ :: _ :: _, _ => simp [ha]
  | [_], hd => simp at hd
  | [], hd => simp at hd

/-- more than one further child, or any further child of an Offset group -/
theorem wrong_number_kind (defs : Str → Option Bool) (fold : Str → Str) (g : List Child) (k : MKind)
    (ai di : Nat) (ext : Str) (ha : firstAnchor 0 g = some (k, ai)) (hd : defTagsOf 0 g = [(ext, di)])
    (hn : (if k = .offset then 0 else 1) < (restOf di ai 0 g).length) :
    groupShapeIssues defs fold g = [.wrongNumberGroups] := by
  simp [groupShapeIssues, ha, hd, hn]

theorem offset_inner_group_kind (defs : Str → Option Bool) (fold : Str → Str) (g : List Child)
    (ai di : Nat) (ext : Str) (ha : firstAnchor 0 g = some (.offset, ai)) (hd : defTagsOf 0 g = [(ext, di)])
    (hn : restOf di ai 0 g ≠ []) : groupShapeIssues defs fold g = [.wrongNumberGroups] := by
  apply wrong_number_kind defs fold g .offset ai di ext ha hd
  cases h : restOf di ai 0 g with
  | nil => exact absurd h hn
  | cons _ _ => simp

/-- a definition name that is not in the dictionary -/
theorem unknown_def_kind (defs : Str → Option Bool) (fold : Str → Str) (g : List Child) (k : MKind)
    (ai di : Nat) (ext : Str) (ha : firstAnchor 0 g = some (k, ai)) (hd : defTagsOf 0 g = [(ext, di)])
    (hn : (restOf di ai 0 g).length ≤ (if k = .offset then 0 else 1))
    (hu : defs (fold (partitionSlash ext).1) = none) :
    ShapeErr.defUnmatched ∈ groupShapeIssues defs fold g := by
  have : ¬ (restOf di ai 0 g).length > (if k = .offset then 0 else 1) := by omega
  simp [groupShapeIssues, ha, hd, this, handleDef, hu]

/-- a group without temporal tag is not looked at -/
theorem not_temporal_no_issue (defs : Str → Option Bool) (fold : Str → Str) (g : List Child)
    (ha : firstAnchor 0 g = none) : groupShapeIssues defs fold g = [] := by
  simp [groupShapeIssues, ha]

def exDefs : Str → Option Bool := fun n => if n = ['a'] then some false else if n = ['c'] then some true else none
example : ShapeOk exDefs id [.anchor .onset, .defTag ['a'], .delay, .group []] := by
  rw [← shape_ok_iff]; decide
example : ShapeOk exDefs id [.anchor .offset, .group [['c', '/', '1']]] := by
  rw [← shape_ok_iff]; decide
example : [[Child.anchor .onset, .defTag ['a'], .defTag ['c', '/', '1']],
           [.anchor .onset, .defTag ['a'], .group [], .group []],
           [.anchor .offset, .defTag ['a'], .group []],
           [.anchor .inset, .group []],
           [.anchor .onset, .defTag ['a'], .tag],
           [.anchor .onset, .defTag ['z'], .tag],
           [.anchor .onset, .defTag ['c']],
           [.defTag ['z'], .tag, .tag]].map (groupShapeIssues exDefs id) =
    [[.tooManyDefs], [.wrongNumberGroups], [.wrongNumberGroups], [.noDef], [.tagOutsideGroup],
     [.tagOutsideGroup, .defUnmatched], [.placeholderWrong], []] := by decide

/-! ### which rows take part: warnings do not remove a row, errors do -/

theorem rowInvalid_warning (l : List Sev) : rowInvalid (.warning :: l) = rowInvalid l := by
  simp [rowInvalid]

theorem rowInvalid_error (l : List Sev) : rowInvalid (.error :: l) = true := by
  simp [rowInvalid]

/-- **Rows with warnings take part.** Adding a warning-level cell issue to any row changes neither
the time points handed to the Onset/Offset machine nor the temporal issues of the file. -/
theorem warning_rows_participate (fold : Str → Str) (rows : List Row) (ci : Nat → List Sev) (i : Nat) :
    keptPoints rows (addIssue ci i .warning) = keptPoints rows ci ∧
    fileErrors fold rows (addIssue ci i .warning) = fileErrors fold rows ci := by
  have h : ∀ j, rowInvalid (addIssue ci i .warning j) = rowInvalid (ci j) := by
    intro j
    unfold addIssue
    split
    · exact rowInvalid_warning _
    · rfl
  have hk : keptPoints rows (addIssue ci i .warning) = keptPoints rows ci := by
    simp only [keptPoints, h]
  exact ⟨hk, by simp only [fileErrors, hk]⟩

/-- if no row has an error-severity issue, every time point takes part -/
theorem no_error_all_participate (rows : List Row) (ci : Nat → List Sev)
    (h : ∀ i, rowInvalid (ci i) = false) : keptPoints rows ci = timePoints rows := by
  simp [keptPoints, h]

/-- **Rows with an error are skipped.** No time point labelled with a row that has an error-severity
cell issue is handed to the machine, and no temporal issue is reported against such a row. -/
theorem error_rows_skipped (fold : Str → Str) (rows : List Row) (ci : Nat → List Sev) :
    (∀ tp ∈ keptPoints rows ci, rowInvalid (ci tp.orig) = false) ∧
    (∀ tp ∈ timePoints rows, rowInvalid (ci tp.orig) = true → tp ∉ keptPoints rows ci) ∧
    (∀ x ∈ fileErrors fold rows ci, rowInvalid (ci x.1) = false) := by
  have h1 : ∀ tp ∈ keptPoints rows ci, rowInvalid (ci tp.orig) = false := by
    intro tp h
    simpa [keptPoints] using (List.mem_filter.mp h).2
  refine ⟨h1, ?_, ?_⟩
  · intro tp _ he hk
    rw [h1 tp hk] at he
    cases he
  · intro x hx
    simp only [fileErrors, List.mem_map] at hx
    obtain ⟨y, hy, rfl⟩ := hx
    have hb := errors_belong_to_markers fold _ [] 0 y hy
    simp only [List.length_map, Nat.zero_add] at hb
    have hlt : y.1 < (keptPoints rows ci).length := hb.2
    simp only [List.getElem?_eq_getElem hlt, Option.map_some, Option.getD_some]
    exact h1 _ (List.getElem_mem hlt)

/-- a later Inset depends on an Onset written on a row with a warning (kept) or an error (skipped) -/
example : fileErrors id [⟨8, [⟨.onset, ['a']⟩], []⟩, ⟨16, [⟨.inset, ['a']⟩], []⟩]
    (fun i => if i = 0 then [.warning] else []) = [] := by decide
example : fileErrors id [⟨8, [⟨.onset, ['a']⟩], []⟩, ⟨16, [⟨.inset, ['a']⟩], []⟩]
    (fun i => if i = 0 then [.warning, .error] else []) = [(1, .insetBeforeOnset)] := by decide
/-- the Delay-shifted group of a skipped row is skipped with it -/
example : fileErrors id [⟨8, [], [(4, [⟨.onset, ['a']⟩])]⟩, ⟨16, [⟨.offset, ['a']⟩], []⟩]
    (fun i => if i = 0 then [.error] else []) = [(1, .offsetBeforeOnset)] := by decide

/-! ### files out of time order: a Delay group uses its own row's onset; verdicts do not depend on row order -/

/-- **A Delay group takes effect at its own row's onset + delay**, wherever the row stands in the file:
that time is a time point of the file and the group's markers are among its markers. -/
theorem delay_uses_own_onset (rows : List Row) (r : Row) (hr : r ∈ rows) (p : Int × List Marker)
    (hp : p ∈ r.delayed) :
    r.time + p.1 ∈ effTimes rows ∧
    ∀ m ∈ p.2, ∃ tp ∈ timePoints rows, tp.time = r.time + p.1 ∧ m ∈ tp.markers := by
  have hmem : r.time + p.1 ∈ effTimes rows := by
    rw [mem_effTimes, mem_frame_times]
    refine ⟨r, hr, ?_⟩
    simp only [effTimesOf, List.mem_cons, List.mem_map]
    exact Or.inr ⟨p, hp, rfl⟩
  refine ⟨hmem, ?_⟩
  intro m hm
  simp only [effTimes, List.mem_map] at hmem
  obtain ⟨tp, htp, ht⟩ := hmem
  refine ⟨tp, htp, ht, ?_⟩
  rw [timePoints_markers_order rows tp htp, ht, frame_markers]
  apply List.mem_append_right
  simp only [List.mem_flatMap]
  refine ⟨r, hr, ?_⟩
  simp only [delC, List.mem_flatMap]
  exact ⟨p, hp, by simpa using hm⟩

/-- a file whose rows carry the severities of their cell issues -/
def issuesOf (L : List (Row × List Sev)) : Nat → List Sev := fun i => (L[i]?.map (·.2)).getD []

theorem owner_unique (L : List (Row × List Sev)) (hd : DistinctAcross (L.map (·.1)))
    (a b : Row × List Sev) (ha : a ∈ L) (hb : b ∈ L) (τ : Int)
    (hta : τ ∈ effTimesOf a.1) (htb : τ ∈ effTimesOf b.1) : a = b := by
  induction L with
  | nil => cases ha
  | cons x xs ih =>
    simp only [DistinctAcross, List.map_cons, List.pairwise_cons, List.mem_map] at hd
    obtain ⟨hx, hxs⟩ := hd
    rcases List.mem_cons.mp ha with rfl | ha' <;> rcases List.mem_cons.mp hb with rfl | hb'
    · rfl
    · exact absurd rfl (hx b.1 ⟨b, hb', rfl⟩ τ hta τ htb)
    · exact absurd rfl (hx a.1 ⟨a, ha', rfl⟩ τ htb τ hta)
    · exact ih hxs ha' hb'

theorem filter_map_congr {α β : Type} (π : α → β) (p p' : α → Bool) :
    ∀ (l l' : List α), l.map π = l'.map π →
      (∀ i (h : i < l.length) (h' : i < l'.length), p l[i] = p' l'[i]) →
      (l.filter p).map π = (l'.filter p').map π
  | [], [], _, _ => rfl
  | [], _ :: _, h, _ => by simp at h
  | _ :: _, [], h, _ => by simp at h
  | a :: l, b :: l', h, hp => by
    simp only [List.map_cons, List.cons.injEq] at h
    have h0 := hp 0 (by simp) (by simp)
    simp only [List.getElem_cons_zero] at h0
    have ih := filter_map_congr π p p' l l' h.2 (fun i hi hi' => by
      have := hp (i + 1) (by simp; omega) (by simp; omega)
      simpa using this)
    simp only [List.filter_cons, ← h0]
    split <;> simp [h.1, ih]

theorem invalid_by_owner (L : List (Row × List Sev)) (tp : TRow) (h : tp ∈ timePoints (L.map (·.1))) :
    ∃ e ∈ L, tp.time ∈ effTimesOf e.1 ∧ issuesOf L tp.orig = e.2 := by
  obtain ⟨row, hrow, ht⟩ := timePoints_orig _ tp h
  simp only [List.getElem?_map, Option.map_eq_some_iff] at hrow
  obtain ⟨e, he, rfl⟩ := hrow
  exact ⟨e, List.mem_of_getElem? he, ht, by simp [issuesOf, he]⟩

/-- **The temporal verdicts of a file do not depend on the order of its rows** (files out of time
order; rows with Delay groups; rows skipped for an error), given that the effective times of different
rows are different: the time points handed to the machine are the same (time, markers) list, and the
temporal issue kinds are the same, in the same order. -/
theorem file_errors_permutation_invariant (fold : Str → Str) (L L' : List (Row × List Sev))
    (hp : L.Perm L') (hd : DistinctAcross (L.map (·.1))) :
    (keptPoints (L'.map (·.1)) (issuesOf L')).map (fun r => (r.time, r.markers)) =
      (keptPoints (L.map (·.1)) (issuesOf L)).map (fun r => (r.time, r.markers)) ∧
    (fileErrors fold (L'.map (·.1)) (issuesOf L')).map (·.2) =
      (fileErrors fold (L.map (·.1)) (issuesOf L)).map (·.2) := by
  have hpi := permutation_invariant (L.map (·.1)) (L'.map (·.1)) (hp.map _) hd
  have hk : (keptPoints (L'.map (·.1)) (issuesOf L')).map (fun r => (r.time, r.markers)) =
      (keptPoints (L.map (·.1)) (issuesOf L)).map (fun r => (r.time, r.markers)) := by
    unfold keptPoints
    apply filter_map_congr _ _ _ _ _ hpi
    intro i h h'
    have ha := List.getElem_mem h
    have hb := List.getElem_mem h'
    obtain ⟨e', he', hte', hie'⟩ := invalid_by_owner L' _ ha
    obtain ⟨e, he, hte, hie⟩ := invalid_by_owner L _ hb
    have htime : ((timePoints (L'.map (·.1)))[i]).time = ((timePoints (L.map (·.1)))[i]).time := by
      have := congrArg (fun l => l[i]?.map Prod.fst) hpi
      simpa [List.getElem?_map, List.getElem?_eq_getElem h, List.getElem?_eq_getElem h'] using this
    rw [htime] at hte'
    have := owner_unique L hd e' e (hp.mem_iff.mpr he') he _ hte' hte
    simp only [hie', hie, this]
  refine ⟨hk, ?_⟩
  have hm := congrArg (List.map Prod.snd) hk
  simp only [List.map_map] at hm
  have hm' : (keptPoints (L'.map (·.1)) (issuesOf L')).map (·.markers) =
      (keptPoints (L.map (·.1)) (issuesOf L)).map (·.markers) := hm
  simp only [fileErrors, List.map_map, hm']
  rfl

/-- an out-of-order file: the delayed Inset of the later row (written first) lands inside the scope -/
example : (fileErrors id [⟨16, [], [(8, [⟨.inset, ['a']⟩])]⟩, ⟨8, [⟨.onset, ['a']⟩], []⟩, ⟨32, [⟨.offset, ['a']⟩], []⟩]
    (fun _ => [])).map (·.2) = [] := by decide
example : (timePoints [⟨16, [], [(8, [⟨.inset, ['a']⟩])]⟩, ⟨8, [⟨.onset, ['a']⟩], []⟩]).map
    (fun r => (r.time, r.markers.length, r.orig)) = [(8, 1, 1), (16, 0, 0), (24, 1, 0)] := by decide
end HedVerif.C10
