/-
C10 — Onset/Offset/Inset bookkeeping follows the event history exactly.
-/
import HedVerif.Model.Temporal

namespace HedVerif.Temporal

/-! ### abstract specification: the open scopes as a set (characteristic function) -/

abbrev SSet := Str → Bool

def specHandle (S : SSet) (kind : MKind) (key : Str) : SSet × Option Err :=
  match kind with
  | .onset => (fun k => k == key || S k, none)
  | .offset => if S key then (fun k => !(k == key) && S k, none) else (S, some .offsetBeforeOnset)
  | .inset => if S key then (S, none) else (S, some .insetBeforeOnset)

def specMarker (fold : Str → Str) (st : SSet × SSet) (m : Marker) : (SSet × SSet) × Option Err :=
  let key := fold m.name
  if st.2 key then (st, some .sameDefs)
  else
    let (S', e) := specHandle st.1 m.kind key
    ((S', fun k => k == key || st.2 k), e)

def specPointGo (fold : Str → Str) (st : SSet × SSet) (i : Nat) :
    List Marker → SSet × List (Nat × Err)
  | [] => (st.1, [])
  | m :: rest =>
    let (st', e) := specMarker fold st m
    let (S', es) := specPointGo fold st' (i + 1) rest
    (S', match e with | some x => (i, x) :: es | none => es)

def specRun (fold : Str → Str) : SSet → Nat → List (List Marker) → List (Nat × Nat × Err)
  | _, _, [] => []
  | S, t, ms :: rest =>
    let (S', es) := specPointGo fold (S, fun _ => false) 0 ms
    es.map (fun (i, e) => (t, i, e)) ++ specRun fold S' (t + 1) rest

/-- abstraction: a key list denotes its membership function -/
def abs (l : List Str) : SSet := fun k => l.contains k

theorem insertKey_nodup (op : List Str) (k : Str) (h : op.Nodup) : (insertKey op k).Nodup := by
  unfold insertKey
  split
  · exact h
  · rename_i hc
    simp only [List.contains_eq_mem, decide_eq_true_eq] at hc
    exact List.nodup_cons.mpr ⟨hc, h⟩

theorem abs_insertKey (op : List Str) (k : Str) :
    abs (insertKey op k) = fun x => x == k || abs op x := by
  funext x
  unfold insertKey abs
  by_cases hc : op.contains k = true
  · simp only [hc, ↓reduceIte]
    by_cases hx : x = k
    · subst hx; simpa using hc
    · simp [hx]
  · simp only [hc, Bool.false_eq_true, ↓reduceIte, List.contains_cons]

theorem abs_erase (op : List Str) (k : Str) (h : op.Nodup) :
    abs (op.erase k) = fun x => !(x == k) && abs op x := by
  funext x
  unfold abs
  by_cases hx : x = k
  · subst hx
    simp [List.Nodup.mem_erase_iff h]
  · simp [hx, List.mem_erase_of_ne hx]

theorem handle_refines (op : List Str) (kind : MKind) (key : Str) (hn : op.Nodup) :
    (handle op kind key).1.Nodup ∧
    abs (handle op kind key).1 = (specHandle (abs op) kind key).1 ∧
    (handle op kind key).2 = (specHandle (abs op) kind key).2 := by
  cases kind with
  | onset => exact ⟨insertKey_nodup op key hn, abs_insertKey op key, rfl⟩
  | offset =>
    unfold handle specHandle
    by_cases hc : op.contains key = true
    · have h2 : abs op key = true := hc
      simp only [hc, h2, ↓reduceIte]
      exact ⟨hn.erase key, abs_erase op key hn, (by first | trivial | rfl)⟩
    · have hc' : op.contains key = false := by simpa using hc
      have h2 : abs op key = false := hc'
      simp only [hc', h2, Bool.false_eq_true, ↓reduceIte]
      exact ⟨hn, (by first | trivial | rfl), (by first | trivial | rfl)⟩
  | inset =>
    unfold handle specHandle
    by_cases hc : op.contains key = true
    · have h2 : abs op key = true := hc
      simp only [hc, h2, ↓reduceIte]
      exact ⟨hn, (by first | trivial | rfl), (by first | trivial | rfl)⟩
    · have hc' : op.contains key = false := by simpa using hc
      have h2 : abs op key = false := hc'
      simp only [hc', h2, Bool.false_eq_true, ↓reduceIte]
      exact ⟨hn, (by first | trivial | rfl), (by first | trivial | rfl)⟩

theorem stepMarker_refines (fold : Str → Str) (st : List Str × List Str) (m : Marker)
    (hn : st.1.Nodup) :
    (stepMarker fold st m).1.1.Nodup ∧
    abs (stepMarker fold st m).1.1 = (specMarker fold (abs st.1, abs st.2) m).1.1 ∧
    abs (stepMarker fold st m).1.2 = (specMarker fold (abs st.1, abs st.2) m).1.2 ∧
    (stepMarker fold st m).2 = (specMarker fold (abs st.1, abs st.2) m).2 := by
  unfold stepMarker specMarker
  by_cases hc : st.2.contains (fold m.name) = true
  · have h2 : abs st.2 (fold m.name) = true := hc
    simp only [hc, h2, ↓reduceIte]
    exact ⟨hn, (by first | trivial | rfl), (by first | trivial | rfl), (by first | trivial | rfl)⟩
  · have hc' : st.2.contains (fold m.name) = false := by simpa using hc
    have h2 : abs st.2 (fold m.name) = false := hc'
    obtain ⟨a, b, c⟩ := handle_refines st.1 m.kind (fold m.name) hn
    simp only [hc', h2, Bool.false_eq_true, ↓reduceIte]
    refine ⟨a, b, ?_, c⟩
    funext x
    by_cases hx : x = fold m.name <;> simp [abs, hx]

theorem go_refines (fold : Str → Str) (ms : List Marker) (st : List Str × List Str) (i : Nat)
    (hn : st.1.Nodup) :
    (stepPoint.go fold st i ms).1.Nodup ∧
    abs (stepPoint.go fold st i ms).1 = (specPointGo fold (abs st.1, abs st.2) i ms).1 ∧
    (stepPoint.go fold st i ms).2 = (specPointGo fold (abs st.1, abs st.2) i ms).2 := by
  induction ms generalizing st i with
  | nil => exact ⟨hn, (by first | trivial | rfl), (by first | trivial | rfl)⟩
  | cons m rest ih =>
    obtain ⟨a, b, c, d⟩ := stepMarker_refines fold st m hn
    have ih' := ih (stepMarker fold st m).1 (i + 1) a
    simp only [stepPoint.go, specPointGo]
    have e : (specMarker fold (abs st.1, abs st.2) m).1 =
        (abs (stepMarker fold st m).1.1, abs (stepMarker fold st m).1.2) := by
      rw [b, c]
    rw [e, ← d]
    refine ⟨ih'.1, ih'.2.1, ?_⟩
    rw [ih'.2.2]
    cases (stepMarker fold st m).2 <;> rfl

theorem run_refines (fold : Str → Str) (h : List (List Marker)) (op : List Str) (t : Nat)
    (hn : op.Nodup) : run fold op t h = specRun fold (abs op) t h := by
  induction h generalizing op t with
  | nil => rfl
  | cons ms rest ih =>
    obtain ⟨a, b, c⟩ := go_refines fold ms (op, []) 0 hn
    have e0 : abs ([] : List Str) = fun _ => false := by funext x; simp [abs]
    simp only [run, specRun, stepPoint]
    rw [e0] at b c
    rw [← b, ← c, ih _ _ a]

/-! ### what "open" means: the last non-Inset effective marker of that name is an Onset -/

/-- the effective marker stream: key-folded markers that were not skipped as same-time-point
duplicates, in processing order, with kind -/
def lastNonInset (evs : List (MKind × Str)) (k : Str) : Option MKind :=
  match evs with
  | [] => none
  | (kind, key) :: rest =>
    match lastNonInset rest k with
    | some r => some r
    | none => if key == k && kind != .inset then some kind else none

/-- process an effective stream on the abstract set (errors ignored) -/
def specFold (S : SSet) : List (MKind × Str) → SSet
  | [] => S
  | (kind, key) :: rest => specFold (specHandle S kind key).1 rest

theorem specFold_char (evs : List (MKind × Str)) (S : SSet) (k : Str) :
    specFold S evs k =
      match lastNonInset evs k with
      | some kind => kind == .onset
      | none => S k := by
  induction evs generalizing S with
  | nil => rfl
  | cons ev rest ih =>
    obtain ⟨kind, key⟩ := ev
    simp only [specFold, lastNonInset]
    rw [ih]
    cases hl : lastNonInset rest k with
    | some r => rfl
    | none =>
      simp only
      by_cases hk : key = k
      · subst hk
        cases kind <;> simp [specHandle] <;> split <;> simp_all
      · have : (key == k) = false := by simpa using hk
        have hk' : (k == key) = false := by simpa using (Ne.symm hk)
        cases kind <;> simp [specHandle, this, hk'] <;> split <;> simp_all

end HedVerif.Temporal

namespace HedVerif.C10
open HedVerif.Temporal

/-- **Refinement.** For every history, the errors of the implementation's dictionary machine are
exactly those of the set specification: a marker whose folded name already occurred in this time point
is `sameDefs` (and has no effect); otherwise Offset/Inset is an error iff the name is not open; Onset
opens (or restarts), Offset closes, Inset leaves the set unchanged. -/
theorem refines (fold : Str → Str) (h : List (List Marker)) :
    run fold [] 0 h = specRun fold (fun _ => false) 0 h := by
  have := run_refines fold h [] 0 List.nodup_nil
  have e0 : abs ([] : List Str) = fun _ => false := by funext x; simp [abs]
  rw [e0] at this
  exact this

/-- **Meaning of "open".** After any stream of effective markers, a name is open iff its last
non-Inset marker is an Onset. -/
theorem open_iff_last_onset (evs : List (MKind × Str)) (k : Str) :
    specFold (fun _ => false) evs k = (lastNonInset evs k == some .onset) := by
  rw [specFold_char]
  cases lastNonInset evs k with
  | none => rfl
  | some kind => cases kind <;> rfl

/-- **Scopes still open at the end are legal**: reaching the end of the history adds nothing;
every error is tagged with a time point of the history. -/
theorem errors_belong_to_markers (fold : Str → Str) (h : List (List Marker)) (op : List Str) (t : Nat) :
    ∀ x ∈ run fold op t h, t ≤ x.1 ∧ x.1 < t + h.length := by
  induction h generalizing op t with
  | nil => simp [run]
  | cons ms rest ih =>
    intro x hx
    simp only [run, List.mem_append, List.mem_map] at hx
    rcases hx with ⟨y, _, rfl⟩ | hx
    · simp
    · have := ih _ _ x hx
      simp only [List.length_cons]
      omega

theorem onsets_never_error (fold : Str → Str) (op used : List Str) (m : Marker)
    (hk : m.kind = .onset) (hu : used.contains (fold m.name) = false) :
    (stepMarker fold (op, used) m).2 = none := by
  have : fold m.name ∉ used := by simpa using hu
  simp [stepMarker, this, handle, hk]

/-- **Case-insensitive.** Respelling marker names without changing their folded form changes no
error. -/
theorem case_insensitive (fold : Str → Str) (ren : Str → Str)
    (hren : ∀ n, fold (ren n) = fold n) (h : List (List Marker)) (op : List Str) (t : Nat) :
    run fold op t (h.map (List.map fun m => { m with name := ren m.name })) = run fold op t h := by
  have hstep : ∀ st m, stepMarker fold st { m with name := ren m.name } = stepMarker fold st m := by
    intro st m; simp [stepMarker, hren]
  have hgo : ∀ ms st i, stepPoint.go fold st i (ms.map fun m => { m with name := ren m.name }) =
      stepPoint.go fold st i ms := by
    intro ms
    induction ms with
    | nil => intros; rfl
    | cons m rest ih => intro st i; simp only [List.map_cons, stepPoint.go, hstep, ih]
  induction h generalizing op t with
  | nil => rfl
  | cons ms rest ih => simp only [List.map_cons, run, stepPoint, hgo, ih]

/-! ### time points -/

def Sorted : List TRow → Prop
  | [] => True
  | [_] => True
  | x :: y :: rest => x.time ≤ y.time ∧ Sorted (y :: rest)

def StrictSorted : List TRow → Prop
  | [] => True
  | [_] => True
  | x :: y :: rest => x.time < y.time ∧ StrictSorted (y :: rest)

theorem sorted_tail {x : TRow} {l : List TRow} (h : Sorted (x :: l)) : Sorted l := by
  cases l with
  | nil => trivial
  | cons y ys => exact h.2

theorem insertRow_sorted (x : TRow) (l : List TRow) (h : Sorted l) : Sorted (insertRow x l) := by
  induction l with
  | nil => trivial
  | cons y ys ih =>
    simp only [insertRow]
    split
    · rename_i hle; exact ⟨hle, h⟩
    · rename_i hle
      have ih' := ih (sorted_tail h)
      cases ys with
      | nil => simp only [insertRow]; exact ⟨by omega, trivial⟩
      | cons z zs =>
        simp only [insertRow] at ih' ⊢
        split
        · rename_i h2; exact ⟨by omega, h2, h.2⟩
        · rename_i h2
          simp only [h2, ↓reduceIte] at ih'
          exact ⟨h.1, ih'⟩

theorem sortRows_sorted (l : List TRow) : Sorted (sortRows l) := by
  induction l with
  | nil => trivial
  | cons x xs ih => exact insertRow_sorted x _ ih

theorem insertRow_perm (x : TRow) (l : List TRow) : (insertRow x l).Perm (x :: l) := by
  induction l with
  | nil => exact List.Perm.refl _
  | cons y ys ih =>
    simp only [insertRow]
    split
    · exact List.Perm.refl _
    · exact (List.Perm.cons y ih).trans (List.Perm.swap x y ys)

theorem sortRows_perm (l : List TRow) : (sortRows l).Perm l := by
  induction l with
  | nil => exact List.Perm.refl _
  | cons x xs ih => exact (insertRow_perm x _).trans (List.Perm.cons x ih)

theorem mergeRows_head_time (l : List TRow) (x : TRow) :
    ∃ y ys, mergeRows (x :: l) = y :: ys ∧ y.time = x.time := by
  simp only [mergeRows]
  cases mergeRows l with
  | nil => exact ⟨x, [], rfl, rfl⟩
  | cons y ys =>
    simp only
    split
    · exact ⟨_, _, rfl, rfl⟩
    · exact ⟨_, _, rfl, rfl⟩

theorem mergeRows_strict (l : List TRow) (h : Sorted l) : StrictSorted (mergeRows l) := by
  induction l with
  | nil => trivial
  | cons x xs ih =>
    have ih' := ih (sorted_tail h)
    cases xs with
    | nil => simp [mergeRows, StrictSorted]
    | cons z zs =>
      obtain ⟨y, ys, hy, hyt⟩ := mergeRows_head_time zs z
      rw [mergeRows, hy]
      rw [hy] at ih'
      simp only
      split
      · -- merged: new head has x.time = y.time, and ys is strictly above y
        rename_i heq
        cases ys with
        | nil => trivial
        | cons w ws =>
          refine ⟨?_, ih'.2⟩
          show x.time < w.time
          have := ih'.1
          omega
      · rename_i hne
        exact ⟨by have := h.1; omega, ih'⟩

/-- the (time, marker) occurrences of a frame -/
def occ (l : List TRow) : List (Int × Marker) := l.flatMap fun r => r.markers.map fun m => (r.time, m)

theorem occ_mergeRows (l : List TRow) : occ (mergeRows l) = occ l := by
  induction l with
  | nil => rfl
  | cons x xs ih =>
    simp only [mergeRows]
    cases hm : mergeRows xs with
    | nil =>
      have : occ xs = [] := by rw [← ih, hm]; rfl
      simp [occ, List.flatMap_cons] at this ⊢
      exact this
    | cons y ys =>
      rw [hm] at ih
      simp only
      split
      · rename_i heq
        simp only [occ, List.flatMap_cons, List.map_append] at ih ⊢
        rw [← ih, heq]
        simp
      · simp only [occ, List.flatMap_cons] at ih ⊢
        rw [← ih]

theorem occ_perm {a b : List TRow} (h : a.Perm b) : (occ a).Perm (occ b) := by
  unfold occ
  exact List.Perm.flatMap_right _ h

/-- **Time points.** The frame handed to the Onset/Offset machine has strictly increasing times
(rows sharing an effective time have become one time point), and its (time, marker) occurrences are
exactly — as a multiset — those of the rows, a Delay group taking effect at `onset + delay`. -/
theorem timePoints_strict (rows : List Row) : StrictSorted (timePoints rows) :=
  mergeRows_strict _ (sortRows_sorted _)

theorem timePoints_content (rows : List Row) :
    (occ (timePoints rows)).Perm (occ (splitRows rows)) := by
  unfold timePoints
  rw [occ_mergeRows]
  exact occ_perm (sortRows_perm _)

/-- non-vacuity: a restart, a close, an unmatched inset, a same-time-point duplicate -/
example :
    run id [] 0 [[⟨.onset, ['a']⟩], [⟨.onset, ['a']⟩, ⟨.offset, ['a']⟩], [⟨.offset, ['a']⟩, ⟨.inset, ['b']⟩]]
      = [(1, 1, .sameDefs), (2, 1, .insetBeforeOnset)] := by decide

example : (timePoints [⟨8, [⟨.onset, ['a']⟩], [(8, [⟨.offset, ['a']⟩])]⟩, ⟨16, [⟨.inset, ['a']⟩], []⟩]).map
    (fun r => (r.time, r.markers.length, r.orig)) = [(8, 1, 0), (16, 2, 1)] := by decide

end HedVerif.C10
