/-
C08 — Sidecar validation is total and flags each structural fault.

`validate Guards.fixed` is the model of the tree with the three proposed type guards (fixes/C08_*.diff);
`Guards.unfixed` the tree as found.  `validateP` below is the same computation written without the
`Except` steps; `validate_eq` shows the two coincide on every JSON value, which is what "never raises" means
for the model (`total`).  The remaining theorems are about `validateP`.
-/
import HedVerif.Model.SidecarV
import HedVerif.Props.C09
namespace HedVerif.C08
open HedVerif.SidecarV HedVerif.Generated

/-! ## helper lemmas -/

theorem mapE_ok (f : α → Except Exn β) (g : α → β) :
    ∀ xs : List α, (∀ x ∈ xs, f x = .ok (g x)) → mapE f xs = .ok (xs.map g)
  | [], _ => rfl
  | x :: xs, h => by
    have h1 := h x (List.mem_cons_self ..)
    have h2 := mapE_ok f g xs (fun y hy => h y (List.mem_cons_of_mem _ hy))
    simp [mapE, h1, h2]

theorem contains_keys (k : Str) : ∀ kvs : List (Str × α), (kvs.map (·.1)).contains k = (lookup k kvs).isSome
  | [] => rfl
  | (k', v) :: rest => by
    by_cases h : k = k'
    · simp [lookup, h]
    · have hb : (k == k') = false := beq_eq_false_iff_ne.mpr h
      have := contains_keys k rest
      simp [lookup, hb] at this ⊢
      exact this

/-- `_detect_column_type` without the `Except` steps -/
def detectP (basic : Bool) : Json → Option CType
  | .obj kvs => match lookup HED kvs with
    | none => some .ignore
    | some (.obj vs) => if basic && !vs.all (fun kv => isStr kv.2) then none else some .categorical
    | some (.str s) => if basic && countHash s == 0 then none else some .value
    | some _ => none
  | _ => some .ignore

theorem detect_eq (b : Bool) (e : Json) : detect b e = .ok (detectP b e) := by
  cases e with
  | obj kvs =>
    cases kvs with
    | nil => simp [detect, detectP, truthy, lookup]
    | cons kv rest =>
      simp only [detect, detectP, truthy, isDict, keys, getItem, contains_keys]
      cases h : lookup HED (kv :: rest) with
      | none => simp
      | some v => cases v <;> simp <;> split <;> simp_all
  | _ => simp [detect, detectP, truthy, isDict]


/-! ## entry strings -/

def strOf (kv : Str × Json) : Option (Str × Str) :=
  match kv.2 with
  | .str s => some (kv.1, s)
  | _ => none

theorem series_obj : ∀ vs : List (Str × Json), vs.all (fun kv => isStr kv.2) = true →
    mapE (fun kv : Str × Json => match kv.2 with
      | .str s => Except.ok (kv.1, s)
      | _ => .error .unmodelled) vs = .ok (vs.filterMap strOf)
  | [], _ => rfl
  | (k, v) :: rest, h => by
    simp only [List.all_cons, Bool.and_eq_true] at h
    have ih := series_obj rest h.2
    cases v <;> simp_all [mapE, strOf, isStr]

/-- `get_hed_strings` without the `Except` steps -/
def stringsP (e : Json) (t : Option CType) : List (Str × Str) :=
  match t, e with
  | some _, .obj kvs => match lookup HED kvs with
    | some (.str s) => [([], s)]
    | some (.obj vs) => vs.filterMap strOf
    | _ => []
  | _, _ => []

/-- the stored column type is compatible with what the entry holds: every value that will reach `pd.Series` is a string -/
def Good (e : Json) (t : Option CType) : Prop :=
  t = none ∨ match e with
    | .obj kvs => match lookup HED kvs with
      | some (.obj vs) => vs.all (fun kv => isStr kv.2) = true
      | some (.str _) => True
      | none => True
      | some _ => False
    | _ => True

theorem hedStrings_good (n : Str) (e : Json) (t : Option CType) (h : Good e t) :
    hedStrings .fixed ⟨n, e, t⟩ = .ok (stringsP e t) := by
  cases t with
  | none => simp [hedStrings, stringsP]
  | some t =>
    have h' := h.resolve_left (by simp)
    cases e with
    | obj kvs =>
      simp only [hedStrings, hedDict, Guards.fixed, isDict, attrGet, stringsP]
      cases hl : lookup HED kvs with
      | none => simp [series, mapE]
      | some v =>
        simp only [hl] at h'
        cases v with
        | obj vs => simp only [Option.getD_some, series]; exact series_obj _ h'
        | str s => simp [series]
        | _ => exact h'.elim
    | _ => simp [hedStrings, hedDict, Guards.fixed, isDict, stringsP, series, mapE]

theorem good_basic (e : Json) : Good e (detectP true e) := by
  unfold Good
  cases e with
  | obj kvs =>
    simp only [detectP]
    cases hl : lookup HED kvs with
    | none => simp
    | some v =>
      cases v with
      | obj vs => by_cases hall : vs.all (fun kv => isStr kv.2) = true <;> simp [hall]
      | _ => simp
  | _ => simp

/-! ## validate_structure -/

theorem mk_isError (k : Kind) (col key : Option Str) : (mk k col key).isError = true := by
  cases k with
  | defn i => cases i <;> rfl
  | _ => rfl

/-- `_validate_column_structure` without the `Except` steps -/
def columnStructureP (ne : Str × Json) : List Issue :=
  if reservedColumn ne.1 then [mk .hedUsedColumn (some ne.1) none]
  else match detectP false ne.2 with
    | none => [mk .unknownType (some ne.1) none]
    | some .ignore => if hasKey HED ne.2 then [mk .hedUsed (some ne.1) none] else []
    | some .value => []
    | some .categorical => match ne.2 with
      | .obj kvs => match lookup HED kvs with
        | some (.obj vs) => (if vs.isEmpty then [mk .blank (some ne.1) none] else []) ++ vs.flatMap (categoryIssue ne.1)
        | _ => []
      | _ => []

theorem columnStructure_eq (ne : Str × Json) : columnStructure ne = .ok (columnStructureP ne) := by
  unfold columnStructure columnStructureP
  split
  · rfl
  · rw [detect_eq]
    cases hd : detectP false ne.2 with
    | none => rfl
    | some t =>
      cases t with
      | ignore => rfl
      | value => rfl
      | categorical =>
        cases he : ne.2 with
        | obj kvs =>
          rw [he] at hd
          simp only [detectP] at hd
          cases hl : lookup HED kvs with
          | none => simp [hl] at hd
          | some v =>
            rw [hl] at hd
            cases v with
            | obj vs => simp [categoricalIssues, getItem, hl, items, truthy]
            | _ => simp at hd
        | _ => rw [he] at hd; simp [detectP] at hd

def structureP (li : List Issue) (src : List (Str × Json)) : List Issue := li ++ src.flatMap columnStructureP

theorem structure_eq (li : List Issue) (src : List (Str × Json)) :
    structureIssues li src = .ok (structureP li src) := by
  simp [structureIssues, structureP, mapE_ok columnStructure columnStructureP src (fun x _ => columnStructure_eq x),
    List.flatMap_def]

/-- `column_data` without the `Except` steps -/
def colsP (src : List (Str × Json)) : List Col := src.map fun ne => ⟨ne.1, ne.2, detectP true ne.2⟩

theorem columnData_eq (src : List (Str × Json)) : columnData src = .ok (colsP src) := by
  unfold columnData colsP
  apply mapE_ok
  intro x _
  simp [detect_eq]


/-! ## _validate_refs -/

def colRefsP (possible : List Str) (c : Col) : Str × List Str × List Issue :=
  let strs := stringsP c.entry c.ctype
  let refs := strs.flatMap (fun ks => findRefs ks.2)
  (c.name, refs,
   strs.flatMap (fun ks => stringRefIssues possible c.name (keyCtx strs ks.1) ks.2)
   ++ (if refs.contains c.name then [mk .selfRef none none] else []))

theorem colRefs_eq (possible : List Str) (c : Col) (h : Good c.entry c.ctype) :
    colRefs .fixed possible c = .ok (colRefsP possible c) := by
  cases c
  simp only [colRefs, colRefsP, hedStrings_good _ _ _ h]

def refIssuesP (cols : List Col) : List Issue :=
  let per := cols.map (colRefsP (possibleRefs cols))
  per.flatMap (fun p => p.2.2) ++ nestedIssues per

theorem refIssues_eq (cols : List Col) (h : ∀ c ∈ cols, Good c.entry c.ctype) :
    refIssues .fixed cols = .ok (refIssuesP cols) := by
  simp only [refIssues, refIssuesP,
    mapE_ok _ (colRefsP (possibleRefs cols)) cols (fun c hc => colRefs_eq _ c (h c hc))]

/-! ## the per-entry loop -/

def poundCountP (O : Oracle) (t : Option CType) (s : Str) (col key : Option Str) : List Issue :=
  match t with
  | some .value => if treeHash O s != 1 then [mk .poundValue col key] else []
  | some .categorical => if treeHash O s != 0 then [mk .poundCategory col key] else []
  | _ => []

/-- with the `shrink_defs` guard the count never raises -/
theorem poundOf_eq (O : Oracle) (s : Str) : poundOf .fixed O s = .ok (treeHash O s) := by
  simp [poundOf, Guards.fixed]

theorem poundCount_eq (O : Oracle) (t : Option CType) (s : Str) (col key : Option Str)
    (h : t = some .value ∨ t = some .categorical) :
    poundCount .fixed O t s col key = .ok (poundCountP O t s col key) := by
  unfold poundCount
  rw [poundOf_eq]
  rcases h with h | h <;> subst h <;> rfl

def fullIssuesP (O : Oracle) (rs : List (Str × List Str)) (s : Str) (col key : Option Str) : List Issue :=
  let refs := findRefs s
  let unknown := refs.filter (fun r => (lookup r rs).isNone)
  if !unknown.isEmpty then unknown.map (fun _ => mk .invalidRef col key)
  else (product (refs.map fun r => (lookup r rs).getD [])).flatMap
    fun combo => (O.full (combine O s refs combo)).map (ext col key)

theorem fullIssues_eq (O : Oracle) (rs : List (Str × List Str)) (s : Str) (col key : Option Str) :
    fullIssues .fixed O rs s col key = .ok (fullIssuesP O rs s col key) := by
  unfold fullIssues fullIssuesP
  simp only [Guards.fixed, Bool.true_and]
  split
  · rfl
  · rename_i hu
    rw [mapE_ok _ (fun r => (lookup r rs).getD [])]
    intro r hr
    cases hl : lookup r rs with
    | some l => rfl
    | none =>
      exfalso
      apply hu
      have : r ∈ (findRefs s).filter (fun r => (lookup r rs).isNone) := by simp [hr, hl]
      cases hf : (findRefs s).filter (fun r => (lookup r rs).isNone) with
      | nil => rw [hf] at this; cases this
      | cons a b => rfl

def entryIssuesP (O : Oracle) (rs : List (Str × List Str)) (isRefCol : Bool) (t : Option CType) (col : Str)
    (key : Option Str) (s : Str) : Nat × List Issue :=
  (O.defCount s,
   (O.basic s).map (ext (some col) key)
   ++ (if O.defCount s == 0 then poundCountP O t s (some col) key else [])
   ++ (if isRefCol then [] else fullIssuesP O rs s (some col) key))

theorem entryIssues_eq (O : Oracle) (rs : List (Str × List Str)) (isRefCol : Bool) (t : Option CType) (col : Str)
    (key : Option Str) (s : Str) (h : t = some .value ∨ t = some .categorical) :
    entryIssues .fixed O rs isRefCol t col key s = .ok (entryIssuesP O rs isRefCol t col key s) := by
  unfold entryIssues entryIssuesP
  simp only [poundCount_eq _ _ _ _ _ h, fullIssues_eq]
  cases O.defCount s == 0 <;> cases isRefCol <;> rfl

def columnIssuesP (O : Oracle) (rs : List (Str × List Str)) (allRefCols : List Str) (c : Col) : List Issue :=
  let t := detectP false c.entry
  let strs := stringsP c.entry t
  let rsl := strs.map fun ks => entryIssuesP O rs (allRefCols.contains c.name) t c.name (keyCtx strs ks.1) ks.2
  rsl.flatMap (·.2) ++ badSpot c.name (rsl.map (·.1))

theorem strings_type (e : Json) (b : Bool) (ks : Str × Str) (h : ks ∈ stringsP e (detectP b e)) :
    detectP b e = some .value ∨ detectP b e = some .categorical := by
  cases e with
  | obj kvs =>
    simp only [detectP] at h ⊢
    cases hl : lookup HED kvs with
    | none => simp [hl, stringsP] at h
    | some v =>
      rw [hl] at h
      cases v with
      | obj vs => simp only []; split <;> simp_all [stringsP]
      | str s => simp only []; split <;> simp_all [stringsP]
      | _ => simp [stringsP] at h
  | _ => simp [detectP, stringsP] at h

theorem strings_of_ignore (e : Json) (b : Bool) (h : detectP b e = some .ignore) : stringsP e (detectP b e) = [] := by
  cases hs : stringsP e (detectP b e) with
  | nil => rfl
  | cons ks rest =>
    have := strings_type e b ks (by rw [hs]; exact List.mem_cons_self ..)
    rw [h] at this
    rcases this with h' | h' <;> cases h'

theorem columnIssues_eq (O : Oracle) (rs : List (Str × List Str)) (allRefCols : List Str) (c : Col)
    (h : Good c.entry (detectP false c.entry)) :
    columnIssues .fixed O rs allRefCols c = .ok (columnIssuesP O rs allRefCols c) := by
  unfold columnIssues columnIssuesP
  simp only [detect_eq, hedStrings_good _ _ _ h]
  rw [mapE_ok _ (fun ks => entryIssuesP O rs (allRefCols.contains c.name) (detectP false c.entry) c.name
      (keyCtx (stringsP c.entry (detectP false c.entry)) ks.1) ks.2)]
  intro ks hks
  exact entryIssues_eq _ _ _ _ _ _ _ (strings_type _ _ ks hks)

def columnRefsP (cols : List Col) : List Str :=
  (cols.map fun c => if c.ctype == some .ignore then [] else stringsP c.entry c.ctype).flatMap
    fun strs => strs.flatMap fun ks => findRefs ks.2

theorem columnRefs_eq (cols : List Col) (h : ∀ c ∈ cols, Good c.entry c.ctype) :
    columnRefs .fixed cols = .ok (columnRefsP cols) := by
  unfold columnRefs columnRefsP
  rw [mapE_ok _ (fun c : Col => if c.ctype == some .ignore then [] else stringsP c.entry c.ctype)]
  intro c hc
  cases c
  split
  · rfl
  · exact hedStrings_good _ _ _ (h _ hc)

def refsStringsP (cols : List Col) : List (Str × List Str) :=
  let rs := cols.map fun c => (c.name, (stringsP c.entry c.ctype).map (·.2))
  if (lookup HED rs).isSome then rs else rs ++ [(HED, [NA])]

theorem refsStrings_eq (cols : List Col) (h : ∀ c ∈ cols, Good c.entry c.ctype) :
    refsStringsOf .fixed cols = .ok (refsStringsP cols) := by
  unfold refsStringsOf refsStringsP
  rw [mapE_ok _ (fun c : Col => (c.name, (stringsP c.entry c.ctype).map (·.2)))]
  intro c hc
  cases c
  simp only [hedStrings_good _ _ _ (h _ hc)]

/-! ## the whole validation -/

def loadP : Json → List Issue × List (Str × Json)
  | .obj kvs => ([], kvs)
  | _ => ([mk .wrongType none none], [])

theorem load_eq (doc : Json) : load .fixed doc = .ok (loadP doc) := by
  cases doc <;> rfl

/-- the structure and reference issues (computed before the early exit) -/
def earlyP (doc : Json) : List Issue :=
  structureP (loadP doc).1 (loadP doc).2 ++ refIssuesP (colsP (loadP doc).2)

/-- `Sidecar(..).validate(schema)` without the `Except` steps -/
def validateP (O : Oracle) (doc : Json) : List Issue :=
  let cols := colsP (loadP doc).2
  if anyError (earlyP doc) then earlyP doc
  else earlyP doc ++ O.defIssues ++ cols.flatMap (columnIssuesP O (refsStringsP cols) (columnRefsP cols))

theorem good_cols (src : List (Str × Json)) : ∀ c ∈ colsP src, Good c.entry c.ctype := by
  intro c hc
  simp only [colsP, List.mem_map] at hc
  obtain ⟨ne, _, rfl⟩ := hc
  exact good_basic _

theorem good_raw (ne : Str × Json) (h : ∀ i ∈ columnStructureP ne, i.isError = false) :
    Good ne.2 (detectP false ne.2) := by
  unfold columnStructureP at h
  split at h
  · have := h _ (List.mem_singleton.mpr rfl)
    simp [mk_isError] at this
  · unfold Good
    cases he : ne.2 with
    | obj kvs =>
      rw [he] at h
      simp only [detectP] at h ⊢
      cases hl : lookup HED kvs with
      | none => simp
      | some v =>
        rw [hl] at h
        cases v with
        | obj vs =>
          right
          simp only [Bool.false_and, Bool.false_eq_true, ↓reduceIte] at h
          show (vs.all fun kv => isStr kv.snd) = true
          rw [List.all_eq_true]
          intro kv hkv
          cases hs : isStr kv.2 with
          | true => rfl
          | false =>
            exfalso
            have hmem : ∀ i ∈ categoryIssue ne.1 kv, i.isError = false := by
              intro i hi
              apply h
              simp only [List.mem_append, List.mem_flatMap]
              exact Or.inr ⟨kv, hkv, hi⟩
            unfold categoryIssue at hmem
            split at hmem
            · have := hmem _ (List.mem_singleton.mpr rfl); simp [mk_isError] at this
            · simp only [hs, Bool.not_false, ↓reduceIte] at hmem
              have := hmem _ (List.mem_singleton.mpr rfl); simp [mk_isError] at this
        | str s => simp
        | _ => simp
    | _ => simp

theorem validate_eq (O : Oracle) (doc : Json) : validate .fixed O doc = .ok (validateP O doc) := by
  unfold validate validateP earlyP
  simp only [load_eq, structure_eq, columnData_eq, refIssues_eq _ (good_cols _)]
  split
  · rfl
  · rename_i hne
    simp only [columnRefs_eq _ (good_cols _), refsStrings_eq _ (good_cols _)]
    rw [mapE_ok _ (columnIssuesP O (refsStringsP (colsP (loadP doc).2)) (columnRefsP (colsP (loadP doc).2)))]
    · simp [List.flatMap_def]
    · intro c hc
      apply columnIssues_eq
      simp only [colsP, List.mem_map] at hc
      obtain ⟨ne, hne', rfl⟩ := hc
      apply good_raw
      intro i hi
      cases hie : i.isError with
      | false => rfl
      | true =>
        exfalso
        apply hne
        simp only [anyError, List.any_append, structureP, Bool.or_eq_true, List.any_eq_true]
        exact Or.inl (Or.inr ⟨i, List.mem_flatMap.mpr ⟨ne, hne', hi⟩, hie⟩)

/-- **Totality** (fixed tree): validating any JSON value returns a list of issues; no modelled step raises. -/
theorem total (O : Oracle) (doc : Json) : ∃ issues, validate .fixed O doc = .ok issues :=
  ⟨_, validate_eq O doc⟩


/-! ## the tree as found raises (counter-examples to totality without the guards) -/

instance : DecidableEq (Except Exn (List Issue)) := fun a b =>
  match a, b with
  | .ok x, .ok y => if h : x = y then isTrue (by rw [h]) else isFalse (by intro e; cases e; exact h rfl)
  | .error x, .error y => if h : x = y then isTrue (by rw [h]) else isFalse (by intro e; cases e; exact h rfl)
  | .ok _, .error _ => isFalse (by intro e; cases e)
  | .error _, .ok _ => isFalse (by intro e; cases e)

/-- a string layer that never complains -/
def quiet : Oracle := { basic := fun _ => [], full := fun _ => [], defCount := fun _ => 0, defIssues := [] }

/-- `{"T": "r"}` (e.g. `{"TaskName": "rest"}`): `'str' object has no attribute 'get'` -/
theorem unfixed_raises_nondict_entry :
    validate .unfixed quiet (.obj [(['T'], .str ['r'])]) = .error .attributeError := by decide
/-- `{"a": null}` -/
theorem unfixed_raises_null_entry :
    validate .unfixed quiet (.obj [(['a'], .null)]) = .error .attributeError := by decide
/-- `[1, 2]` -/
theorem unfixed_raises_list_top :
    validate .unfixed quiet (.arr [.num 1, .num 2]) = .error .typeError := by decide
/-- `"x"` -/
theorem unfixed_raises_string_top :
    validate .unfixed quiet (.str ['x']) = .error .valueError := by decide
/-- `{"o": {"HED": "{c}"}}` (e.g. `{"onset": {"HED": "{col1}"}}`): `KeyError` in `refs_strings[key]` -/
theorem unfixed_raises_unknown_ref :
    validate .unfixed quiet (.obj [(['o'], .obj [(HED, .str ['{', 'c', '}'])])]) = .error .keyError := by decide

/-- a string layer that resolves the tags spelled `D…` to `Def-expand` and is otherwise quiet -/
def quietD : Oracle := { quiet with isDefExpand := fun t => t.head? == some 'D' }

/-- `{"a": {"HED": {"x": "(D,D)"}}}` (e.g. `"(Def-expand/A, Def-expand/B)"`): `shrink_defs` looks for the group a second
time after replacing it: `KeyError` out of `_validate_pound_sign_count` -/
theorem unfixed_raises_two_def_expand :
    validate { Guards.fixed with shrink := false } quietD
      (.obj [(['a'], .obj [(HED, .obj [(['x'], .str ['(', 'D', ',', 'D', ')'])])])]) = .error .keyError := by decide

example : validate .fixed quietD (.obj [(['a'], .obj [(HED, .obj [(['x'], .str ['(', 'D', ',', 'D', ')'])])])]) = .ok [] := by
  decide

/- with the guards the same documents are answered with issues -/
example : validate .fixed quiet (.obj [(['T'], .str ['r'])]) = .ok [] := by decide
example : validate .fixed quiet (.arr [.num 1, .num 2]) = .ok [mk .wrongType none none] := by decide
example : validate .fixed quiet (.obj [(['o'], .obj [(HED, .str ['{', 'c', '}'])])])
    = .ok [mk .poundValue (some ['o']) none, mk .invalidRef (some ['o']) none] := by decide

/-! ## braces -/

def isBrace (c : Char) : Bool := c == '{' || c == '}'

/-- `n` well-formed references, seen through their braces only -/
def pairs : Nat → List Char
  | 0 => []
  | n + 1 => '{' :: '}' :: pairs n

theorem bracesGo_iff : ∀ (s : Str) (i : Nat),
    (bracesGo none i s = [] ↔ ∃ n, s.filter isBrace = pairs n) ∧
    (∀ k, bracesGo (some k) i s = [] ↔ ∃ n, s.filter isBrace = '}' :: pairs n)
  | [], i => by
    constructor
    · simp only [bracesGo, List.filter_nil, true_iff]; exact ⟨0, rfl⟩
    · intro k; simp [bracesGo]
  | c :: cs, i => by
    have ih := bracesGo_iff cs (i + 1)
    by_cases h1 : c = '{'
    · subst h1
      constructor
      · simp only [bracesGo, beq_self_eq_true, ↓reduceIte, ih.2 i]
        have hf : ('{' :: cs).filter isBrace = '{' :: cs.filter isBrace := by simp [isBrace]
        rw [hf]
        constructor
        · rintro ⟨n, hn⟩; exact ⟨n + 1, by simp [pairs, hn]⟩
        · rintro ⟨n, hn⟩
          cases n with
          | zero => simp [pairs] at hn
          | succ n => exact ⟨n, by simpa [pairs] using hn⟩
      · intro k
        have hf : ('{' :: cs).filter isBrace = '{' :: cs.filter isBrace := by simp [isBrace]
        simp [bracesGo, hf]
    · by_cases h2 : c = '}'
      · subst h2
        have hf : ('}' :: cs).filter isBrace = '}' :: cs.filter isBrace := by simp [isBrace]
        constructor
        · simp only [bracesGo, hf]
          constructor
          · intro h; simp at h
          · rintro ⟨n, hn⟩
            cases n with
            | zero => simp [pairs] at hn
            | succ n => simp [pairs] at hn
        · intro k
          simp only [bracesGo, hf]
          simp only [show ('}' == '{') = false from by decide, Bool.false_eq_true, ↓reduceIte, beq_self_eq_true, ih.1]
          constructor
          · rintro ⟨n, hn⟩; exact ⟨n, by rw [hn]⟩
          · rintro ⟨n, hn⟩; exact ⟨n, by simpa using hn⟩
      · have hf : (c :: cs).filter isBrace = cs.filter isBrace := by simp [isBrace, h1, h2]
        have e1 : (c == '{') = false := beq_eq_false_iff_ne.mpr h1
        have e2 : (c == '}') = false := beq_eq_false_iff_ne.mpr h2
        constructor
        · simp only [bracesGo, e1, e2, hf, Bool.false_eq_true, ↓reduceIte]; exact ih.1
        · intro k; simp only [bracesGo, e1, e2, hf, Bool.false_eq_true, ↓reduceIte]; exact ih.2 k

/-- **Braces**: `_find_non_matching_braces` reports nothing exactly when, reading only the braces of the string, they
are `{}` repeated: every `{` is closed by the next brace, and no `}` comes without its `{`. -/
theorem braces_iff (s : Str) : braces s = [] ↔ ∃ n, s.filter isBrace = pairs n :=
  (bracesGo_iff s 0).1

example : braces ['R', ',', '{', 'a', '}', '{', 'b', '}'] = [] := by decide
example : braces ['{', '{', 'a', '}', '}', '{'] = [0, 4, 5] := by decide


/-! ## each structural fault is flagged

The conclusions have the form `mk k col key ∈ validateP O doc`: an issue of internal kind `k` in the context
`(column, key)`.  `codes` says which published code `k` carries (read from the extracted table) and that every such issue
has error severity.  `validate_eq` transports all of it to `validate .fixed`. -/

/-- published code of each kind (against the table extracted from error_messages.py); all are errors -/
theorem codes :
    Kind.code .hedUsedColumn = ['S', 'I', 'D', 'E', 'C', 'A', 'R', '_', 'I', 'N', 'V', 'A', 'L', 'I', 'D']
    ∧ Kind.code .unknownType = ['s', 'i', 'd', 'e', 'c', 'a', 'r', 'U', 'n', 'k', 'n', 'o', 'w', 'n', 'C', 'o', 'l', 'u', 'm', 'n']
    ∧ Kind.code .hedUsed = ['S', 'I', 'D', 'E', 'C', 'A', 'R', '_', 'I', 'N', 'V', 'A', 'L', 'I', 'D']
    ∧ Kind.code .blank = ['b', 'l', 'a', 'n', 'k', 'V', 'a', 'l', 'u', 'e', 'S', 't', 'r', 'i', 'n', 'g']
    ∧ Kind.code .wrongType = ['w', 'r', 'o', 'n', 'g', 'H', 'e', 'd', 'D', 'a', 't', 'a', 'T', 'y', 'p', 'e']
    ∧ Kind.code .naUsed = ['S', 'I', 'D', 'E', 'C', 'A', 'R', '_', 'I', 'N', 'V', 'A', 'L', 'I', 'D']
    ∧ Kind.code .malformedRef = ['S', 'I', 'D', 'E', 'C', 'A', 'R', '_', 'B', 'R', 'A', 'C', 'E', 'S', '_', 'I', 'N', 'V', 'A', 'L', 'I', 'D']
    ∧ Kind.code .invalidRef = ['S', 'I', 'D', 'E', 'C', 'A', 'R', '_', 'B', 'R', 'A', 'C', 'E', 'S', '_', 'I', 'N', 'V', 'A', 'L', 'I', 'D']
    ∧ Kind.code .selfRef = ['S', 'I', 'D', 'E', 'C', 'A', 'R', '_', 'B', 'R', 'A', 'C', 'E', 'S', '_', 'I', 'N', 'V', 'A', 'L', 'I', 'D']
    ∧ Kind.code .nestedRef = ['S', 'I', 'D', 'E', 'C', 'A', 'R', '_', 'B', 'R', 'A', 'C', 'E', 'S', '_', 'I', 'N', 'V', 'A', 'L', 'I', 'D']
    ∧ Kind.code .poundValue = ['P', 'L', 'A', 'C', 'E', 'H', 'O', 'L', 'D', 'E', 'R', '_', 'I', 'N', 'V', 'A', 'L', 'I', 'D']
    ∧ Kind.code .poundCategory = ['P', 'L', 'A', 'C', 'E', 'H', 'O', 'L', 'D', 'E', 'R', '_', 'I', 'N', 'V', 'A', 'L', 'I', 'D']
    ∧ (∀ k col key, (mk k col key).isError = true ∧ (mk k col key).code = k.code ∧ (mk k col key).col = col ∧ (mk k col key).key = key)
    ∧ reservedColumn HED = true ∧ reservedCategory NA = true := by
  refine ⟨by decide, by decide, by decide, by decide, by decide, by decide, by decide, by decide, by decide, by decide, by decide, by decide, fun k col key => ⟨mk_isError k col key, rfl, rfl, rfl⟩, by decide, by decide⟩

theorem mem_early (O : Oracle) (doc : Json) {i : Issue} (h : i ∈ earlyP doc) : i ∈ validateP O doc := by
  unfold validateP
  split
  · exact h
  · simp [h]

theorem mem_structure {cols : List (Str × Json)} {ne : Str × Json} {i : Issue} (hm : ne ∈ cols)
    (hi : i ∈ columnStructureP ne) : i ∈ earlyP (.obj cols) := by
  simp only [earlyP, loadP, structureP, List.nil_append, List.mem_append, List.mem_flatMap]
  exact Or.inl ⟨ne, hm, hi⟩

/-- **Top level**: a document that is not a JSON object is reported (`wrongHedDataType`), whatever it is. -/
theorem fault_top_level (O : Oracle) (doc : Json) (h : isDict doc = false) :
    validateP O doc = [mk .wrongType none none] := by
  cases doc <;>
    simp_all [isDict, validateP, earlyP, loadP, structureP, colsP, refIssuesP, nestedIssues, anyError, mk_isError]

/-- **Reserved column name**: a column called `HED` is flagged (`SIDECAR_INVALID`). -/
theorem fault_hed_column (O : Oracle) (cols : List (Str × Json)) (n : Str) (e : Json) (hm : (n, e) ∈ cols)
    (hr : reservedColumn n = true) : mk .hedUsedColumn (some n) none ∈ validateP O (.obj cols) := by
  apply mem_early; apply mem_structure hm
  simp [columnStructureP, hr]

/-- **HED entry of the wrong type**: `"HED": v` with `v` neither a string nor a map is flagged (`sidecarUnknownColumn`). -/
theorem fault_unknown_type (O : Oracle) (cols : List (Str × Json)) (n : Str) (kvs : List (Str × Json)) (v : Json)
    (hm : (n, .obj kvs) ∈ cols) (hr : reservedColumn n = false) (hl : lookup HED kvs = some v)
    (h1 : isStr v = false) (h2 : isDict v = false) : mk .unknownType (some n) none ∈ validateP O (.obj cols) := by
  apply mem_early; apply mem_structure hm
  cases v <;> simp_all [columnStructureP, detectP, isStr, isDict]

/-- **HED inside an ignored column**: an entry without a top-level `HED` key that contains the key `HED` anywhere below is
flagged (`SIDECAR_INVALID`). -/
theorem fault_hed_nested (O : Oracle) (cols : List (Str × Json)) (n : Str) (e : Json) (hm : (n, e) ∈ cols)
    (hr : reservedColumn n = false) (hi : detectP false e = some .ignore) (hk : hasKey HED e = true) :
    mk .hedUsed (some n) none ∈ validateP O (.obj cols) := by
  apply mem_early; apply mem_structure hm
  simp [columnStructureP, hr, hi, hk]

/-- **Empty category map**: `"HED": {}` is flagged (`blankValueString`). -/
theorem fault_blank_dict (O : Oracle) (cols : List (Str × Json)) (n : Str) (kvs : List (Str × Json))
    (hm : (n, .obj kvs) ∈ cols) (hr : reservedColumn n = false) (hl : lookup HED kvs = some (.obj [])) :
    mk .blank (some n) none ∈ validateP O (.obj cols) := by
  apply mem_early; apply mem_structure hm
  simp [columnStructureP, hr, detectP, hl]

theorem mem_category {cols : List (Str × Json)} {n : Str} {kvs vs : List (Str × Json)} {kv : Str × Json} {i : Issue}
    (hm : (n, .obj kvs) ∈ cols) (hr : reservedColumn n = false) (hl : lookup HED kvs = some (.obj vs))
    (hkv : kv ∈ vs) (hi : i ∈ categoryIssue n kv) : i ∈ earlyP (.obj cols) := by
  apply mem_structure hm
  simp only [columnStructureP, hr, detectP, hl, Bool.false_and, Bool.false_eq_true, ↓reduceIte, List.mem_append,
    List.mem_flatMap]
  exact Or.inr ⟨kv, hkv, hi⟩

/-- **Blank category value**: a category whose value is falsy (`""`, `null`, `0`, `false`, `[]`, `{}`) is flagged
(`blankValueString`) with its key. -/
theorem fault_blank_value (O : Oracle) (cols : List (Str × Json)) (n : Str) (kvs vs : List (Str × Json)) (k : Str) (v : Json)
    (hm : (n, .obj kvs) ∈ cols) (hr : reservedColumn n = false) (hl : lookup HED kvs = some (.obj vs))
    (hkv : (k, v) ∈ vs) (hv : truthy v = false) : mk .blank (some n) (some k) ∈ validateP O (.obj cols) := by
  apply mem_early; apply mem_category hm hr hl hkv
  simp [categoryIssue, hv]

/-- **Non-string category value**: a truthy value that is not a string is flagged (`wrongHedDataType`) with its key. -/
theorem fault_wrong_type (O : Oracle) (cols : List (Str × Json)) (n : Str) (kvs vs : List (Str × Json)) (k : Str) (v : Json)
    (hm : (n, .obj kvs) ∈ cols) (hr : reservedColumn n = false) (hl : lookup HED kvs = some (.obj vs))
    (hkv : (k, v) ∈ vs) (hv : truthy v = true) (hs : isStr v = false) :
    mk .wrongType (some n) (some k) ∈ validateP O (.obj cols) := by
  apply mem_early; apply mem_category hm hr hl hkv
  simp [categoryIssue, hv, hs]

/-- **`n/a` as a category key** is flagged (`SIDECAR_INVALID`) with its key. -/
theorem fault_na_key (O : Oracle) (cols : List (Str × Json)) (n : Str) (kvs vs : List (Str × Json)) (k s : Str)
    (hm : (n, .obj kvs) ∈ cols) (hr : reservedColumn n = false) (hl : lookup HED kvs = some (.obj vs))
    (hkv : (k, .str s) ∈ vs) (hs : s ≠ []) (hk : reservedCategory k = true) :
    mk .naUsed (some n) (some k) ∈ validateP O (.obj cols) := by
  apply mem_early; apply mem_category hm hr hl hkv
  cases s with
  | nil => exact absurd rfl hs
  | cons c cs => simp [categoryIssue, truthy, isStr, hk]

/-- the entry strings that `_validate_refs` screens: those of columns whose kind is confirmed (a value column needs its
`#`, a categorical column only strings) -/
def screened (e : Json) : List (Str × Str) := stringsP e (detectP true e)

theorem mem_colRefs {cols : List (Str × Json)} {n : Str} {e : Json} {i : Issue} (hm : (n, e) ∈ cols)
    (hi : i ∈ (colRefsP (possibleRefs (colsP cols)) ⟨n, e, detectP true e⟩).2.2) : i ∈ earlyP (.obj cols) := by
  simp only [earlyP, loadP, refIssuesP, List.mem_append, List.mem_flatMap, List.mem_map]
  refine Or.inr (Or.inl ⟨_, ⟨⟨n, e, detectP true e⟩, ?_, rfl⟩, hi⟩)
  simp only [colsP, List.mem_map]
  exact ⟨(n, e), hm, rfl⟩

theorem mem_const_map {α β} {l : List α} {a : α} {b : β} (h : a ∈ l) : b ∈ l.map (fun _ => b) :=
  List.mem_map.mpr ⟨a, h, rfl⟩

/-- **Unbalanced braces** in a screened entry are flagged (`SIDECAR_BRACES_INVALID`), once per offending brace. -/
theorem fault_braces (O : Oracle) (cols : List (Str × Json)) (n : Str) (e : Json) (k s : Str) (hm : (n, e) ∈ cols)
    (hs : (k, s) ∈ screened e) (hb : braces s ≠ []) :
    mk .malformedRef (some n) (keyCtx (screened e) k) ∈ validateP O (.obj cols) := by
  apply mem_early; apply mem_colRefs hm
  simp only [colRefsP, List.mem_append, List.mem_flatMap]
  refine Or.inl ⟨(k, s), hs, ?_⟩
  simp only [stringRefIssues, List.mem_append]
  cases hbr : braces s with
  | nil => exact absurd hbr hb
  | cons a l => exact Or.inl (List.mem_map.mpr ⟨a, List.mem_cons_self .., rfl⟩)

/-- **Unknown reference**: `{r}` in a screened entry with `r` neither `HED` nor a HED-bearing column is flagged
(`SIDECAR_BRACES_INVALID`). -/
theorem fault_unknown_ref (O : Oracle) (cols : List (Str × Json)) (n : Str) (e : Json) (k s r : Str) (hm : (n, e) ∈ cols)
    (hs : (k, s) ∈ screened e) (hr : r ∈ findRefs s) (hu : (possibleRefs (colsP cols)).contains r = false) :
    mk .invalidRef (some n) (keyCtx (screened e) k) ∈ validateP O (.obj cols) := by
  apply mem_early; apply mem_colRefs hm
  simp only [colRefsP, List.mem_append, List.mem_flatMap]
  refine Or.inl ⟨(k, s), hs, ?_⟩
  simp only [stringRefIssues, List.mem_append]
  exact Or.inr (mem_const_map (a := r) (List.mem_filter.mpr ⟨hr, by rw [hu]; rfl⟩))

/-- **Self reference**: a screened entry of column `n` containing `{n}` is flagged (`SIDECAR_BRACES_INVALID`). -/
theorem fault_self_ref (O : Oracle) (cols : List (Str × Json)) (n : Str) (e : Json) (k s : Str) (hm : (n, e) ∈ cols)
    (hs : (k, s) ∈ screened e) (hr : n ∈ findRefs s) : mk .selfRef none none ∈ validateP O (.obj cols) := by
  apply mem_early; apply mem_colRefs hm
  simp only [colRefsP, List.mem_append]
  right
  have : (List.flatMap (fun ks : Str × Str => findRefs ks.2) (stringsP e (detectP true e))).contains n = true := by
    simp only [List.contains_iff_mem, List.mem_flatMap]
    exact ⟨(k, s), hs, hr⟩
  rw [if_pos this]
  exact List.mem_singleton.mpr rfl

/-- **Nested reference**: column `n` refers to another column `r` that itself contains a reference: flagged
(`SIDECAR_BRACES_INVALID`). -/
theorem fault_nested_ref (O : Oracle) (cols : List (Str × Json)) (n r : Str) (e e' : Json) (k s k' s' r' : Str)
    (hm : (n, e) ∈ cols) (hs : (k, s) ∈ screened e) (hr : r ∈ findRefs s) (hne : r ≠ n)
    (hm' : (r, e') ∈ cols) (hs' : (k', s') ∈ screened e') (hr' : r' ∈ findRefs s') :
    mk .nestedRef none none ∈ validateP O (.obj cols) := by
  apply mem_early
  simp only [earlyP, loadP, refIssuesP, List.mem_append]
  refine Or.inr (Or.inr ?_)
  have hc : ∀ {m : Str} {x : Json}, (m, x) ∈ cols →
      colRefsP (possibleRefs (colsP cols)) ⟨m, x, detectP true x⟩ ∈ (colsP cols).map (colRefsP (possibleRefs (colsP cols))) := by
    intro m x hx
    refine List.mem_map.mpr ⟨⟨m, x, detectP true x⟩, ?_, rfl⟩
    simp only [colsP, List.mem_map]
    exact ⟨(m, x), hx, rfl⟩
  have hrefs : r ∈ (colRefsP (possibleRefs (colsP cols)) ⟨n, e, detectP true e⟩).2.1 := by
    simp only [colRefsP, List.mem_flatMap]; exact ⟨(k, s), hs, hr⟩
  have hrefs' : r' ∈ (colRefsP (possibleRefs (colsP cols)) ⟨r, e', detectP true e'⟩).2.1 := by
    simp only [colRefsP, List.mem_flatMap]; exact ⟨(k', s'), hs', hr'⟩
  have nonempty : ∀ {l : List Str} {a : Str}, a ∈ l → (!l.isEmpty) = true := by
    intro l a h; cases l with
    | nil => cases h
    | cons => rfl
  simp only [nestedIssues, List.mem_flatMap]
  refine ⟨_, List.mem_filter.mpr ⟨hc hm, nonempty hrefs⟩, ?_⟩
  refine mem_const_map (a := r) (List.mem_filter.mpr ⟨hrefs, ?_⟩)
  simp only [Bool.and_eq_true, List.any_eq_true, bne_iff_ne, ne_eq]
  exact ⟨⟨_, List.mem_filter.mpr ⟨hc hm', nonempty hrefs'⟩, by simp [colRefsP]⟩, by simpa [colRefsP] using hne⟩


theorem mem_loop (O : Oracle) (cols : List (Str × Json)) {n : Str} {e : Json} {i : Issue}
    (hne : anyError (earlyP (.obj cols)) = false) (hm : (n, e) ∈ cols)
    (hi : i ∈ columnIssuesP O (refsStringsP (colsP cols)) (columnRefsP (colsP cols)) ⟨n, e, detectP true e⟩) :
    i ∈ validateP O (.obj cols) := by
  unfold validateP
  rw [if_neg (by simp [hne])]
  simp only [loadP, List.mem_append, List.mem_flatMap]
  refine Or.inr ⟨⟨n, e, detectP true e⟩, ?_, hi⟩
  simp only [colsP, List.mem_map]
  exact ⟨(n, e), hm, rfl⟩

/-- **Value column without exactly one `#`** (nothing else wrong, no definition in the entry): flagged
(`PLACEHOLDER_INVALID`). -/
theorem fault_pound_value (O : Oracle) (cols : List (Str × Json)) (n : Str) (kvs : List (Str × Json)) (s : Str)
    (hne : anyError (earlyP (.obj cols)) = false) (hm : (n, .obj kvs) ∈ cols) (hl : lookup HED kvs = some (.str s))
    (hc : treeHash O s ≠ 1) (hd : O.defCount s = 0) : mk .poundValue (some n) none ∈ validateP O (.obj cols) := by
  apply mem_loop O cols hne hm
  simp [columnIssuesP, detectP, hl, stringsP, entryIssuesP, hd, poundCountP, keyCtx, hc]

/-- **Category entry containing `#`** (nothing else wrong, no definition in the entry): flagged (`PLACEHOLDER_INVALID`). -/
theorem fault_pound_category (O : Oracle) (cols : List (Str × Json)) (n : Str) (kvs vs : List (Str × Json)) (k s : Str)
    (hne : anyError (earlyP (.obj cols)) = false) (hm : (n, .obj kvs) ∈ cols) (hl : lookup HED kvs = some (.obj vs))
    (hkv : (k, .str s) ∈ vs) (hc : treeHash O s ≠ 0) (hd : O.defCount s = 0) :
    mk .poundCategory (some n) (keyCtx (vs.filterMap strOf) k) ∈ validateP O (.obj cols) := by
  apply mem_loop O cols hne hm
  have hks : (k, s) ∈ vs.filterMap strOf := List.mem_filterMap.mpr ⟨(k, .str s), hkv, rfl⟩
  simp only [columnIssuesP, detectP, hl, stringsP, Bool.false_and, Bool.false_eq_true, ↓reduceIte, List.mem_append,
    List.mem_flatMap, List.mem_map]
  refine Or.inl ⟨_, ⟨(k, s), hks, rfl⟩, ?_⟩
  simp [entryIssuesP, hd, poundCountP, hc]

/-- an entry with unbalanced parentheses has an empty tree: nothing is printed, no `#` is counted -/
theorem treeHash_unbalanced (O : Oracle) (s : Str) (e : Tree.BuildErr) (h : Tree.build s = .error e) : treeHash O s = 0 := by
  simp [treeHash, entryTree, Tree.construct, h, dropList, hashList]

/-- **Value column with unbalanced parentheses** (nothing else wrong at the sidecar level): besides what the string layer
says about the parentheses, the sidecar layer reports `PLACEHOLDER_INVALID` — whatever the number of `#` written. -/
theorem fault_pound_unbalanced (O : Oracle) (cols : List (Str × Json)) (n : Str) (kvs : List (Str × Json)) (s : Str)
    (e : Tree.BuildErr) (hne : anyError (earlyP (.obj cols)) = false) (hm : (n, .obj kvs) ∈ cols)
    (hl : lookup HED kvs = some (.str s)) (hb : Tree.build s = .error e) (hd : O.defCount s = 0) :
    mk .poundValue (some n) none ∈ validateP O (.obj cols) :=
  fault_pound_value O cols n kvs s hne hm hl (by rw [treeHash_unbalanced O s e hb]; decide) hd

/- the count is made on the tree: `{#}` is a reference tag and is removed; `(D/#,(L/#))` shrinks to `D/#`;
   `(L/#` has no tree -/
example : treeHash quiet ['{', '#', '}'] = 0 ∧ countHash ['{', '#', '}'] = 1 := by decide
example : treeHash quietD ['(', 'D', '/', '#', ',', '(', 'L', '/', '#', ')', ')'] = 1 := by decide
example : treeHash quiet ['(', 'L', '/', '#'] = 0 := by decide
example : treeHash quiet ['(', '{', 'a', '}', ')', ',', 'L', '/', '#'] = 1
    ∧ (entryTree ['(', '{', 'a', '}', ')', ',', 'L', '/', '#']).length = 1 := by decide

/-! ## a well-formed sidecar with valid entries has no error -/

/-- The structural rules of the property for the entry `e` of column `n` of the sidecar `cols`. -/
structure EntryOK (O : Oracle) (cols : List (Str × Json)) (n : Str) (e : Json) : Prop where
  /-- `HED` is not used as a column name -/
  name : reservedColumn n = false
  /-- no HED at all (and no `HED` key below), or a value string with exactly one `#`, or a non-empty map of non-empty
  strings without `#` whose keys are not `n/a`; the `#` rule does not apply to an entry that declares definitions -/
  shape : (detectP false e = some .ignore ∧ hasKey HED e = false)
    ∨ (∃ kvs s, e = .obj kvs ∧ lookup HED kvs = some (.str s) ∧ countHash s ≠ 0 ∧ (O.defCount s = 0 → treeHash O s = 1))
    ∨ (∃ kvs vs, e = .obj kvs ∧ lookup HED kvs = some (.obj vs) ∧ vs ≠ [] ∧
        ∀ kv ∈ vs, ∃ s, kv.2 = .str s ∧ s ≠ [] ∧ reservedCategory kv.1 = false ∧ (O.defCount s = 0 → treeHash O s = 0))
  /-- braces are balanced; references name `HED` or a column that bears HED, not the column itself, and the column
  referred to contains no reference -/
  refs : ∀ ks ∈ screened e, braces ks.2 = [] ∧ ∀ r ∈ findRefs ks.2,
    (r = HED ∨ ∃ e', (r, e') ∈ cols ∧ detectP true e' ≠ some .ignore) ∧ r ≠ n ∧
    ∀ e', (r, e') ∈ cols → ∀ ks' ∈ screened e', findRefs ks'.2 = []

/-- The string layer finds no error: in the entries of the sidecar, in any assembled string it is asked about, and among
the definition issues; a column declares definitions in all of its entries or in none. -/
structure OracleOK (O : Oracle) (cols : List (Str × Json)) : Prop where
  basic : ∀ ne ∈ cols, ∀ ks ∈ stringsP ne.2 (detectP false ne.2), ∀ c ∈ O.basic ks.2, C08.sevWarning ≤ c.2
  uniform : ∀ ne ∈ cols, (∀ ks ∈ stringsP ne.2 (detectP false ne.2), O.defCount ks.2 = 0) ∨
    (∀ ks ∈ stringsP ne.2 (detectP false ne.2), O.defCount ks.2 ≠ 0)
  full : ∀ t, ∀ c ∈ O.full t, C08.sevWarning ≤ c.2
  defs : ∀ i ∈ O.defIssues, i.isError = false

theorem wf_types {O : Oracle} {cols : List (Str × Json)} {n : Str} {e : Json} (h : EntryOK O cols n e) :
    detectP true e = detectP false e := by
  rcases h.shape with ⟨hi, _⟩ | ⟨kvs, s, rfl, hl, hc⟩ | ⟨kvs, vs, rfl, hl, _, hall⟩
  · cases e with
    | obj kvs =>
      simp only [detectP] at hi ⊢
      cases hl : lookup HED kvs with
      | none => rfl
      | some v => rw [hl] at hi; cases v <;> simp at hi
    | _ => rfl
  · simp [detectP, hl, hc]
  · have : vs.all (fun kv => isStr kv.2) = true := by
      rw [List.all_eq_true]
      intro kv hkv
      obtain ⟨s, hs, _⟩ := hall kv hkv
      simp [hs, isStr]
    simp [detectP, hl, this]

theorem wf_structure {O : Oracle} {cols : List (Str × Json)} {n : Str} {e : Json} (h : EntryOK O cols n e) :
    columnStructureP (n, e) = [] := by
  rcases h.shape with ⟨hi, hk⟩ | ⟨kvs, s, rfl, hl, hc⟩ | ⟨kvs, vs, rfl, hl, hne, hall⟩
  · simp [columnStructureP, h.name, hi, hk]
  · simp [columnStructureP, h.name, detectP, hl]
  · have he : vs.isEmpty = false := by cases vs <;> simp_all
    simp only [columnStructureP, h.name, detectP, hl, Bool.false_eq_true, ↓reduceIte, Bool.false_and, he,
      List.nil_append, List.flatMap_eq_nil_iff]
    intro kv hkv
    obtain ⟨s, hs, hs', hk, _⟩ := hall kv hkv
    cases s with
    | nil => exact absurd rfl hs'
    | cons c cs => simp [categoryIssue, hs, truthy, isStr, hk]

theorem possible_iff (cols : List (Str × Json)) (r : Str) :
    r ∈ possibleRefs (colsP cols) ↔ (r = HED ∨ ∃ e', (r, e') ∈ cols ∧ detectP true e' ≠ some .ignore) := by
  have hp : r ∈ ((colsP cols).filter (fun c => c.ctype != some .ignore)).map (·.name) ↔
      ∃ e', (r, e') ∈ cols ∧ detectP true e' ≠ some .ignore := by
    simp only [colsP, List.mem_map, List.mem_filter, bne_iff_ne, ne_eq]
    constructor
    · rintro ⟨c, ⟨⟨ne, hne, rfl⟩, ht⟩, rfl⟩; exact ⟨ne.2, hne, ht⟩
    · rintro ⟨e', hm, ht⟩; exact ⟨⟨r, e', detectP true e'⟩, ⟨⟨(r, e'), hm, rfl⟩, ht⟩, rfl⟩
  simp only [possibleRefs]
  split
  · rename_i hc
    rw [hp]
    constructor
    · exact Or.inr
    · rintro (rfl | h)
      · exact hp.mp (by simpa using hc)
      · exact h
  · rw [List.mem_append, hp, List.mem_singleton]
    constructor
    · rintro (h | h); exact Or.inr h; exact Or.inl h
    · rintro (h | h); exact Or.inr h; exact Or.inl h

theorem wf_colRefs {O : Oracle} {cols : List (Str × Json)} {n : Str} {e : Json} (h : EntryOK O cols n e) :
    (colRefsP (possibleRefs (colsP cols)) ⟨n, e, detectP true e⟩).2.2 = [] := by
  simp only [colRefsP, List.append_eq_nil_iff, List.flatMap_eq_nil_iff]
  refine ⟨?_, ?_⟩
  · intro ks hks
    obtain ⟨hb, hr⟩ := h.refs ks hks
    simp only [stringRefIssues, hb, List.map_nil, List.nil_append, List.map_eq_nil_iff, List.filter_eq_nil_iff]
    intro r hr'
    have := (possible_iff cols r).mpr (hr r hr').1
    simp [this]
  · have : (List.flatMap (fun ks : Str × Str => findRefs ks.2) (stringsP e (detectP true e))).contains n = false := by
      apply Bool.eq_false_iff.mpr
      intro hc
      simp only [List.contains_iff_mem, List.mem_flatMap] at hc
      obtain ⟨ks, hks, hn⟩ := hc
      exact (h.refs ks hks).2 n hn |>.2.1 rfl
    rw [this]; rfl

theorem wf_early {O : Oracle} (cols : List (Str × Json)) (h : ∀ ne ∈ cols, EntryOK O cols ne.1 ne.2) : earlyP (.obj cols) = [] := by
  simp only [earlyP, loadP, structureP, List.nil_append, List.append_eq_nil_iff, List.flatMap_eq_nil_iff, refIssuesP]
  have hper : ∀ p ∈ (colsP cols).map (colRefsP (possibleRefs (colsP cols))),
      ∃ ne ∈ cols, p = colRefsP (possibleRefs (colsP cols)) ⟨ne.1, ne.2, detectP true ne.2⟩ := by
    intro p hp
    simp only [colsP, List.map_map, List.mem_map, Function.comp] at hp
    obtain ⟨ne, hne, rfl⟩ := hp
    exact ⟨ne, hne, rfl⟩
  refine ⟨fun ne hne => wf_structure (h ne hne), ?_, ?_⟩
  · intro p hp
    obtain ⟨ne, hne, rfl⟩ := hper p hp
    exact wf_colRefs (h ne hne)
  · simp only [nestedIssues, List.flatMap_eq_nil_iff, List.map_eq_nil_iff, List.filter_eq_nil_iff]
    intro p hp r hr
    obtain ⟨hp, _⟩ := List.mem_filter.mp hp
    obtain ⟨ne, hne, rfl⟩ := hper p hp
    simp only [Bool.and_eq_true, List.any_eq_true, not_and, forall_exists_index, and_imp]
    intro q hq hqr
    exfalso
    obtain ⟨hq, hq'⟩ := List.mem_filter.mp hq
    obtain ⟨ne', hne', rfl⟩ := hper q hq
    have hname : ne'.1 = r := by simpa [colRefsP] using hqr
    simp only [colRefsP, List.mem_flatMap] at hr
    obtain ⟨ks, hks, hr⟩ := hr
    have hnone := ((h ne hne).refs ks hks).2 r hr |>.2.2 ne'.2 (by rw [← hname]; exact hne')
    have : (colRefsP (possibleRefs (colsP cols)) ⟨ne'.1, ne'.2, detectP true ne'.2⟩).2.1 = [] := by
      simp only [colRefsP, List.flatMap_eq_nil_iff]
      exact hnone
    rw [this] at hq'
    simp at hq'

theorem ext_isError (col key : Option Str) (c : Str × Nat) (h : C08.sevWarning ≤ c.2) : (ext col key c).isError = false := by
  simp only [ext, Issue.isError]
  exact decide_eq_false (by omega)

theorem lookup_of_mem_keys (r : Str) (rs : List (Str × α)) (h : r ∈ rs.map (·.1)) : (lookup r rs).isNone = false := by
  have := contains_keys r rs
  rw [List.contains_iff_mem.mpr h] at this
  cases hl : lookup r rs <;> simp_all

/-- **Well-formed sidecars**: if every column obeys the structural rules and the string layer finds no error in the
entries and in the strings assembled from them, validation reports no error-severity issue. -/
theorem wellformed_ok (O : Oracle) (cols : List (Str × Json)) (hwf : ∀ ne ∈ cols, EntryOK O cols ne.1 ne.2)
    (hO : OracleOK O cols) : ∀ i ∈ validateP O (.obj cols), i.isError = false := by
  have hearly := wf_early cols hwf
  unfold validateP
  rw [hearly]
  simp only [anyError, List.any_nil, Bool.false_eq_true, ↓reduceIte, List.nil_append, loadP, List.mem_append,
    List.mem_flatMap]
  rintro i (hi | ⟨c, hc, hi⟩)
  · exact hO.defs i hi
  · simp only [colsP, List.mem_map] at hc
    obtain ⟨ne, hne, rfl⟩ := hc
    have hw := hwf ne hne
    have hb := hO.basic ne hne
    simp only [columnIssuesP, List.mem_append, List.mem_flatMap, List.mem_map] at hi
    rcases hi with ⟨_, ⟨ks, hks, rfl⟩, hi⟩ | hi
    · have hbs := hb ks hks
      simp only [entryIssuesP, List.mem_append, List.mem_map] at hi
      rcases hi with (⟨c, hc, rfl⟩ | hi) | hi
      · exact ext_isError _ _ _ (hbs c hc)
      · exfalso
        by_cases hdc : O.defCount ks.2 = 0
        case neg =>
          have : (O.defCount ks.2 == 0) = false := by simpa using hdc
          simp [this] at hi
        simp only [hdc, beq_self_eq_true, ↓reduceIte] at hi
        rcases hw.shape with ⟨hig, _⟩ | ⟨kvs, s, he, hl, hcnt⟩ | ⟨kvs, vs, he, hl, _, hall⟩
        · rw [strings_of_ignore _ _ hig] at hks; cases hks
        · rw [he] at hks hi
          simp only [detectP, hl, stringsP, Bool.false_and, Bool.false_eq_true, ↓reduceIte, List.mem_singleton] at hks hi
          subst hks
          simp [poundCountP, hcnt.2 hdc] at hi
        · rw [he] at hks hi
          simp only [detectP, hl, stringsP, Bool.false_and, Bool.false_eq_true, ↓reduceIte, List.mem_filterMap] at hks hi
          obtain ⟨kv, hkv, hso⟩ := hks
          obtain ⟨s, hs, _, _, hcnt⟩ := hall kv hkv
          simp only [strOf, hs, Option.some.injEq] at hso
          subst hso
          simp [poundCountP, hcnt hdc] at hi
      · split at hi
        · cases hi
        · simp only [fullIssuesP] at hi
          have hunk : (findRefs ks.2).filter (fun r => (lookup r (refsStringsP (colsP cols))).isNone) = [] := by
            rw [List.filter_eq_nil_iff]
            intro r hr
            have hks' : ks ∈ screened ne.2 := by unfold screened; rw [wf_types hw]; exact hks
            have hpos := ((hw.refs ks hks').2 r hr).1
            have : r ∈ (refsStringsP (colsP cols)).map (·.1) := by
              simp only [refsStringsP]
              rcases hpos with rfl | ⟨e', hm, _⟩
              · split
                · rename_i hsome
                  have := contains_keys HED (List.map (fun c : Col => (c.name, (stringsP c.entry c.ctype).map (·.2))) (colsP cols))
                  rw [hsome] at this
                  exact List.contains_iff_mem.mp this
                · simp
              · have hin : r ∈ (List.map (fun c : Col => (c.name, (stringsP c.entry c.ctype).map (·.2))) (colsP cols)).map (·.1) := by
                  simp only [colsP, List.map_map, List.mem_map, Function.comp]
                  exact ⟨(r, e'), hm, rfl⟩
                split
                · exact hin
                · rw [List.map_append, List.mem_append]; exact Or.inl hin
            simp [lookup_of_mem_keys r _ this]
          rw [hunk] at hi
          simp only [List.isEmpty_nil, Bool.not_true, Bool.false_eq_true, ↓reduceIte, List.mem_flatMap, List.mem_map] at hi
          obtain ⟨combo, _, c, hc, rfl⟩ := hi
          exact ext_isError _ _ _ (hO.full _ c hc)
    · exfalso
      unfold badSpot at hi
      rcases hO.uniform ne hne with hz | hnz
      · have hany : (List.map (fun x : Nat × List Issue => x.1)
            (List.map (fun ks : Str × Str => entryIssuesP O (refsStringsP (colsP cols))
              ((columnRefsP (colsP cols)).contains ne.1) (detectP false ne.2) ne.1
              (keyCtx (stringsP ne.2 (detectP false ne.2)) ks.1) ks.2) (stringsP ne.2 (detectP false ne.2)))).any (· > 0) = false := by
          rw [List.any_eq_false]
          intro d hd
          simp only [List.map_map, List.mem_map, Function.comp] at hd
          obtain ⟨ks, hks, rfl⟩ := hd
          simp [entryIssuesP, hz ks hks]
        rw [hany] at hi
        simp at hi
      · have hany : (List.map (fun x : Nat × List Issue => x.1)
            (List.map (fun ks : Str × Str => entryIssuesP O (refsStringsP (colsP cols))
              ((columnRefsP (colsP cols)).contains ne.1) (detectP false ne.2) ne.1
              (keyCtx (stringsP ne.2 (detectP false ne.2)) ks.1) ks.2) (stringsP ne.2 (detectP false ne.2)))).any (· == 0) = false := by
          rw [List.any_eq_false]
          intro d hd
          simp only [List.map_map, List.mem_map, Function.comp] at hd
          obtain ⟨ks, hks, rfl⟩ := hd
          simpa [entryIssuesP] using hnz ks hks
        rw [hany] at hi
        simp at hi

/- the hypotheses of `wellformed_ok` are satisfiable, and the conclusion is not vacuous:
   {"a": {"HED": {"x": "R", "y": "{b}"}}, "b": {"HED": "L/#"}, "c": {"Levels": 1}} -/
def exampleCols : List (Str × Json) :=
  [(['a'], .obj [(HED, .obj [(['x'], .str ['R']), (['y'], .str ['{', 'b', '}'])])]),
   (['b'], .obj [(HED, .str ['L', '/', '#'])]),
   (['c'], .obj [(['L'], .num 1)])]

example : validate .fixed quiet (.obj exampleCols) = .ok [] := by decide
example : validate .fixed { quiet with full := fun _ => [(['W'], 10)] } (.obj exampleCols)
    = .ok [⟨[], ['W'], 10, some ['a'], some ['x']⟩, ⟨[], ['W'], 10, some ['a'], some ['y']⟩] := by decide

example : screened (.obj [(HED, .obj [(['x'], .str ['R']), (['y'], .str ['{', 'b', '}'])])])
    = [(['x'], ['R']), (['y'], ['{', 'b', '}'])] := by decide

example : ∀ ne ∈ exampleCols, EntryOK quiet exampleCols ne.1 ne.2 := by
  have hb : screened (.obj [(HED, .str ['L', '/', '#'])]) = [([], ['L', '/', '#'])] := by decide
  intro ne hne
  simp only [exampleCols, List.mem_cons, List.not_mem_nil, or_false] at hne
  rcases hne with rfl | rfl | rfl
  · refine ⟨by decide, Or.inr (Or.inr ⟨_, [(['x'], .str ['R']), (['y'], .str ['{', 'b', '}'])], rfl, rfl, by simp, ?_⟩), ?_⟩
    · intro kv hkv
      simp only [List.mem_cons, List.not_mem_nil, or_false] at hkv
      rcases hkv with rfl | rfl
      · exact ⟨_, rfl, by decide, by decide, by decide⟩
      · exact ⟨_, rfl, by decide, by decide, by decide⟩
    · intro ks hks
      have : screened (.obj [(HED, .obj [(['x'], .str ['R']), (['y'], .str ['{', 'b', '}'])])])
          = [(['x'], ['R']), (['y'], ['{', 'b', '}'])] := by decide
      rw [this] at hks
      simp only [List.mem_cons, List.not_mem_nil, or_false] at hks
      rcases hks with rfl | rfl
      · exact ⟨by decide, fun r hr => by simp [findRefs, findRefsGo] at hr⟩
      · refine ⟨by decide, fun r hr => ?_⟩
        have hr' : r = ['b'] := by
          have : findRefs ['{', 'b', '}'] = [['b']] := by decide
          rw [this] at hr; simpa using hr
        subst hr'
        refine ⟨Or.inr ⟨.obj [(HED, .str ['L', '/', '#'])], by simp [exampleCols], by decide⟩, by decide, ?_⟩
        intro e' he' ks' hks'
        have : e' = .obj [(HED, .str ['L', '/', '#'])] := by
          simp only [exampleCols, List.mem_cons, List.not_mem_nil, or_false, Prod.mk.injEq] at he'
          rcases he' with ⟨h, _⟩ | ⟨_, h⟩ | ⟨h, _⟩
          · exact absurd h (by decide)
          · exact h
          · exact absurd h (by decide)
        subst this
        rw [hb] at hks'
        simp only [List.mem_singleton] at hks'
        subst hks'
        decide
  · refine ⟨by decide, Or.inr (Or.inl ⟨_, ['L', '/', '#'], rfl, rfl, by decide⟩), ?_⟩
    intro ks hks
    rw [hb] at hks
    simp only [List.mem_singleton] at hks
    subst hks
    exact ⟨by decide, fun r hr => by simp [findRefs, findRefsGo] at hr⟩
  · refine ⟨by decide, Or.inl ⟨by decide, by decide⟩, ?_⟩
    intro ks hks
    have : screened (.obj [(['L'], .num 1)]) = [] := by decide
    rw [this] at hks
    cases hks


/-! ## sidecars that declare definitions (`validateD`: the definition part computed by the model)

`Defs` (property C09) supplies the acceptance of one definition group (`Defs.accept`, `C09.accept_iff`,
`C09.Acceptable`); this section is about what the sidecar layer does with it: the order in which candidates are met,
first-wins across entries and columns, the labelling of the issues, totality. -/

/-- a candidate definition: a top-level group of an entry that holds a `Definition` tag, where it stands -/
structure Cand where
  col : Str
  key : Option Str
  dt : Defs.Tag
  ks : List Defs.Node

/-- the candidates of one entry, in order (`find_top_level_tags({"Definition"})`) -/
def candsOfString (O : Oracle) (col : Str) (key : Option Str) (s : Str) : List Cand :=
  (Defs.groupsOf (O.defTree s)).filterMap fun ks => (Defs.defTagOf ks).map fun dt => ⟨col, key, dt, ks⟩

/-- the screened entries of the sidecar as `(column, get_hed_strings())`, column order -/
def columnsP (src : List (Str × Json)) : List (Str × List (Str × Str)) :=
  src.map fun ne => (ne.1, screened ne.2)

/-- all candidates of the sidecar in the order `extract_definitions` meets them: column, key, position in the entry -/
def candidates (O : Oracle) (src : List (Str × Json)) : List Cand :=
  (columnsP src).flatMap fun c => c.2.flatMap fun ks => candsOfString O c.1 (keyCtx c.2 ks.1) ks.2

/-- candidates through `Defs.accept`, one dictionary: the final dictionary and the labelled issues, in order -/
def runCands (fold : Str → Str) : Defs.DefDict → List Cand → Defs.DefDict × List Issue
  | dd, [] => (dd, [])
  | dd, c :: cs =>
    let r := Defs.accept fold dd c.dt c.ks
    let t := runCands fold r.1 cs
    (t.1, r.2.map (defLabel c.col c.key) ++ t.2)

theorem runCands_append (fold : Str → Str) : ∀ (a b : List Cand) (dd : Defs.DefDict),
    runCands fold dd (a ++ b) =
      ((runCands fold (runCands fold dd a).1 b).1, (runCands fold dd a).2 ++ (runCands fold (runCands fold dd a).1 b).2)
  | [], b, dd => by simp [runCands]
  | c :: a, b, dd => by
    simp only [List.cons_append, runCands, runCands_append fold a b, List.append_assoc]

/-- `Defs.acceptString` on one entry = its candidates through `runCands` -/
theorem acceptString_run (O : Oracle) (col : Str) (key : Option Str) (s : Str) (dd : Defs.DefDict) :
    ((Defs.acceptString O.fold dd (O.defTree s)).1,
     (Defs.acceptString O.fold dd (O.defTree s)).2.map (defLabel col key)) = runCands O.fold dd (candsOfString O col key s) := by
  unfold Defs.acceptString candsOfString
  generalize Defs.groupsOf (O.defTree s) = gs
  suffices h : ∀ (acc : Defs.DefDict × List Defs.Issue),
      ((gs.foldl (fun acc ks => match Defs.defTagOf ks with
        | some dt => ((Defs.accept O.fold acc.1 dt ks).1, acc.2 ++ (Defs.accept O.fold acc.1 dt ks).2)
        | none => acc) acc).1,
       (gs.foldl (fun acc ks => match Defs.defTagOf ks with
        | some dt => ((Defs.accept O.fold acc.1 dt ks).1, acc.2 ++ (Defs.accept O.fold acc.1 dt ks).2)
        | none => acc) acc).2.map (defLabel col key)) =
        ((runCands O.fold acc.1 (gs.filterMap fun ks => (Defs.defTagOf ks).map fun dt => (⟨col, key, dt, ks⟩ : Cand))).1,
         acc.2.map (defLabel col key) ++
          (runCands O.fold acc.1 (gs.filterMap fun ks => (Defs.defTagOf ks).map fun dt => (⟨col, key, dt, ks⟩ : Cand))).2)
    from h (dd, [])
  induction gs with
  | nil => intro acc; simp [runCands]
  | cons g gs ih =>
    intro acc
    cases hd : Defs.defTagOf g with
    | none => simpa [List.foldl_cons, List.filterMap_cons, hd] using ih acc
    | some dt =>
      have := ih ((Defs.accept O.fold acc.1 dt g).1, acc.2 ++ (Defs.accept O.fold acc.1 dt g).2)
      simp only [List.foldl_cons, List.filterMap_cons, hd, Option.map_some, runCands] at this ⊢
      rw [this]
      simp [List.append_assoc]

/-- `extract_definitions` without the `Except` steps -/
def extractP (O : Oracle) (src : List (Str × Json)) : Defs.DefDict × List Issue :=
  (columnsP src).foldl (extractColumn O) ([], [])

theorem extractDefs_eq (O : Oracle) (src : List (Str × Json)) :
    extractDefs .fixed O (colsP src) = .ok (extractP O src) := by
  unfold extractDefs extractP columnsP
  rw [mapE_ok _ (fun c : Col => (c.name, stringsP c.entry c.ctype))]
  · simp [colsP, List.map_map, Function.comp_def, screened]
  · intro c hc
    cases c
    simp only [hedStrings_good _ _ _ (good_cols _ _ hc)]

theorem extractDefsDoc_eq (O : Oracle) (doc : Json) :
    extractDefsDoc .fixed O doc = .ok (extractP O (loadP doc).2) := by
  simp only [extractDefsDoc, load_eq, columnData_eq, extractDefs_eq]

/-- `validate(schema, extra_def_dicts)` with the definition part computed, without the `Except` steps -/
def validateDP (O : Oracle) (ext : List Str) (doc : Json) : List Issue :=
  validateP (withDefs O ((extractP O (loadP doc).2).2 ++ mergeIssues (extractP O (loadP doc).2).1 ext)) doc

theorem validateD_eq (O : Oracle) (ext : List Str) (doc : Json) :
    validateD .fixed O ext doc = .ok (validateDP O ext doc) := by
  simp only [validateD, extractDefsDoc_eq, validate_eq, validateDP]

/-- **Totality with declared definitions**: extraction of the sidecar's definitions, the merge with external dictionaries and
the validation that uses them return a list of issues for every JSON value; no step raises. -/
theorem sidecar_defs_total (O : Oracle) (ext : List Str) (doc : Json) :
    (∃ dd dis, extractDefsDoc .fixed O doc = .ok (dd, dis)) ∧ ∃ issues, validateD .fixed O ext doc = .ok issues :=
  ⟨⟨_, _, extractDefsDoc_eq O doc⟩, _, validateD_eq O ext doc⟩

/-- extraction = all candidates of the sidecar, in order, through one dictionary -/
theorem extractP_run (O : Oracle) (src : List (Str × Json)) : extractP O src = runCands O.fold [] (candidates O src) := by
  unfold extractP candidates
  suffices h : ∀ (cs : List (Str × List (Str × Str))) (acc : Defs.DefDict × List Issue),
      cs.foldl (extractColumn O) acc =
        ((runCands O.fold acc.1 (cs.flatMap fun c => c.2.flatMap fun ks => candsOfString O c.1 (keyCtx c.2 ks.1) ks.2)).1,
         acc.2 ++ (runCands O.fold acc.1 (cs.flatMap fun c => c.2.flatMap fun ks => candsOfString O c.1 (keyCtx c.2 ks.1) ks.2)).2) by
    simpa using h (columnsP src) ([], [])
  have hcol : ∀ (col : Str) (all strs : List (Str × Str)) (acc : Defs.DefDict × List Issue),
      strs.foldl (fun a ks => extractString O col (keyCtx all ks.1) a ks.2) acc =
        ((runCands O.fold acc.1 (strs.flatMap fun ks => candsOfString O col (keyCtx all ks.1) ks.2)).1,
         acc.2 ++ (runCands O.fold acc.1 (strs.flatMap fun ks => candsOfString O col (keyCtx all ks.1) ks.2)).2) := by
    intro col all strs
    induction strs with
    | nil => intro acc; simp [runCands]
    | cons ks strs ih =>
      intro acc
      have hs := acceptString_run O col (keyCtx all ks.1) ks.2 acc.1
      have hs1 := congrArg Prod.fst hs
      have hs2 := congrArg Prod.snd hs
      simp only at hs1 hs2
      rw [List.foldl_cons, ih]
      simp only [extractString, hs1, hs2, List.flatMap_cons, runCands_append, List.append_assoc]
  intro cs
  induction cs with
  | nil => intro acc; simp [runCands]
  | cons c cs ih =>
    intro acc
    rw [List.foldl_cons, ih]
    simp only [extractColumn, hcol, List.flatMap_cons, runCands_append, List.append_assoc]

/-! ### the dictionary: accepted candidates, first occurrence per folded name -/

/-- the conditions of C09 on one candidate, as a Boolean (`C09.acceptable_iff`) -/
def okCand (c : Cand) : Bool := (C09.issues1 c.dt c.ks).isEmpty && (C09.issues2 c.dt c.ks).isEmpty

theorem okCand_iff (c : Cand) : okCand c = true ↔ C09.Acceptable c.dt c.ks := by
  rw [C09.acceptable_iff]
  simp [okCand, C09.issues1, C09.issues2, List.isEmpty_iff]

/-- folded name under which a candidate would be stored -/
def candKey (fold : Str → Str) (c : Cand) : Str := fold (Defs.stripValue c.dt.extension).1

/-- the acceptable candidates whose folded name has not been taken, in order; `seen` = names already taken -/
def firstAccepted (fold : Str → Str) : List Str → List Cand → List Cand
  | _, [] => []
  | seen, c :: cs =>
    if okCand c && !seen.contains (candKey fold c) then c :: firstAccepted fold (seen ++ [candKey fold c]) cs
    else firstAccepted fold seen cs

theorem lookup_isSome_iff (dd : Defs.DefDict) (k : Str) : (Defs.lookup dd k).isSome = (dd.map (·.key)).contains k := by
  induction dd with
  | nil => rfl
  | cons e dd ih =>
    simp only [Defs.lookup, List.find?_cons, List.map_cons, List.contains_cons] at ih ⊢
    by_cases h : e.key = k
    · simp [h]
    · have h' : (e.key == k) = false := beq_eq_false_iff_ne.mpr h
      have h'' : (k == e.key) = false := beq_eq_false_iff_ne.mpr (Ne.symm h)
      simp only [h', h'', Bool.false_or]
      exact ih

/-- **The extracted dictionary** is exactly: for each candidate in column / key / position order that satisfies the C09
conditions and whose folded name is new, the entry `C09.newEntry` (sorted fresh copy of its content under the folded name) —
first occurrence wins, later ones leave it untouched. -/
theorem runCands_dict (fold : Str → Str) : ∀ (cs : List Cand) (dd : Defs.DefDict),
    (runCands fold dd cs).1 = dd ++ (firstAccepted fold (dd.map (·.key)) cs).map fun c => C09.newEntry fold c.dt c.ks
  | [], dd => by simp [runCands, firstAccepted]
  | c :: cs, dd => by
    have ih := runCands_dict fold cs
    simp only [runCands, firstAccepted]
    rw [C09.accept_def]
    by_cases h1 : (C09.issues1 c.dt c.ks).isEmpty = true
    · by_cases h2 : (C09.issues2 c.dt c.ks).isEmpty = true
      · by_cases h3 : (Defs.lookup dd (fold (Defs.stripValue c.dt.extension).1)).isSome = true
        · have hcond : (okCand c && !(dd.map (·.key)).contains (candKey fold c)) = false := by
            have : (dd.map (·.key)).contains (candKey fold c) = true := by rw [← lookup_isSome_iff]; exact h3
            rw [this]; simp
          rw [hcond]
          simp only [h1, h2, h3, Bool.not_true, Bool.false_eq_true, ↓reduceIte, ih]
        · have h3f : (Defs.lookup dd (fold (Defs.stripValue c.dt.extension).1)).isSome = false := by
            cases hh : (Defs.lookup dd (fold (Defs.stripValue c.dt.extension).1)).isSome <;> simp_all
          have hcond : (okCand c && !(dd.map (·.key)).contains (candKey fold c)) = true := by
            have : (dd.map (·.key)).contains (candKey fold c) = false := by rw [← lookup_isSome_iff]; exact h3f
            rw [this]; simp [okCand, h1, h2]
          rw [hcond]
          simp only [h1, h2, h3f, Bool.not_true, Bool.false_eq_true, ↓reduceIte, ih, List.map_append, List.map_cons,
            List.map_nil, List.append_assoc, List.singleton_append]
          rfl
      · have hcond : (okCand c && !(dd.map (·.key)).contains (candKey fold c)) = false := by simp [okCand, h2]
        rw [hcond]
        simp only [h1, h2, Bool.not_true, Bool.false_eq_true, ↓reduceIte, ih]
        simp
    · have hcond : (okCand c && !(dd.map (·.key)).contains (candKey fold c)) = false := by simp [okCand, h1]
      rw [hcond]
      simp only [h1, Bool.false_eq_true, ↓reduceIte, ih]
      simp

theorem defs_extracted_spec (O : Oracle) (src : List (Str × Json)) :
    (extractP O src).1 = (firstAccepted O.fold [] (candidates O src)).map fun c => C09.newEntry O.fold c.dt c.ks := by
  rw [extractP_run, runCands_dict]; rfl

/-! ### the issues: every rejected candidate is reported at its column / key -/

/-- issues of the candidates, in order, given the dictionary before each -/
theorem runCands_issues_mem (fold : Str → Str) : ∀ (pre : List Cand) (c : Cand) (post : List Cand) (dd : Defs.DefDict)
    (di : Defs.Issue), di ∈ (Defs.accept fold (runCands fold dd pre).1 c.dt c.ks).2 →
    defLabel c.col c.key di ∈ (runCands fold dd (pre ++ c :: post)).2 := by
  intro pre c post dd di h
  rw [runCands_append]
  simp only [runCands, List.mem_append, List.mem_map]
  exact Or.inr (Or.inl ⟨di, h, rfl⟩)

/-- **Every rejected definition is reported**: a candidate that breaks a C09 condition, or whose folded name was already
taken by an earlier accepted candidate of the sidecar, yields at least one `DEFINITION_INVALID` issue of error severity
labelled with its column and (for a column with several entries) its key — and exactly the issues `Defs.accept` computes
for it against the dictionary built from the candidates before it. -/
theorem def_issue_in_extraction (O : Oracle) (src : List (Str × Json)) (pre post : List Cand) (c : Cand)
    (hc : candidates O src = pre ++ c :: post)
    (hrej : ¬ (C09.Acceptable c.dt c.ks ∧
      Defs.lookup (runCands O.fold [] pre).1 (O.fold (Defs.stripValue c.dt.extension).1) = none)) :
    (Defs.accept O.fold (runCands O.fold [] pre).1 c.dt c.ks).2 ≠ [] ∧
    ∀ di ∈ (Defs.accept O.fold (runCands O.fold [] pre).1 c.dt c.ks).2,
      defLabel c.col c.key di ∈ (extractP O src).2 ∧ (defLabel c.col c.key di).isError = true ∧
      (defLabel c.col c.key di).code = ['D','E','F','I','N','I','T','I','O','N','_','I','N','V','A','L','I','D'] := by
  refine ⟨((C09.accept_iff O.fold _ c.dt c.ks).2 hrej).2, fun di hdi => ⟨?_, mk_isError _ _ _, ?_⟩⟩
  · rw [extractP_run, hc]
    exact runCands_issues_mem O.fold pre c post [] di hdi
  · cases di <;> rfl

/-- the same, in the output of validation (no structural or reference error: the early exit is not taken) -/
theorem def_issue_reported (O : Oracle) (ext : List Str) (cols : List (Str × Json)) (pre post : List Cand) (c : Cand)
    (hne : anyError (earlyP (.obj cols)) = false) (hc : candidates O cols = pre ++ c :: post)
    (hrej : ¬ (C09.Acceptable c.dt c.ks ∧
      Defs.lookup (runCands O.fold [] pre).1 (O.fold (Defs.stripValue c.dt.extension).1) = none)) :
    ∃ di, defLabel c.col c.key di ∈ validateDP O ext (.obj cols) ∧ (defLabel c.col c.key di).isError = true ∧
      (defLabel c.col c.key di).code = ['D','E','F','I','N','I','T','I','O','N','_','I','N','V','A','L','I','D'] ∧
      (defLabel c.col c.key di).col = some c.col ∧ (defLabel c.col c.key di).key = c.key := by
  obtain ⟨hne', hall⟩ := def_issue_in_extraction O cols pre post c hc hrej
  cases hl : (Defs.accept O.fold (runCands O.fold [] pre).1 c.dt c.ks).2 with
  | nil => exact absurd hl hne'
  | cons di rest =>
    obtain ⟨hm, he, hcode⟩ := hall di (by rw [hl]; exact List.mem_cons_self ..)
    refine ⟨di, ?_, he, hcode, rfl, rfl⟩
    unfold validateDP validateP
    rw [if_neg (by simp [hne])]
    simp only [loadP, withDefs, List.mem_append]
    exact Or.inl (Or.inr (Or.inl hm))

/-- an external dictionary that defines a name the sidecar defines too: one more `duplicateDefinition`, without context -/
theorem merge_duplicate_reported (O : Oracle) (ext : List Str) (cols : List (Str × Json)) (k : Str)
    (hne : anyError (earlyP (.obj cols)) = false) (hk : k ∈ ext)
    (hd : (Defs.lookup (extractP O cols).1 k).isSome = true) :
    mk (.defn .duplicateDefinition) none none ∈ validateDP O ext (.obj cols) := by
  unfold validateDP validateP
  rw [if_neg (by simp [hne])]
  simp only [loadP, withDefs, List.mem_append]
  refine Or.inl (Or.inr (Or.inr ?_))
  exact List.mem_map.mpr ⟨k, List.mem_filter.mpr ⟨hk, hd⟩, rfl⟩

/-- candidates that are all acceptable and new produce no issue -/
theorem runCands_issues_nil (fold : Str → Str) : ∀ (cs : List Cand) (dd : Defs.DefDict),
    (∀ pre c post, cs = pre ++ c :: post → C09.Acceptable c.dt c.ks ∧
      Defs.lookup (runCands fold dd pre).1 (fold (Defs.stripValue c.dt.extension).1) = none) →
    (runCands fold dd cs).2 = []
  | [], _, _ => rfl
  | c :: cs, dd, h => by
    have h0 := h [] c cs rfl
    have hacc := (C09.accept_iff fold dd c.dt c.ks).1 h0
    simp only [runCands, hacc, List.map_nil, List.nil_append]
    apply runCands_issues_nil fold cs
    intro pre c' post hsplit
    have := h (c :: pre) c' post (by rw [hsplit]; rfl)
    simpa [runCands, hacc] using this

/-- **Well-formed sidecars that declare definitions**: if every column obeys the structural rules (the `#` rule not applying
to entries that declare definitions; a column declares definitions in all its entries or in none), every declared definition
satisfies the C09 conditions under a name not used before in the sidecar nor by the external dictionaries, and the string
layer finds no error, then validation — with the definitions extracted by the model — reports no error-severity issue. -/
theorem wellformed_defs_ok (O : Oracle) (ext : List Str) (cols : List (Str × Json))
    (hwf : ∀ ne ∈ cols, EntryOK (withDefs O []) cols ne.1 ne.2) (hO : OracleOK (withDefs O []) cols)
    (hcand : ∀ pre c post, candidates O cols = pre ++ c :: post → C09.Acceptable c.dt c.ks ∧
      Defs.lookup (runCands O.fold [] pre).1 (O.fold (Defs.stripValue c.dt.extension).1) = none)
    (hext : ∀ k ∈ ext, (Defs.lookup (extractP O cols).1 k).isSome = false) :
    ∀ i ∈ validateDP O ext (.obj cols), i.isError = false := by
  have h1 : (extractP O cols).2 = [] := by rw [extractP_run]; exact runCands_issues_nil O.fold _ [] hcand
  have h2 : mergeIssues (extractP O cols).1 ext = [] := by
    simp only [mergeIssues, List.map_eq_nil_iff, List.filter_eq_nil_iff]
    intro k hk
    simp [hext k hk]
  unfold validateDP
  simp only [loadP, h1, h2, List.append_nil]
  exact wellformed_ok (withDefs O []) cols hwf hO

/- a concrete sidecar `{"d": {"HED": {"x": "A", "y": "B"}}, "v": {"HED": "L/#"}}` whose entries `A` and `B` both parse to
   `(Definition/X, (R))`: the second is a duplicate, reported at `d` / `y`; the dictionary keeps one entry; an external
   dictionary defining `x` too adds the context-free duplicate -/
def defTreeX : List Defs.Node := [.grp [.tag { base := .definition, ext := ['/', 'X'] }, .grp [.tag { name := ['R'] }]]]
def quietDefs : Oracle :=
  { quiet with defTree := fun s => if s == ['A'] || s == ['B'] then defTreeX else [], fold := fun s => s.map Char.toLower }
def defsDoc : Json :=
  .obj [(['d'], .obj [(HED, .obj [(['x'], .str ['A']), (['y'], .str ['B'])])]), (['v'], .obj [(HED, .str ['L', '/', '#'])])]

example : validateD .fixed quietDefs [] defsDoc = .ok [defLabel ['d'] (some ['y']) .duplicateDefinition] := by decide
example : validateD .fixed quietDefs [['x']] defsDoc
    = .ok [defLabel ['d'] (some ['y']) .duplicateDefinition, mk (.defn .duplicateDefinition) none none] := by decide
example : ((extractP quietDefs (loadP defsDoc).2).1.map (·.key)) = [['x']] := by decide
example : (candidates quietDefs (loadP defsDoc).2).length = 2 := by decide

/- a well-formed sidecar that declares a definition: no issue, one dictionary entry -/
example : validateD .fixed quietDefs [['e']]
    (.obj [(['d'], .obj [(HED, .obj [(['x'], .str ['A'])])]), (['v'], .obj [(HED, .str ['L', '/', '#'])])]) = .ok [] := by decide

end HedVerif.C08
