/-
C20 — Temporal context of every event equals the set of processes ongoing at that time.
Theorems about `HedVerif.Events` (model of `EventManager`), for all histories.
-/
import HedVerif.Model.Events
import HedVerif.Props.C10
namespace HedVerif.C20
open HedVerif.Events

/-! ## sorted frames, first rows of time points -/

/-- row `i` is the first row of the time point `t` of the onsets `ts` -/
def First (ts : List Int) (i : Nat) (t : Int) : Prop :=
  ts[i]? = some t ∧ ∀ j x, j < i → ts[j]? = some x → x < t

abbrev Sorted (ts : List Int) : Prop := ts.Pairwise (· ≤ ·)

theorem mem_insertRow (x y : FRow) (l : List FRow) : y ∈ insertRow x l ↔ y = x ∨ y ∈ l := by
  induction l with
  | nil => simp [insertRow]
  | cons z zs ih => unfold insertRow; split <;> simp [ih] <;> grind

theorem sorted_insertRow (x : FRow) (l : List FRow) (h : l.Pairwise (fun a b => a.time ≤ b.time)) :
    (insertRow x l).Pairwise (fun a b => a.time ≤ b.time) := by
  induction l with
  | nil => simp [insertRow]
  | cons z zs ih =>
    unfold insertRow
    rw [List.pairwise_cons] at h
    split
    · refine List.pairwise_cons.2 ⟨?_, List.pairwise_cons.2 h⟩
      intro b hb
      rcases List.mem_cons.1 hb with rfl | hb
      · assumption
      · have := h.1 b hb; omega
    · refine List.pairwise_cons.2 ⟨?_, ih h.2⟩
      intro b hb
      rcases (mem_insertRow x b zs).1 hb with rfl | hb
      · omega
      · exact h.1 b hb

theorem sorted_sortRows (l : List FRow) : (sortRows l).Pairwise (fun a b => a.time ≤ b.time) := by
  induction l with
  | nil => simp [sortRows]
  | cons x xs ih => exact sorted_insertRow x _ ih

theorem frame_sorted (rows : List Row) : Sorted ((frame rows).map (·.time)) := by
  unfold Sorted frame
  rw [List.pairwise_map]
  exact sorted_sortRows _

theorem sorted_idx {ts : List Int} (hs : Sorted ts) {i j : Nat} {x y : Int} (hij : i ≤ j)
    (hx : ts[i]? = some x) (hy : ts[j]? = some y) : x ≤ y := by
  rcases Nat.eq_or_lt_of_le hij with rfl | hlt
  · rw [hx] at hy; injection hy with e; omega
  · obtain ⟨hi, rfl⟩ := List.getElem?_eq_some_iff.1 hx
    obtain ⟨hj, rfl⟩ := List.getElem?_eq_some_iff.1 hy
    exact (List.pairwise_iff_getElem.1 hs) i j hi hj hlt

/-- a process closed at the first row `e` of time point `te` covers row `i` iff `i`'s time is before `te` -/
theorem lt_first_iff {ts : List Int} (hs : Sorted ts) {e i : Nat} {te τ : Int}
    (he : First ts e te) (hi : ts[i]? = some τ) : i < e ↔ τ < te := by
  constructor
  · intro h; exact he.2 i τ h hi
  · intro h
    apply Decidable.byContradiction
    intro hn
    have := sorted_idx hs (Nat.le_of_not_lt hn) he.1 hi
    omega

/-- a process started at the first row `s` of time point `σ`, seen from a first row -/
theorem first_lt_iff {ts : List Int} (hs : Sorted ts) {s i : Nat} {σ τ : Int}
    (hσ : First ts s σ) (hi : First ts i τ) : s < i ↔ σ < τ := by
  constructor
  · intro h; exact hi.2 s σ h hσ.1
  · intro h
    apply Decidable.byContradiction
    intro hn
    have := sorted_idx hs (Nat.le_of_not_lt hn) hi.1 hσ.1
    omega

/-- … and seen from a later row of a merged time point -/
theorem first_lt_iff_later {ts : List Int} (hs : Sorted ts) {s i : Nat} {σ τ : Int}
    (hσ : First ts s σ) (hi : ts[i]? = some τ) (hn : ¬ First ts i τ) : s < i ↔ σ ≤ τ := by
  constructor
  · intro h; exact sorted_idx hs (Nat.le_of_lt h) hσ.1 hi
  · intro h
    apply Decidable.byContradiction
    intro hlt
    rcases Nat.eq_or_lt_of_le (Nat.le_of_not_lt hlt) with rfl | hlt'
    · have : σ = τ := by have := hσ.1; rw [hi] at this; injection this with e; omega
      exact hn (this ▸ hσ)
    · have := hσ.2 i τ hlt' hi
      omega

/-- `bisect_left`: row `i` lies before the end index iff its time is before the end time -/
theorem lt_bisect_iff {ts : List Int} (hs : Sorted ts) {i : Nat} {τ : Int} (x : Int)
    (hi : ts[i]? = some τ) : i < bisectLeft ts x ↔ τ < x := by
  induction ts generalizing i with
  | nil => simp at hi
  | cons t rest ih =>
    unfold Sorted at hs
    rw [List.pairwise_cons] at hs
    unfold bisectLeft
    rw [List.takeWhile_cons]
    by_cases htx : t < x
    · simp only [htx, decide_true, if_true, List.length_cons]
      cases i with
      | zero => simp at hi; omega
      | succ k =>
        simp only [List.getElem?_cons_succ] at hi
        have := ih hs.2 hi
        unfold bisectLeft at this
        omega
    · simp only [htx, decide_false, Bool.false_eq_true, if_false, List.length_nil]
      cases i with
      | zero => simp at hi; omega
      | succ k =>
        simp only [List.getElem?_cons_succ] at hi
        have := hs.1 τ (List.mem_of_getElem? hi)
        omega

/-- "until the first time point at or after `x`" says the same at every time point `τ` -/
theorem ltInf_first_iff {ts : List Int} (hs : Sorted ts) {τ : Int} (x : Int) (hτ : τ ∈ ts) :
    ltInf τ (firstAtOrAfter ts x) = true ↔ τ < x := by
  induction ts with
  | nil => simp at hτ
  | cons t rest ih =>
    unfold Sorted at hs
    rw [List.pairwise_cons] at hs
    unfold firstAtOrAfter
    rw [List.find?_cons]
    by_cases hxt : x ≤ t
    · simp only [hxt, decide_true, ltInf, decide_eq_true_eq]
      rcases List.mem_cons.1 hτ with rfl | h
      · omega
      · have := hs.1 τ h; omega
    · simp only [hxt, decide_false]
      rcases List.mem_cons.1 hτ with rfl | h
      · have hx : τ < x := by omega
        simp only [hx, iff_true]
        cases hf : rest.find? (fun t => decide (x ≤ t)) with
        | none => rfl
        | some y =>
          have := List.find?_some hf
          simp at this
          simp [ltInf]; omega
      · exact ih hs.2 h

/-! ## the temporal groups are processed at first rows -/

theorem mem_rowActs {i : Nat} {r : FRow} {a : Act} (h : a ∈ rowActs i r) :
    a.idx = i ∧ a.time = r.time ∧ a.item ∈ r.items := by
  unfold rowActs at h
  simp only [List.mem_map, List.mem_append, List.mem_filter] at h
  obtain ⟨it, hit, rfl⟩ := h
  refine ⟨rfl, rfl, ?_⟩
  rcases hit with h | h <;> exact h.1

theorem acts_first_gen (rows : List FRow) (pre : List Int) (prev : Option Int)
    (h0 : prev = none → pre = [])
    (h1 : ∀ p, prev = some p → ∀ x ∈ pre, x ≤ p)
    (h2 : ∀ p, prev = some p → ∀ r ∈ rows, p ≤ r.time)
    (hs : rows.Pairwise (fun a b => a.time ≤ b.time)) :
    ∀ a ∈ actsFrom pre.length (merge prev rows), First (pre ++ rows.map (·.time)) a.idx a.time := by
  induction rows generalizing pre prev with
  | nil => intro a ha; simp [merge, actsFrom] at ha
  | cons r rs ih =>
    intro a ha
    rw [List.pairwise_cons] at hs
    have hpre : ∀ x ∈ pre, x ≤ r.time := by
      intro x hx
      cases prev with
      | none => simp [h0 rfl] at hx
      | some p => have := h1 p rfl x hx; have := h2 p rfl r (List.mem_cons_self ..); omega
    simp only [merge, actsFrom, List.mem_append] at ha
    rcases ha with ha | ha
    · obtain ⟨hidx, htime, hitem⟩ := mem_rowActs ha
      simp only at hitem htime
      by_cases hp : prev = some r.time
      · simp [hp] at hitem
      · rw [hidx, htime]
        constructor
        · simp
        · intro j x hj hx
          rw [List.getElem?_append_left hj] at hx
          have hxm := List.mem_of_getElem? hx
          cases prev with
          | none => simp [h0 rfl] at hxm
          | some p =>
            have := h1 p rfl x hxm
            have := h2 p rfl r (List.mem_cons_self ..)
            have : p ≠ r.time := fun e => hp (by rw [e])
            omega
    · have := ih (pre ++ [r.time]) (some r.time) (by simp)
        (by
          intro p hp x hx
          injection hp with hp
          rcases List.mem_append.1 hx with hx | hx
          · have := hpre x hx; omega
          · simp at hx; omega)
        (by
          intro p hp r' hr'
          injection hp with hp
          have := hs.1 r' hr'; omega)
        hs.2 a (by simpa using ha)
      simpa using this

/-- every temporal group is processed at the first row of its own time point -/
theorem acts_first (rows : List Row) :
    ∀ a ∈ history rows, First ((frame rows).map (·.time)) a.idx a.time := by
  have := acts_first_gen (frame rows) [] none (by simp) (by simp) (by simp) (sorted_sortRows _)
  simpa [history] using this

/-! ## the dictionary scan computes "until the next marker of the same name" -/

/-- the next Onset/Offset group of the folded name `k` -/
def nextMark (fold : Str → Str) (k : Str) : List Act → Option Act
  | [] => none
  | a :: rest => if markerKey fold a.item = some k then some a else nextMark fold k rest

def stopOr (n : Nat) : Option Act → Nat
  | none => n
  | some a => a.idx

/-- processes by look-ahead: an Onset process ends at the row of the next marker of its name, else at `n` -/
def look (fold : Str → Str) (ts : List Int) (n : Nat) : Nat → List Act → List Proc
  | _, [] => []
  | c, a :: rest =>
    match a.item with
    | .onset name cid =>
      ⟨c, a.idx, some (stopOr n (nextMark fold (fold name) rest)), fold name, cid⟩ :: look fold ts n (c + 1) rest
    | .duration len cid =>
      ⟨c, a.idx, some (bisectLeft ts (a.time + len)), [], cid⟩ :: look fold ts n (c + 1) rest
    | _ => look fold ts n c rest

/-- what the rest of the scan does to a process that is still open -/
def resolve (fold : Str → Str) (n : Nat) (acts : List Act) (p : Proc) : Proc :=
  match p.stop with
  | none => { p with stop := some (stopOr n (nextMark fold p.key acts)) }
  | some _ => p

def closeMap (j i : Nat) (p : Proc) : Proc := if p.ord = j then { p with stop := some i } else p

theorem setStop_eq (j i : Nat) (ps : List Proc) : setStop j i ps = ps.map (closeMap j i) := rfl

/-- invariant of the scan: `onset_dict` holds exactly the processes whose end is not yet set -/
structure Inv (st : State) : Prop where
  i1 : ∀ p ∈ st.procs, p.stop = none → (p.key, p.ord) ∈ st.opn
  i2 : ∀ e ∈ st.opn, ∀ p ∈ st.procs, p.ord = e.2 → p.stop = none ∧ p.key = e.1
  i3 : ∀ e ∈ st.opn, e.2 < st.procs.length
  i4 : st.opn.Pairwise (fun a b => a.1 ≠ b.1)
  i5 : ∀ p ∈ st.procs, p.ord < st.procs.length

theorem getOpen_some {k : Str} {j : Nat} {o : Open} (h : getOpen k o = some j) : (k, j) ∈ o := by
  unfold getOpen at h
  cases hf : o.find? (fun e => e.1 == k) with
  | none => simp [hf] at h
  | some e =>
    have h1 := List.find?_some hf
    have h2 := List.mem_of_find?_eq_some hf
    obtain ⟨a, b⟩ := e
    simp [hf] at h h1
    subst h1; subst h; exact h2

theorem getOpen_none {k : Str} {o : Open} (h : getOpen k o = none) : ∀ j, (k, j) ∉ o := by
  unfold getOpen at h
  intro j hj
  simp at h
  exact h k j hj rfl

theorem key_unique {o : Open} (h4 : o.Pairwise (fun a b => a.1 ≠ b.1)) {k : Str} {j j' : Nat}
    (h : (k, j) ∈ o) (h' : (k, j') ∈ o) : j = j' := by
  induction o with
  | nil => simp at h
  | cons e es ih =>
    rw [List.pairwise_cons] at h4
    rcases List.mem_cons.1 h with h | h <;> rcases List.mem_cons.1 h' with h' | h'
    · rw [← h] at h'; injection h' with _ e2; exact e2.symm
    · exact absurd rfl (h ▸ h4.1 _ h')
    · exact absurd rfl (h' ▸ h4.1 _ h)
    · exact ih h4.2 h h'

theorem mem_delOpen {k : Str} {o : Open} {e : Str × Nat} : e ∈ delOpen k o ↔ e ∈ o ∧ e.1 ≠ k := by
  simp [delOpen]

theorem nextMark_cons_ne {fold : Str → Str} {a : Act} {rest : List Act} {k : Str}
    (h : markerKey fold a.item ≠ some k) : nextMark fold k (a :: rest) = nextMark fold k rest := by
  simp [nextMark, h]

theorem nextMark_cons_eq {fold : Str → Str} {a : Act} {rest : List Act} {k : Str}
    (h : markerKey fold a.item = some k) : nextMark fold k (a :: rest) = some a := by
  simp [nextMark, h]

theorem resolve_skip {fold : Str → Str} {n : Nat} {a : Act} {rest : List Act} (p : Proc)
    (h : p.stop = none → markerKey fold a.item ≠ some p.key) :
    resolve fold n (a :: rest) p = resolve fold n rest p := by
  unfold resolve
  cases hs : p.stop with
  | some e => rfl
  | none => simp only [nextMark_cons_ne (h hs)]

theorem resolve_close {fold : Str → Str} {n : Nat} {st : State} {k : Str} {j : Nat} {a : Act}
    {rest : List Act} {p : Proc} (hinv : Inv st) (hg : getOpen k st.opn = some j)
    (hk : markerKey fold a.item = some k) (hp : p ∈ st.procs) :
    resolve fold n rest (closeMap j a.idx p) = resolve fold n (a :: rest) p := by
  have hkj := getOpen_some hg
  unfold closeMap
  by_cases ho : p.ord = j
  · have := hinv.i2 _ hkj p hp ho
    simp only [ho, if_true]
    unfold resolve
    simp only [this.1, this.2, nextMark_cons_eq hk, stopOr]
    simp [ho]
  · simp only [ho, if_false]
    rw [resolve_skip]
    intro hs
    have hm := hinv.i1 p hp hs
    intro e
    rw [hk] at e
    injection e with e
    rw [← e] at hm
    exact ho (key_unique hinv.i4 hm hkj)

theorem resolve_noclose {fold : Str → Str} {n : Nat} {st : State} {k : Str} {a : Act}
    {rest : List Act} {p : Proc} (hinv : Inv st) (hg : getOpen k st.opn = none)
    (hk : markerKey fold a.item = some k) (hp : p ∈ st.procs) :
    resolve fold n rest p = resolve fold n (a :: rest) p := by
  rw [resolve_skip]
  intro hs e
  have hm := hinv.i1 p hp hs
  rw [hk] at e
  injection e with e
  rw [← e] at hm
  exact getOpen_none hg _ hm

theorem inv_close {st : State} {k : Str} {j i : Nat} (hinv : Inv st) (hg : getOpen k st.opn = some j) :
    Inv ⟨setStop j i st.procs, delOpen k st.opn⟩ := by
  have hkj := getOpen_some hg
  constructor
  · intro p' hp' hs
    simp only [setStop_eq, List.mem_map] at hp'
    obtain ⟨p, hp, rfl⟩ := hp'
    unfold closeMap at hs ⊢
    by_cases ho : p.ord = j
    · simp [ho] at hs
    · simp only [ho, if_false] at hs ⊢
      have hm := hinv.i1 p hp hs
      refine mem_delOpen.2 ⟨hm, ?_⟩
      intro e
      simp only at e
      rw [e] at hm
      exact ho (key_unique hinv.i4 hm hkj)
  · intro e he p' hp' ho'
    obtain ⟨he, hne⟩ := mem_delOpen.1 he
    simp only [setStop_eq, List.mem_map] at hp'
    obtain ⟨p, hp, rfl⟩ := hp'
    have hord : (closeMap j i p).ord = p.ord := by unfold closeMap; split <;> rfl
    rw [hord] at ho'
    have h2 := hinv.i2 e he p hp ho'
    have hoj : p.ord ≠ j := by
      intro ho
      have := hinv.i2 _ hkj p hp ho
      exact hne (h2.2 ▸ this.2)
    simp only [closeMap, hoj, if_false]
    exact h2
  · intro e he
    simp only [setStop_eq, List.length_map]
    exact hinv.i3 e (mem_delOpen.1 he).1
  · exact hinv.i4.filter _
  · intro p' hp'
    simp only [setStop_eq, List.mem_map] at hp'
    obtain ⟨p, hp, rfl⟩ := hp'
    have hord : (closeMap j i p).ord = p.ord := by unfold closeMap; split <;> rfl
    simp only [setStop_eq, List.length_map, hord]
    exact hinv.i5 p hp

theorem inv_push {st : State} (hinv : Inv st) (i : Nat) (so : Option Nat) (k : Str) (c : Nat)
    (hk : so = none → ∀ j, (k, j) ∉ st.opn) :
    Inv ⟨st.procs ++ [⟨st.procs.length, i, so, k, c⟩],
         match so with | none => (k, st.procs.length) :: st.opn | some _ => st.opn⟩ := by
  constructor
  · intro p hp hs
    rcases List.mem_append.1 hp with hp | hp
    · have := hinv.i1 p hp hs
      cases so <;> simp [this]
    · simp only [List.mem_singleton] at hp
      subst hp
      simp only at hs
      subst hs
      simp
  · intro e he p hp ho
    have hold : e ∈ st.opn → p ∈ st.procs ++ [⟨st.procs.length, i, so, k, c⟩] →
        p.stop = none ∧ p.key = e.1 := by
      intro he hp
      rcases List.mem_append.1 hp with hp | hp
      · exact hinv.i2 e he p hp ho
      · simp only [List.mem_singleton] at hp
        subst hp
        have := hinv.i3 e he
        simp only at ho
        omega
    cases so with
    | some s => exact hold he hp
    | none =>
      rcases List.mem_cons.1 he with rfl | he
      · rcases List.mem_append.1 hp with hp | hp
        · have := hinv.i5 p hp
          simp only at ho
          omega
        · simp only [List.mem_singleton] at hp
          subst hp
          exact ⟨rfl, rfl⟩
      · exact hold he hp
  · intro e he
    simp only [List.length_append, List.length_singleton]
    cases so with
    | some s => have := hinv.i3 e he; omega
    | none =>
      rcases List.mem_cons.1 he with rfl | he
      · simp
      · have := hinv.i3 e he; omega
  · cases so with
    | some s => exact hinv.i4
    | none =>
      refine List.pairwise_cons.2 ⟨?_, hinv.i4⟩
      intro b hb e
      simp only at e
      exact hk rfl b.2 (e ▸ hb)
  · intro p hp
    simp only [List.length_append, List.length_singleton]
    rcases List.mem_append.1 hp with hp | hp
    · have := hinv.i5 p hp; omega
    · simp only [List.mem_singleton] at hp
      subst hp
      simp

theorem inv_init : Inv ⟨[], []⟩ := by constructor <;> simp

theorem foldl_setStop (n : Nat) (o : Open) (ps : List Proc) :
    o.foldl (fun ps e => setStop e.2 n ps) ps =
      ps.map (fun p => if o.any (fun e => e.2 == p.ord) then { p with stop := some n } else p) := by
  induction o generalizing ps with
  | nil => simp
  | cons e es ih =>
    rw [List.foldl_cons, ih, setStop_eq, List.map_map]
    apply List.map_congr_left
    intro p _
    simp only [Function.comp, closeMap, List.any_cons]
    by_cases h : p.ord = e.2
    · simp only [h, if_true, BEq.rfl, Bool.true_or]
      split <;> rfl
    · have : (e.2 == p.ord) = false := by simp; omega
      simp only [h, if_false, this, Bool.false_or]

theorem finish_eq {fold : Str → Str} {n : Nat} {st : State} (hinv : Inv st) :
    finish n st = st.procs.map (resolve fold n []) := by
  unfold finish
  rw [foldl_setStop]
  apply List.map_congr_left
  intro p hp
  unfold resolve
  cases hs : p.stop with
  | none =>
    have := hinv.i1 p hp hs
    have hany : st.opn.any (fun e => e.2 == p.ord) = true := List.any_eq_true.2 ⟨_, this, by simp⟩
    simp [hany, nextMark, stopOr]
  | some e =>
    have hany : st.opn.any (fun e => e.2 == p.ord) = false := by
      apply Bool.eq_false_iff.2
      intro h
      obtain ⟨e', he', heq⟩ := List.any_eq_true.1 h
      have := hinv.i2 e' he' p hp (by simpa using Eq.symm (by simpa using heq))
      rw [hs] at this
      simp at this
    simp [hany]

theorem step_spec {fold : Str → Str} {ts : List Int} {n : Nat} {st st1 : State} {a : Act}
    (rest : List Act) (hinv : Inv st) (hstep : step fold ts st a = .ok st1) :
    Inv st1 ∧ st1.procs.map (resolve fold n rest) ++ look fold ts n st1.procs.length rest =
      st.procs.map (resolve fold n (a :: rest)) ++ look fold ts n st.procs.length (a :: rest) := by
  unfold step at hstep
  cases hitem : a.item with
  | onset name c =>
    simp only [hitem] at hstep
    injection hstep with hstep
    subst hstep
    have hk : markerKey fold a.item = some (fold name) := by simp [markerKey, hitem]
    cases hg : getOpen (fold name) st.opn with
    | none =>
      have hc : closeIfOpen (fold name) a.idx st = st := by simp [closeIfOpen, hg]
      rw [hc]
      refine ⟨inv_push hinv a.idx none (fold name) c (fun _ => getOpen_none hg), ?_⟩
      simp only [List.map_append, List.map_cons, List.map_nil, List.length_append,
        List.length_singleton, look, hitem, List.append_assoc]
      congr 1
      · apply List.map_congr_left
        intro p hp
        exact resolve_noclose hinv hg hk hp
    | some j =>
      have hc : closeIfOpen (fold name) a.idx st = ⟨setStop j a.idx st.procs, delOpen (fold name) st.opn⟩ := by
        simp [closeIfOpen, hg]
      rw [hc]
      have hinv1 := inv_close (i := a.idx) hinv hg
      refine ⟨inv_push hinv1 a.idx none (fold name) c
        (fun _ j' hj' => (mem_delOpen.1 hj').2 rfl), ?_⟩
      simp only [List.map_append, List.map_cons, List.map_nil, List.length_append,
        List.length_singleton, look, hitem, List.append_assoc, setStop_eq, List.length_map, List.map_map]
      congr 1
      · apply List.map_congr_left
        intro p hp
        exact resolve_close hinv hg hk hp
  | offset name =>
    simp only [hitem] at hstep
    have hk : markerKey fold a.item = some (fold name) := by simp [markerKey, hitem]
    cases hg : getOpen (fold name) st.opn with
    | none => simp [hg] at hstep
    | some j =>
      simp only [hg] at hstep
      injection hstep with hstep
      subst hstep
      refine ⟨inv_close hinv hg, ?_⟩
      simp only [look, hitem, setStop_eq, List.length_map, List.map_map]
      congr 1
      apply List.map_congr_left
      intro p hp
      exact resolve_close hinv hg hk hp
  | duration len c =>
    simp only [hitem] at hstep
    injection hstep with hstep
    subst hstep
    refine ⟨inv_push hinv a.idx (some _) [] c (by simp), ?_⟩
    simp only [List.map_append, List.map_cons, List.map_nil, List.length_append,
      List.length_singleton, look, hitem, List.append_assoc]
    congr 1
    · apply List.map_congr_left
      intro p _
      exact (resolve_skip p (by simp [markerKey, hitem])).symm
  | plain c =>
    simp only [hitem] at hstep
    injection hstep with hstep
    subst hstep
    refine ⟨hinv, ?_⟩
    simp only [look, hitem]
    congr 1
    apply List.map_congr_left
    intro p _
    exact (resolve_skip p (by simp [markerKey, hitem])).symm
  | inset _nm c =>
    simp only [hitem] at hstep
    injection hstep with hstep
    subst hstep
    refine ⟨hinv, ?_⟩
    simp only [look, hitem]
    congr 1
    apply List.map_congr_left
    intro p _
    exact (resolve_skip p (by simp [markerKey, hitem])).symm

/-- the scan with its dictionary equals the look-ahead description -/
theorem run_look {fold : Str → Str} {ts : List Int} {n : Nat} (acts : List Act) (st st' : State)
    (hinv : Inv st) (h : run fold ts st acts = .ok st') :
    finish n st' = st.procs.map (resolve fold n acts) ++ look fold ts n st.procs.length acts := by
  induction acts generalizing st with
  | nil =>
    simp only [run] at h
    injection h with h
    subst h
    simp [finish_eq (fold := fold) hinv, look]
  | cons a rest ih =>
    simp only [run] at h
    cases hstep : step fold ts st a with
    | error e => simp [hstep] at h
    | ok st1 =>
      simp only [hstep] at h
      obtain ⟨hinv1, heq⟩ := step_spec (n := n) rest hinv hstep
      rw [ih st1 hinv1 h, heq]

/-! ## index ranges against time intervals -/

theorem nextTime_timed (fold : Str → Str) (k : Str) (acts : List Act) :
    nextTime fold k (timed acts) = (nextMark fold k acts).map (·.time) := by
  induction acts with
  | nil => rfl
  | cons a rest ih =>
    simp only [timed, List.map_cons, nextTime, nextMark] at ih ⊢
    split
    · rfl
    · exact ih

theorem nextMark_mem {fold : Str → Str} {k : Str} {acts : List Act} {a : Act}
    (h : nextMark fold k acts = some a) : a ∈ acts ∧ markerKey fold a.item = some k := by
  induction acts with
  | nil => simp [nextMark] at h
  | cons b rest ih =>
    simp only [nextMark] at h
    split at h
    · injection h with h; subst h; exact ⟨List.mem_cons_self .., by assumption⟩
    · exact ⟨List.mem_cons_of_mem _ (ih h).1, (ih h).2⟩

/-- end by index = end by time, for an Onset process -/
theorem stop_iff {fold : Str → Str} {ts : List Int} (hs : Sorted ts) {acts : List Act}
    (hf : ∀ a ∈ acts, First ts a.idx a.time) {i : Nat} {τ : Int} (hi : ts[i]? = some τ) (k : Str) :
    i < stopOr ts.length (nextMark fold k acts) ↔ ltInf τ (nextTime fold k (timed acts)) = true := by
  rw [nextTime_timed]
  cases hn : nextMark fold k acts with
  | none =>
    simp only [stopOr, Option.map_none, ltInf, iff_true]
    exact (List.getElem?_eq_some_iff.1 hi).1
  | some a =>
    simp only [stopOr, Option.map_some, ltInf, decide_eq_true_eq]
    exact lt_first_iff hs (hf a (nextMark_mem hn).1) hi

/-- the core of `context_spec` / `merged_rows`: the index test of `_extract_context` is the time test of the
statement, `P` being the test on the start time that fits row `i` -/
theorem context_look {fold : Str → Str} {ts : List Int} (hs : Sorted ts) {i : Nat} {τ : Int}
    (hi : ts[i]? = some τ) (P : Int → Bool)
    (hP : ∀ s σ, First ts s σ → (s < i ↔ P σ = true)) (acts : List Act)
    (hf : ∀ a ∈ acts, First ts a.idx a.time) (c : Nat) :
    contextAt (look fold ts ts.length c acts) i =
      ((specProcs fold ts (timed acts)).filter fun q => P q.start && ltInf τ q.stop).map (·.content) := by
  induction acts generalizing c with
  | nil => rfl
  | cons a rest ih =>
    have hfr : ∀ b ∈ rest, First ts b.idx b.time := fun b hb => hf b (List.mem_cons_of_mem _ hb)
    have ha := hf a (List.mem_cons_self ..)
    have hstart : decide (a.idx < i) = P a.time := by
      have := hP a.idx a.time ha
      cases hp : P a.time <;> simp [hp] at this ⊢ <;> omega
    unfold contextAt at ih ⊢
    cases hitem : a.item with
    | onset name cid =>
      have hstop : decide (i < stopOr ts.length (nextMark fold (fold name) rest)) =
          ltInf τ (nextTime fold (fold name) (timed rest)) := by
        have := stop_iff (fold := fold) hs hfr hi (fold name)
        cases hl : ltInf τ (nextTime fold (fold name) (timed rest)) <;> simp [hl] at this ⊢ <;> omega
      simp only [look, hitem, timed, List.map_cons, specProcs, List.filter_cons, inContext, hstart, hstop]
      simp only [timed] at ih
      split <;> simp [ih hfr (c + 1)]
    | duration len cid =>
      have hstop : decide (i < bisectLeft ts (a.time + len)) = ltInf τ (firstAtOrAfter ts (a.time + len)) := by
        have h1 := lt_bisect_iff hs (a.time + len) hi
        have h2 := ltInf_first_iff hs (a.time + len) (List.mem_of_getElem? hi)
        cases hl : ltInf τ (firstAtOrAfter ts (a.time + len)) <;> simp [hl] at h2 ⊢ <;> omega
      simp only [look, hitem, timed, List.map_cons, specProcs, List.filter_cons, inContext, hstart, hstop]
      simp only [timed] at ih
      split <;> simp [ih hfr (c + 1)]
    | offset name =>
      simp only [look, hitem, timed, List.map_cons, specProcs]
      simp only [timed] at ih
      exact ih hfr c
    | plain cid =>
      simp only [look, hitem, timed, List.map_cons, specProcs]
      simp only [timed] at ih
      exact ih hfr c
    | inset _nm cid =>
      simp only [look, hitem, timed, List.map_cons, specProcs]
      simp only [timed] at ih
      exact ih hfr c

/-! ## the property -/

theorem build_ok {fold : Str → Str} {rows : List Row} {b : Built} (h : build fold rows = .ok b) :
    nonDecreasing (rows.map (·.time)) = true ∧
    b.ts = (frame rows).map (·.time) ∧
    b.procs = look fold b.ts b.ts.length 0 (history rows) ∧
    b.rem = (merge none (frame rows)).map (fun r => plainOf r.items) := by
  unfold build at h
  split at h
  · rename_i hnd
    simp only at h
    cases hr : run fold ((frame rows).map (·.time)) ⟨[], []⟩ (history rows) with
    | error e => simp [hr] at h
    | ok st =>
      simp only [hr] at h
      injection h with h
      subst h
      refine ⟨hnd, rfl, ?_, rfl⟩
      have := run_look (n := ((frame rows).map (·.time)).length) _ _ _ inv_init hr
      simpa using this
  · simp at h

/-- the processes of the history as the statement describes them (times only) -/
abbrev spec (fold : Str → Str) (rows : List Row) (b : Built) : List SProc :=
  specProcs fold b.ts (timed (history rows))

theorem build_facts {fold : Str → Str} {rows : List Row} {b : Built} (h : build fold rows = .ok b) :
    Sorted b.ts ∧ (∀ a ∈ history rows, First b.ts a.idx a.time) := by
  obtain ⟨_, hts, _, _⟩ := build_ok h
  exact ⟨hts ▸ frame_sorted rows, hts ▸ acts_first rows⟩

/-- **C20 (core).** For every accepted history, at the first row of each time point the reported context is
exactly the list of processes that started strictly earlier and have not ended (`specContext`), in the
order of the history. -/
theorem context_spec (fold : Str → Str) (rows : List Row) (b : Built) (h : build fold rows = .ok b)
    (i : Nat) (τ : Int) (hi : First b.ts i τ) :
    contextAt b.procs i = specContext (spec fold rows b) τ := by
  obtain ⟨hs, hf⟩ := build_facts h
  rw [(build_ok h).2.2.1]
  exact context_look hs hi.1 (fun σ => decide (σ < τ))
    (fun s σ hσ => by simpa using first_lt_iff hs hσ hi) _ hf 0

/-- `contexts` is `contextAt` row by row -/
theorem contexts_getElem (b : Built) (i : Nat) (hi : i < b.ts.length) :
    (contexts b)[i]? = some (contextAt b.procs i) := by
  simp [contexts, hi]

/-- the two readings of the statement for rows that share an onset -/
def StrictReading (fold : Str → Str) (rows : List Row) (b : Built) : Prop :=
  ∀ i τ, b.ts[i]? = some τ → contextAt b.procs i = specContext (spec fold rows b) τ

def InclusiveReading (fold : Str → Str) (rows : List Row) (b : Built) : Prop :=
  ∀ i τ, b.ts[i]? = some τ →
    (First b.ts i τ → contextAt b.procs i = specContext (spec fold rows b) τ) ∧
    (¬ First b.ts i τ → contextAt b.procs i = specContextIncl (spec fold rows b) τ)

/-- **merged rows.** The model satisfies the inclusive reading: a later row of a merged time point shows the
processes started earlier *or at* this time point that have not ended. -/
theorem merged_rows (fold : Str → Str) (rows : List Row) (b : Built) (h : build fold rows = .ok b) :
    InclusiveReading fold rows b := by
  intro i τ hi
  refine ⟨fun hF => context_spec fold rows b h i τ hF, fun hn => ?_⟩
  obtain ⟨hs, hf⟩ := build_facts h
  rw [(build_ok h).2.2.1]
  exact context_look hs hi (fun σ => decide (σ ≤ τ))
    (fun s σ hσ => by simpa using first_lt_iff_later hs hσ hi hn) _ hf 0

/-- rows 0 and 1 share onset 1.0 s; `(Def/A, Onset)` sits on row 0 -/
def probe : List Row := [⟨8, [.onset ['A'] 1], []⟩, ⟨8, [.plain 2], []⟩]

/-- … and the strict reading fails: row 1 shows process 1, which started at this very time point. -/
theorem merged_rows_strict_counterexample :
    ∃ b, build id probe = .ok b ∧ contextAt b.procs 1 = [1] ∧ specContext (spec id probe b) 8 = [] ∧
      ¬ StrictReading id probe b := by
  have h : build id probe = .ok ⟨[8, 8], [⟨0, 0, some 2, ['A'], 1⟩], [[2], []]⟩ := by rfl
  refine ⟨_, h, by decide, by decide, fun hs => ?_⟩
  have := hs 1 8 (by decide)
  revert this
  decide

/-! ### boundaries -/

theorem mem_look_duration {fold : Str → Str} {ts : List Int} {n : Nat} {acts : List Act} {a : Act}
    {len : Int} {c : Nat} (ha : a ∈ acts) (hitem : a.item = .duration len c) (c0 : Nat) :
    ∃ p ∈ look fold ts n c0 acts, p.start = a.idx ∧ p.content = c ∧
      p.stop = some (bisectLeft ts (a.time + len)) := by
  induction acts generalizing c0 with
  | nil => simp at ha
  | cons b rest ih =>
    rcases List.mem_cons.1 ha with rfl | ha
    · exact ⟨_, by simp only [look, hitem]; exact List.mem_cons_self .., rfl, rfl, rfl⟩
    · cases hb : b.item with
      | onset name cid =>
        obtain ⟨p, hp, h⟩ := ih ha (c0 + 1)
        exact ⟨p, by simp only [look, hb]; exact List.mem_cons_of_mem _ hp, h⟩
      | duration l cid =>
        obtain ⟨p, hp, h⟩ := ih ha (c0 + 1)
        exact ⟨p, by simp only [look, hb]; exact List.mem_cons_of_mem _ hp, h⟩
      | offset name =>
        obtain ⟨p, hp, h⟩ := ih ha c0
        exact ⟨p, by simp only [look, hb]; exact hp, h⟩
      | plain cid =>
        obtain ⟨p, hp, h⟩ := ih ha c0
        exact ⟨p, by simp only [look, hb]; exact hp, h⟩
      | inset _nm cid =>
        obtain ⟨p, hp, h⟩ := ih ha c0
        exact ⟨p, by simp only [look, hb]; exact hp, h⟩

theorem mem_look_onset {fold : Str → Str} {ts : List Int} {n : Nat} (pre : List Act) {rest : List Act}
    {a : Act} {name : Str} {c : Nat} (hitem : a.item = .onset name c) (c0 : Nat) :
    ∃ p ∈ look fold ts n c0 (pre ++ a :: rest), p.start = a.idx ∧ p.content = c ∧
      p.stop = some (stopOr n (nextMark fold (fold name) rest)) := by
  induction pre generalizing c0 with
  | nil => exact ⟨_, by simp only [List.nil_append, look, hitem]; exact List.mem_cons_self .., rfl, rfl, rfl⟩
  | cons b pre ih =>
    cases hb : b.item with
    | onset nm cid =>
      obtain ⟨p, hp, h⟩ := ih (c0 + 1)
      exact ⟨p, by simp only [List.cons_append, look, hb]; exact List.mem_cons_of_mem _ hp, h⟩
    | duration l cid =>
      obtain ⟨p, hp, h⟩ := ih (c0 + 1)
      exact ⟨p, by simp only [List.cons_append, look, hb]; exact List.mem_cons_of_mem _ hp, h⟩
    | offset nm =>
      obtain ⟨p, hp, h⟩ := ih c0
      exact ⟨p, by simp only [List.cons_append, look, hb]; exact hp, h⟩
    | plain cid =>
      obtain ⟨p, hp, h⟩ := ih c0
      exact ⟨p, by simp only [List.cons_append, look, hb]; exact hp, h⟩
    | inset _nm cid =>
      obtain ⟨p, hp, h⟩ := ih c0
      exact ⟨p, by simp only [List.cons_append, look, hb]; exact hp, h⟩

theorem bisect_all {ts : List Int} {y : Int} (h : ∀ x ∈ ts, x < y) : bisectLeft ts y = ts.length := by
  induction ts with
  | nil => rfl
  | cons t rest ih =>
    have ht := h t (List.mem_cons_self ..)
    have := ih (fun x hx => h x (List.mem_cons_of_mem _ hx))
    unfold bisectLeft at this ⊢
    simp [ht, this]

/-- **boundaries (Duration).** The process of a Duration group covers exactly the later rows whose time is
before `start + duration`; in particular a row whose onset *equals* the end time does not show it. -/
theorem boundaries_duration_exact (fold : Str → Str) (rows : List Row) (b : Built)
    (h : build fold rows = .ok b) (a : Act) (len : Int) (c : Nat) (ha : a ∈ history rows)
    (hitem : a.item = .duration len c) :
    ∃ p ∈ b.procs, p.start = a.idx ∧ p.content = c ∧
      (∀ i τ, b.ts[i]? = some τ → (inContext i p = true ↔ a.idx < i ∧ τ < a.time + len)) ∧
      (∀ i, b.ts[i]? = some (a.time + len) → inContext i p = false) := by
  obtain ⟨hs, _⟩ := build_facts h
  obtain ⟨p, hp, h1, h2, h3⟩ := mem_look_duration (fold := fold) (ts := b.ts) (n := b.ts.length) ha hitem 0
  rw [← (build_ok h).2.2.1] at hp
  have key : ∀ i τ, b.ts[i]? = some τ → (inContext i p = true ↔ a.idx < i ∧ τ < a.time + len) := by
    intro i τ hi
    have := lt_bisect_iff hs (a.time + len) hi
    simp only [inContext, h3, h1, Bool.and_eq_true, decide_eq_true_eq, this]
  refine ⟨p, hp, h1, h2, key, fun i hi => ?_⟩
  have := key i _ hi
  cases hc : inContext i p
  · rfl
  · rw [hc] at this; have := this.1 rfl; omega

/-- **boundaries (past the end).** A Duration reaching beyond the last onset ends at `len(onsets)`:
every later row shows it. -/
theorem boundaries_past_end (fold : Str → Str) (rows : List Row) (b : Built)
    (h : build fold rows = .ok b) (a : Act) (len : Int) (c : Nat) (ha : a ∈ history rows)
    (hitem : a.item = .duration len c) (hend : ∀ x ∈ b.ts, x < a.time + len) :
    ∃ p ∈ b.procs, p.start = a.idx ∧ p.content = c ∧ p.stop = some b.ts.length ∧
      (∀ i, a.idx < i → i < b.ts.length → inContext i p = true) := by
  obtain ⟨p, hp, h1, h2, h3⟩ := mem_look_duration (fold := fold) (ts := b.ts) (n := b.ts.length) ha hitem 0
  rw [← (build_ok h).2.2.1] at hp
  rw [bisect_all hend] at h3
  refine ⟨p, hp, h1, h2, h3, fun i hi hn => ?_⟩
  simp [inContext, h3, h1, hi, hn]

theorem nextMark_append {fold : Str → Str} {k : Str} (mid : List Act) (a' : Act) (post : List Act)
    (hmid : ∀ x ∈ mid, markerKey fold x.item ≠ some k) (hk : markerKey fold a'.item = some k) :
    nextMark fold k (mid ++ a' :: post) = some a' := by
  induction mid with
  | nil => exact nextMark_cons_eq hk
  | cons x xs ih =>
    rw [List.cons_append, nextMark_cons_ne (hmid x (List.mem_cons_self ..))]
    exact ih (fun y hy => hmid y (List.mem_cons_of_mem _ hy))

theorem nextMark_none {fold : Str → Str} {k : Str} (rest : List Act)
    (h : ∀ x ∈ rest, markerKey fold x.item ≠ some k) : nextMark fold k rest = none := by
  induction rest with
  | nil => rfl
  | cons x xs ih =>
    rw [nextMark_cons_ne (h x (List.mem_cons_self ..))]
    exact ih (fun y hy => h y (List.mem_cons_of_mem _ hy))

/-- **boundaries (restart / Offset).** An Onset process ends at the row of the next Onset or Offset of the same
folded name — so restarting an open process closes the old one at the restart row, which no longer shows it;
with no later marker it ends at `len(onsets)`. -/
theorem boundaries_restart (fold : Str → Str) (rows : List Row) (b : Built)
    (h : build fold rows = .ok b) (pre rest : List Act) (a : Act) (name : Str) (c : Nat)
    (hsplit : history rows = pre ++ a :: rest) (hitem : a.item = .onset name c) :
    ∃ p ∈ b.procs, p.start = a.idx ∧ p.content = c ∧
      (∀ mid a' post, rest = mid ++ a' :: post → markerKey fold a'.item = some (fold name) →
          (∀ x ∈ mid, markerKey fold x.item ≠ some (fold name)) →
          p.stop = some a'.idx ∧ ∀ i, a'.idx ≤ i → inContext i p = false) ∧
      ((∀ x ∈ rest, markerKey fold x.item ≠ some (fold name)) → p.stop = some b.ts.length) := by
  obtain ⟨p, hp, h1, h2, h3⟩ :=
    mem_look_onset (fold := fold) (ts := b.ts) (n := b.ts.length) pre (rest := rest) hitem 0
  rw [← hsplit, ← (build_ok h).2.2.1] at hp
  refine ⟨p, hp, h1, h2, ?_, ?_⟩
  · intro mid a' post hr hk hmid
    rw [hr, nextMark_append mid a' post hmid hk] at h3
    refine ⟨h3, fun i hi => ?_⟩
    simp only [inContext, h3, stopOr]
    simp; omega
  · intro hn
    rw [nextMark_none rest hn] at h3
    exact h3

/-! ### base, remainder, rejection, order -/

theorem look_start {fold : Str → Str} {ts : List Int} {n : Nat} {acts : List Act} {c0 : Nat} {p : Proc}
    (hp : p ∈ look fold ts n c0 acts) : ∃ a ∈ acts, p.start = a.idx := by
  induction acts generalizing c0 with
  | nil => simp [look] at hp
  | cons b rest ih =>
    cases hb : b.item with
    | onset name cid =>
      simp only [look, hb, List.mem_cons] at hp
      rcases hp with rfl | hp
      · exact ⟨b, List.mem_cons_self .., rfl⟩
      · obtain ⟨a, ha, h⟩ := ih hp; exact ⟨a, List.mem_cons_of_mem _ ha, h⟩
    | duration l cid =>
      simp only [look, hb, List.mem_cons] at hp
      rcases hp with rfl | hp
      · exact ⟨b, List.mem_cons_self .., rfl⟩
      · obtain ⟨a, ha, h⟩ := ih hp; exact ⟨a, List.mem_cons_of_mem _ ha, h⟩
    | offset name =>
      simp only [look, hb] at hp
      obtain ⟨a, ha, h⟩ := ih hp; exact ⟨a, List.mem_cons_of_mem _ ha, h⟩
    | plain cid =>
      simp only [look, hb] at hp
      obtain ⟨a, ha, h⟩ := ih hp; exact ⟨a, List.mem_cons_of_mem _ ha, h⟩
    | inset _nm cid =>
      simp only [look, hb] at hp
      obtain ⟨a, ha, h⟩ := ih hp; exact ⟨a, List.mem_cons_of_mem _ ha, h⟩

theorem base_look {fold : Str → Str} {ts : List Int} {n i : Nat} (Q : Int → Bool) (acts : List Act)
    (hQ : ∀ a ∈ acts, (a.idx == i) = Q a.time) (c : Nat) :
    baseAt (look fold ts n c acts) i =
      ((specProcs fold ts (timed acts)).filter fun q => Q q.start).map (·.content) := by
  induction acts generalizing c with
  | nil => rfl
  | cons a rest ih =>
    have hr : ∀ b ∈ rest, (b.idx == i) = Q b.time := fun b hb => hQ b (List.mem_cons_of_mem _ hb)
    have ha := hQ a (List.mem_cons_self ..)
    unfold baseAt at ih ⊢
    simp only [timed] at ih
    cases hitem : a.item with
    | onset name cid =>
      simp only [look, hitem, timed, List.map_cons, specProcs, List.filter_cons, ha]
      split <;> simp [ih hr (c + 1)]
    | duration len cid =>
      simp only [look, hitem, timed, List.map_cons, specProcs, List.filter_cons, ha]
      split <;> simp [ih hr (c + 1)]
    | offset name =>
      simp only [look, hitem, timed, List.map_cons, specProcs]
      exact ih hr c
    | plain cid =>
      simp only [look, hitem, timed, List.map_cons, specProcs]
      exact ih hr c
    | inset _nm cid =>
      simp only [look, hitem, timed, List.map_cons, specProcs]
      exact ih hr c

/-- **base.** Every process is listed in `base` at its start row, which is the first row of a time point;
`base` at the first row of a time point lists exactly the processes that start at that time, and is empty at the
later rows of a merged time point. -/
theorem base_listed (fold : Str → Str) (rows : List Row) (b : Built) (h : build fold rows = .ok b) :
    (∀ p ∈ b.procs, p.content ∈ baseAt b.procs p.start ∧ ∃ t, First b.ts p.start t) ∧
    (∀ i τ, First b.ts i τ → baseAt b.procs i = specStarts (spec fold rows b) τ) ∧
    (∀ i τ, b.ts[i]? = some τ → ¬ First b.ts i τ → baseAt b.procs i = []) := by
  obtain ⟨hs, hf⟩ := build_facts h
  have hp := (build_ok h).2.2.1
  refine ⟨fun p hpm => ⟨?_, ?_⟩, fun i τ hi => ?_, fun i τ hi hn => ?_⟩
  · simp only [baseAt, List.mem_map, List.mem_filter]
    exact ⟨p, ⟨hpm, by simp⟩, rfl⟩
  · rw [hp] at hpm
    obtain ⟨a, ha, e⟩ := look_start hpm
    exact ⟨a.time, e ▸ hf a ha⟩
  · rw [hp]
    refine base_look (fun σ => σ == τ) _ (fun a ha => ?_) 0
    have hfa := hf a ha
    by_cases e : a.idx = i
    · have : a.time = τ := by
        have h1 := hfa.1; rw [e, hi.1] at h1; injection h1 with h1; exact h1.symm
      simp [e, this]
    · have hne : a.time ≠ τ := by
        intro et
        rcases Nat.lt_or_gt_of_ne e with hlt | hgt
        · have := (first_lt_iff hs hfa hi).1 hlt; omega
        · have := (first_lt_iff hs hi hfa).1 hgt; omega
      have h1 : (a.idx == i) = false := by simp [e]
      have h2 : (a.time == τ) = false := by simp [hne]
      show (a.idx == i) = (a.time == τ)
      rw [h1, h2]
  · rw [hp]
    have := base_look (fold := fold) (ts := b.ts) (n := b.ts.length) (i := i) (fun _ => false)
      (history rows) (fun a ha => by
        have hfa := hf a ha
        have : a.idx ≠ i := by
          intro e
          have h1 := hfa.1
          rw [e, hi] at h1
          injection h1 with h1
          exact hn (e ▸ h1 ▸ hfa)
        simp [this]) 0
    rw [this]
    simp

theorem plainOf_append (a b : List Item) : plainOf (a ++ b) = plainOf a ++ plainOf b := by
  induction a with
  | nil => rfl
  | cons x xs ih => cases x <;> simp [plainOf, ih]

theorem group_drop (t : Int) (rs : List FRow) :
    groupItems t rs ++ (rs.dropWhile (fun r => r.time == t)).flatMap (·.items) = rs.flatMap (·.items) := by
  induction rs with
  | nil => rfl
  | cons r rs ih =>
    by_cases e : r.time = t
    · simp [groupItems, e, List.append_assoc, ih]
    · simp [groupItems, e]

theorem merge_plain (prev : Option Int) (rows : List FRow) :
    ((merge prev rows).map fun r => plainOf r.items).flatten =
      plainOf ((match prev with
        | none => rows
        | some t => rows.dropWhile (fun r => r.time == t)).flatMap (fun r : FRow => r.items)) := by
  induction rows generalizing prev with
  | nil => cases prev <;> rfl
  | cons r rs ih =>
    simp only [merge, List.map_cons, List.flatten_cons, ih (some r.time)]
    cases prev with
    | none =>
      simp only [reduceCtorEq, if_false, List.flatMap_cons, ← plainOf_append, List.append_assoc, group_drop]
    | some t =>
      by_cases e : t = r.time
      · subst e
        simp [plainOf]
      · have e' : ¬ r.time = t := fun h => e h.symm
        have e'' : ¬ (some t = some r.time) := fun h => e (by injection h)
        simp only [e'', if_false, ← plainOf_append, List.append_assoc]
        simp [e', group_drop]

/-- **remainder.** What is left of the rows (`hed_strings`) has one entry per row of the frame and consists,
in order, of exactly the plain (non-temporal) items of the frame: no temporal group is kept, no plain item lost. -/
theorem remainder_plain (fold : Str → Str) (rows : List Row) (b : Built) (h : build fold rows = .ok b) :
    b.rem.length = b.ts.length ∧ b.rem.flatten = plainOf ((frame rows).flatMap (·.items)) := by
  obtain ⟨_, hts, _, hrem⟩ := build_ok h
  refine ⟨?_, ?_⟩
  · rw [hrem, hts]
    have : ∀ prev (l : List FRow), (merge prev l).length = l.length := by
      intro prev l
      induction l generalizing prev with
      | nil => rfl
      | cons r rs ih => simp [merge, ih]
    simp [this]
  · rw [hrem]
    exact merge_plain none _

theorem nonDecreasing_pairwise (ts : List Int) : nonDecreasing ts = true ↔ ts.Pairwise (· ≤ ·) := by
  induction ts with
  | nil => simp [nonDecreasing]
  | cons a rest ih =>
    unfold nonDecreasing
    cases rest with
    | nil => simp [nonDecreasing]
    | cons b rest' =>
      simp only [Bool.and_eq_true, decide_eq_true_eq, ih, List.pairwise_cons]
      constructor
      · rintro ⟨hab, h1, h2⟩
        refine ⟨?_, h1, h2⟩
        intro x hx
        rcases List.mem_cons.1 hx with rfl | hx
        · exact hab
        · have := h1 x hx; omega
      · rintro ⟨h0, h1, h2⟩
        exact ⟨h0 b (List.mem_cons_self ..), h1, h2⟩

/-- **rejection.** A file with a later onset smaller than an earlier one is rejected. -/
theorem reject_unordered (fold : Str → Str) (rows : List Row) (i j : Nat) (x y : Int) (hij : i < j)
    (hx : (rows.map (·.time))[i]? = some x) (hy : (rows.map (·.time))[j]? = some y) (hlt : y < x) :
    build fold rows = .error .unordered := by
  unfold build
  split
  · rename_i hnd
    have := sorted_idx ((nonDecreasing_pairwise _).1 hnd) (Nat.le_of_lt hij) hx hy
    omega
  · rfl

/-- … and only such files are rejected for their order. -/
theorem accept_ordered (fold : Str → Str) (rows : List Row)
    (h : (rows.map (·.time)).Pairwise (· ≤ ·)) : build fold rows ≠ .error .unordered := by
  unfold build
  rw [if_pos ((nonDecreasing_pairwise _).2 h)]
  simp only
  split <;> simp
  rename_i e he
  intro heq
  subst heq
  -- `run` never produces `unordered`
  have : ∀ (acts : List Act) (st : State) ts, run fold ts st acts ≠ .error .unordered := by
    intro acts
    induction acts with
    | nil => intro st ts; simp [run]
    | cons a rest ih =>
      intro st ts
      simp only [run]
      cases hs : step fold ts st a with
      | ok st1 => exact ih st1 ts
      | error e =>
        simp only
        unfold step at hs
        cases hi : a.item <;> simp only [hi] at hs
        · cases hs
        · split at hs
          · cases hs
          · injection hs with hs; subst hs; simp
        · cases hs
        · cases hs
        · cases hs
  exact this _ _ _ he

/-! ### order of the entries -/

theorem actsFrom_idx_ge {k : Nat} {rows : List FRow} {a : Act} (h : a ∈ actsFrom k rows) : k ≤ a.idx := by
  induction rows generalizing k with
  | nil => simp [actsFrom] at h
  | cons r rs ih =>
    simp only [actsFrom, List.mem_append] at h
    rcases h with h | h
    · have := (mem_rowActs h).1; omega
    · have := ih h; omega

theorem actsFrom_idx_sorted (k : Nat) (rows : List FRow) :
    (actsFrom k rows).Pairwise (fun a b => a.idx ≤ b.idx) := by
  induction rows generalizing k with
  | nil => simp [actsFrom]
  | cons r rs ih =>
    simp only [actsFrom]
    refine List.pairwise_append.2 ⟨?_, ih (k + 1), ?_⟩
    · have : ∀ a ∈ rowActs k r, a.idx = k := fun a ha => (mem_rowActs ha).1
      exact List.pairwise_of_forall_mem_list (fun a ha b hb => by rw [this a ha, this b hb]; exact Nat.le_refl _)
    · intro a ha b hb
      have := (mem_rowActs ha).1
      have := actsFrom_idx_ge hb
      omega

theorem specProcs_sublist (fold : Str → Str) (ts : List Int) (acts : List Act) :
    ((specProcs fold ts (timed acts)).map (·.start)).Sublist (acts.map (·.time)) := by
  induction acts with
  | nil => exact List.Sublist.slnil
  | cons a rest ih =>
    simp only [timed] at ih
    cases hitem : a.item <;> simp only [timed, List.map_cons, specProcs, hitem]
    · exact List.Sublist.cons_cons _ ih
    · exact List.Sublist.cons _ ih
    · exact List.Sublist.cons_cons _ ih
    · exact List.Sublist.cons _ ih
    · exact List.Sublist.cons _ ih

/-- **order.** The processes of the specification — hence every context and base entry, which are filtered
sublists of it — come in non-decreasing order of start time. -/
theorem context_start_order (fold : Str → Str) (rows : List Row) (b : Built) (h : build fold rows = .ok b) :
    (spec fold rows b).Pairwise (fun p q => p.start ≤ q.start) := by
  obtain ⟨hs, hf⟩ := build_facts h
  have h1 : (history rows).Pairwise (fun a b => a.time ≤ b.time) := by
    refine List.Pairwise.imp_of_mem ?_ (actsFrom_idx_sorted 0 _)
    intro a c ha hc hle
    exact sorted_idx hs hle (hf a ha).1 (hf c hc).1
  have h2 : ((history rows).map (·.time)).Pairwise (· ≤ ·) := List.pairwise_map.2 h1
  exact List.pairwise_map.1 (h2.sublist (specProcs_sublist fold b.ts (history rows)))

/-! ### non-vacuity -/

/-- A at 0 s with a 1 s Duration group; a plain tag at 1 s with a delayed Offset of A arriving at 2 s; an
empty row at 2 s (so the time point 2 s has two rows). -/
def sample : List Row :=
  [⟨0, [.onset ['A'] 1, .duration 8 2], []⟩, ⟨8, [.plain 3], [(8, .offset ['A'])]⟩, ⟨16, [], []⟩]

example : ∃ b, build id sample = .ok b ∧ b.ts = [0, 8, 16, 16] ∧
    First b.ts 1 8 ∧ contextAt b.procs 1 = [1] ∧        -- the Duration process ended exactly at 1 s
    First b.ts 2 16 ∧ contextAt b.procs 2 = [] ∧ ¬ First b.ts 3 16 ∧
    contexts b = [[], [1], [], []] ∧ base b = [[1, 2], [], [], []] ∧ b.rem = [[], [3], [], []] := by
  refine ⟨⟨[0, 8, 16, 16], [⟨0, 0, some 2, ['A'], 1⟩, ⟨1, 0, some 1, [], 2⟩], [[], [3], [], []]⟩,
    by rfl, rfl, ⟨by rfl, ?_⟩, by decide, ⟨by rfl, ?_⟩, by decide, ?_, by decide, by decide, rfl⟩
  · intro j x hj hx
    have : j = 0 := by omega
    subst this; simp at hx; omega
  · intro j x hj hx
    have : j = 0 ∨ j = 1 := by omega
    rcases this with rfl | rfl <;> simp at hx <;> omega
  · intro hF
    have := hF.2 2 16 (by omega) (by rfl)
    omega

/-- hypotheses of `boundaries_restart` (restart of an open process) and `reject_unordered` are satisfiable -/
example : ∃ b, build id [⟨0, [.onset ['A'] 1], []⟩, ⟨8, [.onset ['A'] 2], []⟩] = .ok b ∧
    history [⟨0, [.onset ['A'] 1], []⟩, ⟨8, [.onset ['A'] 2], []⟩] =
      [] ++ ⟨0, 0, .onset ['A'] 1⟩ :: ([] ++ ⟨1, 8, .onset ['A'] 2⟩ :: []) ∧
    b.procs.map (fun p => (p.start, p.stop, p.content)) = [(0, some 1, 1), (1, some 2, 2)] :=
  ⟨⟨[0, 8], [⟨0, 0, some 1, ['A'], 1⟩, ⟨1, 1, some 2, ['A'], 2⟩], [[], []]⟩, by rfl, by rfl, by rfl⟩

example : build id [⟨8, [], []⟩, ⟨0, [], []⟩] = .error .unordered :=
  reject_unordered id _ 0 1 8 0 (by omega) (by rfl) (by rfl) (by omega)

/-! ## text layer: process content, Inset, Onset+Duration, unfolding -/

/-- **process content.** `TemporalEvent._split_group`: with an inner group the content is the group itself
without its Onset and Duration tags — every other child (Def, Delay, inner groups, other tags) is kept, in
order; without an inner group it is the short tag of the last Def child (or `None`). -/
theorem process_content_spec (ks : List TNode) :
    (ks.any isGroup = true →
      splitGroup ks = .group (ks.filter notAnchor) ∧
      (∀ k ∈ ks, isGroup k = true → k ∈ ks.filter notAnchor) ∧
      (∀ t, TNode.tag t ∈ ks → (TNode.tag t ∈ ks.filter notAnchor ↔ (isB kOnset t || isB kDuration t) = false))) ∧
    (ks.any isGroup = false →
      splitGroup ks = match lastDef ks with
        | some t => .tag (canonTag t)
        | none => .tag kNone) := by
  refine ⟨fun h => ⟨by simp [splitGroup, h], ?_, ?_⟩, fun h => by simp only [splitGroup, h]; rfl⟩
  · intro k hk hg
    refine List.mem_filter.2 ⟨hk, ?_⟩
    cases k with
    | tag t => simp [isGroup] at hg
    | group g => rfl
  · intro t ht
    simp [List.mem_filter, ht, notAnchor]

/-- **Inset.** A group with an Inset tag (and no Onset/Offset/Duration tag) is not a temporal group for the
manager: it is classified as remainder … -/
theorem inset_is_remainder (vals : Str → Option Int) (id : Nat) (ks : List TNode)
    (h1 : (directTags ks).find? (fun t => isB kOnset t || isB kOffset t) = none)
    (h2 : (directTags ks).filter (isB kDuration) = [])
    (h3 : (directTags ks).any (isB kInset) = true) :
    ∃ nm, classify vals id (.group ks) = .ok (.inset nm id) := by
  simp [classify, h1, h2, h3]

/-- … and is never met by the scan: it opens, closes and delays nothing and stays in the row's remainder
(`remainder_plain`). -/
theorem inset_not_scanned (rows : List Row) :
    ∀ a ∈ history rows, isMarker a.item = true ∨ isDuration a.item = true := by
  have : ∀ k (l : List FRow), ∀ a ∈ actsFrom k l, isMarker a.item = true ∨ isDuration a.item = true := by
    intro k l
    induction l generalizing k with
    | nil => intro a ha; simp [actsFrom] at ha
    | cons r rs ih =>
      intro a ha
      simp only [actsFrom, List.mem_append] at ha
      rcases ha with ha | ha
      · simp only [rowActs, List.mem_map, List.mem_append, List.mem_filter] at ha
        obtain ⟨it, hit, rfl⟩ := ha
        rcases hit with h | h
        · exact Or.inl h.2
        · exact Or.inr h.2
      · exact ih (k + 1) a ha
  exact this 0 _

/-- **Onset with Duration in one group.** The first search (Onset/Offset anchors) takes the group: it is an
Onset process named by its first Def, whatever Duration tags it holds; its end is that of an Onset process
(`boundaries_restart`), the Duration value is not used. (The validator rejects such a group.) -/
theorem onset_duration_is_onset (vals : Str → Option Int) (id : Nat) (ks : List TNode) (t ext : Str)
    (h1 : (directTags ks).find? (fun t => isB kOnset t || isB kOffset t) = some t)
    (h2 : isB kOnset t = true) (h3 : (defExts ks).head? = some ext) :
    classify vals id (.group ks) = .ok (.onset ext id) := by
  simp [classify, h1, h2, h3]

theorem filtTags_append (p : Str → Bool) (a b : List TNode) :
    filtTags p (a ++ b) = filtTags p a ++ filtTags p b := by
  induction a with
  | nil => simp [filtTags]
  | cons n r ih =>
    cases n with
    | tag t => simp only [List.cons_append, filtTags]; split <;> simp [ih]
    | group ks => simp only [List.cons_append, filtTags]; split <;> simp [ih]

theorem filtGroups_append (p : Str → Bool) (a b : List TNode) :
    filtGroups p (a ++ b) = filtGroups p a ++ filtGroups p b := by
  induction a with
  | nil => simp [filtGroups]
  | cons n r ih =>
    cases n with
    | tag t => simp [filtGroups, ih]
    | group ks =>
      simp only [List.cons_append, filtGroups]
      split
      · exact ih
      · split <;> simp [ih]

theorem filterHed_append (T N : List Str) (rg : Bool) (a b : List TNode) :
    filterHed T N rg (a ++ b) = filterHed T N rg a ++ filterHed T N rg b := by
  cases rg <;>
    simp [filterHed, filtTop, filtTags_append, filtGroups_append, List.filter_append]

theorem filterHed_flatMap {α : Type} (T N : List Str) (rg : Bool) (xs : List α) (g : α → List TNode) :
    filterHed T N rg (xs.flatMap g) = xs.flatMap (fun x => filterHed T N rg (g x)) := by
  induction xs with
  | nil => cases rg <;> simp [filterHed, filtTop, filtTags, filtGroups]
  | cons x xs ih => simp [List.flatMap_cons, filterHed_append, ih]

/-- **unfolding commutes with context construction.** Filtering the context of a row (`_get_base_contexts`:
types and their definitions removed with their groups) gives the context built from the individually filtered
process texts; the same for `base`. Filtering does not depend on which other processes are ongoing. -/
theorem unfold_commutes (T N : List Str) (tbl : List TNode) (b : Built) (i : Nat) :
    filterHed T N true (ctxNodes tbl b i) =
      (b.procs.filter (inContext i)).flatMap (fun p => filterHed T N true [contentOf tbl p.content]) ∧
    filterHed T N true (baseNodes tbl b i) =
      (b.procs.filter (fun p => p.start == i)).flatMap (fun p => filterHed T N true [contentOf tbl p.content]) := by
  have h : ∀ l : List Proc, (l.map (·.content)).map (contentOf tbl) = l.flatMap (fun p => [contentOf tbl p.content]) := by
    intro l; induction l with
    | nil => rfl
    | cons x xs ih => simp [ih]
  constructor
  · simp only [ctxNodes, contextAt, h, filterHed_flatMap]
  · simp only [baseNodes, baseAt, h, filterHed_flatMap]

/-! ## the manager's frame is the time-point enumeration of the file (C10's `timePoints`) -/

/-- the temporal marker C10's machine sees in an item -/
def markerOf : Item → Option Temporal.Marker
  | .onset n _ => some ⟨.onset, n⟩
  | .offset n => some ⟨.offset, n⟩
  | .inset n _ => some ⟨.inset, n⟩
  | .duration _ _ => none
  | .plain _ => none

def markersOf (its : List Item) : List Temporal.Marker := its.filterMap markerOf

/-- the file as C10's model reads it -/
def toT (r : Row) : Temporal.Row :=
  ⟨r.time, markersOf r.items, r.delayed.map fun di => (di.1, markersOf [di.2])⟩

def projT (r : Temporal.TRow) : Int × List Temporal.Marker := (r.time, r.markers)
def projE (r : FRow) : Int × List Temporal.Marker := (r.time, markersOf r.items)

theorem markersOf_append (a b : List Item) : markersOf (a ++ b) = markersOf a ++ markersOf b := by
  simp [markersOf, List.filterMap_append]

theorem own_proj (rows : List Row) (i : Nat) :
    (Temporal.splitRows.own i (rows.map toT)).map projT = (ownRows rows).map projE := by
  induction rows generalizing i with
  | nil => rfl
  | cons r rs ih =>
    simp only [List.map_cons, Temporal.splitRows.own, ownRows] at ih ⊢
    rw [ih]
    rfl

theorem del_proj (rows : List Row) (i : Nat) :
    (Temporal.splitRows.del i (rows.map toT)).map projT = (delayRows rows).map projE := by
  induction rows generalizing i with
  | nil => rfl
  | cons r rs ih =>
    simp only [List.map_cons, Temporal.splitRows.del, delayRows, List.map_append, ih]
    congr 1
    simp [toT, projT, projE, Function.comp_def]

theorem split_proj (rows : List Row) :
    (Temporal.splitRows (rows.map toT)).map projT = (splitRows rows).map projE := by
  simp only [Temporal.splitRows, splitRows, List.map_append, own_proj, del_proj]

theorem insert_proj {x : Temporal.TRow} {x' : FRow} (hx : projT x = projE x') :
    ∀ (l : List Temporal.TRow) (l' : List FRow), l.map projT = l'.map projE →
      (Temporal.insertRow x l).map projT = (insertRow x' l').map projE := by
  intro l
  induction l with
  | nil =>
    intro l' h
    cases l' with
    | nil => simp [Temporal.insertRow, insertRow, hx]
    | cons _ _ => simp at h
  | cons y ys ih =>
    intro l' h
    cases l' with
    | nil => simp at h
    | cons y' ys' =>
      simp only [List.map_cons, List.cons.injEq] at h
      have hxt : x.time = x'.time := congrArg Prod.fst hx
      have hyt : y.time = y'.time := congrArg Prod.fst h.1
      simp only [Temporal.insertRow, insertRow, hxt, hyt]
      split
      · simp [hx, h.1, h.2]
      · simp [h.1, ih ys' h.2]

theorem sort_proj (l : List Temporal.TRow) (l' : List FRow) (h : l.map projT = l'.map projE) :
    (Temporal.sortRows l).map projT = (sortRows l').map projE := by
  induction l generalizing l' with
  | nil =>
    cases l' with
    | nil => rfl
    | cons _ _ => simp at h
  | cons x xs ih =>
    cases l' with
    | nil => simp at h
    | cons x' xs' =>
      simp only [List.map_cons, List.cons.injEq] at h
      exact insert_proj h.1 _ _ (ih xs' h.2)

/-- `filter_series_by_onset` seen from the right, as C10 models it: runs of equal times joined -/
def points : List FRow → List (Int × List Item)
  | [] => []
  | x :: xs =>
    match points xs with
    | [] => [(x.time, x.items)]
    | (t, its) :: ys => if x.time = t then (x.time, x.items ++ its) :: ys else (x.time, x.items) :: (t, its) :: ys

theorem merge_proj (l : List Temporal.TRow) (l' : List FRow) (h : l.map projT = l'.map projE) :
    (Temporal.mergeRows l).map projT = (points l').map (fun p => (p.1, markersOf p.2)) := by
  induction l generalizing l' with
  | nil =>
    cases l' with
    | nil => rfl
    | cons _ _ => simp at h
  | cons x xs ih =>
    cases l' with
    | nil => simp at h
    | cons x' xs' =>
      simp only [List.map_cons, List.cons.injEq] at h
      have hxt : x.time = x'.time := congrArg Prod.fst h.1
      have hxm : x.markers = markersOf x'.items := congrArg Prod.snd h.1
      have := ih xs' h.2
      simp only [Temporal.mergeRows, points]
      cases hm : Temporal.mergeRows xs with
      | nil =>
        cases hp : points xs' with
        | nil => simp [projT, hxt, hxm]
        | cons q qs => simp [hm, hp] at this
      | cons y ys =>
        cases hp : points xs' with
        | nil => simp [hm, hp] at this
        | cons q qs =>
          obtain ⟨t, its⟩ := q
          simp only [hm, hp, List.map_cons, List.cons.injEq, projT, Prod.mk.injEq] at this
          obtain ⟨⟨ht, hmk⟩, hrest⟩ := this
          simp only [hxt, ht]
          split <;> simp [projT, hxt, hxm, ht, hmk, hrest, markersOf_append]

theorem points_cons (r : FRow) (rs : List FRow) :
    points (r :: rs) =
      (r.time, r.items ++ groupItems r.time rs) :: points (rs.dropWhile (fun s => s.time == r.time)) := by
  induction rs generalizing r with
  | nil => simp [points, groupItems]
  | cons s ss ih =>
    rw [points, ih s]
    by_cases e : r.time = s.time
    · simp [e, groupItems]
    · have e' : ¬ s.time = r.time := fun h => e h.symm
      simp [e, groupItems, e', ih s]

/-- the rows of the merged frame that stand for a time point: those whose onset differs from the previous row's -/
def firstRows : Option Int → List FRow → List FRow
  | _, [] => []
  | prev, x :: xs => if prev = some x.time then firstRows (some x.time) xs else x :: firstRows (some x.time) xs

theorem firstRows_merge_some (t : Int) (l : List FRow) :
    (firstRows (some t) (merge (some t) l)).map (fun r => (r.time, r.items)) =
      points (l.dropWhile (fun s => s.time == t)) := by
  induction l generalizing t with
  | nil => rfl
  | cons r rs ih =>
    simp only [merge, firstRows]
    by_cases e : r.time = t
    · simp [e, ih]
    · have e' : ¬ (some t = some r.time) := fun h => e (by injection h with h; exact h.symm)
      simp only [e', if_false, List.map_cons, ih r.time]
      simp [e, points_cons]

theorem firstRows_merge_none (l : List FRow) :
    (firstRows none (merge none l)).map (fun r => (r.time, r.items)) = points l := by
  cases l with
  | nil => rfl
  | cons r rs =>
    simp only [merge, firstRows, reduceCtorEq, if_false, List.map_cons, firstRows_merge_some, points_cons]

/-- **time points.** The rows of the manager's merged frame that start a time point are, in order, exactly the
time points C10's model enumerates for the same file (same times, same temporal markers) … -/
theorem frame_is_timepoints (rows : List Row) :
    (Temporal.timePoints (rows.map toT)).map (fun tp => (tp.time, tp.markers)) =
      (firstRows none (merge none (frame rows))).map (fun r => (r.time, markersOf r.items)) := by
  have h := merge_proj _ _ (sort_proj _ _ (split_proj rows))
  have h2 := firstRows_merge_none (frame rows)
  unfold Temporal.timePoints
  have h3 : ∀ l : List Temporal.TRow, l.map (fun tp => (tp.time, tp.markers)) = l.map projT := fun _ => rfl
  rw [h3, h]
  show List.map _ (points (frame rows)) = _
  rw [← h2, List.map_map]
  rfl

/-- … which by C10's `timePoints_spec` are the strictly increasing distinct effective times (own onsets and
Delay-shifted times) of the file, each with everything that happens at that time. -/
theorem frame_times_are_effective_times (rows : List Row) :
    (firstRows none (merge none (frame rows))).map (·.time) = C10.effTimes (rows.map toT) ∧
    (C10.effTimes (rows.map toT)).Pairwise (· < ·) ∧
    ∀ τ, τ ∈ C10.effTimes (rows.map toT) ↔ ∃ r ∈ Temporal.splitRows (rows.map toT), r.time = τ := by
  refine ⟨?_, (C10.timePoints_spec _).2.1, (C10.timePoints_spec _).2.2⟩
  have := congrArg (List.map Prod.fst) (frame_is_timepoints rows)
  simp only [List.map_map, Function.comp_def] at this
  rw [C10.effTimes]
  exact this.symm

/-! ## files that temporal validation accepts are never rejected by the constructor -/

open HedVerif.Temporal (Marker MKind) in
/-- C10's transition (`Temporal.handle`) run over a flat sequence of markers without error -/
def seqOK (fold : Str → Str) : List Str → List Temporal.Marker → Prop
  | _, [] => True
  | op, m :: ms => (Temporal.handle op m.kind (fold m.name)).2 = none ∧
      seqOK fold (Temporal.handle op m.kind (fold m.name)).1 ms

def seqOp (fold : Str → Str) : List Str → List Temporal.Marker → List Str
  | op, [] => op
  | op, m :: ms => seqOp fold (Temporal.handle op m.kind (fold m.name)).1 ms

theorem seqOK_append (fold : Str → Str) (op : List Str) (a b : List Temporal.Marker) :
    seqOK fold op (a ++ b) ↔ seqOK fold op a ∧ seqOK fold (seqOp fold op a) b := by
  induction a generalizing op with
  | nil => simp [seqOK, seqOp]
  | cons m ms ih => simp only [List.cons_append, seqOK, seqOp, ih, and_assoc]

theorem go_ok (fold : Str → Str) (ms : List Temporal.Marker) (st : List Str × List Str) (i : Nat)
    (h : (Temporal.stepPoint.go fold st i ms).2 = []) :
    seqOK fold st.1 ms ∧ (Temporal.stepPoint.go fold st i ms).1 = seqOp fold st.1 ms := by
  induction ms generalizing st i with
  | nil => simp [seqOK, seqOp, Temporal.stepPoint.go]
  | cons m rest ih =>
    simp only [Temporal.stepPoint.go, Temporal.stepMarker] at h ⊢
    by_cases hc : fold m.name ∈ st.2
    · simp [hc] at h
    · have hc' : ¬ st.2.contains (fold m.name) = true := by simpa using hc
      simp only [hc'] at h ⊢
      cases he : (Temporal.handle st.1 m.kind (fold m.name)).2 with
      | some x => simp [he] at h
      | none =>
        simp only [he] at h ⊢
        have := ih _ _ h
        exact ⟨⟨he, this.1⟩, this.2⟩

theorem run_ok (fold : Str → Str) (tps : List (List Temporal.Marker)) (op : List Str) (t : Nat)
    (h : Temporal.run fold op t tps = []) : seqOK fold op tps.flatten := by
  induction tps generalizing op t with
  | nil => simp [seqOK]
  | cons ms rest ih =>
    simp only [Temporal.run, List.append_eq_nil_iff, List.map_eq_nil_iff] at h
    have hg := go_ok fold ms (op, []) 0 h.1
    simp only [List.flatten_cons, seqOK_append]
    refine ⟨hg.1, ?_⟩
    rw [← hg.2]
    exact ih _ _ h.2

def notInset (m : Temporal.Marker) : Bool := m.kind != .inset

theorem seq_filter (fold : Str → Str) (ms : List Temporal.Marker) (op : List Str) :
    seqOp fold op (ms.filter notInset) = seqOp fold op ms ∧
    (seqOK fold op ms → seqOK fold op (ms.filter notInset)) := by
  induction ms generalizing op with
  | nil => simp [seqOK]
  | cons m rest ih =>
    obtain ⟨k, n⟩ := m
    cases k <;> simp only [List.filter_cons, notInset, seqOp, seqOK, Temporal.handle] <;>
      simp only [bne_self_eq_false, Bool.false_eq_true, if_false, reduceCtorEq, bne_iff_ne, ne_eq,
        not_false_eq_true, if_true, seqOp, seqOK, Temporal.handle]
    · exact ⟨(ih _).1, fun h => ⟨h.1, (ih _).2 h.2⟩⟩
    · split
      · exact ⟨(ih _).1, fun h => ⟨h.1, (ih _).2 h.2⟩⟩
      · exact ⟨(ih _).1, fun h => ⟨h.1, (ih _).2 h.2⟩⟩
    · split
      · exact ⟨(ih _).1, fun h => (ih _).2 h.2⟩
      · exact ⟨(ih _).1, fun h => (ih _).2 h.2⟩

/-- the Onset/Offset marker the scan meets in an item -/
def markNI : Item → Option Temporal.Marker
  | .onset n _ => some ⟨.onset, n⟩
  | .offset n => some ⟨.offset, n⟩
  | .duration _ _ => none
  | .plain _ => none
  | .inset _ _ => none

def markerSeq (acts : List Act) : List Temporal.Marker := acts.filterMap fun a => markNI a.item

/-- `onset_dict` and C10's open-scope list hold the same names -/
def Keys (op : List Str) (opn : Open) : Prop := op.Nodup ∧ ∀ k, k ∈ op ↔ ∃ j, (k, j) ∈ opn

theorem closeIfOpen_mem {k : Str} {i : Nat} {st : State} {e : Str × Nat} :
    e ∈ (closeIfOpen k i st).opn ↔ e ∈ st.opn ∧ e.1 ≠ k := by
  unfold closeIfOpen
  cases hg : getOpen k st.opn with
  | some j => exact mem_delOpen
  | none =>
    simp only
    constructor
    · intro h
      refine ⟨h, fun hk => ?_⟩
      exact getOpen_none hg e.2 (by rw [← hk]; exact h)
    · exact fun h => h.1

theorem handle_offset_mem {op : List Str} {k : Str} (h : k ∈ op) :
    Temporal.handle op .offset k = (op.erase k, none) := by simp [Temporal.handle, h]

theorem handle_offset_not {op : List Str} {k : Str} (h : k ∉ op) :
    (Temporal.handle op .offset k).2 ≠ none := by simp [Temporal.handle, h]

theorem run_never_unmatched (fold : Str → Str) (ts : List Int) (acts : List Act) (st : State) (op : List Str)
    (hk : Keys op st.opn) (h : seqOK fold op (markerSeq acts)) : ∃ st', run fold ts st acts = .ok st' := by
  induction acts generalizing st op with
  | nil => exact ⟨st, rfl⟩
  | cons a rest ih =>
    simp only [run]
    cases hitem : a.item with
    | onset name c =>
      simp only [markerSeq, List.filterMap_cons, hitem, markNI, seqOK, Temporal.handle] at h
      simp only [step, hitem]
      refine ih _ (Temporal.insertKey op (fold name)) ⟨?_, ?_⟩ h.2
      · unfold Temporal.insertKey
        split
        · exact hk.1
        · rename_i hc
          exact List.nodup_cons.2 ⟨by simpa using hc, hk.1⟩
      · intro k'
        have hm : k' ∈ Temporal.insertKey op (fold name) ↔ k' = fold name ∨ k' ∈ op := by
          unfold Temporal.insertKey
          split
          · rename_i hc
            have : fold name ∈ op := by simpa using hc
            constructor
            · exact Or.inr
            · rintro (rfl | h') <;> assumption
          · simp
        rw [hm, hk.2]
        simp only [List.mem_cons, Prod.mk.injEq, closeIfOpen_mem]
        constructor
        · rintro (rfl | ⟨j, hj⟩)
          · exact ⟨_, Or.inl ⟨rfl, rfl⟩⟩
          · by_cases e : k' = fold name
            · exact ⟨_, Or.inl ⟨e, rfl⟩⟩
            · exact ⟨j, Or.inr ⟨hj, e⟩⟩
        · rintro ⟨j, (⟨e, _⟩ | ⟨hj, _⟩)⟩
          · exact Or.inl e
          · exact Or.inr ⟨j, hj⟩
    | offset name =>
      simp only [markerSeq, List.filterMap_cons, hitem, markNI, seqOK] at h
      by_cases hmem : fold name ∈ op
      · rw [handle_offset_mem hmem] at h
        obtain ⟨j, hj⟩ := (hk.2 _).1 hmem
        cases hg : getOpen (fold name) st.opn with
        | none => exact absurd hj (getOpen_none hg j)
        | some j' =>
          simp only [step, hitem, hg]
          refine ih _ (op.erase (fold name)) ⟨hk.1.erase _, ?_⟩ h.2
          intro k'
          rw [hk.1.mem_erase_iff, hk.2]
          constructor
          · rintro ⟨hne, j, hj⟩; exact ⟨j, mem_delOpen.2 ⟨hj, hne⟩⟩
          · rintro ⟨j, hj⟩
            have := mem_delOpen.1 hj
            exact ⟨this.2, j, this.1⟩
      · exact absurd h.1 (handle_offset_not hmem)
    | duration len c =>
      simp only [markerSeq, List.filterMap_cons, hitem, markNI] at h
      simp only [step, hitem]
      exact ih _ op hk h
    | plain c =>
      simp only [markerSeq, List.filterMap_cons, hitem, markNI] at h
      simp only [step, hitem]
      exact ih _ op hk h
    | inset nm c =>
      simp only [markerSeq, List.filterMap_cons, hitem, markNI] at h
      simp only [step, hitem]
      exact ih _ op hk h

theorem markersOf_filter (its : List Item) : (markersOf its).filter notInset = its.filterMap markNI := by
  induction its with
  | nil => rfl
  | cons x xs ih =>
    have ih' : (List.filterMap markerOf xs).filter notInset = xs.filterMap markNI := ih
    cases x <;> simp [markersOf, markerOf, markNI, notInset, List.filter_cons, List.filterMap_cons, ih']

theorem rowActs_markers (i : Nat) (r : FRow) : markerSeq (rowActs i r) = r.items.filterMap markNI := by
  simp only [markerSeq, rowActs, List.filterMap_map, List.filterMap_append, Function.comp_def]
  have h1 : ∀ l : List Item, (l.filter isMarker).filterMap markNI = l.filterMap markNI := by
    intro l; induction l with
    | nil => rfl
    | cons x xs ih => cases x <;> simp [List.filter_cons, List.filterMap_cons, isMarker, markNI, ih]
  have h2 : ∀ l : List Item, (l.filter isDuration).filterMap markNI = [] := by
    intro l; induction l with
    | nil => rfl
    | cons x xs ih => cases x <;> simp [List.filter_cons, List.filterMap_cons, isDuration, markNI, ih]
  simp [h1, h2]

theorem actsFrom_markers (k : Nat) (l : List FRow) :
    markerSeq (actsFrom k l) = l.flatMap (fun r => r.items.filterMap markNI) := by
  induction l generalizing k with
  | nil => rfl
  | cons r rs ih =>
    have : ∀ a b : List Act, markerSeq (a ++ b) = markerSeq a ++ markerSeq b := by
      intro a b; simp [markerSeq, List.filterMap_append]
    simp only [actsFrom, this, rowActs_markers, ih, List.flatMap_cons]

theorem firstRows_flatMap (g : List Item → List Temporal.Marker) (hg : g [] = []) (prev : Option Int)
    (l : List FRow) :
    (merge prev l).flatMap (fun r => g r.items) = (firstRows prev (merge prev l)).flatMap (fun r => g r.items) := by
  induction l generalizing prev with
  | nil => rfl
  | cons r rs ih =>
    simp only [merge, firstRows]
    by_cases e : prev = some r.time
    · simp [e, hg, ih]
    · simp [e, ih]

/-- **valid histories are never rejected.** If the onsets are non-decreasing and C10's temporal machine
(`Temporal.run` on the time points of the file, Insets included) reports no error, the constructor does not
raise: `onset_dict.pop` always finds its key. -/
theorem valid_history_never_rejected (fold : Str → Str) (rows : List Row)
    (hord : nonDecreasing (rows.map (·.time)) = true)
    (hT : Temporal.run fold [] 0 ((Temporal.timePoints (rows.map toT)).map (·.markers)) = []) :
    ∃ b, build fold rows = .ok b := by
  have h1 : (Temporal.timePoints (rows.map toT)).map (·.markers) =
      (firstRows none (merge none (frame rows))).map (fun r => markersOf r.items) := by
    have := congrArg (List.map Prod.snd) (frame_is_timepoints rows)
    simpa [List.map_map, Function.comp_def] using this
  rw [h1] at hT
  have h2 := (seq_filter fold _ []).2 (run_ok fold _ [] 0 hT)
  have h3 : markerSeq (history rows) =
      ((firstRows none (merge none (frame rows))).map (fun r => markersOf r.items)).flatten.filter notInset := by
    rw [history, actsFrom_markers, firstRows_flatMap _ rfl]
    generalize firstRows none (merge none (frame rows)) = L
    induction L with
    | nil => rfl
    | cons r rs ih => simp [List.flatMap_cons, List.filter_append, markersOf_filter, ih]
  rw [← h3] at h2
  obtain ⟨st, hst⟩ := run_never_unmatched fold ((frame rows).map (·.time)) (history rows) ⟨[], []⟩ []
    ⟨List.nodup_nil, by simp⟩ h2
  have hb : build fold rows = .ok ⟨(frame rows).map (·.time), finish ((frame rows).map (·.time)).length st,
      (merge none (frame rows)).map fun r => plainOf r.items⟩ := by
    simp only [build, hord, if_true, hst]
  exact ⟨_, hb⟩

/-! ### the same on the text of the file -/

/-- classification raises only for an Onset/Offset group without Def (`IndexError`) or a Duration without a
usable value (`TypeError`) — both rejected by string validation -/
theorem classify_ok (vals : Str → Option Int) (id : Nat) (n : TNode)
    (hdef : ∀ ks, n = .group ks →
      ((directTags ks).find? (fun t => isB kOnset t || isB kOffset t)).isSome = true → defExts ks ≠ [])
    (hval : ∀ ks t, n = .group ks →
      ((directTags ks).filter (isB kDuration)).getLast? = some t → (vals t).isSome = true) :
    ∃ it, classify vals id n = .ok it := by
  cases n with
  | tag t => exact ⟨_, rfl⟩
  | group ks =>
    cases hf : (directTags ks).find? (fun t => isB kOnset t || isB kOffset t) with
    | some t =>
      have := hdef ks rfl (by simp [hf])
      cases hd : defExts ks with
      | nil => exact absurd hd this
      | cons e es => by_cases ho : isB kOnset t = true <;> simp [classify, hf, hd, ho]
    | none =>
      cases hl : ((directTags ks).filter (isB kDuration)).getLast? with
      | some t =>
        have := hval ks t rfl hl
        cases hv : vals t with
        | none => simp [hv] at this
        | some v => simp [classify, hf, hl, hv]
      | none =>
        by_cases hi : (directTags ks).any (isB kInset) = true <;> simp [classify, hf, hl, hi]

theorem toRows_times {vals : Str → Option Int} {rows : List TextRow} {id : Nat} {rs : List Row}
    (h : toRows vals id rows = .ok rs) : rs.map (·.time) = rows.map (·.time) := by
  induction rows generalizing id rs with
  | nil => simp [toRows] at h; subst h; rfl
  | cons r rest ih =>
    cases h1 : rowItems vals id r.nodes with
    | error e => simp [toRows, h1] at h
    | ok ab =>
      cases h2 : toRows vals (id + r.nodes.length) rest with
      | error e => simp [toRows, h1, h2] at h
      | ok rs' =>
        obtain ⟨a, b⟩ := ab
        simp only [toRows, h1, h2, Except.ok.injEq] at h
        subst h
        simp [ih h2]

/-- **valid files are never rejected (text level).** If every top-level group classifies (`classify_ok`), the
onsets are non-decreasing and C10's temporal machine accepts the file, `EventManager(…)` does not raise. -/
theorem valid_text_never_rejected (fold : Str → Str) (vals : Str → Option Int) (rows : List TextRow)
    (rs : List Row) (hrows : toRows vals 0 rows = .ok rs)
    (hord : nonDecreasing (rows.map (·.time)) = true)
    (hT : Temporal.run fold [] 0 ((Temporal.timePoints (rs.map toT)).map (·.markers)) = []) :
    ∃ b, buildText fold vals rows = .ok b := by
  have hord' : nonDecreasing (rs.map (·.time)) = true := by rw [toRows_times hrows]; exact hord
  obtain ⟨b, hb⟩ := valid_history_never_rejected fold rs hord' hT
  exact ⟨b, by simp only [buildText, hord, if_true, hrows, hb]⟩

/-- non-vacuity on text: `(def/A, onset, (Red))` at 1 s, `(Def/a, Offset)` with an Inset group at 2 s -/
def textSample : List TextRow :=
  [⟨8, [.group [.tag ['d','e','f','/','A'], .tag ['o','n','s','e','t'], .group [.tag ['R','e','d']]]]⟩,
   ⟨16, [.group [.tag ['D','e','f','/','a'], .tag ['O','f','f','s','e','t']],
         .group [.tag ['D','e','f','/','A'], .tag ['I','n','s','e','t'], .group [.tag ['R','e','d']]]]⟩]

example : ∃ b, buildText (fun s => s.map Char.toLower) (fun _ => none) textSample = .ok b ∧
    b.procs.map (fun p => (p.start, p.stop)) = [(0, some 1)] ∧
    (baseNodes (table textSample) b 0).map render = [['(','D','e','f','/','A',',','(','R','e','d',')',')']] ∧
    b.rem = [[], [2]] ∧
    render (plainNode (table textSample) 2) =
      ['(','D','e','f','/','A',',','I','n','s','e','t',',','(','R','e','d',')',')'] :=
  ⟨⟨[8, 16], [⟨0, 0, some 1, ['a'], 0⟩], [[], [2]]⟩, by rfl, by rfl, by rfl, by rfl, by rfl⟩

/-! ## refinement: the manager's ongoing Onset processes are the validator's open set (C10) -/

/-- C10's open-scope set after the time points up to and including time `τ`
(`OnsetValidator._onsets` after validating them in order) -/
def validatorOpen (fold : Str → Str) (tps : List Temporal.TRow) (τ : Int) : List Str :=
  ((tps.filter fun r => decide (r.time ≤ τ)).map (·.markers)).foldl
    (fun op ms => (Temporal.stepPoint fold op ms).1) []

/-- kind of the last Onset/Offset marker of the folded name `k` -/
def lastNI (fold : Str → Str) (k : Str) : List Temporal.Marker → Option Temporal.MKind
  | [] => none
  | m :: ms =>
    match lastNI fold k ms with
    | some x => some x
    | none => if notInset m && fold m.name == k then some m.kind else none

/-- the Onset/Offset markers of the history up to and including time `τ` -/
def markersUpTo (τ : Int) (H : List (Int × Item)) : List Temporal.Marker :=
  (H.filter fun p => decide (p.1 ≤ τ)).filterMap fun p => markNI p.2

theorem lastNI_filter (fold : Str → Str) (k : Str) (ms : List Temporal.Marker) :
    lastNI fold k (ms.filter notInset) = lastNI fold k ms := by
  induction ms with
  | nil => rfl
  | cons m rest ih =>
    by_cases hm : notInset m = true
    · simp [List.filter_cons, hm, lastNI, ih]
    · simp [List.filter_cons, hm, lastNI, ih]
      cases lastNI fold k rest <;> rfl

theorem markersUpTo_nil_of_gt {τ : Int} {H : List (Int × Item)} (h : ∀ x ∈ H, τ < x.1) :
    markersUpTo τ H = [] := by
  have : H.filter (fun p => decide (p.1 ≤ τ)) = [] := by
    rw [List.filter_eq_nil_iff]
    intro x hx
    have := h x hx
    simp; omega
  simp [markersUpTo, this]

theorem markersUpTo_cons (τ : Int) (t : Int) (it : Item) (H : List (Int × Item)) (h : t ≤ τ) :
    markersUpTo τ ((t, it) :: H) = (match markNI it with | some m => [m] | none => []) ++ markersUpTo τ H := by
  simp only [markersUpTo, List.filter_cons, h, decide_true, if_true, List.filterMap_cons]
  cases markNI it <;> rfl

theorem nextTime_mem {fold : Str → Str} {k : Str} {H : List (Int × Item)} {t : Int}
    (h : nextTime fold k H = some t) : ∃ x ∈ H, x.1 = t := by
  induction H with
  | nil => simp [nextTime] at h
  | cons x xs ih =>
    obtain ⟨t', it⟩ := x
    simp only [nextTime] at h
    split at h
    · injection h with h; exact ⟨_, List.mem_cons_self .., h⟩
    · obtain ⟨y, hy, e⟩ := ih h; exact ⟨y, List.mem_cons_of_mem _ hy, e⟩

theorem markNI_key (fold : Str → Str) (it : Item) (k : Str) :
    (markerKey fold it = some k) ↔ ∃ m, markNI it = some m ∧ fold m.name = k := by
  cases it <;> simp [markerKey, markNI]

theorem markNI_notInset {it : Item} {m : Temporal.Marker} (h : markNI it = some m) : notInset m = true := by
  cases it <;> simp [markNI] at h <;> subst h <;> rfl

/-- "the process is not ended by time `τ`" = "no marker of its name up to `τ`" -/
theorem ltInf_next_iff (fold : Str → Str) (k : Str) (τ : Int) (H : List (Int × Item))
    (hs : H.Pairwise (fun a b => a.1 ≤ b.1)) :
    ltInf τ (nextTime fold k H) = true ↔ lastNI fold k (markersUpTo τ H) = none := by
  induction H with
  | nil => simp [nextTime, ltInf, markersUpTo, lastNI]
  | cons x xs ih =>
    obtain ⟨t, it⟩ := x
    rw [List.pairwise_cons] at hs
    by_cases ht : t ≤ τ
    · rw [markersUpTo_cons _ _ _ _ ht]
      simp only [nextTime]
      by_cases hk : markerKey fold it = some k
      · obtain ⟨m, hm, hmk⟩ := (markNI_key fold it k).1 hk
        simp only [hk, if_true, ltInf, hm, List.cons_append, List.nil_append, lastNI, markNI_notInset hm,
          hmk, BEq.rfl, Bool.and_self, if_true]
        constructor
        · intro h; simp at h; omega
        · intro h; cases hl : lastNI fold k (markersUpTo τ xs) <;> simp [hl] at h
      · simp only [hk, if_false]
        rw [ih hs.2]
        cases hm : markNI it with
        | none => rfl
        | some m =>
          have hne : ¬ fold m.name = k := fun e => hk ((markNI_key fold it k).2 ⟨m, hm, e⟩)
          simp only [List.cons_append, List.nil_append, lastNI]
          cases hl : lastNI fold k (markersUpTo τ xs) with
          | some x => simp
          | none => simp [hne]
    · have hgt : ∀ y ∈ ((t, it) :: xs), τ < y.1 := by
        intro y hy
        rcases List.mem_cons.1 hy with rfl | hy
        · simp; omega
        · have := hs.1 y hy; simp at this; omega
      rw [markersUpTo_nil_of_gt hgt]
      simp only [lastNI, iff_true]
      cases hn : nextTime fold k ((t, it) :: xs) with
      | none => rfl
      | some t' =>
        obtain ⟨y, hy, e⟩ := nextTime_mem hn
        have := hgt y hy
        simp [ltInf]; omega

theorem specProcs_start_mem {fold : Str → Str} {ts : List Int} {H : List (Int × Item)} {q : SProc}
    (h : q ∈ specProcs fold ts H) : ∃ x ∈ H, q.start = x.1 := by
  induction H with
  | nil => simp [specProcs] at h
  | cons x xs ih =>
    obtain ⟨t, it⟩ := x
    cases it <;> simp only [specProcs, List.mem_cons] at h
    · rcases h with rfl | h
      · exact ⟨_, List.mem_cons_self .., rfl⟩
      · obtain ⟨y, hy, e⟩ := ih h; exact ⟨y, List.mem_cons_of_mem _ hy, e⟩
    · obtain ⟨y, hy, e⟩ := ih h; exact ⟨y, List.mem_cons_of_mem _ hy, e⟩
    · rcases h with rfl | h
      · exact ⟨_, List.mem_cons_self .., rfl⟩
      · obtain ⟨y, hy, e⟩ := ih h; exact ⟨y, List.mem_cons_of_mem _ hy, e⟩
    · obtain ⟨y, hy, e⟩ := ih h; exact ⟨y, List.mem_cons_of_mem _ hy, e⟩
    · obtain ⟨y, hy, e⟩ := ih h; exact ⟨y, List.mem_cons_of_mem _ hy, e⟩

theorem mem_ongoingKeys {ps : List SProc} {τ : Int} {k : Str} :
    k ∈ ongoingKeys ps τ ↔ ∃ q ∈ ps, q.start ≤ τ ∧ ltInf τ q.stop = true ∧ q.key = some k := by
  simp [ongoingKeys, List.mem_filterMap, List.mem_filter, and_assoc]

/-- the look-ahead description of the statement, read as "the last marker of the name is an Onset" -/
theorem ongoing_iff_last_onset (fold : Str → Str) (ts : List Int) (k : Str) (τ : Int) (H : List (Int × Item))
    (hs : H.Pairwise (fun a b => a.1 ≤ b.1)) :
    k ∈ ongoingKeys (specProcs fold ts H) τ ↔ lastNI fold k (markersUpTo τ H) = some .onset := by
  induction H with
  | nil => simp [ongoingKeys, specProcs, markersUpTo, lastNI]
  | cons x xs ih =>
    obtain ⟨t, it⟩ := x
    rw [List.pairwise_cons] at hs
    by_cases ht : t ≤ τ
    · rw [markersUpTo_cons _ _ _ _ ht]
      have ih' := ih hs.2
      have hnext := ltInf_next_iff fold k τ xs hs.2
      rw [mem_ongoingKeys] at ih' ⊢
      cases it with
      | onset name c =>
        simp only [specProcs, markNI, List.cons_append, List.nil_append, lastNI, List.mem_cons, exists_eq_or_imp]
        have hni : notInset (⟨.onset, name⟩ : Temporal.Marker) = true := rfl
        simp only [hni, Bool.true_and]
        rw [ih']
        by_cases hk : fold name = k
        · subst hk
          simp only [ht, true_and, hnext, BEq.rfl, if_true, Option.some.injEq]
          cases hl : lastNI fold (fold name) (markersUpTo τ xs) with
          | none => simp
          | some x => simp
        · have hk' : (fold name == k) = false := by simpa using hk
          simp only [Option.some.injEq, hk, and_false, false_or, hk']
          cases hl : lastNI fold k (markersUpTo τ xs) <;> simp
      | offset name =>
        simp only [specProcs, markNI, List.cons_append, List.nil_append, lastNI]
        rw [ih']
        cases hl : lastNI fold k (markersUpTo τ xs) with
        | some x => simp
        | none =>
          simp only [false_iff]
          split <;> simp
      | duration len c =>
        simp only [specProcs, markNI, List.nil_append, List.mem_cons, exists_eq_or_imp]
        rw [← ih']
        simp
      | plain c =>
        simp only [specProcs, markNI, List.nil_append]
        exact ih'
      | inset nm c =>
        simp only [specProcs, markNI, List.nil_append]
        exact ih'
    · have hgt : ∀ y ∈ ((t, it) :: xs), τ < y.1 := by
        intro y hy
        rcases List.mem_cons.1 hy with rfl | hy
        · simp; omega
        · have := hs.1 y hy; simp at this; omega
      rw [markersUpTo_nil_of_gt hgt, mem_ongoingKeys]
      simp only [lastNI, reduceCtorEq, iff_false, not_exists, not_and]
      intro q hq hle
      obtain ⟨y, hy, e⟩ := specProcs_start_mem hq
      have := hgt y hy
      omega

theorem mem_insertKey {op : List Str} {k k' : Str} :
    k' ∈ Temporal.insertKey op k ↔ k' = k ∨ k' ∈ op := by
  unfold Temporal.insertKey
  split
  · rename_i hc
    have : k ∈ op := by simpa using hc
    constructor
    · exact Or.inr
    · rintro (rfl | h') <;> assumption
  · simp

theorem nodup_insertKey {op : List Str} {k : Str} (h : op.Nodup) : (Temporal.insertKey op k).Nodup := by
  unfold Temporal.insertKey
  split
  · exact h
  · rename_i hc
    exact List.nodup_cons.2 ⟨by simpa using hc, h⟩

/-- C10's machine, read the same way: after an error-free run a name is open iff its last marker is an Onset -/
theorem seqOp_iff_last_onset (fold : Str → Str) (k : Str) (ms : List Temporal.Marker) (op : List Str)
    (hn : op.Nodup) (hok : seqOK fold op ms) :
    (k ∈ seqOp fold op ms ↔ lastNI fold k ms = some .onset ∨ (lastNI fold k ms = none ∧ k ∈ op)) ∧
    (seqOp fold op ms).Nodup := by
  induction ms generalizing op with
  | nil => simp [seqOp, lastNI, hn]
  | cons m rest ih =>
    obtain ⟨kind, name⟩ := m
    simp only [seqOK] at hok
    simp only [seqOp, lastNI]
    cases kind with
    | onset =>
      have := ih (Temporal.insertKey op (fold name)) (nodup_insertKey hn) (by simpa [Temporal.handle] using hok.2)
      simp only [Temporal.handle]
      refine ⟨?_, this.2⟩
      rw [this.1, mem_insertKey]
      have hni : notInset (⟨.onset, name⟩ : Temporal.Marker) = true := rfl
      cases hl : lastNI fold k rest with
      | some x => simp
      | none =>
        by_cases hk : fold name = k
        · simp [hni, hk]
        · have hk2 : ¬ k = fold name := fun e => hk e.symm
          simp [hni, hk, hk2]
    | offset =>
      by_cases hmem : fold name ∈ op
      · rw [handle_offset_mem hmem] at hok ⊢
        have := ih (op.erase (fold name)) (hn.erase _) hok.2
        refine ⟨?_, this.2⟩
        rw [this.1, hn.mem_erase_iff]
        have hni : notInset (⟨.offset, name⟩ : Temporal.Marker) = true := rfl
        cases hl : lastNI fold k rest with
        | some x => simp
        | none =>
          by_cases hk : fold name = k
          · simp [hni, hk]
          · have hk2 : ¬ k = fold name := fun e => hk e.symm
            simp [hni, hk, hk2]
      · exact absurd hok.1 (handle_offset_not hmem)
    | inset =>
      have hh : (Temporal.handle op .inset (fold name)).1 = op := by
        simp only [Temporal.handle]; split <;> rfl
      rw [hh] at hok ⊢
      have := ih op hn hok.2
      refine ⟨?_, this.2⟩
      rw [this.1]
      have hni : notInset (⟨.inset, name⟩ : Temporal.Marker) = false := rfl
      cases hl : lastNI fold k rest <;> simp [hni]

theorem run_prefix (fold : Str → Str) (a b : List (List Temporal.Marker)) (op : List Str) (t : Nat)
    (h : Temporal.run fold op t (a ++ b) = []) : Temporal.run fold op t a = [] := by
  induction a generalizing op t with
  | nil => rfl
  | cons ms rest ih =>
    simp only [List.cons_append, Temporal.run, List.append_eq_nil_iff, List.map_eq_nil_iff] at h ⊢
    exact ⟨h.1, ih _ _ h.2⟩

theorem open_fold (fold : Str → Str) (a : List (List Temporal.Marker)) (op : List Str) (t : Nat)
    (h : Temporal.run fold op t a = []) :
    a.foldl (fun op ms => (Temporal.stepPoint fold op ms).1) op = seqOp fold op a.flatten ∧
    seqOK fold op a.flatten := by
  induction a generalizing op t with
  | nil => simp [seqOp, seqOK]
  | cons ms rest ih =>
    simp only [Temporal.run, List.append_eq_nil_iff, List.map_eq_nil_iff] at h
    have hg := go_ok fold ms (op, []) 0 h.1
    have := ih _ _ h.2
    have hsp : (Temporal.stepPoint fold op ms).1 = seqOp fold op ms := hg.2
    have hcomp : ∀ (x y : List Temporal.Marker) (o : List Str), seqOp fold o (x ++ y) = seqOp fold (seqOp fold o x) y := by
      intro x
      induction x with
      | nil => intros; rfl
      | cons m xs ihx => intro y o; simp only [List.cons_append, seqOp, ihx]
    simp only [List.foldl_cons, List.flatten_cons, hcomp, seqOK_append, hsp]
    rw [← hsp]
    exact ⟨this.1, hg.1, this.2⟩

theorem filter_split {α : Type} (key : α → Int) (τ : Int) (l : List α)
    (h : l.Pairwise (fun a b => key a ≤ key b)) :
    l = (l.filter fun a => decide (key a ≤ τ)) ++ (l.filter fun a => !decide (key a ≤ τ)) := by
  induction l with
  | nil => rfl
  | cons x xs ih =>
    rw [List.pairwise_cons] at h
    by_cases hx : key x ≤ τ
    · simp only [List.filter_cons, hx, decide_true, if_true, Bool.not_true, Bool.false_eq_true, if_false,
        List.cons_append]
      rw [← ih h.2]
    · have h1 : xs.filter (fun a => decide (key a ≤ τ)) = [] := by
        rw [List.filter_eq_nil_iff]
        intro y hy
        have := h.1 y hy
        simp; omega
      have h2 : xs.filter (fun a => !decide (key a ≤ τ)) = xs := by
        rw [List.filter_eq_self]
        intro y hy
        have := h.1 y hy
        simp; omega
      simp [List.filter_cons, hx, h1, h2]

theorem rowActs_time_filter (τ : Int) (i : Nat) (r : FRow) :
    (rowActs i r).filter (fun a => decide (a.time ≤ τ)) = if r.time ≤ τ then rowActs i r else [] := by
  by_cases h : r.time ≤ τ
  · simp only [h, if_true]
    rw [List.filter_eq_self]
    intro a ha
    simp [(mem_rowActs ha).2.1, h]
  · simp only [h, if_false]
    rw [List.filter_eq_nil_iff]
    intro a ha
    simp [(mem_rowActs ha).2.1, h]

theorem markersUpTo_acts (τ : Int) (k : Nat) (l : List FRow) :
    markersUpTo τ (timed (actsFrom k l)) =
      l.flatMap (fun r => if r.time ≤ τ then r.items.filterMap markNI else []) := by
  have key : ∀ acts : List Act, markersUpTo τ (timed acts) =
      markerSeq (acts.filter fun a => decide (a.time ≤ τ)) := by
    intro acts
    induction acts with
    | nil => rfl
    | cons a as ih =>
      simp only [markersUpTo, timed, markerSeq, List.map_cons, List.filter_cons] at ih ⊢
      split <;> simp [List.filterMap_cons, ih]
  rw [key]
  induction l generalizing k with
  | nil => rfl
  | cons r rs ih =>
    have happ : ∀ a b : List Act, markerSeq (a ++ b) = markerSeq a ++ markerSeq b := by
      intro a b; simp [markerSeq, List.filterMap_append]
    simp only [actsFrom, List.filter_append, happ, rowActs_time_filter, ih, List.flatMap_cons]
    split
    · rw [rowActs_markers]
    · rfl

theorem firstRows_flatMap_row {β : Type} (g : FRow → List β) (hg : ∀ t, g ⟨t, []⟩ = []) (prev : Option Int)
    (l : List FRow) : (merge prev l).flatMap g = (firstRows prev (merge prev l)).flatMap g := by
  induction l generalizing prev with
  | nil => rfl
  | cons r rs ih =>
    simp only [merge, firstRows]
    by_cases e : prev = some r.time
    · simp [e, hg, ih]
    · simp [e, ih]

/-- the history sorted by time -/
theorem history_sorted (rows : List Row) : (timed (history rows)).Pairwise (fun a b => a.1 ≤ b.1) := by
  have hs := frame_sorted rows
  have hf := acts_first rows
  have h1 : (history rows).Pairwise (fun a b => a.time ≤ b.time) := by
    refine List.Pairwise.imp_of_mem ?_ (actsFrom_idx_sorted 0 _)
    intro a c ha hc hle
    exact sorted_idx hs hle (hf a ha).1 (hf c hc).1
  exact List.pairwise_map.2 h1

/-- **refinement (C10 ⊑ C20).** For every file with non-decreasing onsets that C10's temporal machine accepts
without error, the manager is constructed, and at every time `τ` the folded names of the Onset processes that
are ongoing after `τ` (started at or before `τ`, not ended by then — the processes `merged_rows` shows at the
later rows of that time point, and one time point later `context_spec` shows those not closed there) are
exactly C10's open set after the time points up to `τ`. -/
theorem context_eq_validator_open_set (fold : Str → Str) (rows : List Row)
    (hord : nonDecreasing (rows.map (·.time)) = true)
    (hT : Temporal.run fold [] 0 ((Temporal.timePoints (rows.map toT)).map (·.markers)) = []) :
    ∃ b, build fold rows = .ok b ∧
      ∀ τ k, k ∈ ongoingKeys (spec fold rows b) τ ↔ k ∈ validatorOpen fold (Temporal.timePoints (rows.map toT)) τ := by
  obtain ⟨b, hb⟩ := valid_history_never_rejected fold rows hord hT
  refine ⟨b, hb, fun τ k => ?_⟩
  rw [ongoing_iff_last_onset fold b.ts k τ _ (history_sorted rows)]
  -- the validator side
  have hsort : (Temporal.timePoints (rows.map toT)).Pairwise (fun a b => a.time ≤ b.time) := by
    have := C10.effTimes_increasing (rows.map toT)
    rw [C10.effTimes, List.pairwise_map] at this
    exact this.imp (fun h => Int.le_of_lt h)
  have hsplit := filter_split (fun r : Temporal.TRow => r.time) τ _ hsort
  rw [hsplit, List.map_append] at hT
  have hpre := run_prefix fold _ _ [] 0 hT
  obtain ⟨hfold, hok⟩ := open_fold fold _ [] 0 hpre
  unfold validatorOpen
  rw [hfold, (seqOp_iff_last_onset fold k _ [] List.nodup_nil hok).1]
  simp only [List.not_mem_nil, and_false, or_false]
  -- both marker sequences are the same
  have hfr := frame_is_timepoints rows
  have h1 : ((Temporal.timePoints (rows.map toT)).filter fun r => decide (r.time ≤ τ)).map (·.markers) =
      ((firstRows none (merge none (frame rows))).filter fun r => decide (r.time ≤ τ)).map
        (fun r => markersOf r.items) := by
    have e1 : ∀ l : List Temporal.TRow, (l.filter fun r => decide (r.time ≤ τ)).map (·.markers) =
        ((l.map fun tp => (tp.time, tp.markers)).filter fun p => decide (p.1 ≤ τ)).map Prod.snd := by
      intro l; induction l with
      | nil => rfl
      | cons x xs ih => simp only [List.filter_cons, List.map_cons]; split <;> simp [ih]
    have e2 : ∀ l : List FRow, (l.filter fun r => decide (r.time ≤ τ)).map (fun r => markersOf r.items) =
        ((l.map fun r => (r.time, markersOf r.items)).filter fun p => decide (p.1 ≤ τ)).map Prod.snd := by
      intro l; induction l with
      | nil => rfl
      | cons x xs ih => simp only [List.filter_cons, List.map_cons]; split <;> simp [ih]
    rw [e1, e2, hfr]
  rw [h1, ← lastNI_filter fold k (List.flatten _)]
  have h2 : markersUpTo τ (timed (history rows)) =
      (((firstRows none (merge none (frame rows))).filter fun r => decide (r.time ≤ τ)).map
        (fun r => markersOf r.items)).flatten.filter notInset := by
    rw [history, markersUpTo_acts, firstRows_flatMap_row _ (by intro t; simp)]
    generalize firstRows none (merge none (frame rows)) = L
    induction L with
    | nil => rfl
    | cons r rs ih =>
      by_cases h : r.time ≤ τ
      · simp [List.flatMap_cons, List.filter_cons, h, List.filter_append, markersOf_filter, ih]
      · simp [List.flatMap_cons, List.filter_cons, h, ih]
  rw [h2]

/-! ### … and what the manager does with files the validator rejects -/

/-- one step of the scan against one step of C10's machine: either both go on with matching dictionaries, or
the group is an Offset whose folded name is not a key of `onset_dict` — the guard of `onset_dict.pop(anchor)` —
and the scan raises (`KeyError`) -/
theorem step_keys (fold : Str → Str) (ts : List Int) (st : State) (op : List Str) (a : Act)
    (hk : Keys op st.opn) :
    (∃ st1, step fold ts st a = .ok st1 ∧ Keys (seqOp fold op (markerSeq [a])) st1.opn ∧
        seqOK fold op (markerSeq [a])) ∨
    (step fold ts st a = .error .unmatchedOffset ∧ ¬ seqOK fold op (markerSeq [a]) ∧
        ∃ name, a.item = .offset name ∧ fold name ∉ op) := by
  cases hitem : a.item with
  | onset name c =>
    left
    simp only [markerSeq, List.filterMap_cons, List.filterMap_nil, hitem, markNI, seqOK, seqOp, Temporal.handle,
      step, and_true]
    refine ⟨_, rfl, ⟨nodup_insertKey hk.1, ?_⟩⟩
    intro k'
    rw [mem_insertKey, hk.2]
    simp only [List.mem_cons, Prod.mk.injEq, closeIfOpen_mem]
    constructor
    · rintro (rfl | ⟨j, hj⟩)
      · exact ⟨_, Or.inl ⟨rfl, rfl⟩⟩
      · by_cases e : k' = fold name
        · exact ⟨_, Or.inl ⟨e, rfl⟩⟩
        · exact ⟨j, Or.inr ⟨hj, e⟩⟩
    · rintro ⟨j, (⟨e, _⟩ | ⟨hj, _⟩)⟩
      · exact Or.inl e
      · exact Or.inr ⟨j, hj⟩
  | offset name =>
    simp only [markerSeq, List.filterMap_cons, List.filterMap_nil, hitem, markNI, seqOK, seqOp, and_true]
    by_cases hmem : fold name ∈ op
    · left
      rw [handle_offset_mem hmem]
      obtain ⟨j, hj⟩ := (hk.2 _).1 hmem
      cases hg : getOpen (fold name) st.opn with
      | none => exact absurd hj (getOpen_none hg j)
      | some j' =>
        simp only [step, hitem, hg]
        refine ⟨_, rfl, ⟨hk.1.erase _, ?_⟩, trivial⟩
        intro k'
        rw [hk.1.mem_erase_iff, hk.2]
        constructor
        · rintro ⟨hne, j, hj⟩; exact ⟨j, mem_delOpen.2 ⟨hj, hne⟩⟩
        · rintro ⟨j, hj⟩
          have := mem_delOpen.1 hj
          exact ⟨this.2, j, this.1⟩
    · right
      have hg : getOpen (fold name) st.opn = none := by
        cases hg : getOpen (fold name) st.opn with
        | none => rfl
        | some j => exact absurd ((hk.2 _).2 ⟨j, getOpen_some hg⟩) hmem
      exact ⟨by simp only [step, hitem, hg], handle_offset_not hmem, name, rfl, hmem⟩
  | duration len c =>
    left
    simp only [markerSeq, List.filterMap_cons, List.filterMap_nil, hitem, markNI, seqOK, seqOp, step, and_true]
    exact ⟨_, rfl, hk⟩
  | plain c =>
    left
    simp only [markerSeq, List.filterMap_cons, List.filterMap_nil, hitem, markNI, seqOK, seqOp, step, and_true]
    exact ⟨_, rfl, hk⟩
  | inset nm c =>
    left
    simp only [markerSeq, List.filterMap_cons, List.filterMap_nil, hitem, markNI, seqOK, seqOp, step, and_true]
    exact ⟨_, rfl, hk⟩

theorem markerSeq_cons (a : Act) (rest : List Act) : markerSeq (a :: rest) = markerSeq [a] ++ markerSeq rest := by
  simp only [markerSeq, List.filterMap_cons, List.filterMap_nil]
  cases markNI a.item <;> rfl

/-- the scan succeeds iff every Offset finds its folded name in `onset_dict`; it can fail in no other way -/
theorem run_iff (fold : Str → Str) (ts : List Int) (acts : List Act) (st : State) (op : List Str)
    (hk : Keys op st.opn) :
    ((∃ st', run fold ts st acts = .ok st') ↔ seqOK fold op (markerSeq acts)) ∧
    (∀ e, run fold ts st acts = .error e → e = .unmatchedOffset) := by
  induction acts generalizing st op with
  | nil => simp [run, markerSeq, seqOK]
  | cons a rest ih =>
    rw [markerSeq_cons, seqOK_append]
    simp only [run]
    rcases step_keys fold ts st op a hk with ⟨st1, h1, hk1, hok⟩ | ⟨h1, hno, _⟩
    · simp only [h1]
      have := ih st1 _ hk1
      exact ⟨⟨fun h => ⟨hok, this.1.1 h⟩, fun h => this.1.2 h.2⟩, this.2⟩
    · simp only [h1]
      refine ⟨⟨fun hex => (by obtain ⟨_, h⟩ := hex; cases h), fun h => absurd h.1 hno⟩, fun e h => ?_⟩
      injection h with h; exact h.symm

theorem not_seqOK_iff (fold : Str → Str) (ms : List Temporal.Marker) (op : List Str) :
    ¬ seqOK fold op ms ↔ ∃ pre m post, ms = pre ++ m :: post ∧ seqOK fold op pre ∧
      (Temporal.handle (seqOp fold op pre) m.kind (fold m.name)).2 ≠ none := by
  induction ms generalizing op with
  | nil => simp [seqOK]
  | cons m rest ih =>
    simp only [seqOK]
    constructor
    · intro h
      by_cases hA : (Temporal.handle op m.kind (fold m.name)).2 = none
      · have hB : ¬ seqOK fold (Temporal.handle op m.kind (fold m.name)).1 rest := fun hB => h ⟨hA, hB⟩
        obtain ⟨pre, m', post, e, h1, h2⟩ := (ih _).1 hB
        exact ⟨m :: pre, m', post, by rw [e]; rfl, ⟨hA, h1⟩, h2⟩
      · exact ⟨[], m, rest, rfl, trivial, hA⟩
    · rintro ⟨pre, m', post, e, h1, h2⟩ ⟨hA, hB⟩
      cases pre with
      | nil =>
        simp only [List.nil_append, List.cons.injEq] at e
        obtain ⟨rfl, _⟩ := e
        exact h2 hA
      | cons p ps =>
        simp only [List.cons_append, List.cons.injEq] at e
        obtain ⟨rfl, e⟩ := e
        exact (ih _).2 ⟨ps, m', post, e, h1.2, h2⟩ hB

/-- **files the validator rejects.** With non-decreasing onsets the constructor raises iff the scan meets an
Offset group whose folded name is not open at that point — its last earlier Onset/Offset marker is not an Onset
(C10's OFFSET_BEFORE_ONSET) — and then with `KeyError` (`Reject.unmatchedOffset`). The validator's other
temporal errors (a name twice in one time point, an Inset without Onset) do not stop the manager. -/
theorem rejects_iff_unmatched_offset (fold : Str → Str) (rows : List Row)
    (hord : nonDecreasing (rows.map (·.time)) = true) :
    (build fold rows = .error .unmatchedOffset ↔
      ∃ pre m post, markerSeq (history rows) = pre ++ m :: post ∧ m.kind = .offset ∧ seqOK fold [] pre ∧
        lastNI fold (fold m.name) pre ≠ some .onset) ∧
    (∀ e, build fold rows = .error e → e = .unmatchedOffset) := by
  have hk0 : Keys [] (⟨[], []⟩ : State).opn := ⟨List.nodup_nil, by simp⟩
  have hr := run_iff fold ((frame rows).map (·.time)) (history rows) ⟨[], []⟩ [] hk0
  have hbuild : ∀ e, build fold rows = .error e ↔
      run fold ((frame rows).map (·.time)) ⟨[], []⟩ (history rows) = .error e := by
    intro e
    simp only [build, hord, if_true]
    cases hrun : run fold ((frame rows).map (·.time)) ⟨[], []⟩ (history rows) <;> simp
  refine ⟨?_, fun e he => hr.2 e ((hbuild e).1 he)⟩
  rw [hbuild]
  have hfail : run fold ((frame rows).map (·.time)) ⟨[], []⟩ (history rows) = .error .unmatchedOffset ↔
      ¬ seqOK fold [] (markerSeq (history rows)) := by
    rw [← hr.1]
    cases hrun : run fold ((frame rows).map (·.time)) ⟨[], []⟩ (history rows) with
    | ok st => simp
    | error e => simp [hr.2 e hrun]
  rw [hfail, not_seqOK_iff]
  have hkinds : ∀ m ∈ markerSeq (history rows), m.kind = .onset ∨ m.kind = .offset := by
    intro m hm
    simp only [markerSeq, List.mem_filterMap] at hm
    obtain ⟨a, _, ha⟩ := hm
    cases hi : a.item <;> simp [hi, markNI] at ha <;> subst ha <;> simp
  constructor
  · rintro ⟨pre, m, post, e, h1, h2⟩
    refine ⟨pre, m, post, e, ?_, h1, ?_⟩
    · rcases hkinds m (by rw [e]; simp) with h | h
      · rw [h] at h2; simp [Temporal.handle] at h2
      · exact h
    · intro hl
      have hm := (seqOp_iff_last_onset fold (fold m.name) pre [] List.nodup_nil h1).1.2 (Or.inl hl)
      rcases hkinds m (by rw [e]; simp) with h | h
      · rw [h] at h2; simp [Temporal.handle] at h2
      · rw [h, handle_offset_mem hm] at h2; exact h2 rfl
  · rintro ⟨pre, m, post, e, hoff, h1, h2⟩
    refine ⟨pre, m, post, e, h1, ?_⟩
    rw [hoff]
    apply handle_offset_not
    intro hm
    rcases (seqOp_iff_last_onset fold (fold m.name) pre [] List.nodup_nil h1).1.1 hm with h | h
    · exact h2 h
    · simp at h

/-- the validator's other temporal errors do not stop the manager: the same name twice at one time point
(the second Onset ends the first at once), an Inset without Onset (it stays in the row) -/
example : Temporal.run id [] 0 ((Temporal.timePoints
      ([⟨8, [.onset ['a'] 1, .onset ['a'] 2, .inset ['b'] 3], []⟩].map toT)).map (·.markers)) ≠ [] ∧
    (build id [⟨8, [.onset ['a'] 1, .onset ['a'] 2, .inset ['b'] 3], []⟩]).toOption.map
      (fun b => (b.procs.map fun p => (p.start, p.stop, p.content), b.rem)) =
      some ([(0, some 0, 1), (0, some 1, 2)], [[3]]) := by
  constructor
  · decide
  · rfl

example : build id [⟨8, [.offset ['a']], []⟩] = .error .unmatchedOffset := by rfl

/-! ## Duration and Delay in terms of times -/

/-- **Duration, by times.** The process of a Duration group of length `d` started at time `t` is in the context
of exactly the time points strictly between `t` and `t + d` (first rows: `t < τ < t + d`); the later rows of a
merged time point also show it at `τ = t` (`t ≤ τ < t + d`, the inclusive reading of `merged_rows`). -/
theorem duration_context_interval (fold : Str → Str) (rows : List Row) (b : Built)
    (h : build fold rows = .ok b) (a : Act) (len : Int) (c : Nat) (ha : a ∈ history rows)
    (hitem : a.item = .duration len c) :
    ∃ p ∈ b.procs, p.start = a.idx ∧ p.content = c ∧
      (∀ i τ, First b.ts i τ → (inContext i p = true ↔ a.time < τ ∧ τ < a.time + len)) ∧
      (∀ i τ, b.ts[i]? = some τ → ¬ First b.ts i τ → (inContext i p = true ↔ a.time ≤ τ ∧ τ < a.time + len)) := by
  obtain ⟨hs, hf⟩ := build_facts h
  obtain ⟨p, hp, h1, h2, h3, _⟩ := boundaries_duration_exact fold rows b h a len c ha hitem
  refine ⟨p, hp, h1, h2, fun i τ hi => ?_, fun i τ hi hn => ?_⟩
  · rw [h3 i τ hi.1, first_lt_iff hs (hf a ha) hi]
  · rw [h3 i τ hi, first_lt_iff_later hs (hf a ha) hi hn]

theorem mem_sortRows (x : FRow) (l : List FRow) : x ∈ sortRows l ↔ x ∈ l := by
  induction l with
  | nil => simp [sortRows]
  | cons y ys ih => simp only [sortRows, mem_insertRow, ih, List.mem_cons]

theorem mem_points {l : List FRow} {fr : FRow} {it : Item} (hfr : fr ∈ l) (hit : it ∈ fr.items) :
    ∃ p ∈ points l, p.1 = fr.time ∧ it ∈ p.2 := by
  induction l with
  | nil => simp at hfr
  | cons x xs ih =>
    simp only [points]
    rcases List.mem_cons.1 hfr with rfl | hfr
    · cases hp : points xs with
      | nil => exact ⟨_, List.mem_cons_self .., rfl, hit⟩
      | cons q ys =>
        obtain ⟨t, its⟩ := q
        simp only
        split
        · exact ⟨_, List.mem_cons_self .., rfl, List.mem_append_left _ hit⟩
        · exact ⟨_, List.mem_cons_self .., rfl, hit⟩
    · obtain ⟨p, hp, h1, h2⟩ := ih hfr
      cases hpx : points xs with
      | nil => rw [hpx] at hp; simp at hp
      | cons q ys =>
        obtain ⟨t, its⟩ := q
        rw [hpx] at hp
        simp only
        split
        · rename_i e
          rcases List.mem_cons.1 hp with rfl | hp
          · exact ⟨_, List.mem_cons_self .., by simpa [e] using h1, List.mem_append_right _ h2⟩
          · exact ⟨p, List.mem_cons_of_mem _ hp, h1, h2⟩
        · exact ⟨p, List.mem_cons_of_mem _ hp, h1, h2⟩

theorem mem_firstRows {prev : Option Int} {l : List FRow} {x : FRow} (h : x ∈ firstRows prev l) : x ∈ l := by
  induction l generalizing prev with
  | nil => simp [firstRows] at h
  | cons y ys ih =>
    simp only [firstRows] at h
    split at h
    · exact List.mem_cons_of_mem _ (ih h)
    · rcases List.mem_cons.1 h with rfl | h
      · exact List.mem_cons_self ..
      · exact List.mem_cons_of_mem _ (ih h)

theorem mem_actsFrom {k : Nat} {M : List FRow} {row : FRow} {it : Item} (hrow : row ∈ M)
    (hit : it ∈ row.items) (hk : isMarker it = true ∨ isDuration it = true) :
    ∃ a ∈ actsFrom k M, a.item = it ∧ a.time = row.time := by
  induction M generalizing k with
  | nil => simp at hrow
  | cons r rs ih =>
    simp only [actsFrom, List.mem_append]
    rcases List.mem_cons.1 hrow with rfl | hrow
    · refine ⟨⟨k, row.time, it⟩, Or.inl ?_, rfl, rfl⟩
      simp only [rowActs, List.mem_map, List.mem_append, List.mem_filter]
      rcases hk with hk | hk
      · exact ⟨it, Or.inl ⟨hit, hk⟩, rfl⟩
      · exact ⟨it, Or.inr ⟨hit, hk⟩, rfl⟩
    · obtain ⟨a, ha, h⟩ := ih (k := k + 1) hrow
      exact ⟨a, Or.inr ha, h⟩

theorem frame_item_in_history (rows : List Row) (fr : FRow) (it : Item) (hfr : fr ∈ splitRows rows)
    (hit : it ∈ fr.items) (hk : isMarker it = true ∨ isDuration it = true) :
    ∃ a ∈ history rows, a.item = it ∧ a.time = fr.time := by
  have hfr' : fr ∈ frame rows := (mem_sortRows fr _).2 hfr
  obtain ⟨p, hp, h1, h2⟩ := mem_points hfr' hit
  rw [← firstRows_merge_none, List.mem_map] at hp
  obtain ⟨row, hrow, e⟩ := hp
  have hrow' := mem_firstRows hrow
  have e1 : row.time = p.1 := congrArg Prod.fst e
  have e2 : row.items = p.2 := congrArg Prod.snd e
  obtain ⟨a, ha, h3, h4⟩ := mem_actsFrom (k := 0) hrow' (by rw [e2]; exact h2) hk
  exact ⟨a, ha, h3, by rw [h4, e1, h1]⟩

theorem mem_delayRows {rows : List Row} {r : Row} {d : Int} {it : Item} (hr : r ∈ rows)
    (hd : (d, it) ∈ r.delayed) : (⟨r.time + d, [it]⟩ : FRow) ∈ delayRows rows := by
  induction rows with
  | nil => simp at hr
  | cons x xs ih =>
    simp only [delayRows, List.mem_append, List.mem_map]
    rcases List.mem_cons.1 hr with rfl | hr
    · exact Or.inl ⟨(d, it), hd, rfl⟩
    · exact Or.inr (ih hr)

/-- **Delay.** A temporal group of a row acts at the row's own time; a group inside a top-level Delay group
acts at the row's time plus the delay — that is the time the scan, the processes' starts and `specProcs` see. -/
theorem delay_shifts_start (rows : List Row) (r : Row) (hr : r ∈ rows) :
    (∀ it ∈ r.items, (isMarker it = true ∨ isDuration it = true) →
      ∃ a ∈ history rows, a.item = it ∧ a.time = r.time) ∧
    (∀ d it, (d, it) ∈ r.delayed → (isMarker it = true ∨ isDuration it = true) →
      ∃ a ∈ history rows, a.item = it ∧ a.time = r.time + d) := by
  constructor
  · intro it hit hk
    have : (⟨r.time, r.items⟩ : FRow) ∈ splitRows rows := by
      simp only [splitRows, ownRows, List.mem_append, List.mem_map]
      exact Or.inl ⟨r, hr, rfl⟩
    exact frame_item_in_history rows _ it this hit hk
  · intro d it hd hk
    have : (⟨r.time + d, [it]⟩ : FRow) ∈ splitRows rows := by
      simp only [splitRows, List.mem_append]
      exact Or.inr (mem_delayRows hr hd)
    exact frame_item_in_history rows _ it this (by simp) hk

/-! ## names are compared after case folding -/

def renItem (ren : Str → Str) : Item → Item
  | .onset n c => .onset (ren n) c
  | .offset n => .offset (ren n)
  | .inset n c => .inset (ren n) c
  | .duration l c => .duration l c
  | .plain c => .plain c

def renRow (ren : Str → Str) (r : Row) : Row :=
  ⟨r.time, r.items.map (renItem ren), r.delayed.map fun di => (di.1, renItem ren di.2)⟩
def renF (ren : Str → Str) (r : FRow) : FRow := ⟨r.time, r.items.map (renItem ren)⟩
def renAct (ren : Str → Str) (a : Act) : Act := ⟨a.idx, a.time, renItem ren a.item⟩

theorem splitRows_ren (ren : Str → Str) (rows : List Row) :
    splitRows (rows.map (renRow ren)) = (splitRows rows).map (renF ren) := by
  have h2 : delayRows (rows.map (renRow ren)) = (delayRows rows).map (renF ren) := by
    induction rows with
    | nil => rfl
    | cons r rs ih => simp [delayRows, ih, renRow, renF, Function.comp_def]
  have h1 : ownRows (rows.map (renRow ren)) = (ownRows rows).map (renF ren) := by
    simp [ownRows, renRow, renF, Function.comp_def]
  simp [splitRows, h1, h2]

theorem insertRow_ren (ren : Str → Str) (x : FRow) (l : List FRow) :
    insertRow (renF ren x) (l.map (renF ren)) = (insertRow x l).map (renF ren) := by
  induction l with
  | nil => rfl
  | cons y ys ih =>
    simp only [List.map_cons, insertRow]
    have : (renF ren x).time = x.time ∧ (renF ren y).time = y.time := ⟨rfl, rfl⟩
    rw [this.1, this.2]
    split
    · rfl
    · simp [ih]

theorem sortRows_ren (ren : Str → Str) (l : List FRow) :
    sortRows (l.map (renF ren)) = (sortRows l).map (renF ren) := by
  induction l with
  | nil => rfl
  | cons x xs ih => simp only [List.map_cons, sortRows, ih, insertRow_ren]

theorem groupItems_ren (ren : Str → Str) (t : Int) (l : List FRow) :
    groupItems t (l.map (renF ren)) = (groupItems t l).map (renItem ren) := by
  induction l with
  | nil => rfl
  | cons x xs ih =>
    simp only [List.map_cons, groupItems]
    have : (renF ren x).time = x.time := rfl
    rw [this]
    split
    · simp [ih, renF]
    · rfl

theorem merge_ren (ren : Str → Str) (prev : Option Int) (l : List FRow) :
    merge prev (l.map (renF ren)) = (merge prev l).map (renF ren) := by
  induction l generalizing prev with
  | nil => rfl
  | cons x xs ih =>
    simp only [List.map_cons, merge, ih, groupItems_ren]
    have : (renF ren x).time = x.time := rfl
    rw [this]
    congr 1
    simp only [renF]
    congr 1
    split <;> simp

theorem rowActs_ren (ren : Str → Str) (i : Nat) (r : FRow) :
    rowActs i (renF ren r) = (rowActs i r).map (renAct ren) := by
  have hm : ∀ it, isMarker (renItem ren it) = isMarker it := by intro it; cases it <;> rfl
  have hd : ∀ it, isDuration (renItem ren it) = isDuration it := by intro it; cases it <;> rfl
  have f1 : ∀ l : List Item, (l.map (renItem ren)).filter isMarker = (l.filter isMarker).map (renItem ren) := by
    intro l; induction l with
    | nil => rfl
    | cons x xs ih => simp only [List.map_cons, List.filter_cons, hm, ih]; split <;> rfl
  have f2 : ∀ l : List Item, (l.map (renItem ren)).filter isDuration = (l.filter isDuration).map (renItem ren) := by
    intro l; induction l with
    | nil => rfl
    | cons x xs ih => simp only [List.map_cons, List.filter_cons, hd, ih]; split <;> rfl
  simp [rowActs, renF, f1, f2, renAct, Function.comp_def]

theorem actsFrom_ren (ren : Str → Str) (k : Nat) (l : List FRow) :
    actsFrom k (l.map (renF ren)) = (actsFrom k l).map (renAct ren) := by
  induction l generalizing k with
  | nil => rfl
  | cons x xs ih => simp only [List.map_cons, actsFrom, rowActs_ren, ih, List.map_append]

theorem step_ren (fold ren : Str → Str) (hren : ∀ n, fold (ren n) = fold n) (ts : List Int) (st : State)
    (a : Act) : step fold ts st (renAct ren a) = step fold ts st a := by
  cases hi : a.item <;> simp [step, renAct, renItem, hi, hren]

theorem run_ren (fold ren : Str → Str) (hren : ∀ n, fold (ren n) = fold n) (ts : List Int) (acts : List Act)
    (st : State) : run fold ts st (acts.map (renAct ren)) = run fold ts st acts := by
  induction acts generalizing st with
  | nil => rfl
  | cons a rest ih =>
    simp only [List.map_cons, run, step_ren fold ren hren]
    cases step fold ts st a with
    | ok st1 => exact ih st1
    | error e => rfl

theorem plainOf_ren (ren : Str → Str) (its : List Item) : plainOf (its.map (renItem ren)) = plainOf its := by
  induction its with
  | nil => rfl
  | cons x xs ih => cases x <;> simp [plainOf, renItem, ih]

/-- **case-insensitive.** Respelling the definition names of the file without changing their folded form
(`Def/Cue` / `def/CUE`) changes nothing the manager reports: same onsets, same processes with the same extents,
hence the same `base`, `contexts` and remainder — and the same rejection. (Counterpart of C10's
`case_insensitive` for the validator; with `context_eq_validator_open_set` both keep the same open names.) -/
theorem context_case_insensitive (fold ren : Str → Str) (hren : ∀ n, fold (ren n) = fold n) (rows : List Row) :
    build fold (rows.map (renRow ren)) = build fold rows := by
  have hframe : frame (rows.map (renRow ren)) = (frame rows).map (renF ren) := by
    simp only [frame, splitRows_ren, sortRows_ren]
  have hts : (frame (rows.map (renRow ren))).map (·.time) = (frame rows).map (·.time) := by
    rw [hframe, List.map_map]; rfl
  have hhist : history (rows.map (renRow ren)) = (history rows).map (renAct ren) := by
    simp only [history, hframe, merge_ren, actsFrom_ren]
  have htimes : (rows.map (renRow ren)).map (·.time) = rows.map (·.time) := by
    rw [List.map_map]; rfl
  have hrem : (merge none (frame (rows.map (renRow ren)))).map (fun r => plainOf r.items) =
      (merge none (frame rows)).map (fun r => plainOf r.items) := by
    rw [hframe, merge_ren, List.map_map]
    apply List.map_congr_left
    intro r _
    simp [renF, plainOf_ren]
  simp only [build, htimes, hts, hhist, run_ren fold ren hren, hrem]

/-! ## processes are counted, not their texts -/

/-- **identical contents, distinct processes.** `contextAt` / `baseAt` are lists of processes (one entry per
`TemporalEvent`), so two Duration processes whose contents print the same (same text id `7`) are both listed:
overlapping in time (started at 0 s and 1 s, both ongoing at 2 s), and started at the same time point from two
rows with equal onsets (both in `base` of the first row and in the contexts that follow). -/
theorem identical_processes_both_listed :
    (∃ b, build id [⟨0, [.duration 24 7], []⟩, ⟨8, [.duration 24 7], []⟩, ⟨16, [], []⟩] = .ok b ∧
      contexts b = [[], [7], [7, 7]] ∧ base b = [[7], [7], []] ∧
      specContext (spec id [⟨0, [.duration 24 7], []⟩, ⟨8, [.duration 24 7], []⟩, ⟨16, [], []⟩] b) 16 = [7, 7]) ∧
    (∃ b, build id [⟨0, [.duration 24 7], []⟩, ⟨0, [.duration 16 7], []⟩, ⟨8, [], []⟩] = .ok b ∧
      contexts b = [[], [7, 7], [7, 7]] ∧ base b = [[7, 7], [], []]) :=
  ⟨⟨⟨[0, 8, 16], [⟨0, 0, some 3, [], 7⟩, ⟨1, 1, some 3, [], 7⟩], [[], [], []]⟩, by rfl, by decide, by decide, by decide⟩,
   ⟨⟨[0, 0, 8], [⟨0, 0, some 3, [], 7⟩, ⟨1, 0, some 3, [], 7⟩], [[], [], []]⟩, by rfl, by decide, by decide⟩⟩

end HedVerif.C20
