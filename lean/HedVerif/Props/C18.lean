/-
C18 — Backups restore byte-for-byte and are never half-valid.
Theorems about `Model/Backup.lean` on the step model `Model/FS.lean` (DESIGN.md section 7, C18).
-/
import HedVerif.Model.Backup
namespace HedVerif.C18
open HedVerif.FS HedVerif.Backup

/-! ## 1. A torn record is never accepted -/

theorem u4_noRb (n : Nat) : ∀ x ∈ u4 n, x ≠ Sym.rb := by
  intro x hx; simp [u4] at hx; grind

theorem escape_noRb (ch : Char) : ∀ x ∈ escape ch, x ≠ Sym.rb := by
  intro x hx; unfold escape at hx
  repeat' (split at hx)
  all_goals first
    | exact u4_noRb _ _ hx
    | (simp only [List.mem_append] at hx; rcases hx with h | h <;> exact u4_noRb _ _ h)
    | (simp at hx; grind)

theorem strToks_noRb (k : List Char) : ∀ x ∈ strToks k, x ≠ Sym.rb := by
  intro x hx
  simp only [strToks, List.mem_flatMap] at hx
  obtain ⟨ch, _, h⟩ := hx
  exact escape_noRb ch x h

theorem entry_noRb (ts : List Char) (k : Key) : ∀ x ∈ entry ts k, x ≠ Sym.rb := by
  intro x hx
  simp only [entry, List.mem_append, List.mem_cons, List.not_mem_nil, or_false] at hx
  rcases hx with ((((h | h) | h) | h) | h)
  · grind
  · exact strToks_noRb _ _ h
  · grind
  · exact strToks_noRb _ _ h
  · grind

theorem entries_noRb (ts : List Char) : ∀ ks : List Key, ∀ x ∈ entries ts ks, x ≠ Sym.rb
  | [], x, hx => by simp [entries] at hx
  | [k], x, hx => entry_noRb ts k x (by simpa [entries] using hx)
  | k :: k2 :: r, x, hx => by
    simp only [entries, List.mem_append, List.mem_cons] at hx
    rcases hx with h | h | h
    · exact entry_noRb ts k x h
    · simp [h]
    · exact entries_noRb ts (k2 :: r) x h

theorem body_noRb (ts : List Char) (ks : List Key) : ∀ x ∈ recordBody ts ks, x ≠ Sym.rb := by
  intro x hx
  unfold recordBody at hx
  split at hx
  · simp at hx; simp [hx]
  · simp only [List.cons_append, List.mem_cons, List.mem_append, List.not_mem_nil, or_false] at hx
    rcases hx with h | h | h
    · simp [h]
    · exact entries_noRb ts ks x h
    · simp [h]

/-- No strict prefix of the record text is accepted by `json.load`. -/
theorem torn_record_rejected (ts : List Char) (ks : List Key) (n : Nat)
    (h : n < (record ts ks).length) : parse ((record ts ks).take n) = none := by
  have hn : n ≤ (recordBody ts ks).length := by simp [record] at h; omega
  have ht : (record ts ks).take n = (recordBody ts ks).take n := by
    simp [record, List.take_append_of_le_length hn]
  unfold parse
  rw [ht]
  split
  · rename_i hl
    have hm : Sym.rb ∈ (recordBody ts ks).take n := List.mem_of_getLast? hl
    exact absurd rfl (body_noRb ts ks _ (List.mem_of_mem_take hm))
  · rfl

theorem record_length_pos (ts : List Char) (ks : List Key) : 0 < (record ts ks).length := by
  simp [record]

/-! ## 2. Where the steps of `create_backup` write -/

theorem bdir_prefix_broot (c : Cfg) : c.bdir <+: c.broot := by
  refine ⟨[rootName], ?_⟩; simp [Cfg.bdir, Cfg.broot]

theorem bdir_prefix_bpath (c : Cfg) (f : Path) : c.bdir <+: c.bpath f :=
  (bdir_prefix_broot c).trans ⟨f, rfl⟩

theorem lock_ne_bdir (c : Cfg) : c.lock ≠ c.bdir := by
  simp [Cfg.lock, Cfg.bdir]

theorem lock_not_under_broot (c : Cfg) : ¬ c.broot <+: c.lock := by
  intro h
  simp only [Cfg.broot, Cfg.lock] at h
  rw [List.prefix_append_right_inj] at h
  have := h.length_le
  obtain ⟨t, ht⟩ := h
  simp at ht
  exact absurd ht.1 (by decide)

theorem mkdirs_tgt (c : Cfg) (d : Path) : ∀ st ∈ (mkdirsSteps c.backups ([c.name, rootName] ++ d) : List (Step Sym)),
    ∀ q ∈ st.tgt, q = c.bdir ∨ c.broot <+: q := by
  intro st hst q hq
  simp only [mkdirsSteps, List.mem_map, List.mem_range] at hst
  obtain ⟨i, _, rfl⟩ := hst
  simp only [Step.tgt, List.mem_singleton] at hq
  subst hq
  cases i with
  | zero => left; simp [Cfg.bdir]
  | succ j => right; exact ⟨d.take j, by simp [Cfg.broot]⟩

theorem writeSteps_tgt (p : Path) (b : List Sym) : ∀ st ∈ writeSteps p b, ∀ q ∈ st.tgt, q = p := by
  intro st hst q hq
  simp only [writeSteps, List.mem_cons, List.not_mem_nil, or_false] at hst
  rcases hst with rfl | rfl | rfl | rfl <;> simp_all [Step.tgt]

theorem copyPhase_tgt (c : Cfg) (s0 : St) (files : List Path) :
    ∀ st ∈ copyPhase c s0 files, ∀ q ∈ st.tgt, q = c.bdir ∨ c.broot <+: q := by
  intro st hst q hq
  simp only [copyPhase, List.mem_append, List.mem_flatMap, perFile] at hst
  rcases hst with h | ⟨f, _, h | h⟩
  · exact mkdirs_tgt c [] st (by simpa using h) q hq
  · exact mkdirs_tgt c _ st h q hq
  · right; rw [writeSteps_tgt _ _ st h q hq]; exact ⟨f, rfl⟩

/-- The copy phase never touches the record. -/
theorem copyPhase_lock (c : Cfg) (s0 : St) (files : List Path) (k : Nat) (s : St) :
    get (exec ((copyPhase c s0 files).take k) s) c.lock = get s c.lock := by
  apply get_exec
  intro st hst hq
  rcases copyPhase_tgt c s0 files st (List.mem_of_mem_take hst) _ hq with h | h
  · exact lock_ne_bdir c h
  · exact lock_not_under_broot c h

/-- The record phase touches nothing below `backup_root`. -/
theorem lockPhase_broot (c : Cfg) (files : List Path) (j : Nat) (s : St) (p : Path) (hp : c.broot <+: p) :
    get (exec ((lockPhase c files).take j) s) p = get s p := by
  apply get_exec
  intro st hst hq
  have := writeSteps_tgt _ _ st (List.mem_of_mem_take hst) p hq
  subst this
  exact lock_not_under_broot c hp

/-! ## 3. The invariant of the copy phase: every regular file below `backup_root` is a complete copy -/

def Good (c : Cfg) (s0 : St) (files : List Path) (s : St) : Prop :=
  ∀ p b, c.broot <+: p → get s p = some (.reg b) → ∃ f ∈ files, p = c.bpath f ∧ b = srcOf c s0 f

theorem good_perFile (c : Cfg) (s0 : St) (files : List Path) (s : St) (f : Path) (hf : f ∈ files)
    (h : Good c s0 files s) : Good c s0 files (exec (perFile c s0 f) s) := by
  intro p b hp hg
  rw [perFile, exec_append, get_writeSteps] at hg
  split at hg
  · rename_i he
    refine ⟨f, hf, he.symm, ?_⟩
    simpa using hg.symm
  · rw [get_mkdirs_reg] at hg
    exact h p b hp hg

theorem good_flatMap (c : Cfg) (s0 : St) (files : List Path) (l : List Path) (hl : ∀ f ∈ l, f ∈ files)
    (s : St) (h : Good c s0 files s) : Good c s0 files (exec (l.flatMap (perFile c s0)) s) := by
  induction l generalizing s with
  | nil => simpa [exec] using h
  | cons a r ih =>
    rw [List.flatMap_cons, exec_append]
    exact ih (fun f hf => hl f (List.mem_cons_of_mem _ hf)) _
      (good_perFile c s0 files s a (hl a (List.mem_cons_self ..)) h)

theorem good_copyPhase (c : Cfg) (s0 : St) (files : List Path)
    (hfresh : ∀ p, c.bdir <+: p → get s0 p = none) :
    Good c s0 files (exec (copyPhase c s0 files) s0) := by
  rw [copyPhase, exec_append]
  apply good_flatMap c s0 files files (fun _ h => h)
  intro p b hp hg
  rw [get_mkdirs_reg, hfresh p ((bdir_prefix_broot c).trans hp)] at hg
  cases hg

/-! ## 4. What an accepting scan implies -/

theorem scanList_ok_mem (s : St) (B : Path) : ∀ (l : List Name) (L : Listing), scanList s B l = .ok L →
    ∀ e ks, (e, ks) ∈ L → scanOne s B e = .ok ks
  | [], L, h, e, ks, hm => by simp [scanList] at h; subst h; simp at hm
  | a :: r, L, h, e, ks, hm => by
    simp only [scanList] at h
    split at h
    · cases h
    · rename_i ka hka
      split at h
      · cases h
      · rename_i l hl
        cases h
        rcases List.mem_cons.mp hm with h1 | h1
        · cases h1; exact hka
        · exact scanList_ok_mem s B r l hl e ks h1

/-- The scan lists a backup only if the record exists, parses, and every recorded file is a regular
file below `backup_root`. -/
theorem scanOne_ok (s : St) (B : Path) (n : Name) (ks : List Key) (h : scanOne s B n = .ok ks) :
    ∃ txt, get s (B ++ [n, lockName]) = some (.reg txt) ∧ parse txt = some ks ∧
      ∀ key ∈ ks, (B ++ [n, rootName]) ++ splitKey key ∈ walk s (B ++ [n, rootName]) := by
  simp only [scanOne] at h
  split at h; · cases h
  split at h; · cases h
  split at h; · cases h
  rename_i f hf
  split at h; · cases h
  split at h; · cases h
  rename_i txt
  split at h; · cases h
  rename_i ks' hp
  split at h; · cases h
  split at h; · cases h
  rename_i hnot
  cases h
  refine ⟨txt, hf, hp, ?_⟩
  intro key hk
  simp only [List.any_eq_true, not_exists, not_and, Bool.not_eq_true', Bool.not_eq_false,
    List.mem_map, forall_exists_index, and_imp] at hnot
  have := hnot _ key hk rfl
  simpa using this

/-! ## 5. Crash consistency -/

theorem parse_nil : parse [] = none := by simp [parse]

/-- **Crash consistency.** Interrupt `create_backup` after any number `k` of primitive steps (directory
creations, file creations, partial and complete copies, creation / partial / complete writing of the
record).  If the manager constructed afterwards lists the backup at all, every recorded file is present
in the backup and byte-equal to its source; otherwise the scan fails or omits it. -/
theorem crash_consistent (c : Cfg) (s0 : St) (files : List Path) (k : Nat)
    (hfresh : ∀ p, c.bdir <+: p → get s0 p = none)
    (hsrc : ∀ f ∈ files, ∃ b, get s0 (c.dpath f) = some (.reg b))
    (L : Listing) (hscan : scan (crashAfter k (createSteps c s0 files) s0) c.backups = .ok L)
    (ks : List Key) (hl : (c.name, ks) ∈ L) :
    ∀ key ∈ ks, ∃ b, get (crashAfter k (createSteps c s0 files) s0) (c.bpath (splitKey key)) = some (.reg b)
      ∧ get s0 (c.dpath (splitKey key)) = some (.reg b) := by
  have hone := scanList_ok_mem _ _ _ _ hscan _ _ hl
  obtain ⟨txt, hlock, hparse, hall⟩ := scanOne_ok _ _ _ _ hone
  -- the state is: a prefix of the copy phase, then a prefix of the record phase
  have hs : crashAfter k (createSteps c s0 files) s0 =
      exec ((lockPhase c files).take (k - (copyPhase c s0 files).length))
        (exec ((copyPhase c s0 files).take k) s0) := by
    simp [crashAfter, createSteps, List.take_append, exec_append]
  generalize hj : k - (copyPhase c s0 files).length = j at hs
  have hlock0 : get (exec ((copyPhase c s0 files).take k) s0) c.lock = none := by
    rw [copyPhase_lock]; exact hfresh _ ⟨[lockName], by simp [Cfg.bdir, Cfg.lock]⟩
  rw [hs] at hlock hall ⊢
  change get _ c.lock = _ at hlock
  have hrec := record_length_pos c.stamp ((files.map joinKey).eraseDups)
  obtain h0 | h1 | h2 | h3 : j = 0 ∨ j = 1 ∨ j = 2 ∨ 3 ≤ j := by omega
  · -- the record does not exist yet
    subst h0
    have he : exec ((lockPhase c files).take 0) (exec ((copyPhase c s0 files).take k) s0)
        = exec ((copyPhase c s0 files).take k) s0 := rfl
    rw [he, hlock0] at hlock; cases hlock
  · -- the record is empty
    subst h1
    simp [lockPhase, writeSteps, exec, step, get_set] at hlock
    subst hlock; simp [parse_nil] at hparse
  · -- the record is a strict prefix
    subst h2
    simp [lockPhase, writeSteps, exec, step, get_set] at hlock
    subst hlock
    simp only [recordOf] at hparse
    rw [torn_record_rejected] at hparse
    · cases hparse
    · omega
  · -- the copy phase is complete
    have hk : (copyPhase c s0 files).length ≤ k := by omega
    rw [List.take_of_length_le hk] at hall ⊢
    have hgood := good_copyPhase c s0 files hfresh
    intro key hkey
    obtain ⟨_, b, hb⟩ := mem_walk _ _ _ (hall key hkey)
    change get _ (c.bpath (splitKey key)) = _ at hb
    refine ⟨b, hb, ?_⟩
    have hfr := lockPhase_broot c files j (exec (copyPhase c s0 files) s0) (c.bpath (splitKey key))
      ⟨splitKey key, rfl⟩
    rw [hfr] at hb
    obtain ⟨f, hf, hpf, hbf⟩ := hgood _ _ ⟨splitKey key, rfl⟩ hb
    have : splitKey key = f := List.append_cancel_left hpf
    subst this
    obtain ⟨b', hb'⟩ := hsrc _ hf
    simp [srcOf, hb'] at hbf
    rw [hb', hbf]

/-! ## 6. After an uninterrupted `create_backup` every listed file has its complete copy -/

theorem perFile_keeps (c : Cfg) (s0 : St) (f f' : Path) (s : St)
    (h : get s (c.bpath f) = some (.reg (srcOf c s0 f))) :
    get (exec (perFile c s0 f') s) (c.bpath f) = some (.reg (srcOf c s0 f)) := by
  rw [perFile, exec_append, get_writeSteps]
  split
  · rename_i he
    have : f' = f := List.append_cancel_left he
    rw [this]
  · rw [get_mkdirs_reg]; exact h

theorem perFile_makes (c : Cfg) (s0 : St) (f : Path) (s : St) :
    get (exec (perFile c s0 f) s) (c.bpath f) = some (.reg (srcOf c s0 f)) := by
  rw [perFile, exec_append, get_writeSteps]; simp

theorem flatMap_keeps (c : Cfg) (s0 : St) (f : Path) (l : List Path) (s : St)
    (h : get s (c.bpath f) = some (.reg (srcOf c s0 f))) :
    get (exec (l.flatMap (perFile c s0)) s) (c.bpath f) = some (.reg (srcOf c s0 f)) := by
  induction l generalizing s with
  | nil => simpa [exec] using h
  | cons a r ih => rw [List.flatMap_cons, exec_append]; exact ih _ (perFile_keeps c s0 f a s h)

theorem flatMap_makes (c : Cfg) (s0 : St) (f : Path) (l : List Path) (hf : f ∈ l) (s : St) :
    get (exec (l.flatMap (perFile c s0)) s) (c.bpath f) = some (.reg (srcOf c s0 f)) := by
  induction l generalizing s with
  | nil => cases hf
  | cons a r ih =>
    rw [List.flatMap_cons, exec_append]
    by_cases ha : f = a
    · subst ha; exact flatMap_keeps c s0 f r _ (perFile_makes c s0 f s)
    · exact ih (by simpa [ha] using hf) _

/-- The complete run copies every file of the list byte-for-byte. -/
theorem create_complete (c : Cfg) (s0 : St) (files : List Path) (f : Path) (hf : f ∈ files) :
    get (exec (createSteps c s0 files) s0) (c.bpath f) = some (.reg (srcOf c s0 f)) := by
  rw [createSteps, exec_append]
  have h := lockPhase_broot c files (lockPhase c files).length (exec (copyPhase c s0 files) s0)
    (c.bpath f) ⟨f, rfl⟩
  rw [List.take_length] at h
  rw [h, copyPhase, exec_append]
  exact flatMap_makes c s0 f files hf _

/-! ## 7. Restore -/

/-- Frame: `copyMap` writes only the data paths of picked files. -/
theorem copyMap_frame (c : Cfg) (g : List Sym → List Sym) (pick : Path → Bool) (fs : List Path) (s s1 : St)
    (h : copyMap c g pick fs s = .ok s1) (p : Path)
    (hp : ∀ f ∈ fs, pick f = true → p ≠ c.dpath f) : get s1 p = get s p := by
  induction fs generalizing s with
  | nil => simp [copyMap] at h; rw [h]
  | cons f r ih =>
    simp only [copyMap] at h
    have hr : ∀ f' ∈ r, pick f' = true → p ≠ c.dpath f' := fun f' hf' => hp f' (List.mem_cons_of_mem _ hf')
    split at h
    · rename_i hpk
      split at h
      · rw [ih _ h hr, get_set]
        have := hp f (List.mem_cons_self ..) hpk
        simp [Ne.symm this]
      · cases h
    · exact ih _ h hr

/-- Specification of `copyMap` when the backup copies exist and no data path is a backup path. -/
theorem copyMap_spec (c : Cfg) (g : List Sym → List Sym) (pick : Path → Bool) (fs : List Path) (s : St)
    (hdisj : ∀ f ∈ fs, ∀ f' ∈ fs, c.dpath f ≠ c.bpath f')
    (hback : ∀ f ∈ fs, ∃ b, get s (c.bpath f) = some (.reg b)) :
    ∃ s1, copyMap c g pick fs s = .ok s1 ∧
      ∀ f ∈ fs, pick f = true → ∀ b, get s (c.bpath f) = some (.reg b) → get s1 (c.dpath f) = some (.reg (g b)) := by
  induction fs generalizing s with
  | nil => exact ⟨s, rfl, by simp⟩
  | cons f r ih =>
    have hdr : ∀ a ∈ r, ∀ a' ∈ r, c.dpath a ≠ c.bpath a' :=
      fun a ha a' ha' => hdisj a (List.mem_cons_of_mem _ ha) a' (List.mem_cons_of_mem _ ha')
    simp only [copyMap]
    by_cases hpk : pick f = true
    · obtain ⟨b, hb⟩ := hback f (List.mem_cons_self ..)
      simp only [hpk, if_true, hb]
      have hkeep : ∀ a ∈ f :: r, get (set s (c.dpath f) (.reg (g b))) (c.bpath a) = get s (c.bpath a) := by
        intro a ha
        rw [get_set]; simp [hdisj f (List.mem_cons_self ..) a ha]
      obtain ⟨s1, hs1, hspec⟩ := ih (set s (c.dpath f) (.reg (g b))) hdr
        (fun a ha => by rw [hkeep a (List.mem_cons_of_mem _ ha)]; exact hback a (List.mem_cons_of_mem _ ha))
      refine ⟨s1, hs1, ?_⟩
      intro a ha hpa b' hb'
      by_cases har : a ∈ r
      · exact hspec a har hpa b' (by rw [hkeep a ha]; exact hb')
      · have haf : a = f := by simpa [har] using ha
        subst haf
        have hfr := copyMap_frame c g pick r _ s1 hs1 (c.dpath a) (by
          intro f' hf' _ he
          have : a = f' := List.append_cancel_left he
          exact har (this ▸ hf'))
        rw [hfr, get_set]
        rw [hb] at hb'
        simp at hb' ⊢; rw [hb']
    · simp only [hpk]
      obtain ⟨s1, hs1, hspec⟩ := ih s hdr (fun a ha => hback a (List.mem_cons_of_mem _ ha))
      refine ⟨s1, hs1, ?_⟩
      intro a ha hpa b' hb'
      rcases List.mem_cons.mp ha with h | h
      · subst h; exact absurd hpa hpk
      · exact hspec a h hpa b' hb'

theorem dpath_ne_bpath (c : Cfg) (f f' : Path) (h : ¬ c.bdir <+: c.dpath f) : c.dpath f ≠ c.bpath f' :=
  fun he => h (he ▸ bdir_prefix_bpath c f')

/-! ### Restore / remodel as steps: they never write below the backup directory -/

theorem mkdirs_data_tgt (c : Cfg) (f : Path) : ∀ st ∈ (mkdirsSteps c.dataRoot f.dropLast : List (Step Sym)),
    ∀ q ∈ st.tgt, q <+: c.dpath f := by
  intro st hst q hq
  simp only [mkdirsSteps, List.mem_map, List.mem_range] at hst
  obtain ⟨i, _, rfl⟩ := hst
  simp only [Step.tgt, List.mem_singleton] at hq
  subst hq
  simp only [Cfg.dpath]
  rw [List.prefix_append_right_inj]
  exact (List.take_prefix _ _).trans (List.dropLast_prefix f)

/-- every step of a restore / rewrite targets a data file of the list or one of its ancestors -/
theorem copySteps_tgt (c : Cfg) (g : List Sym → List Sym) (mk : Bool) (pick : Path → Bool) (fs : List Path) (s : St) :
    ∀ st ∈ copySteps c g mk pick fs s, ∀ q ∈ st.tgt, ∃ f ∈ fs, q <+: c.dpath f := by
  induction fs with
  | nil => intro st hst; simp [copySteps] at hst
  | cons f r ih =>
    intro st hst q hq
    simp only [copySteps] at hst
    split at hst
    · split at hst
      · simp only [List.mem_append] at hst
        rcases hst with (h | h) | h
        · split at h
          · exact ⟨f, List.mem_cons_self .., mkdirs_data_tgt c f st h q hq⟩
          · cases h
        · exact ⟨f, List.mem_cons_self .., by rw [writeSteps_tgt _ _ st h q hq]; exact List.prefix_refl _⟩
        · obtain ⟨f', hf', hp⟩ := ih st h q hq
          exact ⟨f', List.mem_cons_of_mem _ hf', hp⟩
      · cases hst
    · obtain ⟨f', hf', hp⟩ := ih st hst q hq
      exact ⟨f', List.mem_cons_of_mem _ hf', hp⟩

/-- Frame: after ANY prefix of the steps, every path below the backup directory is as before. -/
theorem copySteps_frame (c : Cfg) (g : List Sym → List Sym) (mk : Bool) (pick : Path → Bool) (fs : List Path)
    (s0 s : St) (hout : ∀ f ∈ fs, ¬ c.bdir <+: c.dpath f) (k : Nat) (p : Path) (hp : c.bdir <+: p) :
    get (crashAfter k (copySteps c g mk pick fs s0) s) p = get s p := by
  apply get_exec
  intro st hst hq
  obtain ⟨f, hf, hpf⟩ := copySteps_tgt c g mk pick fs s0 st (List.mem_of_mem_take hst) p hq
  exact hout f hf (hp.trans hpf)

/-- **`restore_backup`, complete or interrupted at any step, never writes below the backup directory.** -/
theorem restore_never_touches_backup (c : Cfg) (fs : List Path) (tasks : List Name) (s : St)
    (hout : ∀ f ∈ fs, ¬ c.bdir <+: c.dpath f) (k : Nat) (p : Path) (hp : c.bdir <+: p) :
    get (crashAfter k (restoreSteps c fs tasks s) s) p = get s p :=
  copySteps_frame c id true _ fs s s hout k p hp

/-- **A remodel run, complete or interrupted at any step, never writes below the backup directory.** -/
theorem remodel_never_touches_backup (c : Cfg) (T : List Sym → List Sym) (fs : List Path) (tasks : List Name)
    (order : List Path) (s : St) (hout : ∀ f ∈ fs, ¬ c.bdir <+: c.dpath f)
    (hord : ∀ f ∈ order, ¬ c.bdir <+: c.dpath f) (k : Nat) (p : Path) (hp : c.bdir <+: p) :
    get (crashAfter k (remodelSteps c T fs tasks order s) s) p = get s p := by
  apply get_exec
  intro st hst hq
  have hm := List.mem_of_mem_take hst
  simp only [remodelSteps, restoreSteps, List.mem_append] at hm
  rcases hm with h | h
  · obtain ⟨f, hf, hpf⟩ := copySteps_tgt c id true _ fs s st h p hq
    exact hout f hf (hp.trans hpf)
  · obtain ⟨f, hf, hpf⟩ := copySteps_tgt c T false _ order s st h p hq
    exact hord f hf (hp.trans hpf)

/-- No operation of a history writes below the backup directory. -/
theorem applyOp_untouched (c : Cfg) (T : List Sym → List Sym) (fs : List Path)
    (hout : ∀ f ∈ fs, ¬ c.bdir <+: c.dpath f) (s s' : St) (o : Op) (hs : o.safe c)
    (h : applyOp c T fs s o = .ok s') (p : Path) (hp : c.bdir <+: p) : get s' p = get s p := by
  have hne : ∀ pick : Path → Bool, ∀ f ∈ fs, pick f = true → p ≠ c.dpath f :=
    fun _ f hf _ he => hout f hf (he ▸ hp)
  cases o with
  | modify q b =>
    simp only [applyOp] at h; cases h
    rw [get_set]
    have : q ≠ p := fun e => hs (e ▸ hp)
    simp [this]
  | delete q =>
    simp only [applyOp] at h; cases h
    rw [get_delTree]
    have : ¬ q <+: p := by
      intro hq
      rcases List.prefix_or_prefix_of_prefix hq hp with h1 | h1
      · exact hs.2 h1
      · exact hs.1 h1
    simp [this]
  | restore tasks =>
    simp only [applyOp, restore] at h
    split at h
    · cases h
    · exact copyMap_frame c id _ fs s s' h p (hne _)
  | remodel tasks =>
    simp only [applyOp, remodel] at h
    split at h
    · cases h
    · split at h
      · cases h
      · rename_i s1 h1
        split at h
        · cases h
        · rw [copyMap_frame c T _ fs s1 s' h p (hne _), copyMap_frame c id _ fs s s1 h1 p (hne _)]
  | restoreCrash tasks k =>
    simp only [applyOp] at h; cases h
    exact copySteps_frame c id true _ fs s s hout k p hp
  | remodelCrash tasks order k =>
    simp only [applyOp] at h; cases h
    exact remodel_never_touches_backup c T fs tasks order s hout hs k p hp

theorem runOps_untouched (c : Cfg) (T : List Sym → List Sym) (fs : List Path)
    (hout : ∀ f ∈ fs, ¬ c.bdir <+: c.dpath f) (ops : List Op) (s s' : St)
    (hs : ∀ o ∈ ops, o.safe c) (h : runOps c T fs ops s = .ok s') (p : Path) (hp : c.bdir <+: p) :
    get s' p = get s p := by
  induction ops generalizing s with
  | nil => simp [runOps] at h; rw [h]
  | cons o r ih =>
    simp only [runOps] at h
    split at h
    · cases h
    · rename_i s1 h1
      rw [ih s1 (fun o' ho' => hs o' (List.mem_cons_of_mem _ ho')) h,
        applyOp_untouched c T fs hout s s1 o (hs o (List.mem_cons_self ..)) h1 p hp]

/-- **Restore is the identity on backed-up content.** `s` is a state in which the backup holds, for
every recorded file `f`, the bytes `orig f` (e.g. the state right after `create_backup`).  After *any*
history of modify / delete / restore[tasks] / remodel operations that does not write below the backup
directory, `restore_backup` succeeds, every recorded data file is byte-identical to `orig f`, and nothing
else changed. -/
theorem restore_identity (c : Cfg) (T : List Sym → List Sym) (fs : List Path) (orig : Path → List Sym)
    (ops : List Op) (s s' : St)
    (hne : fs ≠ [])
    (hout : ∀ f ∈ fs, ¬ c.bdir <+: c.dpath f)
    (hcomplete : ∀ f ∈ fs, get s (c.bpath f) = some (.reg (orig f)))
    (hsafe : ∀ o ∈ ops, o.safe c)
    (hrun : runOps c T fs ops s = .ok s') :
    ∃ s'', restore c fs [] s' = .ok s'' ∧
      (∀ f ∈ fs, get s'' (c.dpath f) = some (.reg (orig f))) ∧
      (∀ p, (∀ f ∈ fs, p ≠ c.dpath f) → get s'' p = get s' p) := by
  have hb' : ∀ f ∈ fs, get s' (c.bpath f) = some (.reg (orig f)) := fun f hf => by
    rw [runOps_untouched c T fs hout ops s s' hsafe hrun _ (bdir_prefix_bpath c f)]; exact hcomplete f hf
  have hdisj : ∀ f ∈ fs, ∀ f' ∈ fs, c.dpath f ≠ c.bpath f' :=
    fun f hf f' _ => dpath_ne_bpath c f f' (hout f hf)
  obtain ⟨s'', hs'', hspec⟩ := copyMap_spec c id (picked []) fs s' hdisj (fun f hf => ⟨_, hb' f hf⟩)
  have hfs : fs.isEmpty = false := by cases fs <;> simp_all
  refine ⟨s'', by simp [restore, hfs, hs''], ?_, ?_⟩
  · intro f hf
    exact hspec f hf (by simp [picked]) _ (hb' f hf)
  · intro p hp
    exact copyMap_frame c id _ fs s' s'' hs'' p (fun f hf _ => hp f hf)

/-- Backup, any safe history, restore: every file of the list is back to its bytes at backup time. -/
theorem backup_history_restore (c : Cfg) (T : List Sym → List Sym) (files : List Path) (ops : List Op)
    (s0 s' : St) (hne : files ≠ [])
    (hsrc : ∀ f ∈ files, ∃ b, get s0 (c.dpath f) = some (.reg b))
    (hout : ∀ f ∈ files, ¬ c.bdir <+: c.dpath f)
    (hsafe : ∀ o ∈ ops, o.safe c)
    (hrun : runOps c T files ops (exec (createSteps c s0 files) s0) = .ok s') :
    ∃ s'', restore c files [] s' = .ok s'' ∧ ∀ f ∈ files, get s'' (c.dpath f) = get s0 (c.dpath f) := by
  obtain ⟨s'', h1, h2, _⟩ := restore_identity c T files (srcOf c s0) ops _ s' hne hout
    (fun f hf => create_complete c s0 files f hf) hsafe hrun
  refine ⟨s'', h1, fun f hf => ?_⟩
  obtain ⟨b, hb⟩ := hsrc f hf
  rw [h2 f hf, hb]; simp [srcOf, hb]

/-- **Task-filtered restore touches only the selected files** (and sets those to the backup copy). -/
theorem restore_tasks_only (c : Cfg) (fs : List Path) (tasks : List Name) (s s' : St)
    (h : restore c fs tasks s = .ok s') (p : Path)
    (hp : ∀ f ∈ fs, picked tasks f = true → p ≠ c.dpath f) : get s' p = get s p := by
  simp only [restore] at h
  split at h
  · cases h
  · exact copyMap_frame c id _ fs s s' h p hp

/-- `get_task` looks at the whole list: a file whose base name contains `task_<t>` for *some* listed
(non-empty) task name is picked, whatever the position of `t` in the list. -/
theorem getTask_of_mem (tasks : List Name) (base : Name) (hne : ∀ t ∈ tasks, t ≠ [])
    (h : ∃ t ∈ tasks, isInfix (['t', 'a', 's', 'k', '_'] ++ t) base = true) : getTask tasks base = true := by
  unfold getTask
  split
  · rename_i t ht
    have := hne t (List.mem_of_find?_eq_some ht)
    cases t <;> simp_all
  · rename_i hnone
    obtain ⟨t, ht, hi⟩ := h
    have := List.find?_eq_none.mp hnone t ht
    simp only [List.cons_append, List.nil_append] at hi
    simp [hi] at this

/-- **A task-restricted restore restores every requested task.** With `orig f` the bytes held by the
backup, after `restore_backup(name, tasks)` every recorded file whose base name contains `task_<t>` for
any `t` of the list is byte-identical to its backup copy (not only those of the first task). -/
theorem restore_tasks_complete (c : Cfg) (fs : List Path) (tasks : List Name) (orig : Path → List Sym) (s s' : St)
    (hout : ∀ f ∈ fs, ¬ c.bdir <+: c.dpath f)
    (hback : ∀ f ∈ fs, get s (c.bpath f) = some (.reg (orig f)))
    (hne : ∀ t ∈ tasks, t ≠ [])
    (h : restore c fs tasks s = .ok s') :
    ∀ f ∈ fs, (∃ t ∈ tasks, isInfix (['t', 'a', 's', 'k', '_'] ++ t) (f.getLastD []) = true) →
      get s' (c.dpath f) = some (.reg (orig f)) := by
  intro f hf hsel
  simp only [restore] at h
  split at h
  · cases h
  · obtain ⟨s1, hs1, hspec⟩ := copyMap_spec c id (picked tasks) fs s
      (fun a ha a' _ => dpath_ne_bpath c a a' (hout a ha)) (fun a ha => ⟨_, hback a ha⟩)
    rw [h] at hs1; cases hs1
    have hp : picked tasks f = true := by
      unfold picked
      rw [getTask_of_mem tasks _ hne hsel, Bool.or_true]
    exact hspec f hf hp _ (hback f hf)

/-- **An interrupted restore or remodel is just another thing done to the data files.**  Stop a
`restore_backup(tasks)` or a remodel run after any number `k` of its primitive steps (directory creations,
truncations, half-written files): a subsequent complete restore still succeeds and returns every
recorded file to its backup bytes. -/
theorem restore_after_crashed_restore (c : Cfg) (T : List Sym → List Sym) (fs : List Path) (orig : Path → List Sym)
    (tasks : List Name) (order : List Path) (s : St) (k : Nat)
    (hne : fs ≠ [])
    (hout : ∀ f ∈ fs, ¬ c.bdir <+: c.dpath f)
    (hord : ∀ f ∈ order, ¬ c.bdir <+: c.dpath f)
    (hcomplete : ∀ f ∈ fs, get s (c.bpath f) = some (.reg (orig f))) :
    (∃ s'', restore c fs [] (crashAfter k (restoreSteps c fs tasks s) s) = .ok s'' ∧
        ∀ f ∈ fs, get s'' (c.dpath f) = some (.reg (orig f))) ∧
    (∃ s'', restore c fs [] (crashAfter k (remodelSteps c T fs tasks order s) s) = .ok s'' ∧
        ∀ f ∈ fs, get s'' (c.dpath f) = some (.reg (orig f))) := by
  constructor
  · obtain ⟨s'', h1, h2, _⟩ := restore_identity c T fs orig [.restoreCrash tasks k] s
      (crashAfter k (restoreSteps c fs tasks s) s) hne hout hcomplete
      (by intro o ho; simp at ho; subst ho; trivial) rfl
    exact ⟨s'', h1, h2⟩
  · obtain ⟨s'', h1, h2, _⟩ := restore_identity c T fs orig [.remodelCrash tasks order k] s
      (crashAfter k (remodelSteps c T fs tasks order s) s) hne hout hcomplete
      (by intro o ho; simp at ho; subst ho; exact hord) rfl
    exact ⟨s'', h1, h2⟩

/-! ## 8. Remodel twice = remodel once -/

theorem remodelCore_idempotent (c : Cfg) (T : List Sym → List Sym) (pick1 pick2 : Path → Bool) (fs : List Path)
    (s s' : St)
    (hout : ∀ f ∈ fs, ¬ c.bdir <+: c.dpath f)
    (hback : ∀ f ∈ fs, ∃ b, get s (c.bpath f) = some (.reg b))
    (h : remodelCore c T pick1 pick2 fs s = .ok s') :
    ∃ s'', remodelCore c T pick1 pick2 fs s' = .ok s'' ∧ ∀ p, get s'' p = get s' p := by
  have hdisj : ∀ f ∈ fs, ∀ f' ∈ fs, c.dpath f ≠ c.bpath f' :=
    fun f hf f' _ => dpath_ne_bpath c f f' (hout f hf)
  have hnb : ∀ (pick : Path → Bool) (a : Path), ∀ f ∈ fs, pick f = true → c.bpath a ≠ c.dpath f :=
    fun _ a f hf _ he => hout f hf (he ▸ bdir_prefix_bpath c a)
  -- first run
  simp only [remodelCore] at h
  split at h; · cases h
  rename_i s1 h1
  have b1 : ∀ a, get s1 (c.bpath a) = get s (c.bpath a) :=
    fun a => copyMap_frame c id _ fs s s1 h1 _ (hnb _ a)
  have b2 : ∀ a, get s' (c.bpath a) = get s (c.bpath a) :=
    fun a => by rw [copyMap_frame c T _ fs s1 s' h _ (hnb _ a), b1]
  obtain ⟨t1, ht1, sp1⟩ := copyMap_spec c id pick1 fs s hdisj hback
  rw [h1] at ht1; cases ht1
  obtain ⟨t2, ht2, sp2⟩ := copyMap_spec c T pick2 fs s1 hdisj (fun f hf => by rw [b1]; exact hback f hf)
  rw [h] at ht2; cases ht2
  -- second run
  obtain ⟨u1, hu1, sq1⟩ := copyMap_spec c id pick1 fs s' hdisj (fun f hf => by rw [b2]; exact hback f hf)
  have b3 : ∀ a, get u1 (c.bpath a) = get s (c.bpath a) :=
    fun a => by rw [copyMap_frame c id _ fs s' u1 hu1 _ (hnb _ a), b2]
  obtain ⟨u2, hu2, sq2⟩ := copyMap_spec c T pick2 fs u1 hdisj (fun f hf => by rw [b3]; exact hback f hf)
  refine ⟨u2, by simp [remodelCore, hu1, hu2], ?_⟩
  intro p
  by_cases hsel : ∃ f ∈ fs, pick2 f = true ∧ p = c.dpath f
  · obtain ⟨f, hf, hsf, rfl⟩ := hsel
    obtain ⟨b, hb⟩ := hback f hf
    rw [sq2 f hf hsf b (by rw [b3]; exact hb), sp2 f hf hsf b (by rw [b1]; exact hb)]
  · have hns : ∀ f ∈ fs, pick2 f = true → p ≠ c.dpath f := fun f hf hsf he => hsel ⟨f, hf, hsf, he⟩
    rw [copyMap_frame c T _ fs u1 u2 hu2 p hns, copyMap_frame c T _ fs s1 s' h p hns]
    by_cases hany : ∃ f ∈ fs, pick1 f = true ∧ p = c.dpath f
    · obtain ⟨f, hf, hp1, rfl⟩ := hany
      obtain ⟨b, hb⟩ := hback f hf
      rw [sq1 f hf hp1 b (by rw [b2]; exact hb), sp1 f hf hp1 b hb]
    · have hna : ∀ f ∈ fs, pick1 f = true → p ≠ c.dpath f := fun f hf h1' he => hany ⟨f, hf, h1', he⟩
      rw [copyMap_frame c id _ fs s' u1 hu1 p hna, copyMap_frame c T _ fs s1 s' h p hns]

theorem remodel_core (c : Cfg) (T : List Sym → List Sym) (fs : List Path) (tasks : List Name) (s s' : St)
    (h : remodel c T fs tasks s = .ok s') :
    ∃ s1, copyMap c id (picked tasks) fs s = .ok s1 ∧
      remodelCore c T (picked tasks) (rewritten c tasks s1) fs s = .ok s' := by
  simp only [remodel] at h
  split at h; · cases h
  split at h; · cases h
  rename_i s1 h1
  split at h; · cases h
  exact ⟨s1, h1, by simp [remodelCore, h1, h]⟩

theorem copyMap_pick_congr (c : Cfg) (g : List Sym → List Sym) (pick pick' : Path → Bool) (fs : List Path) (s : St)
    (h : ∀ f ∈ fs, pick f = pick' f) : copyMap c g pick fs s = copyMap c g pick' fs s := by
  induction fs generalizing s with
  | nil => rfl
  | cons f r ih =>
    simp only [copyMap, h f (List.mem_cons_self ..)]
    have hr := fun s => ih s (fun a ha => h a (List.mem_cons_of_mem _ ha))
    split
    · split
      · exact hr _
      · rfl
    · exact hr _

/-- after `copyMap`, the data file of a recorded file is regular iff it was picked or was regular before -/
theorem copyMap_isReg (c : Cfg) (g : List Sym → List Sym) (pick : Path → Bool) (fs : List Path) (s s1 : St)
    (hdisj : ∀ f ∈ fs, ∀ f' ∈ fs, c.dpath f ≠ c.bpath f')
    (hback : ∀ f ∈ fs, ∃ b, get s (c.bpath f) = some (.reg b))
    (h : copyMap c g pick fs s = .ok s1) (f : Path) (hf : f ∈ fs) :
    isReg s1 (c.dpath f) = (pick f || isReg s (c.dpath f)) := by
  obtain ⟨t, ht, spec⟩ := copyMap_spec c g pick fs s hdisj hback
  rw [h] at ht; cases ht
  by_cases hp : pick f = true
  · obtain ⟨b, hb⟩ := hback f hf
    simp [isReg, spec f hf hp b hb, hp]
  · have := copyMap_frame c g pick fs s s1 h (c.dpath f) (fun f' _ hp' he => by
      have : f = f' := List.append_cancel_left he
      subst this; exact hp hp')
    simp [isReg, this, hp]

/-- **Running the remodeler twice equals running it once** (also with `-t tasks`): each run restores the
picked files and then rewrites every selected existing file of the requested tasks from its backup
copy, so the second run's result has the same files as the first. -/
theorem remodel_idempotent (c : Cfg) (T : List Sym → List Sym) (fs : List Path) (tasks : List Name) (s s' s'' : St)
    (hout : ∀ f ∈ fs, ¬ c.bdir <+: c.dpath f)
    (hback : ∀ f ∈ fs, ∃ b, get s (c.bpath f) = some (.reg b))
    (h1 : remodel c T fs tasks s = .ok s') (h2 : remodel c T fs tasks s' = .ok s'') : ∀ p, get s'' p = get s' p := by
  have hdisj : ∀ f ∈ fs, ∀ f' ∈ fs, c.dpath f ≠ c.bpath f' :=
    fun f hf f' _ => dpath_ne_bpath c f f' (hout f hf)
  have hnb : ∀ (pick : Path → Bool) (a : Path), ∀ f ∈ fs, pick f = true → c.bpath a ≠ c.dpath f :=
    fun _ a f hf _ he => hout f hf (he ▸ bdir_prefix_bpath c a)
  obtain ⟨s1, r1, c1⟩ := remodel_core c T fs tasks s s' h1
  obtain ⟨s1', r2, c2⟩ := remodel_core c T fs tasks s' s'' h2
  -- the first run again, to get at its second phase
  have hw : copyMap c T (rewritten c tasks s1) fs s1 = .ok s' := by simpa [remodelCore, r1] using c1
  have hb1 : ∀ f ∈ fs, ∃ b, get s1 (c.bpath f) = some (.reg b) := fun f hf => by
    rw [copyMap_frame c id _ fs s s1 r1 _ (hnb _ f)]; exact hback f hf
  have hb' : ∀ f ∈ fs, ∃ b, get s' (c.bpath f) = some (.reg b) := fun f hf => by
    rw [copyMap_frame c T _ fs s1 s' hw _ (hnb _ f)]; exact hb1 f hf
  -- both runs rewrite the same files
  have hsame : ∀ f ∈ fs, rewritten c tasks s1' f = rewritten c tasks s1 f := by
    intro f hf
    have e1 := copyMap_isReg c id _ fs s s1 hdisj hback r1 f hf
    have e2 := copyMap_isReg c T _ fs s1 s' hdisj hb1 hw f hf
    have e3 := copyMap_isReg c id _ fs s' s1' hdisj hb' r2 f hf
    simp only [rewritten] at e2 ⊢
    rw [e3, e2]
    cases hp : picked tasks f <;> cases hr : isReg s1 (c.dpath f) <;> simp_all
  have c2' : remodelCore c T (picked tasks) (rewritten c tasks s1) fs s' = .ok s'' := by
    simp only [remodelCore, r2] at c2 ⊢
    rw [← copyMap_pick_congr c T _ _ fs s1' hsame]; exact c2
  obtain ⟨u, hu, heq⟩ := remodelCore_idempotent c T _ _ fs s s' hout hback c1
  rw [c2'] at hu
  cases hu; exact heq

/-- **Remodel starts from the backed-up originals**: whatever the data files held, after a run every
rewritten file (selected, of a requested task, and present after the run's restore) is `T` of its
backup copy. -/
theorem remodel_from_backup (c : Cfg) (T : List Sym → List Sym) (fs : List Path) (tasks : List Name)
    (orig : Path → List Sym) (s s' : St)
    (hout : ∀ f ∈ fs, ¬ c.bdir <+: c.dpath f)
    (hback : ∀ f ∈ fs, get s (c.bpath f) = some (.reg (orig f)))
    (h : remodel c T fs tasks s = .ok s') :
    ∀ f ∈ fs, (selKey f && taskOk tasks f) = true → (picked tasks f || isReg s (c.dpath f)) = true →
      get s' (c.dpath f) = some (.reg (T (orig f))) := by
  intro f hf hsel hex
  obtain ⟨s1, h1, hc⟩ := remodel_core c T fs tasks s s' h
  have hw : copyMap c T (rewritten c tasks s1) fs s1 = .ok s' := by simpa [remodelCore, h1] using hc
  have hdisj : ∀ a ∈ fs, ∀ a' ∈ fs, c.dpath a ≠ c.bpath a' :=
    fun a ha a' _ => dpath_ne_bpath c a a' (hout a ha)
  have b1 : ∀ a, get s1 (c.bpath a) = get s (c.bpath a) :=
    fun a => copyMap_frame c id _ fs s s1 h1 _ (fun f' hf' _ he => hout f' hf' (he ▸ bdir_prefix_bpath c a))
  have hreg := copyMap_isReg c id _ fs s s1 hdisj (fun a ha => ⟨_, hback a ha⟩) h1 f hf
  obtain ⟨t2, ht2, sp2⟩ := copyMap_spec c T (rewritten c tasks s1) fs s1 hdisj
    (fun a ha => ⟨_, by rw [b1]; exact hback a ha⟩)
  rw [hw] at ht2; cases ht2
  exact sp2 f hf (by simp only [rewritten, hreg, hex, hsel, Bool.and_self]) _ (by rw [b1]; exact hback f hf)

/-! ## 9. An existing backup is never overwritten -/

/-- `create_backup` with a listed name returns `False` and performs no file-system step. -/
theorem no_overwrite (c : Cfg) (listing : Listing) (s : St) (files : List Path)
    (h : c.name ∈ listing.map (·.1)) :
    (create c listing s files).1 = false ∧ exec (create c listing s files).2 s = s := by
  have : listing.any (fun e => e.1 == c.name) = true := by
    simp only [List.mem_map] at h
    obtain ⟨e, he, hn⟩ := h
    simp only [List.any_eq_true]
    exact ⟨e, he, by simp [hn]⟩
  simp [create, this, exec]

/-! ## 10. Several named backups side by side -/

theorem createSteps_tgt (c : Cfg) (s0 : St) (files : List Path) :
    ∀ st ∈ createSteps c s0 files, st.simple = true ∧ ∀ q ∈ st.tgt, c.bdir <+: q := by
  intro st hst
  simp only [createSteps, List.mem_append] at hst
  rcases hst with h | h
  · constructor
    · simp only [copyPhase, List.mem_append, List.mem_flatMap, perFile, mkdirsSteps, List.mem_map, writeSteps,
        List.mem_cons, List.not_mem_nil, or_false] at h
      rcases h with ⟨_, _, rfl⟩ | ⟨_, _, ⟨_, _, rfl⟩ | rfl | rfl | rfl | rfl⟩ <;> rfl
    · intro q hq
      rcases copyPhase_tgt c s0 files st h q hq with h1 | h1
      · rw [h1]; exact List.prefix_refl _
      · exact (bdir_prefix_broot c).trans h1
  · constructor
    · simp only [lockPhase, writeSteps, List.mem_cons, List.not_mem_nil, or_false] at h
      rcases h with rfl | rfl | rfl | rfl <;> rfl
    · intro q hq
      rw [writeSteps_tgt _ _ st h q hq]
      exact ⟨[lockName], by simp [Cfg.bdir, Cfg.lock]⟩

theorem other_dir_not_prefix (c : Cfg) (a : Name) (hab : a ≠ c.name) (rest q : Path) (hq : c.bdir <+: q) :
    ¬ (c.backups ++ [a] ++ rest) <+: q := by
  intro h
  have h1 : (c.backups ++ [a]) <+: q := (List.prefix_append _ _).trans h
  have h2 := List.prefix_of_prefix_length_le h1 hq (by simp [Cfg.bdir])
  simp only [Cfg.bdir] at h2
  rw [List.prefix_append_right_inj] at h2
  obtain ⟨t, ht⟩ := h2
  simp at ht
  exact hab ht.1

theorem scanOne_congr (s s' : St) (B : Path) (a : Name)
    (hget : ∀ p, (B ++ [a]) <+: p → get s' p = get s p)
    (hch : children s' (B ++ [a]) = children s (B ++ [a]))
    (hw : walk s' (B ++ [a, rootName]) = walk s (B ++ [a, rootName])) :
    scanOne s' B a = scanOne s B a := by
  have g1 := hget (B ++ [a]) (List.prefix_refl _)
  have g2 := hget (B ++ [a, lockName]) ⟨[lockName], by simp⟩
  have g3 := hget (B ++ [a, rootName]) ⟨[rootName], by simp⟩
  unfold scanOne isDir
  simp only []
  rw [g1, g2, g3, hch, hw]

/-- **Backups are independent.** Creating backup `B` — completely, or interrupted after any `k` steps —
changes no file of another backup `A`, and the consistency scan's verdict on `A` is unchanged. -/
theorem backups_independent (c : Cfg) (a : Name) (hab : a ≠ c.name) (s0 : St) (files : List Path) (k : Nat) :
    (∀ p, (c.backups ++ [a]) <+: p → get (crashAfter k (createSteps c s0 files) s0) p = get s0 p) ∧
    scanOne (crashAfter k (createSteps c s0 files) s0) c.backups a = scanOne s0 c.backups a := by
  have htg := fun st (hst : st ∈ (createSteps c s0 files).take k) =>
    createSteps_tgt c s0 files st (List.mem_of_mem_take hst)
  have hget : ∀ p, (c.backups ++ [a]) <+: p → get (crashAfter k (createSteps c s0 files) s0) p = get s0 p := by
    intro p hp
    apply get_exec
    intro st hst hq
    have := other_dir_not_prefix c a hab [] p ((htg st hst).2 p hq)
    simp at this; exact this hp
  refine ⟨hget, scanOne_congr _ _ _ _ hget ?_ ?_⟩
  · exact (children_walk_exec _ s0 _ (fun st hst => ⟨(htg st hst).1, fun q hq => by
      have := other_dir_not_prefix c a hab [] q ((htg st hst).2 q hq); simpa using this⟩)).1
  · exact (children_walk_exec _ s0 _ (fun st hst => ⟨(htg st hst).1, fun q hq => by
      have := other_dir_not_prefix c a hab [rootName] q ((htg st hst).2 q hq); simpa using this⟩)).2

theorem scanList_names (s : St) (B : Path) : ∀ (l : List Name) (L : Listing), scanList s B l = .ok L →
    ∀ e, e ∈ l → ∃ ks, (e, ks) ∈ L
  | [], L, _, e, he => by cases he
  | a :: r, L, h, e, he => by
    simp only [scanList] at h
    split at h
    · cases h
    · rename_i ka _
      split at h
      · cases h
      · rename_i l hl
        cases h
        rcases List.mem_cons.mp he with h1 | h1
        · exact ⟨ka, h1 ▸ List.mem_cons_self ..⟩
        · obtain ⟨ks, hks⟩ := scanList_names s B r l hl e h1
          exact ⟨ks, List.mem_cons_of_mem _ hks⟩

theorem scanList_mem_names (s : St) (B : Path) : ∀ (l : List Name) (L : Listing), scanList s B l = .ok L →
    ∀ e ks, (e, ks) ∈ L → e ∈ l
  | [], L, h, e, ks, hm => by simp [scanList] at h; subst h; simp at hm
  | a :: r, L, h, e, ks, hm => by
    simp only [scanList] at h
    split at h
    · cases h
    · split at h
      · cases h
      · rename_i l hl
        cases h
        rcases List.mem_cons.mp hm with h1 | h1
        · cases h1; exact List.mem_cons_self ..
        · exact List.mem_cons_of_mem _ (scanList_mem_names s B r l hl e ks h1)

/-- If managers can be constructed before and after creating `B`, backup `A` is listed with the same
record in both listings. -/
theorem other_backup_still_listed (c : Cfg) (a : Name) (hab : a ≠ c.name) (s0 : St) (files : List Path) (k : Nat)
    (L L' : Listing) (ks : List Key)
    (h0 : scan s0 c.backups = .ok L) (hl : (a, ks) ∈ L)
    (h1 : scan (crashAfter k (createSteps c s0 files) s0) c.backups = .ok L') : (a, ks) ∈ L' := by
  have hin : a ∈ children s0 c.backups := scanList_mem_names _ _ _ _ h0 _ _ hl
  have hin' : a ∈ children (crashAfter k (createSteps c s0 files) s0) c.backups :=
    mem_children_exec _ s0 _ _ (fun st hst => (createSteps_tgt c s0 files st (List.mem_of_mem_take hst)).1) hin
  obtain ⟨ks', hks'⟩ := scanList_names _ _ _ _ h1 a hin'
  have e1 := scanList_ok_mem _ _ _ _ h1 _ _ hks'
  have e0 := scanList_ok_mem _ _ _ _ h0 _ _ hl
  rw [(backups_independent c a hab s0 files k).2, e0] at e1
  cases e1; exact hks'

theorem scanList_error (s : St) (B : Path) : ∀ (l : List Name) (e : Name), e ∈ l →
    (∀ ks, scanOne s B e ≠ .ok ks) → ∀ L, scanList s B l ≠ .ok L
  | [], e, he, _, _ => by cases he
  | a :: r, e, he, hbad, L => by
    intro h
    simp only [scanList] at h
    split at h
    · cases h
    · rename_i ka hka
      split at h
      · cases h
      · rename_i l hl
        rcases List.mem_cons.mp he with h1 | h1
        · subst h1; exact hbad ka hka
        · exact scanList_error s B r e h1 hbad l hl

/-- **What an interrupted creation leaves behind (observation 1, stated precisely).**  From the first step
until the record is complete (`1 ≤ k < #copy steps + 3`), the scan of the whole backups directory
FAILS: no manager can be constructed for this data root, so no backup at all is listed - neither the
half-made one nor any earlier, intact one (whose files are untouched, `backups_independent`). -/
theorem incomplete_backup_blocks_manager (c : Cfg) (s0 : St) (files : List Path) (k : Nat)
    (hfresh : ∀ p, c.bdir <+: p → get s0 p = none)
    (hk1 : 1 ≤ k) (hk2 : k < (copyPhase c s0 files).length + 3) :
    ∀ L, scan (crashAfter k (createSteps c s0 files) s0) c.backups ≠ .ok L := by
  -- the backup's directory entry exists from step 1 on
  have hsteps : createSteps c s0 files = .mkdir c.bdir :: (createSteps c s0 files).drop 1 := by
    simp [createSteps, copyPhase, mkdirsSteps, List.range, List.range.loop, Cfg.bdir]
  have hin : c.name ∈ children (crashAfter k (createSteps c s0 files) s0) c.backups := by
    obtain ⟨k', rfl⟩ : ∃ k', k = k' + 1 := ⟨k - 1, by omega⟩
    unfold crashAfter
    rw [hsteps, List.take_succ_cons, exec_cons]
    apply mem_children_exec
    · intro st hst
      exact (createSteps_tgt c s0 files st (List.mem_of_mem_drop (List.mem_of_mem_take hst))).1
    · apply mem_children_of_get
      have : get s0 (c.backups ++ [c.name]) = none := hfresh _ (List.prefix_refl _)
      simp [step, this, get_set, Cfg.bdir]
  refine scanList_error _ _ _ c.name hin ?_
  intro ks hone
  obtain ⟨txt, hlock, hparse, _⟩ := scanOne_ok _ _ _ _ hone
  have hs : crashAfter k (createSteps c s0 files) s0 =
      exec ((lockPhase c files).take (k - (copyPhase c s0 files).length))
        (exec ((copyPhase c s0 files).take k) s0) := by
    simp [crashAfter, createSteps, List.take_append, exec_append]
  generalize hj : k - (copyPhase c s0 files).length = j at hs
  have hlock0 : get (exec ((copyPhase c s0 files).take k) s0) c.lock = none := by
    rw [copyPhase_lock]; exact hfresh _ ⟨[lockName], by simp [Cfg.bdir, Cfg.lock]⟩
  rw [hs] at hlock
  change get _ c.lock = _ at hlock
  have hrec := record_length_pos c.stamp ((files.map joinKey).eraseDups)
  obtain h0 | h1 | h2 : j = 0 ∨ j = 1 ∨ j = 2 := by omega
  · subst h0
    have he : exec ((lockPhase c files).take 0) (exec ((copyPhase c s0 files).take k) s0)
        = exec ((copyPhase c s0 files).take k) s0 := rfl
    rw [he, hlock0] at hlock; cases hlock
  · subst h1
    simp [lockPhase, writeSteps, exec, step, get_set] at hlock
    subst hlock; simp [parse_nil] at hparse
  · subst h2
    simp [lockPhase, writeSteps, exec, step, get_set] at hlock
    subst hlock
    simp only [recordOf] at hparse
    rw [torn_record_rejected] at hparse
    · cases hparse
    · omega

/-! ## 10b. Sessions: creations, re-opened managers, restores and data modifications -/

theorem lookup_append (m x : Listing) (B : Name) (ks : List Key) (h : lookup m B = some ks) :
    lookup (m ++ x) B = some ks := by
  unfold lookup at h ⊢
  cases hf : m.find? (fun e => e.1 == B) with
  | none => simp [hf] at h
  | some e => simp [List.find?_append, hf] at h ⊢; exact h

theorem lookup_mem (L : Listing) (B : Name) (x : List Key) (h : lookup L B = some x) : (B, x) ∈ L := by
  unfold lookup at h
  cases hf : L.find? (fun e => e.1 == B) with
  | none => simp [hf] at h
  | some e =>
    simp [hf] at h
    have h1 := List.mem_of_find?_eq_some hf
    have h2 := List.find?_some hf
    obtain ⟨a, b⟩ := e
    simp at h2 h; subst h2; subst h; exact h1

theorem lookup_of_name (L : Listing) (B : Name) (h : B ∈ L.map (·.1)) : ∃ x, lookup L B = some x := by
  unfold lookup
  cases hf : L.find? (fun e => e.1 == B) with
  | none =>
    obtain ⟨e, he, hn⟩ := List.mem_map.mp h
    have := List.find?_eq_none.mp hf e he
    simp [hn] at this
  | some e => exact ⟨e.2, rfl⟩

theorem name_of_lookup (L : Listing) (B : Name) (x : List Key) (h : lookup L B = some x) : B ∈ L.map (·.1) :=
  List.mem_map.mpr ⟨(B, x), lookup_mem L B x h, rfl⟩

/-- whatever `copyMap` writes are `set`s at data paths of the listed files -/
theorem copyMap_preserves (c : Cfg) (g : List Sym → List Sym) (pick : Path → Bool) (fs : List Path) (P : St → Prop)
    (hP : ∀ s f b, f ∈ fs → P s → P (set s (c.dpath f) (.reg b)))
    (s s1 : St) (h : copyMap c g pick fs s = .ok s1) (h0 : P s) : P s1 := by
  induction fs generalizing s with
  | nil => simp [copyMap] at h; exact h ▸ h0
  | cons f r ih =>
    have hP' : ∀ s f b, f ∈ r → P s → P (set s (c.dpath f) (.reg b)) :=
      fun s f b hf => hP s f b (List.mem_cons_of_mem _ hf)
    simp only [copyMap] at h
    split at h
    · split at h
      · exact ih hP' _ h (hP s f _ (List.mem_cons_self ..) h0)
      · cases h
    · exact ih hP' _ h h0

theorem create_other_listing (c : Cfg) (a : Name) (hab : a ≠ c.name) (s0 : St) (files : List Path) (k : Nat) :
    children (crashAfter k (createSteps c s0 files) s0) (c.backups ++ [a]) = children s0 (c.backups ++ [a]) ∧
    walk (crashAfter k (createSteps c s0 files) s0) (c.backups ++ [a, rootName]) =
      walk s0 (c.backups ++ [a, rootName]) := by
  have htg := fun st (hst : st ∈ (createSteps c s0 files).take k) =>
    createSteps_tgt c s0 files st (List.mem_of_mem_take hst)
  constructor
  · exact (children_walk_exec _ s0 _ (fun st hst => ⟨(htg st hst).1, fun q hq => by
      have := other_dir_not_prefix c a hab [] q ((htg st hst).2 q hq); simpa using this⟩)).1
  · exact (children_walk_exec _ s0 _ (fun st hst => ⟨(htg st hst).1, fun q hq => by
      have := other_dir_not_prefix c a hab [rootName] q ((htg st hst).2 q hq); simpa using this⟩)).2

/-- What a session keeps invariant about the directory of backup `B` (relative to the state `s0`):
its entry exists, every path below it is as in `s0`, and its listings are as in `s0`. -/
structure SInv (c : Cfg) (B : Name) (s0 s : St) : Prop where
  dir : B ∈ children s c.backups
  frame : ∀ p, (c.backups ++ [B]) <+: p → get s p = get s0 p
  ch : children s (c.backups ++ [B]) = children s0 (c.backups ++ [B])
  wk : walk s (c.backups ++ [B, rootName]) = walk s0 (c.backups ++ [B, rootName])

theorem sinv_scanOne (c : Cfg) (B : Name) (s0 s : St) (h : SInv c B s0 s) :
    scanOne s c.backups B = scanOne s0 c.backups B :=
  scanOne_congr _ _ _ _ h.frame h.ch h.wk

theorem sinv_set (c : Cfg) (B : Name) (s0 s : St) (q : Path) (f : File Sym) (h : SInv c B s0 s)
    (hq : ¬ c.backups <+: q) : SInv c B s0 (set s q f) := by
  have h1 : ¬ (c.backups ++ [B]) <+: q := fun hp => hq ((List.prefix_append _ _).trans hp)
  have h2 : ¬ (c.backups ++ [B, rootName]) <+: q := fun hp => hq ((List.prefix_append _ _).trans hp)
  refine ⟨mem_children_set _ _ _ _ _ h.dir, ?_, ?_, ?_⟩
  · intro p hp
    rw [get_set, ← h.frame p hp]
    have : q ≠ p := fun e => h1 (e ▸ hp)
    simp [this]
  · rw [children_set _ _ _ _ h1, h.ch]
  · rw [walk_set _ _ _ _ h2, h.wk]

/-- one operation of a session keeps `B` in the dictionary and `B`'s directory intact -/
theorem bstep_sinv (c : Cfg) (B : Name) (s0 : St) (ms : Listing × St) (o : BOp)
    (hB : B ∈ ms.1.map (·.1)) (hs : SInv c B s0 ms.2) (hok : o.ok c ms) :
    B ∈ (bstep c ms o).1.map (·.1) ∧ SInv c B s0 (bstep c ms o).2 := by
  obtain ⟨m, s⟩ := ms
  cases o with
  | create n files =>
    simp only [bstep]
    split
    · rename_i hret
      have hn : B ≠ n := by
        intro e; subst e
        have := (no_overwrite { c with name := B } m s files hB).1
        simp [this] at hret
      have hc : (create { c with name := n } m s files).2 = createSteps { c with name := n } s files := by
        simp only [create] at hret ⊢
        split
        · rename_i hx; simp [hx] at hret
        · rfl
      have hex : exec (createSteps { c with name := n } s files) s =
          crashAfter (createSteps { c with name := n } s files).length (createSteps { c with name := n } s files) s := by
        simp [crashAfter, List.take_length]
      refine ⟨by simp only [List.map_append, List.mem_append]; exact .inl hB, ?_⟩
      simp only [hc]
      have hl := create_other_listing { c with name := n } B hn s files (createSteps { c with name := n } s files).length
      have hi := (backups_independent { c with name := n } B hn s files
        (createSteps { c with name := n } s files).length).1
      rw [← hex] at hl hi
      refine ⟨?_, fun p hp => by rw [hi p hp, hs.frame p hp], by rw [hl.1, hs.ch], by rw [hl.2, hs.wk]⟩
      exact mem_children_exec _ s _ _ (fun st hst => (createSteps_tgt _ s files st hst).1) hs.dir
    · exact ⟨hB, hs⟩
  | reopen =>
    simp only [bstep]
    split
    · rename_i l hl
      obtain ⟨ks, hks⟩ := scanList_names _ _ _ _ hl B hs.dir
      exact ⟨List.mem_map.mpr ⟨(B, ks), hks, rfl⟩, hs⟩
    · exact ⟨hB, hs⟩
  | restore n tasks =>
    simp only [bstep]
    split
    · rename_i ks hks
      split
      · rename_i s' hr
        refine ⟨hB, ?_⟩
        simp only [restore] at hr
        split at hr
        · cases hr
        · refine copyMap_preserves _ id _ _ (SInv c B s0) ?_ s s' hr hs
          intro t f b hf ht
          obtain ⟨k, hk, rfl⟩ := List.mem_map.mp hf
          exact sinv_set c B s0 t _ _ ht (hok ks hks k hk)
      · exact ⟨hB, hs⟩
    · exact ⟨hB, hs⟩
  | modify p b => exact ⟨hB, sinv_set c B s0 s p _ hs hok⟩

/-- ... and keeps `B`'s RECORD in the dictionary, when dictionary and disk agreed on it at the start -/
theorem bstep_rec (c : Cfg) (B : Name) (ks : List Key) (s0 : St) (ms : Listing × St) (o : BOp)
    (hdisk : scanOne s0 c.backups B = .ok ks)
    (hB : lookup ms.1 B = some ks) (hs : SInv c B s0 ms.2) : lookup (bstep c ms o).1 B = some ks := by
  obtain ⟨m, s⟩ := ms
  cases o with
  | create n files => simp only [bstep]; split; · exact lookup_append _ _ _ _ hB
                      · exact hB
  | reopen =>
    simp only [bstep]
    split
    · rename_i l hl
      obtain ⟨x, hx⟩ := scanList_names _ _ _ _ hl B hs.dir
      obtain ⟨y, hy⟩ := lookup_of_name l B (List.mem_map.mpr ⟨(B, x), hx, rfl⟩)
      have := scanList_ok_mem _ _ _ _ hl _ _ (lookup_mem l B y hy)
      rw [sinv_scanOne c B s0 s hs, hdisk] at this
      cases this; exact hy
    · exact hB
  | restore n tasks => simp only [bstep]; split; · split <;> exact hB
                       · exact hB
  | modify p b => exact hB

/-- **No session overwrites or alters an existing backup.**  `A` is a name in the manager's dictionary (its
record may be EMPTY) whose directory exists.  After any session of `create_backup` calls (any names incl.
`A`, any selections incl. `[]`), re-opened managers, restores of ANY backup with any task list, and data
file modifications, `A` is still in the dictionary, no path below `A`'s directory has changed (so a
restore of `B` leaves `A` - and `B` - byte-identical), and the scan's verdict on `A` is the same. -/
theorem create_never_overwrites (c : Cfg) (A : Name) (h : List BOp) (m : Listing) (s : St)
    (hA : A ∈ m.map (·.1)) (hdir : A ∈ children s c.backups) (hok : BOk c h (m, s)) :
    A ∈ (brun c h (m, s)).1.map (·.1) ∧ A ∈ children (brun c h (m, s)).2 c.backups ∧
      (∀ p, (c.backups ++ [A]) <+: p → get (brun c h (m, s)).2 p = get s p) ∧
      scanOne (brun c h (m, s)).2 c.backups A = scanOne s c.backups A := by
  suffices H : ∀ (ms : Listing × St), A ∈ ms.1.map (·.1) → SInv c A s ms.2 → BOk c h ms →
      A ∈ (brun c h ms).1.map (·.1) ∧ SInv c A s (brun c h ms).2 by
    obtain ⟨h1, h2⟩ := H (m, s) hA ⟨hdir, fun _ _ => rfl, rfl, rfl⟩ hok
    exact ⟨h1, h2.dir, h2.frame, sinv_scanOne c A s _ h2⟩
  clear hok
  induction h with
  | nil => intro ms h1 h2 _; exact ⟨h1, h2⟩
  | cons o r ih =>
    intro ms h1 h2 h3
    obtain ⟨i1, i2⟩ := bstep_sinv c A s ms o h1 h2 h3.1
    exact ih (bstep c ms o) i1 i2 h3.2

/-- ... hence, after any such session, `create_backup(files, A)` returns `False` and does nothing. -/
theorem create_existing_returns_false (c : Cfg) (A : Name) (h : List BOp) (m : Listing) (s : St) (files : List Path)
    (hA : A ∈ m.map (·.1)) (hdir : A ∈ children s c.backups) (hok : BOk c h (m, s)) :
    bstep c (brun c h (m, s)) (.create A files) = brun c h (m, s) := by
  have := (no_overwrite { c with name := A } (brun c h (m, s)).1 (brun c h (m, s)).2 files
    (create_never_overwrites c A h m s hA hdir hok).1).1
  simp [bstep, this]

/-- **Round trip at full strength over sessions.**  Backup `B` is in the dictionary with record `ks`, the disk
agrees (`scanOne`), and its copies hold `orig f` (e.g. right after `create_backup`).  After ANY session
(creations of any names, re-opened managers, restores of any backups with any task lists, data file
modifications), the dictionary still holds `ks` for `B`, and `restore_backup(B)` succeeds, makes every
file recorded in `B` byte-identical to `orig f`, and changes nothing else. -/
theorem session_restore_identity (c : Cfg) (B : Name) (ks : List Key) (orig : Path → List Sym) (h : List BOp)
    (m : Listing) (s : St)
    (hB : lookup m B = some ks) (hdisk : scanOne s c.backups B = .ok ks) (hdir : B ∈ children s c.backups)
    (hne : ks ≠ [])
    (hout : ∀ k ∈ ks, ¬ c.backups <+: c.dataRoot ++ splitKey k)
    (hcomplete : ∀ f ∈ ks.map splitKey, get s ({ c with name := B }.bpath f) = some (.reg (orig f)))
    (hok : BOk c h (m, s)) :
    lookup (brun c h (m, s)).1 B = some ks ∧
    ∃ s'', restore { c with name := B } (ks.map splitKey) [] (brun c h (m, s)).2 = .ok s'' ∧
      (∀ f ∈ ks.map splitKey, get s'' (c.dataRoot ++ f) = some (.reg (orig f))) ∧
      (∀ p, (∀ f ∈ ks.map splitKey, p ≠ c.dataRoot ++ f) → get s'' p = get (brun c h (m, s)).2 p) := by
  have H : ∀ (r : List BOp) (ms : Listing × St), lookup ms.1 B = some ks → SInv c B s ms.2 → BOk c r ms →
      lookup (brun c r ms).1 B = some ks ∧ SInv c B s (brun c r ms).2 := by
    intro r
    induction r with
    | nil => intro ms h1 h2 _; exact ⟨h1, h2⟩
    | cons o r ih =>
      intro ms h1 h2 h3
      exact ih (bstep c ms o) (bstep_rec c B ks s ms o hdisk h1 h2)
        (bstep_sinv c B s ms o (name_of_lookup _ _ _ h1) h2 h3.1).2 h3.2
  obtain ⟨r1, r2⟩ := H h (m, s) hB ⟨hdir, fun _ _ => rfl, rfl, rfl⟩ hok
  refine ⟨r1, ?_⟩
  have hfs : ks.map splitKey ≠ [] := by cases ks <;> simp_all
  have hout' : ∀ f ∈ ks.map splitKey, ¬ ({ c with name := B } : Cfg).bdir <+: ({ c with name := B } : Cfg).dpath f := by
    intro f hf hp
    obtain ⟨k, hk, rfl⟩ := List.mem_map.mp hf
    exact hout k hk ((List.prefix_append _ _).trans hp)
  have hc' : ∀ f ∈ ks.map splitKey,
      get (brun c h (m, s)).2 (({ c with name := B } : Cfg).bpath f) = some (.reg (orig f)) := by
    intro f hf
    rw [r2.frame _ (bdir_prefix_bpath { c with name := B } f)]
    exact hcomplete f hf
  exact restore_identity { c with name := B } id (ks.map splitKey) orig [] _ _ hfs hout' hc'
    (fun _ ho => by cases ho) rfl


/-! ## 10c. "Never half-valid", stated per crash point -/

/-- **Crash atomicity of `create_backup`.**  Stop after any `k` primitive steps and open a manager:
* `k = 0`: the backup is absent from every listing;
* from the first step until the record is complete: NO manager can be opened (the scan raises) - in this
  code a directory without a valid record is not "ignored", it is reported and blocks the data root;
* at every `k`: if a manager can be opened and lists the backup, every recorded file is present in the
  backup and byte-equal to its source. -/
theorem crash_atomicity (c : Cfg) (s0 : St) (files : List Path) (k : Nat)
    (hfresh : ∀ p, c.bdir <+: p → get s0 p = none)
    (hsrc : ∀ f ∈ files, ∃ b, get s0 (c.dpath f) = some (.reg b)) :
    (k = 0 → ∀ L, scan (crashAfter k (createSteps c s0 files) s0) c.backups = .ok L → c.name ∉ L.map (·.1)) ∧
    (1 ≤ k → k < (copyPhase c s0 files).length + 3 →
      ∀ L, scan (crashAfter k (createSteps c s0 files) s0) c.backups ≠ .ok L) ∧
    (∀ L, scan (crashAfter k (createSteps c s0 files) s0) c.backups = .ok L → ∀ ks, (c.name, ks) ∈ L →
      ∀ key ∈ ks, ∃ b, get (crashAfter k (createSteps c s0 files) s0) (c.bpath (splitKey key)) = some (.reg b) ∧
        get s0 (c.dpath (splitKey key)) = some (.reg b)) := by
  refine ⟨?_, fun h1 h2 => incomplete_backup_blocks_manager c s0 files k hfresh h1 h2,
    fun L hL ks hks => crash_consistent c s0 files k hfresh hsrc L hL ks hks⟩
  intro hk L hL hin
  subst hk
  obtain ⟨e, he, hn⟩ := List.mem_map.mp hin
  obtain ⟨n, ks⟩ := e
  simp only at hn; subst hn
  have hc : c.name ∈ children s0 c.backups := scanList_mem_names _ _ _ _ hL _ _ he
  exact get_ne_none_of_mem_children s0 c.backups c.name hc (hfresh _ (List.prefix_refl _))

theorem copySteps_simple (c : Cfg) (g : List Sym → List Sym) (mk : Bool) (pick : Path → Bool) (fs : List Path) (s : St) :
    ∀ st ∈ copySteps c g mk pick fs s, st.simple = true := by
  induction fs with
  | nil => intro st hst; simp [copySteps] at hst
  | cons f r ih =>
    intro st hst
    simp only [copySteps] at hst
    split at hst
    · split at hst
      · simp only [List.mem_append] at hst
        rcases hst with (h | h) | h
        · split at h
          · simp only [mkdirsSteps, List.mem_map] at h
            obtain ⟨_, _, rfl⟩ := h; rfl
          · cases h
        · simp only [writeSteps, List.mem_cons, List.not_mem_nil, or_false] at h
          rcases h with rfl | rfl | rfl | rfl <;> rfl
        · exact ih st h
      · cases hst
    · exact ih st hst

/-- **A crashed restore is recoverable.**  Stop `restore_backup(tasks)` after any `k` primitive steps: every
path below the backup directory is unchanged, the scan's verdict on the backup is unchanged (it is still
listed if it was), and a second, complete restore returns every recorded file to its backup bytes. -/
theorem restore_recoverable (c : Cfg) (fs : List Path) (orig : Path → List Sym) (tasks : List Name) (s : St) (k : Nat)
    (hne : fs ≠ [])
    (hout : ∀ f ∈ fs, ¬ c.bdir <+: c.dpath f)
    (hcomplete : ∀ f ∈ fs, get s (c.bpath f) = some (.reg (orig f))) :
    (∀ p, c.bdir <+: p → get (crashAfter k (restoreSteps c fs tasks s) s) p = get s p) ∧
    scanOne (crashAfter k (restoreSteps c fs tasks s) s) c.backups c.name = scanOne s c.backups c.name ∧
    ∃ s'', restore c fs [] (crashAfter k (restoreSteps c fs tasks s) s) = .ok s'' ∧
      ∀ f ∈ fs, get s'' (c.dpath f) = some (.reg (orig f)) := by
  have hfr := restore_never_touches_backup c fs tasks s hout k
  refine ⟨hfr, ?_, (restore_after_crashed_restore c id fs orig tasks [] s k hne hout (by simp) hcomplete).1⟩
  have hst : ∀ (D : Path), c.bdir <+: D → ∀ st ∈ (restoreSteps c fs tasks s).take k,
      st.simple = true ∧ ∀ q ∈ st.tgt, ¬ D <+: q := by
    intro D hD st hst
    have hm := List.mem_of_mem_take hst
    refine ⟨copySteps_simple c id true _ fs s st hm, fun q hq hp => ?_⟩
    obtain ⟨f, hf, hpf⟩ := copySteps_tgt c id true _ fs s st hm q hq
    exact hout f hf ((hD.trans hp).trans hpf)
  apply scanOne_congr
  · exact hfr
  · exact (children_walk_exec _ s _ (hst _ (List.prefix_refl _))).1
  · exact (children_walk_exec _ s _ (hst (c.backups ++ [c.name, rootName]) (bdir_prefix_broot c))).2

/-! ## 11. Non-vacuity: the hypotheses are satisfiable and the accepting branch is reachable -/

section Examples
def cEx : Cfg := { dataRoot := [['d']], backups := [['d'], ['b']], name := ['n'], stamp := ['t'] }
def sEx : St := [([['d']], .dir), ([['d'], ['b']], .dir), ([['d'], ['s']], .dir),
  ([['d'], ['s'], ['a']], .reg [.byte 1, .byte 2, .byte 3]), ([['d'], ['x']], .reg [.byte 7])]
def fEx : List Path := [[['s'], ['a']], [['x']]]
def errOf {α : Type} : Except Err α → Option Err | .error e => some e | .ok _ => none

theorem ex_fresh : ∀ p, cEx.bdir <+: p → get sEx p = none := by
  intro p hp
  obtain ⟨t, rfl⟩ := hp
  simp [sEx, FS.get, cEx, Cfg.bdir]

theorem ex_src : ∀ f ∈ fEx, ∃ b, get sEx (cEx.dpath f) = some (.reg b) := by
  intro f hf
  simp only [fEx, List.mem_cons, List.not_mem_nil, or_false] at hf
  rcases hf with rfl | rfl <;> simp [sEx, FS.get, cEx, Cfg.dpath]

theorem ex_out : ∀ f ∈ fEx, ¬ cEx.bdir <+: cEx.dpath f := by
  intro f hf
  simp only [fEx, List.mem_cons, List.not_mem_nil, or_false] at hf
  rcases hf with rfl | rfl <;> simp [cEx, Cfg.dpath, Cfg.bdir, List.prefix_iff_eq_take]

/-- the uninterrupted run is listed with both keys ... -/
example : (scan (exec (createSteps cEx sEx fEx) sEx) cEx.backups).toOption
    = some [(['n'], [['s', '/', 'a'], ['x']])] := by decide
/-- ... a crash inside the record (17 of 19 steps: half the record written) is rejected as a JSON error ... -/
example : errOf (scan (crashAfter 17 (createSteps cEx sEx fEx) sEx) cEx.backups) = some .jsonDecode := by decide
/-- ... a crash during the copies leaves a directory that makes the scan fail ... -/
example : errOf (scan (crashAfter 9 (createSteps cEx sEx fEx) sEx) cEx.backups) = some .badBackupFormat := by decide
/-- ... and restoring after a modification and a deletion brings the bytes back. -/
example : (runOps cEx id fEx [.modify [['d'], ['x']] [.byte 9], .delete [['d'], ['s']], .restore []]
    (exec (createSteps cEx sEx fEx) sEx)).toOption.bind (fun s => get s [['d'], ['s'], ['a']])
    = some (.reg [.byte 1, .byte 2, .byte 3]) := by decide
/-- two backups side by side: the scan lists both ... -/
example : ((scan (exec (createSteps { cEx with name := ['m'] } (exec (createSteps cEx sEx fEx) sEx) fEx)
      (exec (createSteps cEx sEx fEx) sEx)) cEx.backups).toOption.map (fun l => l.map (·.1)))
    = some [['n'], ['m']] := by decide
/-- ... and an interrupted second one makes the whole scan fail (the first one's files are intact). -/
example : errOf (scan (crashAfter 9 (createSteps { cEx with name := ['m'] } (exec (createSteps cEx sEx fEx) sEx) fEx)
      (exec (createSteps cEx sEx fEx) sEx)) cEx.backups) = some .badBackupFormat := by decide
/-- a restore interrupted inside a file leaves it truncated; a complete restore repairs it -/
example : get (crashAfter 3 (restoreSteps cEx fEx [] (exec (createSteps cEx sEx fEx) sEx))
      (exec (createSteps cEx sEx fEx) sEx)) [['d'], ['s'], ['a']] = some (.reg [.byte 1]) := by decide
/-- record text of a non-ASCII / quoted key: escaped with `\uXXXX` (surrogate pair for U+1F600), read back -/
example : parse (record ['t'] [['é', '/', '😀', '"']]) = some [['é', '/', '😀', '"']] := by decide
example : (record ['t'] [['😀']]).length = 27 := by decide
/-- an EMPTY-record backup `e` (made from an empty selection) is listed with record `[]`, and creating
`e` again with a non-empty selection changes nothing -/
example : ((scan (exec (createSteps { cEx with name := ['e'] } sEx []) sEx) cEx.backups).toOption)
    = some [(['e'], [])] := by decide
example : brun cEx [.create ['e'] fEx, .reopen, .create ['e'] fEx]
      ([(['e'], [])], exec (createSteps { cEx with name := ['e'] } sEx []) sEx)
    = ([(['e'], [])], exec (createSteps { cEx with name := ['e'] } sEx []) sEx) := by decide
/-- OUTSIDE the property's quantifier (two manager objects, the first one stale): a manager whose dictionary
was read before another manager created backup `n` does not know the name; its `create_backup(.., n)`
goes ahead and OVERWRITES the existing copy (here `d/x`: backed up as byte 7, data changed to 9). The
guard is the in-memory dictionary, not the disk. Observation, machine-checked on the model. -/
theorem stale_manager_overwrites_example :
    get (set (exec (createSteps cEx sEx fEx) sEx) [['d'], ['x']] (.reg [.byte 9])) (cEx.bpath [['x']])
      = some (.reg [.byte 7]) ∧
    (bstep cEx ([], set (exec (createSteps cEx sEx fEx) sEx) [['d'], ['x']] (.reg [.byte 9])) (.create ['n'] fEx)).1
      = [(['n'], [['s', '/', 'a'], ['x']])] ∧
    get (bstep cEx ([], set (exec (createSteps cEx sEx fEx) sEx) [['d'], ['x']] (.reg [.byte 9]))
        (.create ['n'] fEx)).2 (cEx.bpath [['x']]) = some (.reg [.byte 9]) := by decide
/-- ... whereas a manager that was re-opened first refuses -/
example : (bstep cEx (bstep cEx ([], set (exec (createSteps cEx sEx fEx) sEx) [['d'], ['x']] (.reg [.byte 9])) .reopen)
    (.create ['n'] fEx)).2 = set (exec (createSteps cEx sEx fEx) sEx) [['d'], ['x']] (.reg [.byte 9]) := by decide
/-- a session with restores and modifications satisfying `BOk`, ending in the round trip -/
example : (get (brun cEx [.modify [['d'], ['x']] [.byte 9], .create ['m'] [[['x']]], .reopen, .restore ['n'] []]
    ([(['n'], [['s', '/', 'a'], ['x']])], exec (createSteps cEx sEx fEx) sEx)).2 [['d'], ['x']]) = some (.reg [.byte 7]) := by
  decide
/-- Keys are case-preserving (`joinKey`/`splitKey` are the identity on components): two directories that
differ only in case are two backups entries, two copies and two restore destinations. -/
theorem restore_case_sensitive_example :
    let c : Cfg := { dataRoot := [['d']], backups := [['d'], ['b']], name := ['n'], stamp := ['t'] }
    let s0 : St := [([['d']], .dir), ([['d'], ['b']], .dir), ([['d'], ['A']], .dir), ([['d'], ['a']], .dir),
      ([['d'], ['A'], ['x']], .reg [.byte 1]), ([['d'], ['a'], ['x']], .reg [.byte 2])]
    let fs : List Path := [[['A'], ['x']], [['a'], ['x']]]
    let s1 := exec (createSteps c s0 fs) s0
    (scan s1 c.backups).toOption = some [(['n'], [['A', '/', 'x'], ['a', '/', 'x']])] ∧
    splitKey (joinKey [['A'], ['x']]) = [['A'], ['x']] ∧
    (runOps c id fs [.modify [['d'], ['A'], ['x']] [.byte 9], .delete [['d'], ['a']], .restore []] s1).toOption.map
        (fun s => (get s [['d'], ['A'], ['x']], get s [['d'], ['a'], ['x']]))
      = some (some (.reg [.byte 1]), some (.reg [.byte 2])) := by decide
end Examples

end HedVerif.C18
