/-
Closed mode of C07 and C08: the parametric theorems of `Props/C07.lean` and `Props/C08.lean`, instantiated with the
string-validator model `Validate` (C01) in place of the recorded oracles, plus the lemmas showing that the instantiated
oracles meet the hypotheses those theorems put on oracles, and that the driver's table-driven evaluation is the closed
function itself.
-/
import HedVerif.Model.Closed
import HedVerif.Props.C01
import HedVerif.Props.C07
import HedVerif.Props.C08

namespace HedVerif.Closed
open HedVerif HedVerif.Validate

/-! ### the table-driven evaluation of the driver is the closed function -/

theorem memo_tabulate {β} (f : Str → β) (texts : List Str) : memo f (tabulate f texts) = f := by
  funext t
  unfold memo
  split
  · rename_i e he
    have hm := List.mem_of_find?_eq_some he
    have hp := List.find?_some he
    obtain ⟨u, -, rfl⟩ := List.mem_map.mp (by simpa [tabulate] using hm)
    simp at hp
    subst hp
    rfl
  · rfl

theorem memoTab_eq (o : Tabular.Oracle) (texts : List Str) : memoTab o texts = o := by
  simp [memoTab, memo_tabulate]

theorem memoSidecar_eq (o : SidecarV.Oracle) (texts : List Str) : memoSidecar o texts = o := by
  simp [memoSidecar, memo_tabulate]

/-! ### the file layer's view of string issues -/

theorem rissue_isError (i : Validate.Issue) : (rissue i).isError = i.isError := by
  rfl

theorem anyError_rissue (l : List Validate.Issue) : Tabular.anyError (l.map rissue) = hasError l := by
  simp [Tabular.anyError, hasError, List.any_map, Function.comp_def, rissue_isError]

theorem filter_rissue (l : List Validate.Issue) :
    (l.map rissue).filter Tabular.RIssue.isError = (errors l).map rissue := by
  simp [errors, List.filter_map, Function.comp_def, rissue_isError]

theorem pair_isError (col key : Option Str) (i : Validate.Issue) :
    (SidecarV.ext col key (pair i)).isError = i.isError := by
  rfl

/-- error-free basic checks: the errors of `validate` are those of the full checks -/
theorem errors_validateP (env : Env) (text : Str) (p : Parsed) (hb : hasError (basicP env false text p) = false) :
    errors (validateP env false text p) = errors (Validate.fullIssues env text.length p) := by
  have hnil : (basicP env false text p).filter Issue.isError = [] := by
    rw [List.filter_eq_nil_iff]
    intro i hi
    simp only [hasError, List.any_eq_false] at hb
    exact hb i hi
  simp only [validateP, hb, Bool.false_eq_true, if_false, errors, List.filter_append, hnil, List.nil_append]

/-! ### the entries' trees (definition model) do not depend on the dictionary -/

mutual
theorem resolveNode_envWith (env : Env) (dd : Defs.DefDict) (text : Str) :
    ∀ n : Node, resolveNode (envWith env dd) text n = resolveNode env text n
  | .tag _ _ => rfl
  | .group a b kids => by simp only [resolveNode]; rw [resolveList_envWith env dd text kids]
theorem resolveList_envWith (env : Env) (dd : Defs.DefDict) (text : Str) :
    ∀ l : List Node, resolveList (envWith env dd) text l = resolveList env text l
  | [] => rfl
  | n :: ns => by simp only [resolveList]; rw [resolveNode_envWith env dd text n, resolveList_envWith env dd text ns]
end

mutual
theorem toDefsNode_envWith (env : Env) (dd : Defs.DefDict) : ∀ n : RNode, toDefsNode (envWith env dd) n = toDefsNode env n
  | .tag _ => rfl
  | .group s kids => by simp only [toDefsNode]; rw [toDefsList_envWith env dd kids]
theorem toDefsList_envWith (env : Env) (dd : Defs.DefDict) : ∀ l : List RNode, toDefsList (envWith env dd) l = toDefsList env l
  | [] => rfl
  | n :: ns => by simp only [toDefsList]; rw [toDefsNode_envWith env dd n, toDefsList_envWith env dd ns]
end

theorem toDefs_envWith (env : Env) (dd : Defs.DefDict) (s : Str) : toDefs (envWith env dd) s = toDefs env s := by
  simp only [toDefs, parse, toDefsList_envWith, resolveList_envWith]

end HedVerif.Closed

namespace HedVerif.C07
open HedVerif HedVerif.Tabular HedVerif.Closed

/-- `eval_closed`: what the driver computes (every consulted string validated once, results looked up) is
`validateClosed`. -/
theorem eval_closed (env : Validate.Env) (kB : RIssue) (cfg : Cfg) (T : List Row) (texts : List Str) :
    validate { closeCfg env kB cfg with o := memoTab (closeCfg env kB cfg).o texts } T = validateClosed env kB cfg T := by
  rw [memoTab_eq]; rfl

/-- `total_closed`: with the two repairs, file validation with the modelled string validator returns a list of issues
for every environment (schema, definitions), configuration and table. -/
theorem total_closed (env : Validate.Env) (kB : RIssue) (cfg : Cfg) (T : List Row) (hm : cfg.maskByRow = true)
    (hg : cfg.guardDelay = true) : ∃ out, validateClosed env kB cfg T = .ok out :=
  total (closeCfg env kB cfg) T hm hg

/-- `labels_closed`: every issue of the closed pipeline is well labelled (row, column, text it was found in). -/
theorem labels_closed (env : Validate.Env) (kB : RIssue) (cfg : Cfg) (T : List Row) (out : List Issue)
    (h : validateClosed env kB cfg T = .ok out) : ∀ i ∈ out, WellLabelled (closeCfg env kB cfg) T i :=
  labels (closeCfg env kB cfg) T out h

/-- `cell_issue_closed`: an issue attributed to a cell is an issue `Validate.basic` finds in the text of that cell of
that file row, under its published code and kind. -/
theorem cell_issue_closed (env : Validate.Env) (kB : RIssue) (cfg : Cfg) (T : List Row) (out : List Issue)
    (h : validateClosed env kB cfg T = .ok out) (i : Issue) (hi : i ∈ out) (p c : Nat) (hs : i.src = .cell p c) :
    ∃ k r name vi, T[k]? = some r ∧ cfg.columns[c]? = some name ∧ r.cells[c]? = some i.text ∧
      vi ∈ Validate.basic env false i.text ∧ i.kind = vi.code ++ [':'] ++ vi.kind.name ∧ i.sev = vi.sev ∧
      i.row = some (k + cfg.rowAdj) ∧ i.col = some name := by
  have hl := labels_closed env kB cfg T out h i hi
  simp only [WellLabelled, hs] at hl
  obtain ⟨k, r, name, h1, h2, h3, -, h5, h6, h7⟩ := hl
  obtain ⟨vi, hvi, he⟩ := List.mem_map.mp (show (⟨i.kind, i.sev⟩ : RIssue) ∈ (Validate.basic env false i.text).map rissue from h5)
  simp only [rissue, RIssue.mk.injEq] at he
  exact ⟨k, r, name, vi, h1, h2, h3, hvi, he.1.symm, he.2.symm, h6, h7⟩

/-- `cell_errors_kept_closed`: every issue `Validate.basic` finds in a looked-at cell is reported with the file row and
the column of the cell. -/
theorem cell_errors_kept_closed (env : Validate.Env) (kB : RIssue) (cfg : Cfg) (T : List Row) (out : List Issue)
    (h : validateClosed env kB cfg T = .ok out) (k : Nat) (r : Row) (hk : T[k]? = some r) (c : Nat) (name x : Str)
    (hc : (c, name, x) ∈ live cfg r) (vi : Validate.Issue) (hv : vi ∈ Validate.basic env false x) :
    ∃ i ∈ out, i.kind = vi.code ++ [':'] ++ vi.kind.name ∧ i.sev = vi.sev ∧ i.row = some (k + cfg.rowAdj) ∧
      i.col = some name ∧ i.text = x :=
  cell_errors_kept (closeCfg env kB cfg) T out h k r hk c name x hc (rissue vi) (List.mem_map_of_mem hv)

/-- `row_equals_string_closed`: in a file without onset column, for a row none of whose looked-at cells has a
`Validate.basic` error, the error kinds attributed to the row are exactly those of `Validate`'s full-string checks on
the `","`-join of its cells, and of the rule "temporal tags need a time". -/
theorem row_equals_string_closed (env : Validate.Env) (kB : RIssue) (cfg : Cfg) (T : List Row) (out : List Issue)
    (h : validateClosed env kB cfg T = .ok out) (ho : cfg.hasOnset = false) (hkey : cfg.kKey.isError = false)
    (k : Nat) (r : Row) (hk : T[k]? = some r)
    (hclean : ∀ c ∈ live cfg r, Validate.hasError (Validate.basic env false c.2.2) = false) (hne : live cfg r ≠ []) :
    ((out.filter (sel cfg k)).map (·.kind)).Perm
      (((Validate.errors (Validate.fullIssues env (rowText cfg r).length (Validate.parse env (rowText cfg r)))).map
          fun vi => vi.code ++ [':'] ++ vi.kind.name) ++
        ((bannedIssues env kB (rowText cfg r)).filter RIssue.isError).map (·.kind)) := by
  have hc' : ∀ c ∈ live (closeCfg env kB cfg) r, anyError ((closeCfg env kB cfg).o.cell c.2.2) = false := by
    intro c hc
    show anyError ((Validate.basic env false c.2.2).map rissue) = false
    rw [anyError_rissue]; exact hclean c hc
  have := row_equals_string (closeCfg env kB cfg) T out h ho hkey k r hk hc' hne
  refine this.trans (List.Perm.of_eq ?_)
  show (((Closed.fullIssues env (rowText cfg r) ++ bannedIssues env kB (rowText cfg r)).filter RIssue.isError).map (·.kind)) = _
  rw [List.filter_append, List.map_append, Closed.fullIssues, filter_rissue, List.map_map]
  rfl

/-- `row_equals_validate_closed`: if moreover the joined text itself passes the basic checks, these are the error kinds
of `Validate.validate` (the complete string validation of C01) on the joined text. -/
theorem row_equals_validate_closed (env : Validate.Env) (kB : RIssue) (cfg : Cfg) (T : List Row) (out : List Issue)
    (h : validateClosed env kB cfg T = .ok out) (ho : cfg.hasOnset = false) (hkey : cfg.kKey.isError = false)
    (k : Nat) (r : Row) (hk : T[k]? = some r)
    (hclean : ∀ c ∈ live cfg r, Validate.hasError (Validate.basic env false c.2.2) = false) (hne : live cfg r ≠ [])
    (hjoin : Validate.hasError (Validate.basic env false (rowText cfg r)) = false) :
    ((out.filter (sel cfg k)).map (·.kind)).Perm
      (((Validate.errors (Validate.validate env false (rowText cfg r))).map fun vi => vi.code ++ [':'] ++ vi.kind.name) ++
        ((bannedIssues env kB (rowText cfg r)).filter RIssue.isError).map (·.kind)) := by
  have := row_equals_string_closed env kB cfg T out h ho hkey k r hk hclean hne
  rwa [Validate.validate, errors_validateP env _ _ hjoin]

theorem string_in_basic (env : Validate.Env) (ph : Bool) (text : Str) (i : Validate.Issue)
    (h : i ∈ Validate.stringIssues env ph text (Validate.parse env text)) : i ∈ Validate.basic env ph text := by
  unfold Validate.basic Validate.basicP
  simp only
  split
  · exact h
  · split
    · exact h
    · split
      · exact List.mem_append_left _ h
      · exact List.mem_append_left _ (List.mem_append_left _ h)

/-- `unbalanced_cell_reported_closed`: end to end, with no oracle left: a looked-at cell whose parentheses do not match
is reported as an error of code PARENTHESES_MISMATCH at the file row and the column of that cell, whatever the schema,
the definitions, and the rest of the file. -/
theorem unbalanced_cell_reported_closed (env : Validate.Env) (kB : RIssue) (cfg : Cfg) (T : List Row) (out : List Issue)
    (h : validateClosed env kB cfg T = .ok out) (k : Nat) (r : Row) (hk : T[k]? = some r) (c : Nat) (name x : Str)
    (hc : (c, name, x) ∈ live cfg r) (hp : Paren.mismatch x = true) :
    ∃ i ∈ out, i.kind = Validate.Kind.parentheses.code ++ [':'] ++ Validate.Kind.parentheses.name ∧ i.sev < 10 ∧
      i.row = some (k + cfg.rowAdj) ∧ i.col = some name ∧ i.text = x := by
  have hv : ({ Validate.Issue.plain .parentheses with sub := some (x.count '(', x.count ')') } : Validate.Issue)
      ∈ Validate.basic env false x := by
    apply string_in_basic
    simp only [Validate.stringIssues, Validate.stringPhase, Validate.parenIssues, hp, List.mem_append]
    exact Or.inl (Or.inl (Or.inr (by simp)))
  obtain ⟨i, hi, h1, h2, h3, h4, h5⟩ := cell_errors_kept_closed env kB cfg T out h k r hk c name x hc _ hv
  exact ⟨i, hi, h1, by rw [h2]; show Validate.Kind.parentheses.sev < 10; decide, h3, h4, h5⟩

/-! #### rows with a malformed cell: row-level checks on the concatenated cell trees (`validateClosedCells`) -/

/-- `cells_eq_closed`: if no row reaches the row-level checks with a malformed cell, the variant that takes the cells'
trees is the closed pipeline itself. -/
theorem cells_eq_closed (env : Validate.Env) (kB : RIssue) (cfg : Cfg) (T : List Row)
    (h : T.any (rowSplit env kB cfg) = false) : validateClosedCells env kB cfg T = validateClosed env kB cfg T := by
  have hs : splitRows env kB cfg T = [] := by
    simp only [splitRows, List.filter_eq_nil_iff]
    intro r hr
    simp only [List.any_eq_false] at h
    exact h r hr
  unfold validateClosedCells validateClosed closeCfg cellsOracle
  simp [hs]

/-- `total_closed_cells`: the variant never raises either (with the two repairs). -/
theorem total_closed_cells (env : Validate.Env) (kB : RIssue) (cfg : Cfg) (T : List Row) (hm : cfg.maskByRow = true)
    (hg : cfg.guardDelay = true) : ∃ out, validateClosedCells env kB cfg T = .ok out :=
  total { cfg with o := cellsOracle env kB cfg T } T hm hg

/-- `cell_errors_kept_closed_cells`: every `Validate.basic` issue of a looked-at cell is reported by the variant too,
with the file row and the column of the cell (in particular the malformed cell itself is reported). -/
theorem cell_errors_kept_closed_cells (env : Validate.Env) (kB : RIssue) (cfg : Cfg) (T : List Row) (out : List Issue)
    (h : validateClosedCells env kB cfg T = .ok out) (k : Nat) (r : Row) (hk : T[k]? = some r) (c : Nat) (name x : Str)
    (hc : (c, name, x) ∈ live cfg r) (vi : Validate.Issue) (hv : vi ∈ Validate.basic env false x) :
    ∃ i ∈ out, i.kind = vi.code ++ [':'] ++ vi.kind.name ∧ i.sev = vi.sev ∧ i.row = some (k + cfg.rowAdj) ∧
      i.col = some name ∧ i.text = x :=
  cell_errors_kept { cfg with o := cellsOracle env kB cfg T } T out h k r hk c name x hc (rissue vi)
    (List.mem_map_of_mem hv)

/-- `eval_closed_cells`: the driver's table-driven evaluation of the variant. -/
theorem eval_closed_cells (env : Validate.Env) (kB : RIssue) (cfg : Cfg) (T : List Row) (texts : List Str) :
    validate { cfg with o := memoTab (cellsOracle env kB cfg T) texts } T = validateClosedCells env kB cfg T := by
  rw [memoTab_eq]; rfl

/-! #### Delay groups: `Oracle.items` closed by `Validate.delayItems` -/

/-- `items_closed`: what `split_delay_tags` sees of a row in the closed pipeline: nothing unless `delay/` occurs in the
row's `", "`-joined text; else the top-level children of that text as `Validate.delayItems` prints them, each group holding
a Delay tag with the value of `value_as_default_unit()` in eighths of a second (`absent` → no value, `raises` → ValueError).
Inside the fragment (`delayOutside = false`) no value is defaulted: every Delay value is on the grid and decided. -/
theorem items_closed (env : Validate.Env) (kB : RIssue) (cfg : Cfg) (r : Row) :
    rowItems (closeCfg env kB cfg) r =
      (if hasDelay (seriesText cfg r) then
        (Validate.delayItems env (seriesText cfg r)).map fun x => ⟨x.1, x.2.map fun v => (gridVal v).getD .bad⟩
       else []) ∧
    (delayOutside env (seriesText cfg r) = false → hasDelay (seriesText cfg r) = true →
      ∀ x ∈ Validate.delayItems env (seriesText cfg r), ∀ v, x.2 = some v →
        ∃ dv, gridVal v = some dv ∧ (⟨x.1, some dv⟩ : Item) ∈ rowItems (closeCfg env kB cfg) r) := by
  have h1 : rowItems (closeCfg env kB cfg) r =
      (if hasDelay (seriesText cfg r) then
        (Validate.delayItems env (seriesText cfg r)).map fun x => ⟨x.1, x.2.map fun v => (gridVal v).getD .bad⟩
       else []) := by
    show ((itemsOf env (seriesText cfg r)).getD []) = _
    unfold itemsOf
    split <;> rfl
  refine ⟨h1, ?_⟩
  intro hout hd x hx v hv
  have hsome : (gridVal v).isSome = true := by
    simp only [delayOutside, hd, Bool.true_and, List.any_eq_false] at hout
    have := hout x hx
    simp only [hv] at this
    cases hg : gridVal v <;> simp_all
  obtain ⟨dv, hdv⟩ := Option.isSome_iff_exists.mp hsome
  refine ⟨dv, hdv, ?_⟩
  rw [h1, if_pos hd]
  exact List.mem_map.mpr ⟨x, hx, by simp [hv, hdv]⟩

/-- on-grid values: `2.5 s` is 20 eighths, `0.3 s` is off the grid -/
example : eighths ⟨25, -1⟩ = some 20 ∧ eighths ⟨3, -1⟩ = none ∧ eighths ⟨2, 0⟩ = some 16 ∧ eighths ⟨-5, -1⟩ = some (-4) := by
  decide

namespace DelayDemo
open HedVerif.Schema HedVerif.Validate

def names : List Str :=
  [['R','e','d'], ['D','e','f'], ['D','e','f','/','#'], ['O','n','s','e','t'], ['I','n','s','e','t'], ['D','e','l','a','y'], ['D','e','l','a','y','/','#']]

def secondUnit : Units.UnitDef := ⟨['s'], true, true, false, some ⟨1, 0⟩, ['s']⟩

/-- Red; Def (requireChild) > #; Onset, Inset (topLevelTagGroup); Delay (topLevelTagGroup, requireChild) > # (takesValue,
numericClass, unit class with the SI symbol `s` as default unit) -/
def env0 : Env :=
  { vocab := Vocab.build fold (names.map splitSlash), ns := [],
    attrs := #[{}, { requireChild := true }, { takesValue := true, parent := some 1 },
               { topLevelTagGroup := true }, { topLevelTagGroup := true },
               { topLevelTagGroup := true, requireChild := true },
               { takesValue := true, unitClasses := [0], valueClasses := [['n','u','m','e','r','i','c','C','l','a','s','s']], parent := some 5 }],
    mods := [],
    unitClasses := #[⟨['t'], [secondUnit], some ['s']⟩],
    modern := true, cd := {} }

/-- definition `A` ↦ `(Red)` -/
def env : Env := { env0 with defs := [⟨['a'], false, resolveList env0 ['R','e','d'] (Tree.construct ['R','e','d'])⟩] }

def kT : Temporal.Err → RIssue
  | .sameDefs => ⟨['S'], 1⟩
  | .offsetBeforeOnset => ⟨['O'], 1⟩
  | .insetBeforeOnset => ⟨['I'], 1⟩

def cfg : Cfg :=
  { rowAdj := 2, hasOnset := true, columns := [['H']], catCols := [], mapIssues := [], refs := [], allColumns := [],
    maskByRow := true, guardDelay := true, kKey := ⟨['K'], 10⟩, kRef := ⟨['F'], 1⟩, kUnordered := ⟨['U'], 10⟩,
    kTemporal := kT, o := demoOracle }

def delayedOnset : Str := ['(','D','e','l','a','y','/','1',' ','s',',',' ','D','e','f','/','A',',',' ','O','n','s','e','t',')']
def inset : Str := ['(','D','e','f','/','A',',',' ','I','n','s','e','t',')']

/-- onsets 1.0 s, 1.5 s, 3.0 s: `(Delay/1 s, Def/A, Onset)`, `(Def/A, Inset)`, `(Def/A, Inset)` -/
def file : List Row := [⟨some 8, [delayedOnset], []⟩, ⟨some 12, [inset], []⟩, ⟨some 24, [inset], []⟩]

/-- the Delay group of the first row is moved to the time point 2.0 s (16 eighths), after the second row -/
example : (timeFrame (closeCfg env ⟨['B'], 1⟩ cfg) file).map (fun x => (x.1, x.2.2)) = [(8, 0), (12, 1), (16, 0), (24, 2)] := by
  decide +kernel

/-- `delay_pipeline_example_closed`: the Onset of `A` written in the row at 1.0 s is delayed by 1 s.  The Inset at 1.5 s
(file row 3) therefore comes before its Onset and is reported; the Inset at 3.0 s (file row 4) is in scope — it is legal
only because of the Delay-shifted Onset of the first row. -/
theorem delay_pipeline_example_closed :
    (validateClosed env ⟨['B'], 1⟩ cfg file).toOption = some [⟨['I'], 1, some 3, none, inset, .temporal 1⟩] ∧
    (validateClosed env ⟨['B'], 1⟩ cfg [⟨some 8, [delayedOnset], []⟩, ⟨some 24, [inset], []⟩]).toOption = some [] := by
  decide +kernel

end DelayDemo

/-- `shuffle_closed`: the shuffle theorem for the closed pipeline. -/
theorem shuffle_closed (env : Validate.Env) (kB : RIssue) (cfg : Cfg) (S T : List Row) (hon : cfg.hasOnset = true)
    (hm : cfg.maskByRow = true) (hS : monotone (S.map (·.onset)) = true) (hperm : T.Perm S)
    (hnd : (S.map (·.onset)).Nodup) (oS oT : List Issue) (h1 : validateClosed env kB cfg S = .ok oS)
    (h2 : validateClosed env kB cfg T = .ok oT) :
    ((oT.filter fun i => !isUnordered i).map (ident (closeCfg env kB cfg) T)).Perm (oS.map (ident (closeCfg env kB cfg) S)) ∧
    (oT.filter isUnordered).length = (if monotone (T.map (·.onset)) then 0 else 1) ∧
    oS.filter isUnordered = [] :=
  shuffle (closeCfg env kB cfg) S T hon hm hS hperm hnd oS oT h1 h2

/-! #### a concrete file through the closed pipeline (tiny schema of `Props/C01.lean`) -/

def closedCfg : Cfg :=
  { rowAdj := 2, hasOnset := false, columns := [['a'], ['b']], catCols := [], mapIssues := [], refs := [], allColumns := [],
    maskByRow := true, guardDelay := true, kKey := ⟨['K'], 10⟩, kRef := ⟨['F'], 1⟩, kUnordered := ⟨['U'], 10⟩,
    kTemporal := fun _ => ⟨['T'], 1⟩, o := demoOracle }

/-- rows `Red | Red`, `Red | (Red`, `Zz | n/a` -/
def closedFile : List Row :=
  [⟨none, [['R','e','d'], ['R','e','d']], []⟩, ⟨none, [['R','e','d'], ['(','R','e','d']], []⟩,
   ⟨none, [['Z','z'], ['n','/','a']], []⟩]

def kindOf (k : Validate.Kind) : Str := k.code ++ [':'] ++ k.name

/-- `pipeline_example_closed`: file row 2 passes the cell checks and its join `Red,Red` repeats a tag (row-level
issue, no column); row 3 has unbalanced parentheses in column `b` and therefore gets no row-level check; row 4 holds
an unknown tag in column `a`. -/
theorem pipeline_example_closed :
    (validateClosed C01.Tiny.env ⟨['B'], 1⟩ closedCfg closedFile).toOption =
    some [⟨kindOf .tagRepeated, 1, some 2, none, ['R','e','d',',','R','e','d'], .row 0⟩,
          ⟨kindOf .parentheses, 1, some 3, some ['b'], ['(','R','e','d'], .cell 1 1⟩,
          ⟨kindOf .noValidTag, 1, some 4, some ['a'], ['Z','z'], .cell 2 0⟩] := by
  decide +kernel

/-- the hypotheses of `row_equals_string_closed` hold for the first row of that file -/
example : ∀ c ∈ live closedCfg ⟨none, [['R','e','d'], ['R','e','d']], []⟩,
    Validate.hasError (Validate.basic C01.Tiny.env false c.2.2) = false := by decide +kernel

end HedVerif.C07

namespace HedVerif.C08
open HedVerif HedVerif.SidecarV HedVerif.Closed

/-- `sidecar_eval_closed`: the driver's table-driven evaluation is `validateClosed`. -/
theorem sidecar_eval_closed (env : Validate.Env) (g : Guards) (doc : Json) (texts : List Str) :
    validate g (memoSidecar (sidecarOracle env) texts) doc = validateClosed env g doc := by
  rw [memoSidecar_eq]; rfl

/-- `validate_eq_closed`: on the fixed tree the closed sidecar pipeline is the pure function `validateP` of the document
and the environment. -/
theorem validate_eq_closed (env : Validate.Env) (doc : Json) :
    validateClosed env .fixed doc = .ok (validateP (sidecarOracle env) doc) :=
  validate_eq (sidecarOracle env) doc

/-- `sidecar_total_closed`: sidecar validation with the modelled string validator returns a list of issues for every
JSON value and every environment. -/
theorem sidecar_total_closed (env : Validate.Env) (doc : Json) : ∃ issues, validateClosed env .fixed doc = .ok issues :=
  ⟨_, validate_eq_closed env doc⟩

theorem fault_top_level_closed (env : Validate.Env) (doc : Json) (h : isDict doc = false) :
    validateClosed env .fixed doc = .ok [mk .wrongType none none] := by
  rw [validate_eq_closed, fault_top_level _ doc h]

theorem fault_braces_closed (env : Validate.Env) (cols : List (Str × Json)) (n : Str) (e : Json) (k s : Str)
    (hm : (n, e) ∈ cols) (hs : (k, s) ∈ screened e) (hb : braces s ≠ []) :
    ∃ out, validateClosed env .fixed (.obj cols) = .ok out ∧ mk .malformedRef (some n) (keyCtx (screened e) k) ∈ out :=
  ⟨_, validate_eq_closed env _, fault_braces _ cols n e k s hm hs hb⟩

theorem fault_unknown_ref_closed (env : Validate.Env) (cols : List (Str × Json)) (n : Str) (e : Json) (k s r : Str)
    (hm : (n, e) ∈ cols) (hs : (k, s) ∈ screened e) (hr : r ∈ findRefs s)
    (hu : (possibleRefs (colsP cols)).contains r = false) :
    ∃ out, validateClosed env .fixed (.obj cols) = .ok out ∧ mk .invalidRef (some n) (keyCtx (screened e) k) ∈ out :=
  ⟨_, validate_eq_closed env _, fault_unknown_ref _ cols n e k s r hm hs hr hu⟩

/-- the hypothesis "no definition in the entry" is now a statement about the parsed entry -/
theorem fault_pound_value_closed (env : Validate.Env) (cols : List (Str × Json)) (n : Str) (kvs : List (Str × Json)) (s : Str)
    (hne : anyError (earlyP (.obj cols)) = false) (hm : (n, .obj kvs) ∈ cols) (hl : lookup HED kvs = some (.str s))
    (hc : treeHash (sidecarOracle env) s ≠ 1) (hd : Closed.defCount env s = 0) :
    ∃ out, validateClosed env .fixed (.obj cols) = .ok out ∧ mk .poundValue (some n) none ∈ out :=
  ⟨_, validate_eq_closed env _, fault_pound_value _ cols n kvs s hne hm hl hc hd⟩

theorem fault_pound_category_closed (env : Validate.Env) (cols : List (Str × Json)) (n : Str) (kvs vs : List (Str × Json))
    (k s : Str) (hne : anyError (earlyP (.obj cols)) = false) (hm : (n, .obj kvs) ∈ cols)
    (hl : lookup HED kvs = some (.obj vs)) (hkv : (k, .str s) ∈ vs) (hc : treeHash (sidecarOracle env) s ≠ 0)
    (hd : Closed.defCount env s = 0) :
    ∃ out, validateClosed env .fixed (.obj cols) = .ok out ∧
      mk .poundCategory (some n) (keyCtx (vs.filterMap strOf) k) ∈ out :=
  ⟨_, validate_eq_closed env _, fault_pound_category _ cols n kvs vs k s hne hm hl hkv hc hd⟩

/-- `string_fault_category_closed`: in a sidecar without structural or reference error, every issue the modelled string
validator finds in a category entry (placeholders allowed, `{ref}` tags removed) is reported under its published code and
severity with the column and, if the column has several entries, the key. -/
theorem string_fault_category_closed (env : Validate.Env) (cols : List (Str × Json)) (n : Str) (kvs vs : List (Str × Json))
    (k s : Str) (hne : anyError (earlyP (.obj cols)) = false) (hm : (n, .obj kvs) ∈ cols)
    (hl : lookup HED kvs = some (.obj vs)) (hkv : (k, .str s) ∈ vs)
    (vi : Validate.Issue) (hv : vi ∈ entryBasic env s) :
    ∃ out, validateClosed env .fixed (.obj cols) = .ok out ∧
      (⟨[], vi.code, vi.sev, some n, keyCtx (vs.filterMap strOf) k⟩ : Issue) ∈ out := by
  refine ⟨_, validate_eq_closed env _, ?_⟩
  apply mem_loop _ cols hne hm
  have hks : (k, s) ∈ vs.filterMap strOf := List.mem_filterMap.mpr ⟨(k, .str s), hkv, rfl⟩
  simp only [columnIssuesP, detectP, hl, stringsP, Bool.false_and, Bool.false_eq_true, ↓reduceIte, List.mem_append,
    List.mem_flatMap, List.mem_map]
  refine Or.inl ⟨_, ⟨(k, s), hks, rfl⟩, ?_⟩
  simp only [entryIssuesP, List.mem_append, List.mem_map]
  exact Or.inl (Or.inl ⟨pair vi, List.mem_map_of_mem hv, rfl⟩)

/-- `string_fault_value_closed`: the same for the template of a value column. -/
theorem string_fault_value_closed (env : Validate.Env) (cols : List (Str × Json)) (n : Str) (kvs : List (Str × Json)) (s : Str)
    (hne : anyError (earlyP (.obj cols)) = false) (hm : (n, .obj kvs) ∈ cols) (hl : lookup HED kvs = some (.str s))
    (vi : Validate.Issue) (hv : vi ∈ entryBasic env s) :
    ∃ out, validateClosed env .fixed (.obj cols) = .ok out ∧ (⟨[], vi.code, vi.sev, some n, none⟩ : Issue) ∈ out := by
  refine ⟨_, validate_eq_closed env _, ?_⟩
  apply mem_loop _ cols hne hm
  simp [columnIssuesP, detectP, hl, stringsP, entryIssuesP, keyCtx, ext]
  have hx : (vi.code, vi.sev) ∈ (sidecarOracle env).basic s := List.mem_map_of_mem (f := pair) hv
  exact Or.inl hx

/-! #### a concrete sidecar through the closed pipeline -/

/-- `{"a": {"HED": {"x": "Red,{b}", "y": "Zz"}}, "b": {"HED": "Label/#,Red"}}` -/
def closedDoc : Json :=
  .obj [(['a'], .obj [(HED, .obj [(['x'], .str ['R','e','d',',','{','b','}']), (['y'], .str ['Z','z'])])]),
        (['b'], .obj [(HED, .str ['L','a','b','e','l','/','#',',','R','e','d'])])]

/-- `sidecar_pipeline_example_closed`: entry `x` is fine by itself, but spliced with column `b` it repeats `Red`
(found by the full checks of the assembled string `Red,Label/#,Red`); entry `y` is an unknown tag. -/
theorem sidecar_pipeline_example_closed :
    (validateClosed C01.Tiny.env .fixed closedDoc).toOption =
    some [⟨[], Validate.Kind.tagRepeated.code, 1, some ['a'], some ['x']⟩,
          ⟨[], Validate.Kind.noValidTag.code, 1, some ['a'], some ['y']⟩] := by
  decide +kernel

/-! #### sidecars that declare definitions (`validateClosedD`) -/

/-- `extract_stage_closed`: the second stage (validation against the enlarged dictionary) extracts the same definitions and
extraction issues as the first: extraction reads the entries' trees and the schema, never the dictionary. -/
theorem extract_stage_closed (env : Validate.Env) (dd : Defs.DefDict) (g : Guards) (doc : Json) :
    extractDefsDoc g (sidecarOracleD (envWith env dd)) doc = extractDefsDoc g (sidecarOracleD env) doc := by
  have hd : (sidecarOracleD (envWith env dd)).defTree = (sidecarOracleD env).defTree := by
    funext s; exact toDefs_envWith env dd s
  have hf : (sidecarOracleD (envWith env dd)).fold = (sidecarOracleD env).fold := rfl
  unfold extractDefsDoc extractDefs extractColumn extractString
  simp only [hd, hf]

/-- `validate_eq_closedD`: on the fixed tree the closed sidecar pipeline with declared definitions is a pure function of
the document and the environment. -/
theorem validate_eq_closedD (env : Validate.Env) (doc : Json) :
    validateClosedD env .fixed doc =
      .ok (validateDP (sidecarOracleD (envWith env (sidecarDict env .fixed doc))) (env.defs.map (·.key)) doc) :=
  validateD_eq _ _ doc

/-- `sidecar_total_closedD`: it returns a list of issues for every JSON value and every environment. -/
theorem sidecar_total_closedD (env : Validate.Env) (doc : Json) : ∃ issues, validateClosedD env .fixed doc = .ok issues :=
  ⟨_, validate_eq_closedD env doc⟩

/-- `defs_extracted_closed`: the dictionary that joins the environment is, in order, the first acceptable candidate of
each name among the sidecar's definition groups (C09's `Acceptable` / `newEntry`), read off the trees `Validate` builds. -/
theorem defs_extracted_closed (env : Validate.Env) (doc : Json) :
    sidecarDict env .fixed doc =
      (firstAccepted Validate.fold [] (candidates (sidecarOracleD env) (loadP doc).2)).map fun c =>
        C09.newEntry Validate.fold c.dt c.ks := by
  unfold sidecarDict
  rw [extractDefsDoc_eq]
  exact defs_extracted_spec (sidecarOracleD env) (loadP doc).2

/-- `{"d": {"HED": {"d1": "(Definition/Mk/#, (Label/#))"}}, "a": {"HED": {"go": "Def/Mk/ab", "no": "Def/Mk", "z": "Def/Zz"}}}` -/
def closedDefDoc : Json :=
  .obj [(['d'], .obj [(HED, .obj [(['d','1'], .str ['(','D','e','f','i','n','i','t','i','o','n','/','M','k','/','#',',',' ','(','L','a','b','e','l','/','#',')',')'])])]),
        (['a'], .obj [(HED, .obj [(['g','o'], .str ['D','e','f','/','M','k','/','a','b']), (['n','o'], .str ['D','e','f','/','M','k']), (['z'], .str ['D','e','f','/','Z','z'])])])]

/-- `sidecar_defs_example_closed`: the sidecar declares `Mk/#` ↦ `(Label/#)`; `Def/Mk/ab` in another column is accepted
against it, `Def/Mk` (value missing) and `Def/Zz` (not declared) are DEF_INVALID at their column and key; the declaring
entry itself draws no issue. -/
theorem sidecar_defs_example_closed :
    (sidecarDict C01.Tiny.env .fixed closedDefDoc).map (fun e => (e.key, e.takes)) = [(['m','k'], true)] ∧
    (validateClosedD C01.Tiny.env .fixed closedDefDoc).toOption =
      some [⟨[], Validate.Kind.defValueMissing.code, 1, some ['a'], some ['n','o']⟩,
            ⟨[], Validate.Kind.defUnmatched.code, 1, some ['a'], some ['z']⟩] := by
  decide +kernel

end HedVerif.C08
