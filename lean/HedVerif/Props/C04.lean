/-
C04 — Validation outcome does not depend on how an annotation is written.

Theorems about `Model/Dup.lean` (duplicate detection on the recursively sorted view, `HedTag.__eq__`,
the delimiter scan), for the code *after* fixes/C04_duplicates_canonical_sort.diff and
fixes/C04_repeated_empty_group.diff; the old code is kept in the model (`…Old`) and refuted by
`order_counterexample`, `case_counterexample`, `spelling_counterexample`, `empty_groups_counterexample`.

Structure of the order proof: the fixed sort key (`skey`) is a function of the canonical form `canon`
(tags replaced by their folded short form) and determines it (`canon_eq_of_skey`, unique readability of
the parenthesised printout of clean tags); hence the sorted view of a group, in canonical form, is the
unique key-sorted arrangement of the multiset of its members' canonical sorted views
(`List.Perm.eq_of_pairwise`), and the duplicate loop depends on the canonical form only (`dupL_congr`).
Helper lemmas first (namespace `HedVerif.Dup`), the property theorems in `namespace HedVerif.C04`.
-/
import HedVerif.Model.Dup
import HedVerif.Props.C02
import HedVerif.Props.C03
import HedVerif.Props.C01
import HedVerif.Model.Rewrite
namespace HedVerif.Dup

theorem strLt_irrefl (a : Str) : strLt a a = false := by
  induction a with
  | nil => rfl
  | cons x xs ih => simp [strLt, ih]

theorem strLt_asymm : ∀ (a b : Str), strLt a b = true → strLt b a = false
  | _, [], h => by simp [strLt] at h
  | [], _ :: _, _ => by simp [strLt]
  | a :: as, b :: bs, h => by
    simp only [strLt, Bool.or_eq_true, decide_eq_true_eq, Bool.and_eq_true, beq_iff_eq] at h
    simp only [strLt, Bool.or_eq_false_iff, decide_eq_false_iff_not, Bool.and_eq_false_imp, beq_iff_eq]
    rcases h with h | ⟨rfl, h⟩
    · exact ⟨by omega, fun e => by subst e; omega⟩
    · exact ⟨by omega, fun _ => strLt_asymm _ _ h⟩

/-- `≤` is transitive -/
theorem strLe_trans : ∀ (a b c : Str), strLt b a = false → strLt c b = false → strLt c a = false
  | [], _, c, h1, h2 => by
    cases c with
    | nil => simp [strLt]
    | cons c cs => rename_i b; cases b <;> simp_all [strLt]
  | _ :: _, [], _, h1, _ => by simp [strLt] at h1
  | _ :: _, _ :: _, [], _, h2 => by simp [strLt] at h2
  | a :: as, b :: bs, c :: cs, h1, h2 => by
    simp only [strLt, Bool.or_eq_false_iff, decide_eq_false_iff_not, Bool.and_eq_false_imp, beq_iff_eq] at h1 h2 ⊢
    refine ⟨by omega, fun e => ?_⟩
    have hab : a = b := Char.toNat_inj.mp (by subst e; omega)
    have hbc : b = c := by rw [← hab]; exact e.symm
    exact strLe_trans as bs cs (h1.2 hab.symm) (h2.2 hbc.symm)

theorem strLt_total : ∀ (a b : Str), strLt a b = false → strLt b a = false → a = b
  | [], [], _, _ => rfl
  | [], _ :: _, h, _ => by simp [strLt] at h
  | _ :: _, [], _, h => by simp [strLt] at h
  | a :: as, b :: bs, h1, h2 => by
    simp only [strLt, Bool.or_eq_false_iff, decide_eq_false_iff_not, Bool.and_eq_false_imp, beq_iff_eq] at h1 h2
    have : a.toNat = b.toNat := by omega
    have hab : a = b := Char.toNat_inj.mp this
    subst hab
    rw [strLt_total as bs (h1.2 rfl) (h2.2 rfl)]

/-! ### the stable sort -/

theorem insBy_perm {α : Type} (lt : α → α → Bool) (x : α) (l : List α) : (insBy lt x l).Perm (x :: l) := by
  induction l with
  | nil => exact List.Perm.refl _
  | cons y ys ih =>
    simp only [insBy]
    split
    · exact (List.Perm.cons y ih).trans (List.Perm.swap x y ys)
    · exact List.Perm.refl _

theorem sortBy_perm {α : Type} (lt : α → α → Bool) (l : List α) : (sortBy lt l).Perm l := by
  induction l with
  | nil => exact List.Perm.refl _
  | cons x xs ih => exact (insBy_perm lt x _).trans (List.Perm.cons x ih)

/-- `a` may stand before `b` as far as the primary key `k` goes -/
abbrev LeK {α : Type} (k : α → Str) (a b : α) : Prop := strLt (k b) (k a) = false

theorem insBy_pairwise {α : Type} (lt : α → α → Bool) (k : α → Str)
    (h1 : ∀ a b, lt a b = true → strLt (k b) (k a) = false)
    (h2 : ∀ a b, lt a b = false → strLt (k a) (k b) = false)
    (x : α) (l : List α) (hl : l.Pairwise (LeK k)) : (insBy lt x l).Pairwise (LeK k) := by
  induction l with
  | nil => simp [insBy]
  | cons y ys ih =>
    rw [List.pairwise_cons] at hl
    simp only [insBy]
    by_cases hyx : lt y x = true
    · simp only [hyx, ↓reduceIte, List.pairwise_cons]
      refine ⟨fun z hz => ?_, ih hl.2⟩
      rcases List.mem_cons.mp ((insBy_perm lt x ys).mem_iff.mp hz) with rfl | hz
      · exact h1 _ _ hyx
      · exact hl.1 z hz
    · have hyx' : lt y x = false := by simpa using hyx
      simp only [hyx', Bool.false_eq_true, ↓reduceIte, List.pairwise_cons]
      refine ⟨fun z hz => ?_, hl⟩
      rcases List.mem_cons.mp hz with rfl | hz
      · exact h2 _ _ hyx'
      · exact strLe_trans _ _ _ (h2 _ _ hyx') (hl.1 z hz)

theorem sortBy_pairwise {α : Type} (lt : α → α → Bool) (k : α → Str)
    (h1 : ∀ a b, lt a b = true → strLt (k b) (k a) = false)
    (h2 : ∀ a b, lt a b = false → strLt (k a) (k b) = false)
    (l : List α) : (sortBy lt l).Pairwise (LeK k) := by
  induction l with
  | nil => simp [sortBy]
  | cons x xs ih => exact insBy_pairwise lt k h1 h2 x _ ih

theorem ltNew_h1 (a b : Entry) (h : ltNew a b = true) : strLt (skey b.2) (skey a.2) = false := by
  simp only [ltNew, Bool.or_eq_true, Bool.and_eq_true, beq_iff_eq] at h
  rcases h with h | ⟨h, _⟩
  · exact strLt_asymm _ _ h
  · rw [h]; exact strLt_irrefl _

theorem ltNew_h2 (a b : Entry) (h : ltNew a b = false) : strLt (skey a.2) (skey b.2) = false := by
  simp only [ltNew, Bool.or_eq_false_iff] at h
  exact h.1

/-- the fixed sort orders by the canonical key -/
theorem sortNew_pairwise (l : List Entry) : (sortBy ltNew l).Pairwise (LeK (fun e => skey e.2)) :=
  sortBy_pairwise ltNew _ ltNew_h1 ltNew_h2 l


/-! ### trees: tags, canonical form -/

mutual
/-- all tags of a tree -/
def tags : Tree → List Tag
  | .tag t => [t]
  | .grp cs => tagsL cs
def tagsL : List Tree → List Tag
  | [] => []
  | c :: cs => tags c ++ tagsL cs
end

theorem mem_tagsL {x : Tag} {l : List Tree} : x ∈ tagsL l ↔ ∃ c ∈ l, x ∈ tags c := by
  induction l with
  | nil => simp [tagsL]
  | cons c cs ih => simp [tagsL, ih]

/-- a tag reduced to what the fixed code looks at -/
def ctag (t : Tag) : Tag := ⟨t.key, t.key, t.key⟩

mutual
/-- canonical form: every tag replaced by its folded short form -/
def canon : Tree → Tree
  | .tag t => .tag (ctag t)
  | .grp cs => .grp (canonL cs)
def canonL : List Tree → List Tree
  | [] => []
  | c :: cs => canon c :: canonL cs
end

theorem canonL_eq_map (l : List Tree) : canonL l = l.map canon := by
  induction l with
  | nil => rfl
  | cons c cs ih => simp [canonL, ih]

theorem isTag_canon (t : Tree) : isTag (canon t) = isTag t := by cases t <;> simp [canon, isTag]
theorem isGrp_canon (t : Tree) : isGrp (canon t) = isGrp t := by cases t <;> simp [canon, isGrp]
theorem isGrp_eq_not (t : Tree) : isGrp t = !isTag t := by cases t <;> simp [isTag, isGrp]

mutual
theorem skey_canon : ∀ t : Tree, skey (canon t) = skey t
  | .tag t => by simp [canon, render, ctag]
  | .grp cs => by simp [canon, render, skeyL_canon cs]
theorem skeyL_canon : ∀ l : List Tree, renderL Tag.key (canonL l) = renderL Tag.key l
  | [] => by simp [canonL]
  | c :: cs => by
    have h1 := skey_canon c
    have h2 := skeyL_canon cs
    cases cs with
    | nil => simpa [canonL, renderL] using h1
    | cons d ds =>
      simp only [canonL, renderL] at h2 ⊢
      simp only [skey] at h1
      rw [h1, h2]
end

/-- the canonical key depends on the canonical form only -/
theorem skey_eq_of_canon {a b : Tree} (h : canon a = canon b) : skey a = skey b := by
  rw [← skey_canon a, ← skey_canon b, h]

/-! ### the canonical key determines the canonical form (unique readability) -/

/-- what a tag text can be after tokenisation (C02 `tiling`): non-empty, no delimiter -/
def CleanStr (s : Str) : Prop := s ≠ [] ∧ ∀ c ∈ s, c ≠ '(' ∧ c ≠ ')' ∧ c ≠ ','

/-- the rest of the text after an element: empty, or a comma, or a closing parenthesis -/
def stop : Str → Bool
  | [] => true
  | c :: _ => c == ',' || c == ')'

theorem span_unique : ∀ (k k' s s' : Str), (∀ c ∈ k, c ≠ '(' ∧ c ≠ ')' ∧ c ≠ ',') →
    (∀ c ∈ k', c ≠ '(' ∧ c ≠ ')' ∧ c ≠ ',') → stop s = true → stop s' = true →
    k ++ s = k' ++ s' → k = k' ∧ s = s'
  | [], [], _, _, _, _, _, _, h => ⟨rfl, by simpa using h⟩
  | [], c :: k', s, s', _, hk', hs, _, h => by
    simp only [List.nil_append] at h
    subst h
    have := hk' c (by simp)
    simp [stop] at hs
    rcases hs with rfl | rfl <;> simp_all
  | c :: k, [], s, s', hk, _, _, hs', h => by
    simp only [List.nil_append] at h
    subst h
    have := hk c (by simp)
    simp [stop] at hs'
    rcases hs' with rfl | rfl <;> simp_all
  | c :: k, c' :: k', s, s', hk, hk', hs, hs', h => by
    simp only [List.cons_append, List.cons.injEq] at h
    obtain ⟨rfl, h⟩ := h
    have := span_unique k k' s s' (fun x hx => hk x (by simp [hx])) (fun x hx => hk' x (by simp [hx])) hs hs' h
    exact ⟨by rw [this.1], this.2⟩

/-- the key of a clean tree starts with a character that is neither `,` nor `)` -/
theorem skey_head (a : Tree) (ha : ∀ x ∈ tags a, CleanStr x.key) :
    ∃ c r, skey a = c :: r ∧ c ≠ ',' ∧ c ≠ ')' := by
  cases a with
  | tag t =>
    have h := ha t (by simp [tags])
    cases hk : t.key with
    | nil => exact absurd hk h.1
    | cons c r =>
      have := h.2 c (by simp [hk])
      exact ⟨c, r, by simp [render, hk], this.2.2, this.2.1⟩
  | grp cs => exact ⟨'(', renderL Tag.key cs ++ [')'], by simp [render], by decide, by decide⟩

mutual
theorem skey_inj : ∀ (a b : Tree) (s s' : Str), (∀ x ∈ tags a, CleanStr x.key) → (∀ x ∈ tags b, CleanStr x.key) →
    stop s = true → stop s' = true → skey a ++ s = skey b ++ s' → canon a = canon b ∧ s = s'
  | .tag t, .tag u, s, s', ha, hb, hs, hs', h => by
    have h1 := ha t (by simp [tags])
    have h2 := hb u (by simp [tags])
    simp only [skey, render] at h
    have := span_unique _ _ _ _ h1.2 h2.2 hs hs' h
    exact ⟨by simp [canon, ctag, this.1], this.2⟩
  | .tag t, .grp ds, s, s', ha, _, _, _, h => by
    have h1 := ha t (by simp [tags])
    simp only [skey, render] at h
    cases hk : t.key with
    | nil => exact absurd hk h1.1
    | cons c r =>
      rw [hk] at h
      simp only [List.cons_append, List.cons.injEq] at h
      have := h1.2 c (by simp [hk])
      exact absurd h.1 this.1
  | .grp cs, .tag u, s, s', _, hb, _, _, h => by
    have h1 := hb u (by simp [tags])
    simp only [skey, render] at h
    cases hk : u.key with
    | nil => exact absurd hk h1.1
    | cons c r =>
      rw [hk] at h
      simp only [List.cons_append, List.cons.injEq] at h
      have := h1.2 c (by simp [hk])
      exact absurd h.1.symm this.1
  | .grp cs, .grp ds, s, s', ha, hb, _, _, h => by
    simp only [skey, render, List.cons_append, List.cons.injEq, true_and, List.append_assoc] at h
    have := skeyL_inj cs ds s s' (by simpa [tags] using ha) (by simpa [tags] using hb) (by simpa using h)
    exact ⟨by simp [canon, this.1], this.2⟩
theorem skeyL_inj : ∀ (as bs : List Tree) (r r' : Str), (∀ x ∈ tagsL as, CleanStr x.key) →
    (∀ x ∈ tagsL bs, CleanStr x.key) →
    renderL Tag.key as ++ ')' :: r = renderL Tag.key bs ++ ')' :: r' → canonL as = canonL bs ∧ r = r'
  | [], [], r, r', _, _, h => by simpa [renderL, canonL] using h
  | [], b :: bs, r, r', _, hb, h => by
    obtain ⟨c, q, hq, h1, h2⟩ := skey_head b (fun x hx => hb x (by simp [tagsL, hx]))
    simp only [renderL, List.nil_append, List.append_assoc] at h
    simp only [skey] at hq
    rw [hq] at h
    simp only [List.cons_append, List.cons.injEq] at h
    exact absurd h.1.symm h2
  | a :: as, [], r, r', ha, _, h => by
    obtain ⟨c, q, hq, h1, h2⟩ := skey_head a (fun x hx => ha x (by simp [tagsL, hx]))
    simp only [renderL, List.nil_append, List.append_assoc] at h
    simp only [skey] at hq
    rw [hq] at h
    simp only [List.cons_append, List.cons.injEq] at h
    exact absurd h.1 h2
  | a :: as, b :: bs, r, r', ha, hb, h => by
    have ha1 : ∀ x ∈ tags a, CleanStr x.key := fun x hx => ha x (by simp [tagsL, hx])
    have hb1 : ∀ x ∈ tags b, CleanStr x.key := fun x hx => hb x (by simp [tagsL, hx])
    have ha2 : ∀ x ∈ tagsL as, CleanStr x.key := fun x hx => ha x (by simp [tagsL, hx])
    have hb2 : ∀ x ∈ tagsL bs, CleanStr x.key := fun x hx => hb x (by simp [tagsL, hx])
    simp only [renderL, List.append_assoc] at h
    have key := skey_inj a b _ _ ha1 hb1 (by cases as <;> simp [stop]) (by cases bs <;> simp [stop]) h
    obtain ⟨hab, hrest⟩ := key
    cases as with
    | nil =>
      cases bs with
      | nil => exact ⟨by simp [canonL, hab], by simpa using hrest⟩
      | cons d ds => simp at hrest
    | cons c cs =>
      cases bs with
      | nil => simp at hrest
      | cons d ds =>
        simp only [List.cons_append, List.cons.injEq, true_and] at hrest
        have := skeyL_inj (c :: cs) (d :: ds) r r' ha2 hb2 hrest
        exact ⟨by simp only [canonL] at this ⊢; rw [hab, this.1], this.2⟩
end

/-- **Unique readability.** Clean trees with the same canonical key have the same canonical form. -/
theorem canon_eq_of_skey {a b : Tree} (ha : ∀ x ∈ tags a, CleanStr x.key) (hb : ∀ x ∈ tags b, CleanStr x.key)
    (h : skey a = skey b) : canon a = canon b :=
  (skey_inj a b [] [] ha hb rfl rfl (by simpa using h)).1


/-! ### `_sorted` keeps the children, up to order -/

theorem sortKids_eq_map (lt : Entry → Entry → Bool) (cs : List Tree) :
    sortKids lt cs = cs.map (fun c => (render Tag.text c, sortT lt c)) := by
  induction cs with
  | nil => rfl
  | cons c cs ih => simp [sortKids, ih]

theorem arrange_perm (lt : Entry → Entry → Bool) (E : List Entry) : (arrange lt E).Perm (E.map Prod.snd) := by
  unfold arrange
  apply List.Perm.map
  have hq : (fun p : Entry => isGrp p.2) = (fun p : Entry => !(fun p : Entry => isTag p.2) p) := by
    funext p; exact isGrp_eq_not p.2
  rw [hq]
  exact ((sortBy_perm lt _).append (sortBy_perm lt _)).trans (List.filter_append_perm _ E)

theorem mem_arrange {lt : Entry → Entry → Bool} {E : List Entry} {c : Tree} :
    c ∈ arrange lt E ↔ ∃ e ∈ E, e.2 = c := by
  rw [(arrange_perm lt E).mem_iff]; simp

mutual
theorem tags_sortT (lt : Entry → Entry → Bool) : ∀ (t : Tree) (x : Tag), x ∈ tags (sortT lt t) ↔ x ∈ tags t
  | .tag t, x => by simp [sortT]
  | .grp cs, x => by
    simp only [sortT, tags, mem_tagsL, mem_arrange]
    have := tags_sortKids lt cs x
    simp only [mem_tagsL] at this
    constructor
    · rintro ⟨c, ⟨e, he, rfl⟩, hx⟩; exact this.mp ⟨e, he, hx⟩
    · intro h; obtain ⟨e, he, hx⟩ := this.mpr h; exact ⟨e.2, ⟨e, he, rfl⟩, hx⟩
theorem tags_sortKids (lt : Entry → Entry → Bool) : ∀ (cs : List Tree) (x : Tag),
    (∃ e ∈ sortKids lt cs, x ∈ tags e.2) ↔ x ∈ tagsL cs
  | [], x => by simp [sortKids, tagsL]
  | c :: cs, x => by
    have h1 := tags_sortT lt c x
    have h2 := tags_sortKids lt cs x
    simp only [sortKids, tagsL, List.mem_cons, List.mem_append, exists_eq_or_imp, h1, h2]
end

theorem tags_sortedView (lt : Entry → Entry → Bool) (top : List Tree) (x : Tag) :
    x ∈ tagsL (arrange lt (sortKids lt top)) ↔ x ∈ tagsL top := by
  have := tags_sortT lt (.grp top) x
  simpa [sortT, tags] using this

/-! ### admissible tags: what C02 and C03 guarantee about parsed, resolved tags -/

/-- `P` describes tags (i) whose folded short form is a function of the folded original text (C03: the
text resolves case-insensitively, the remainder is kept verbatim) and (ii) whose text is a token (C02). -/
structure Adm (P : Tag → Prop) : Prop where
  coh : ∀ a b, P a → P b → a.org = b.org → a.key = b.key
  clean : ∀ a, P a → CleanStr a.key

theorem teq_iff {P : Tag → Prop} (hP : Adm P) {a b : Tag} (ha : P a) (hb : P b) :
    teq a b = true ↔ ctag a = ctag b := by
  simp only [teq, Bool.or_eq_true, beq_iff_eq, ctag, Tag.mk.injEq, and_self]
  constructor
  · rintro (h | h)
    · exact h
    · exact hP.coh a b ha hb h
  · exact fun h => Or.inl h

mutual
theorem eqv_iff {P : Tag → Prop} (hP : Adm P) : ∀ (a b : Tree), (∀ x ∈ tags a, P x) → (∀ x ∈ tags b, P x) →
    (eqv teq a b = true ↔ canon a = canon b)
  | .tag t, .tag u, ha, hb => by
    simp only [eqv, canon, Tree.tag.injEq]
    exact teq_iff hP (ha t (by simp [tags])) (hb u (by simp [tags]))
  | .tag _, .grp _, _, _ => by simp [eqv, canon]
  | .grp _, .tag _, _, _ => by simp [eqv, canon]
  | .grp cs, .grp ds, ha, hb => by
    simp only [eqv, canon, Tree.grp.injEq]
    exact eqvL_iff hP cs ds (by simpa [tags] using ha) (by simpa [tags] using hb)
theorem eqvL_iff {P : Tag → Prop} (hP : Adm P) : ∀ (as bs : List Tree), (∀ x ∈ tagsL as, P x) →
    (∀ x ∈ tagsL bs, P x) → (eqvL teq as bs = true ↔ canonL as = canonL bs)
  | [], [], _, _ => by simp [eqvL, canonL]
  | [], _ :: _, _, _ => by simp [eqvL, canonL]
  | _ :: _, [], _, _ => by simp [eqvL, canonL]
  | a :: as, b :: bs, ha, hb => by
    have h1 := eqv_iff hP a b (fun x hx => ha x (by simp [tagsL, hx])) (fun x hx => hb x (by simp [tagsL, hx]))
    have h2 := eqvL_iff hP as bs (fun x hx => ha x (by simp [tagsL, hx])) (fun x hx => hb x (by simp [tagsL, hx]))
    simp only [eqvL, canonL, Bool.and_eq_true, List.cons.injEq, h1, h2]
end

theorem issueOf_congr {a b : Tree} (h : canon a = canon b) : issueOf a = issueOf b := by
  have h1 : isTag a = isTag b := by rw [← isTag_canon a, ← isTag_canon b, h]
  simp [issueOf, h1, skey_eq_of_canon h]

mutual
theorem dupT_congr {P : Tag → Prop} (hP : Adm P) : ∀ (a b : Tree), (∀ x ∈ tags a, P x) → (∀ x ∈ tags b, P x) →
    canon a = canon b → dupT teq a = dupT teq b
  | .tag _, .tag _, _, _, _ => by simp [dupT]
  | .tag _, .grp _, _, _, h => by simp [canon] at h
  | .grp _, .tag _, _, _, h => by simp [canon] at h
  | .grp cs, .grp ds, ha, hb, h => by
    simp only [canon, Tree.grp.injEq] at h
    simp only [dupT]
    exact dupL_congr hP cs ds none none (by simpa [tags] using ha) (by simpa [tags] using hb)
      (by simp) (by simp) rfl h
theorem dupL_congr {P : Tag → Prop} (hP : Adm P) : ∀ (xs ys : List Tree) (prev prev' : Option Tree),
    (∀ x ∈ tagsL xs, P x) → (∀ x ∈ tagsL ys, P x) →
    (∀ p, prev = some p → ∀ x ∈ tags p, P x) → (∀ p, prev' = some p → ∀ x ∈ tags p, P x) →
    prev.map canon = prev'.map canon → canonL xs = canonL ys → dupL teq prev xs = dupL teq prev' ys
  | [], [], _, _, _, _, _, _, _, _ => by simp [dupL]
  | [], _ :: _, _, _, _, _, _, _, _, h => by simp [canonL] at h
  | _ :: _, [], _, _, _, _, _, _, _, h => by simp [canonL] at h
  | a :: as, b :: bs, prev, prev', ha, hb, hp, hp', hpp, h => by
    simp only [canonL, List.cons.injEq] at h
    have ha1 : ∀ x ∈ tags a, P x := fun x hx => ha x (by simp [tagsL, hx])
    have hb1 : ∀ x ∈ tags b, P x := fun x hx => hb x (by simp [tagsL, hx])
    have e1 : eqPrev teq prev a = eqPrev teq prev' b := by
      cases prev with
      | none => cases prev' with
        | none => rfl
        | some q => simp at hpp
      | some p => cases prev' with
        | none => simp at hpp
        | some q =>
          simp only [Option.map_some, Option.some.injEq] at hpp
          simp only [eqPrev]
          rw [Bool.eq_iff_iff, eqv_iff hP a p ha1 (hp p rfl), eqv_iff hP b q hb1 (hp' q rfl), h.1, hpp]
    have e2 := dupT_congr hP a b ha1 hb1 h.1
    have e3 := dupL_congr hP as bs (some a) (some b) (fun x hx => ha x (by simp [tagsL, hx]))
      (fun x hx => hb x (by simp [tagsL, hx])) (by simpa using ha1) (by simpa using hb1) (by simp [h.1]) h.2
    simp only [dupL, e1, e2, e3, issueOf_congr h.1]
end

/-! ### the sorted view does not depend on the order of the children -/

theorem half_congr (p : Tree → Bool) (hp : ∀ t, p (canon t) = p t) (E1 E2 : List Entry)
    (h1 : ∀ e ∈ E1, ∀ x ∈ tags e.2, CleanStr x.key) (h2 : ∀ e ∈ E2, ∀ x ∈ tags e.2, CleanStr x.key)
    (hperm : (E1.map (fun e => canon e.2)).Perm (E2.map (fun e => canon e.2))) :
    (sortBy ltNew (E1.filter (fun e => p e.2))).map (fun e => canon e.2) =
    (sortBy ltNew (E2.filter (fun e => p e.2))).map (fun e => canon e.2) := by
  have hfm : ∀ E : List Entry, (E.filter (fun e => p e.2)).map (fun e => canon e.2) =
      (E.map (fun e => canon e.2)).filter p := by
    intro E
    rw [List.filter_map]
    congr 1
    apply List.filter_congr
    intro e _
    simp [hp]
  have hpw : ∀ E : List Entry, ((sortBy ltNew E).map (fun e => canon e.2)).Pairwise (LeK skey) := by
    intro E
    refine List.Pairwise.map _ ?_ (sortNew_pairwise E)
    intro a b hab
    simpa [LeK, skey_canon] using hab
  apply List.Perm.eq_of_pairwise (le := LeK skey) ?_ (hpw _) (hpw _)
  · refine ((sortBy_perm ltNew _).map _).trans ?_
    refine List.Perm.trans ?_ ((sortBy_perm ltNew _).map _).symm
    rw [hfm, hfm]
    exact hperm.filter p
  · intro a b ha hb hab hba
    obtain ⟨e1, he1, rfl⟩ := List.mem_map.mp ha
    obtain ⟨e2, he2, rfl⟩ := List.mem_map.mp hb
    have m1 : e1 ∈ E1 := (List.mem_filter.mp ((sortBy_perm ltNew _).mem_iff.mp he1)).1
    have m2 : e2 ∈ E2 := (List.mem_filter.mp ((sortBy_perm ltNew _).mem_iff.mp he2)).1
    have hk : skey e1.2 = skey e2.2 := by
      have := strLt_total _ _ hba hab
      simpa [skey_canon] using this
    exact canon_eq_of_skey (h1 e1 m1) (h2 e2 m2) hk

theorem arrange_congr (E1 E2 : List Entry)
    (h1 : ∀ e ∈ E1, ∀ x ∈ tags e.2, CleanStr x.key) (h2 : ∀ e ∈ E2, ∀ x ∈ tags e.2, CleanStr x.key)
    (hperm : (E1.map (fun e => canon e.2)).Perm (E2.map (fun e => canon e.2))) :
    canonL (arrange ltNew E1) = canonL (arrange ltNew E2) := by
  simp only [canonL_eq_map, arrange, List.map_append, List.map_map]
  have ht := half_congr isTag isTag_canon E1 E2 h1 h2 hperm
  have hg := half_congr isGrp isGrp_canon E1 E2 h1 h2 hperm
  simp only [Function.comp_def]
  rw [ht, hg]

/-- `b` is `a` with the children of some groups (or of the top level) reordered -/
inductive Shuffle : Tree → Tree → Prop
  | refl (t : Tree) : Shuffle t t
  | perm {cs ds : List Tree} : cs.Perm ds → Shuffle (.grp cs) (.grp ds)
  | inside {pre post : List Tree} {c d : Tree} : Shuffle c d →
      Shuffle (.grp (pre ++ c :: post)) (.grp (pre ++ d :: post))
  | trans {a b c : Tree} : Shuffle a b → Shuffle b c → Shuffle a c

theorem shuffle_tags {a b : Tree} (h : Shuffle a b) : ∀ x, x ∈ tags a ↔ x ∈ tags b := by
  induction h with
  | refl t => intro x; rfl
  | perm hp => intro x; simp only [tags, mem_tagsL]; constructor <;> rintro ⟨c, hc, hx⟩
               · exact ⟨c, hp.mem_iff.mp hc, hx⟩
               · exact ⟨c, hp.mem_iff.mpr hc, hx⟩
  | inside _ ih => intro x; simp only [tags, mem_tagsL, List.mem_append, List.mem_cons]
                   constructor
                   · rintro ⟨e, (he | rfl | he), hx⟩
                     · exact ⟨e, Or.inl he, hx⟩
                     · exact ⟨_, Or.inr (Or.inl rfl), (ih x).mp hx⟩
                     · exact ⟨e, Or.inr (Or.inr he), hx⟩
                   · rintro ⟨e, (he | rfl | he), hx⟩
                     · exact ⟨e, Or.inl he, hx⟩
                     · exact ⟨_, Or.inr (Or.inl rfl), (ih x).mpr hx⟩
                     · exact ⟨e, Or.inr (Or.inr he), hx⟩
  | trans _ _ ih1 ih2 => intro x; exact (ih1 x).trans (ih2 x)

theorem clean_sortKids {cs : List Tree} (h : ∀ x ∈ tagsL cs, CleanStr x.key) :
    ∀ e ∈ sortKids ltNew cs, ∀ x ∈ tags e.2, CleanStr x.key :=
  fun e he x hx => h x ((tags_sortKids ltNew cs x).mp ⟨e, he, hx⟩)

theorem shuffle_canon {a b : Tree} (h : Shuffle a b) :
    (∀ x ∈ tags a, CleanStr x.key) → canon (sortT ltNew a) = canon (sortT ltNew b) := by
  induction h with
  | refl t => intro _; rfl
  | @perm cs ds hp =>
    intro hc
    have hd : ∀ x ∈ tags (.grp ds), CleanStr x.key := fun x hx => hc x ((shuffle_tags (.perm hp) x).mpr hx)
    simp only [sortT, canon, Tree.grp.injEq]
    apply arrange_congr _ _ (clean_sortKids (by simpa [tags] using hc)) (clean_sortKids (by simpa [tags] using hd))
    simp only [sortKids_eq_map, List.map_map]
    exact hp.map _
  | @inside pre post c d hcd ih =>
    intro hc
    have hd : ∀ x ∈ tags (.grp (pre ++ d :: post)), CleanStr x.key :=
      fun x hx => hc x ((shuffle_tags (.inside hcd) x).mpr hx)
    have ih' := ih (fun x hx => hc x (by simp [tags, mem_tagsL]; exact ⟨c, Or.inr (Or.inl rfl), hx⟩))
    simp only [sortT, canon, Tree.grp.injEq]
    apply arrange_congr _ _ (clean_sortKids (by simpa [tags] using hc)) (clean_sortKids (by simpa [tags] using hd))
    simp only [sortKids_eq_map, List.map_map, List.map_append, List.map_cons, Function.comp_def, ih']
    exact List.Perm.refl _
  | trans h1 _ ih1 ih2 =>
    intro hc
    exact (ih1 hc).trans (ih2 (fun x hx => hc x ((shuffle_tags h1 x).mpr hx)))


/-! ### where the loop reports -/

theorem dupT_sub_dupL (e : Tag → Tag → Bool) : ∀ (l : List Tree) (prev : Option Tree) (c : Tree), c ∈ l →
    ∀ i ∈ dupT e c, i ∈ dupL e prev l
  | [], _, _, h, _, _ => by simp at h
  | d :: ds, prev, c, h, i, hi => by
    simp only [dupL, List.mem_append]
    rcases List.mem_cons.mp h with rfl | h
    · exact Or.inl (Or.inr hi)
    · exact Or.inr (dupT_sub_dupL e ds (some d) c h i hi)

theorem adjacent_reported (e : Tag → Tag → Bool) : ∀ (A : List Tree) (prev : Option Tree) (w z : Tree) (C : List Tree),
    eqv e z w = true → issueOf z ∈ dupL e prev (A ++ w :: z :: C)
  | [], prev, w, z, C, h => by simp [dupL, eqPrev, h]
  | a :: A, prev, w, z, C, h => by
    simp only [List.cons_append, dupL, List.mem_append]
    exact Or.inr (adjacent_reported e A (some a) w z C h)

/-- in a list sorted by `k`, two entries with key `v` force two *adjacent* entries with key `v` -/
theorem adjacent_of_sorted {α : Type} (k : α → Str) (v : Str) : ∀ (S : List α), S.Pairwise (LeK k) →
    2 ≤ S.countP (fun a => k a == v) → ∃ A w z C, S = A ++ w :: z :: C ∧ k w = v ∧ k z = v
  | [], _, h => by simp at h
  | a :: S, hpw, h => by
    rw [List.pairwise_cons] at hpw
    by_cases ha : k a = v
    · have h1 : 1 ≤ S.countP (fun a => k a == v) := by
        simp only [List.countP_cons, ha, beq_self_eq_true, ↓reduceIte] at h; omega
      obtain ⟨z, hz, hzk⟩ := List.countP_pos_iff.mp h1
      cases S with
      | nil => simp at hz
      | cons b S' =>
        refine ⟨[], a, b, S', rfl, ha, ?_⟩
        have hab : LeK k a b := hpw.1 b (by simp)
        rcases List.mem_cons.mp hz with rfl | hz'
        · simpa using hzk
        · have hbz : LeK k b z := (List.pairwise_cons.mp hpw.2).1 z hz'
          have hzv : k z = v := by simpa using hzk
          simp only [LeK, ha, hzv] at hab hbz
          exact strLt_total _ _ hab hbz
    · have : (k a == v) = false := by simpa using ha
      simp only [List.countP_cons, this, Bool.false_eq_true, ↓reduceIte, Nat.add_zero] at h
      obtain ⟨A, w, z, C, rfl, hw, hz⟩ := adjacent_of_sorted k v S hpw.2 h
      exact ⟨a :: A, w, z, C, rfl, hw, hz⟩

/-- `g` occurs in `t` (as `t` itself or a group nested in it) -/
inductive Sub : Tree → Tree → Prop
  | refl (t : Tree) : Sub t t
  | step {g c : Tree} {cs : List Tree} : c ∈ cs → Sub g c → Sub g (.grp cs)

theorem sub_reported {g t : Tree} (h : Sub g t) : ∀ i ∈ dupT teq (sortT ltNew g), i ∈ dupT teq (sortT ltNew t) := by
  induction h with
  | refl => exact fun i hi => hi
  | @step c cs hc _ ih =>
    intro i hi
    simp only [sortT, dupT]
    refine dupT_sub_dupL teq _ none (sortT ltNew c) ?_ i (ih i hi)
    rw [mem_arrange]
    exact ⟨(render Tag.text c, sortT ltNew c), by rw [sortKids_eq_map]; exact List.mem_map.mpr ⟨c, hc, rfl⟩, rfl⟩

theorem sub_tags {g t : Tree} (h : Sub g t) : ∀ x ∈ tags g, x ∈ tags t := by
  induction h with
  | refl => exact fun x hx => hx
  | @step c cs hc _ ih => exact fun x hx => by simp only [tags, mem_tagsL]; exact ⟨c, hc, ih x hx⟩

/-- members equal up to spelling and member order -/
def Same (x y : Tree) : Prop := canon (sortT ltNew x) = canon (sortT ltNew y)

theorem repeated_in_group {P : Tag → Prop} (hP : Adm P) (l1 l2 l3 : List Tree) (x y : Tree)
    (hg : ∀ t ∈ tagsL (l1 ++ x :: (l2 ++ y :: l3)), P t) (hxy : Same x y) :
    ∃ i ∈ dupT teq (sortT ltNew (.grp (l1 ++ x :: (l2 ++ y :: l3)))), i.key = skey (sortT ltNew x) := by
  let cs := l1 ++ x :: (l2 ++ y :: l3)
  let E := sortKids ltNew cs
  have hclean : ∀ e ∈ E, ∀ t ∈ tags e.2, P t := fun e he t ht => hg t ((tags_sortKids ltNew cs t).mp ⟨e, he, ht⟩)
  let v := skey (sortT ltNew x)
  have hvy : skey (sortT ltNew y) = v := (skey_eq_of_canon hxy).symm
  -- the half of the view that holds x and y
  obtain ⟨p, hpc, hpx, hpy⟩ : ∃ p : Tree → Bool, (p = isTag ∨ p = isGrp) ∧ p (sortT ltNew x) = true ∧
      p (sortT ltNew y) = true := by
    have hty : isTag (sortT ltNew y) = isTag (sortT ltNew x) := by
      rw [← isTag_canon, ← isTag_canon (sortT ltNew x), hxy]
    by_cases hx : isTag (sortT ltNew x) = true
    · exact ⟨isTag, Or.inl rfl, hx, by rw [hty]; exact hx⟩
    · exact ⟨isGrp, Or.inr rfl, by rw [isGrp_eq_not]; simpa using hx, by rw [isGrp_eq_not, hty]; simpa using hx⟩
  let S := sortBy ltNew (E.filter (fun e => p e.2))
  have hcount : 2 ≤ S.countP (fun e => skey e.2 == v) := by
    rw [(sortBy_perm ltNew _).countP_eq]
    simp only [E, cs, sortKids_eq_map, List.map_append, List.map_cons, List.filter_append, List.filter_cons, hpx, hpy,
      ↓reduceIte, List.countP_append, List.countP_cons, hvy, v, beq_self_eq_true]
    omega
  obtain ⟨A, w, z, C, hS, hw, hz⟩ := adjacent_of_sorted (fun e : Entry => skey e.2) v S (sortNew_pairwise _) hcount
  have hwS : w ∈ S := by rw [hS]; simp
  have hzS : z ∈ S := by rw [hS]; simp
  have hwE : w ∈ E := (List.mem_filter.mp ((sortBy_perm ltNew _).mem_iff.mp hwS)).1
  have hzE : z ∈ E := (List.mem_filter.mp ((sortBy_perm ltNew _).mem_iff.mp hzS)).1
  have heq : eqv teq z.2 w.2 = true := by
    rw [eqv_iff hP z.2 w.2 (hclean z hzE) (hclean w hwE)]
    exact canon_eq_of_skey (fun t ht => hP.clean t (hclean z hzE t ht)) (fun t ht => hP.clean t (hclean w hwE t ht))
      (by rw [hz, hw])
  refine ⟨issueOf z.2, ?_, by simp [issueOf, hz, v]⟩
  simp only [sortT, dupT]
  -- the sorted view is  tags-half ++ groups-half ; the adjacent pair sits in one of them
  have harr : arrange ltNew E = (sortBy ltNew (E.filter (fun e => isTag e.2))).map Prod.snd ++
      (sortBy ltNew (E.filter (fun e => isGrp e.2))).map Prod.snd := by simp [arrange]
  show issueOf z.2 ∈ dupL teq none (arrange ltNew E)
  rw [harr]
  rcases hpc with rfl | rfl
  · have hSdef : sortBy ltNew (E.filter (fun e => isTag e.2)) = A ++ w :: z :: C := hS
    rw [hSdef]
    simp only [List.map_append, List.map_cons, List.append_assoc, List.cons_append]
    exact adjacent_reported teq _ none w.2 z.2 _ heq
  · have hSdef : sortBy ltNew (E.filter (fun e => isGrp e.2)) = A ++ w :: z :: C := hS
    rw [hSdef]
    simp only [List.map_append, List.map_cons]
    rw [← List.append_assoc]
    exact adjacent_reported teq _ none w.2 z.2 _ heq

theorem dupL_nil (e : Tag → Tag → Bool) : ∀ (L : List Tree) (prev : Option Tree),
    (∀ c ∈ L, dupT e c = []) → L.Pairwise (fun a b => eqv e b a = false) →
    (∀ p, prev = some p → ∀ c ∈ L, eqv e c p = false) → dupL e prev L = []
  | [], _, _, _, _ => by simp [dupL]
  | c :: L, prev, h1, h2, h3 => by
    rw [List.pairwise_cons] at h2
    have e1 : eqPrev e prev c = false := by
      cases prev with
      | none => rfl
      | some p => exact h3 p rfl c (by simp)
    have e2 := h1 c (by simp)
    have e3 := dupL_nil e L (some c) (fun d hd => h1 d (by simp [hd])) h2.2
      (fun p hp d hd => by cases hp; exact h2.1 d hd)
    simp [dupL, e1, e2, e3]

/-- no group of `t` (nor `t` itself) has two members that are equal up to spelling and order -/
def NoRepeat (t : Tree) : Prop := ∀ cs, Sub (.grp cs) t → cs.Pairwise (fun x y => ¬ Same x y)

mutual
theorem noRepeat_nil {P : Tag → Prop} (hP : Adm P) : ∀ (t : Tree), (∀ x ∈ tags t, P x) → NoRepeat t →
    dupT teq (sortT ltNew t) = []
  | .tag _, _, _ => by simp [sortT, dupT]
  | .grp cs, hg, hn => by
    simp only [sortT, dupT]
    have hkids := noRepeatL_nil hP cs (by simpa [tags] using hg)
      (fun c hc cs' hs => hn cs' (Sub.step hc hs))
    have hmem : ∀ c ∈ arrange ltNew (sortKids ltNew cs), ∃ c0 ∈ cs, c = sortT ltNew c0 := by
      intro c hc
      obtain ⟨e, he, rfl⟩ := mem_arrange.mp hc
      rw [sortKids_eq_map] at he
      obtain ⟨c0, hc0, rfl⟩ := List.mem_map.mp he
      exact ⟨c0, hc0, rfl⟩
    apply dupL_nil
    · intro c hc
      obtain ⟨c0, hc0, rfl⟩ := hmem c hc
      exact hkids c0 hc0
    · have hpw : (cs.map (sortT ltNew)).Pairwise (fun a b => canon a ≠ canon b) := by
        rw [List.pairwise_map]
        exact hn cs (Sub.refl _)
      have hperm : (arrange ltNew (sortKids ltNew cs)).Perm (cs.map (sortT ltNew)) := by
        have := arrange_perm ltNew (sortKids ltNew cs)
        simpa [sortKids_eq_map, List.map_map, Function.comp_def] using this
      have hpw' := hpw.perm hperm.symm (fun h => h.symm)
      have hall : ∀ c ∈ arrange ltNew (sortKids ltNew cs), ∀ x ∈ tags c, P x := by
        intro c hc x hx
        exact hg x (by
          have := (tags_sortT ltNew (.grp cs) x).mp (by simp only [sortT, tags, mem_tagsL]; exact ⟨c, hc, hx⟩)
          exact this)
      -- turn `canon a ≠ canon b` into `eqv b a = false`, using membership
      have : ∀ L : List Tree, (∀ c ∈ L, ∀ x ∈ tags c, P x) → L.Pairwise (fun a b => canon a ≠ canon b) →
          L.Pairwise (fun a b => eqv teq b a = false) := by
        intro L
        induction L with
        | nil => simp
        | cons a L ih =>
          intro hL hp
          rw [List.pairwise_cons] at hp ⊢
          refine ⟨fun b hb => ?_, ih (fun c hc => hL c (by simp [hc])) hp.2⟩
          have := eqv_iff hP b a (hL b (by simp [hb])) (hL a (by simp))
          cases h : eqv teq b a with
          | false => rfl
          | true => exact absurd (this.mp h).symm (hp.1 b hb)
      exact this _ hall hpw'
    · intro p hp; cases hp
theorem noRepeatL_nil {P : Tag → Prop} (hP : Adm P) : ∀ (cs : List Tree), (∀ x ∈ tagsL cs, P x) →
    (∀ c ∈ cs, NoRepeat c) → ∀ c ∈ cs, dupT teq (sortT ltNew c) = []
  | [], _, _ => by simp
  | d :: ds, hg, hn =>
    List.forall_mem_cons.mpr
      ⟨noRepeat_nil hP d (fun x hx => hg x (by simp [tagsL, hx])) (hn d (by simp)),
       noRepeatL_nil hP ds (fun x hx => hg x (by simp [tagsL, hx])) (fun c hc => hn c (by simp [hc]))⟩
end

mutual
theorem crashT_guard (e : Tag → Tag → Bool) : ∀ t : Tree, crashT true e t = false
  | .tag _ => by simp [crashT]
  | .grp cs => by simp [crashT, crashL_guard e cs none]
theorem crashL_guard (e : Tag → Tag → Bool) : ∀ (l : List Tree) (prev : Option Tree), crashL true e prev l = false
  | [], _ => by simp [crashL]
  | c :: cs, prev => by simp [crashL, crashT_guard e c, crashL_guard e cs (some c)]
end


/-! ### the sorted view depends on the spelling only through the canonical form -/

mutual
theorem sortT_canon_congr : ∀ (a b : Tree), (∀ x ∈ tags a, CleanStr x.key) → (∀ x ∈ tags b, CleanStr x.key) →
    canon a = canon b → canon (sortT ltNew a) = canon (sortT ltNew b)
  | .tag _, .tag _, _, _, h => by simpa [sortT] using h
  | .tag _, .grp _, _, _, h => by simp [canon] at h
  | .grp _, .tag _, _, _, h => by simp [canon] at h
  | .grp cs, .grp ds, ha, hb, h => by
    simp only [canon, Tree.grp.injEq] at h
    simp only [sortT, canon, Tree.grp.injEq]
    apply arrange_congr _ _ (clean_sortKids (by simpa [tags] using ha)) (clean_sortKids (by simpa [tags] using hb))
    simp only [sortKids_eq_map, List.map_map, Function.comp_def]
    rw [sortKids_canon_congr cs ds (by simpa [tags] using ha) (by simpa [tags] using hb) h]
theorem sortKids_canon_congr : ∀ (cs ds : List Tree), (∀ x ∈ tagsL cs, CleanStr x.key) →
    (∀ x ∈ tagsL ds, CleanStr x.key) → canonL cs = canonL ds →
    cs.map (fun c => canon (sortT ltNew c)) = ds.map (fun c => canon (sortT ltNew c))
  | [], [], _, _, _ => rfl
  | [], _ :: _, _, _, h => by simp [canonL] at h
  | _ :: _, [], _, _, h => by simp [canonL] at h
  | a :: as, b :: bs, ha, hb, h => by
    simp only [canonL, List.cons.injEq] at h
    simp only [List.map_cons, List.cons.injEq]
    exact ⟨sortT_canon_congr a b (fun x hx => ha x (by simp [tagsL, hx])) (fun x hx => hb x (by simp [tagsL, hx])) h.1,
      sortKids_canon_congr as bs (fun x hx => ha x (by simp [tagsL, hx])) (fun x hx => hb x (by simp [tagsL, hx])) h.2⟩
end

/-! ### the delimiter scan does not see blanks -/
namespace Scan

theorem dropWhile_snoc (ws : Char → Bool) (c : Char) (hc : ws c = false) : ∀ pre : Str,
    ∃ Y, (pre ++ [c]).dropWhile ws = Y ++ [c] ∧ (Y = [] ↔ pre.all ws = true)
  | [] => ⟨[], by simp [hc], by simp⟩
  | a :: pre => by
    by_cases ha : ws a = true
    · obtain ⟨Y, h1, h2⟩ := dropWhile_snoc ws c hc pre
      exact ⟨Y, by simp [ha, h1], by simp [ha, h2]⟩
    · have ha' : ws a = false := by simpa using ha
      exact ⟨a :: pre, by simp [ha'], by simp [ha']⟩

/-- `(current_tag + c).strip() == c`, for a non-blank `c`, says that `current_tag` is blank -/
theorem strip_snoc (ws : Char → Bool) (c : Char) (hc : ws c = false) (pre : Str) :
    (strip ws (pre ++ [c]) == [c]) = pre.all ws := by
  obtain ⟨Y, h1, h2⟩ := dropWhile_snoc ws c hc pre
  have hs : strip ws (pre ++ [c]) = Y ++ [c] := by
    simp [strip, h1, hc]
  rw [hs, Bool.eq_iff_iff, ← h2]
  simp

/-- what the loop remembers of its state -/
def Rel (ws : Char → Bool) (a b : St) : Prop :=
  a.last = b.last ∧ a.out = b.out ∧ a.stop = b.stop ∧ a.cur.all ws = b.cur.all ws

theorem step_blank (ws : Char → Bool) (a b : St) (c : Char) (hc : ws c = true) (h : Rel ws a b) :
    Rel ws (step ws a c) b := by
  obtain ⟨al, ac, ao, as⟩ := a
  obtain ⟨bl, bc, bo, bs⟩ := b
  obtain ⟨h1, h2, h3, h4⟩ := h
  simp only at h1 h2 h3 h4
  subst h1 h2 h3
  cases as <;> simp [step, Rel, hc, h4]

theorem step_nonblank (ws : Char → Bool) (a b : St) (c : Char) (hc : ws c = false) (h : Rel ws a b) :
    Rel ws (step ws a c) (step ws b c) := by
  obtain ⟨al, ac, ao, as⟩ := a
  obtain ⟨bl, bc, bo, bs⟩ := b
  obtain ⟨h1, h2, h3, h4⟩ := h
  simp only at h1 h2 h3 h4
  subst h1 h2 h3
  cases as
  · simp only [step, Bool.false_eq_true, ↓reduceIte, hc, strip_snoc ws c hc, h4]
    repeat' split
    all_goals simp [Rel, hc, h4]
  · simp [step, Rel, h4]

theorem run_rel (ws : Char → Bool) : ∀ (s : Str) (a b : St), Rel ws a b →
    Rel ws (s.foldl (step ws) a) ((s.filter (fun c => !ws c)).foldl (step ws) b)
  | [], _, _, h => h
  | c :: s, a, b, h => by
    by_cases hc : ws c = true
    · simp only [List.foldl_cons, List.filter_cons, hc, Bool.not_true, Bool.false_eq_true, ↓reduceIte]
      exact run_rel ws s _ _ (step_blank ws a b c hc h)
    · have hc' : ws c = false := by simpa using hc
      simp only [List.foldl_cons, List.filter_cons, hc', Bool.not_false, ↓reduceIte]
      exact run_rel ws s _ _ (step_nonblank ws a b c hc' h)

end Scan

end HedVerif.Dup

/-! ## The property theorems -/
namespace HedVerif.C04
open HedVerif.Dup

/-- The fixed check never raises: its result is the issue list. -/
theorem empty_groups_total (top : List Tree) : dupIssues top = .ok (issues top) := by
  simp [dupIssues, check, crashL_guard, issues]

/-- Old code: `(),()` makes `found_group[0]` fail (IndexError) — validation raises. -/
theorem empty_groups_counterexample :
    (dupIssuesOld [.grp [], .grp []]).toOption = none ∧ (dupIssues [.grp [], .grp []]).toOption = some [⟨.grp, ['(', ')']⟩] := by
  decide

/-- **Order.** Reordering the members of any group, or of the top level, at any depth and any number
of times leaves the list of duplicate issues (kind and canonical key of the repeated element) unchanged. -/
theorem order_invariant {P : Tag → Prop} (hP : Adm P) (top top' : List Tree)
    (hs : Shuffle (.grp top) (.grp top')) (hg : ∀ x ∈ tagsL top, P x) : issues top = issues top' := by
  have hg' : ∀ x ∈ tagsL top', P x := fun x hx => hg x (by
    have := (shuffle_tags hs x).mpr (by simpa [tags] using hx); simpa [tags] using this)
  have hc := shuffle_canon hs (fun x hx => hP.clean x (hg x (by simpa [tags] using hx)))
  simp only [sortT, canon, Tree.grp.injEq] at hc
  exact dupL_congr hP _ _ none none (fun x hx => hg x ((tags_sortedView ltNew top x).mp hx))
    (fun x hx => hg' x ((tags_sortedView ltNew top' x).mp hx)) (by simp) (by simp) rfl hc

/-- **Spelling (rule input).** The duplicate rule sees a tag only through its resolved, folded short
form: annotations with the same canonical form have the same issues. -/
theorem spelling_invariant {P : Tag → Prop} (hP : Adm P) (top top' : List Tree) (h : canonL top = canonL top')
    (hg : ∀ x ∈ tagsL top, P x) (hg' : ∀ x ∈ tagsL top', P x) : issues top = issues top' := by
  have hc := sortT_canon_congr (.grp top) (.grp top') (fun x hx => hP.clean x (hg x (by simpa [tags] using hx)))
    (fun x hx => hP.clean x (hg' x (by simpa [tags] using hx))) (by simp [canon, h])
  simp only [sortT, canon, Tree.grp.injEq] at hc
  exact dupL_congr hP _ _ none none (fun x hx => hg x ((tags_sortedView ltNew top x).mp hx))
    (fun x hx => hg' x ((tags_sortedView ltNew top' x).mp hx)) (by simp) (by simp) rfl hc

/-- **Spelling (resolution, from C03).** Any two spellings — any suffix form of the path, in any letter
case — of a registered tag resolve to the same node with nothing left over; hence to the same short form. -/
theorem spelling_same_node (fold : List Char → List Char) (tags : List Schema.Name) (i : Nat) (n : Schema.Name)
    (hi : tags[i]? = some n) (hnd : i ∉ (Schema.Vocab.build fold tags).dups)
    (hwf : C03.WF (Schema.Vocab.build fold tags)) (f1 f2 w1 w2 : Schema.Name)
    (h1 : f1 ∈ Schema.forms n) (h2 : f2 ∈ Schema.forms n)
    (c1 : Schema.foldName fold w1 = Schema.foldName fold f1) (c2 : Schema.foldName fold w2 = Schema.foldName fold f2)
    (v1 : (Schema.foldName fold f1).getLast? ≠ some ['#']) (v2 : (Schema.foldName fold f2).getLast? ≠ some ['#']) :
    Schema.findComps (Schema.Vocab.build fold tags) fold w1 = Schema.findComps (Schema.Vocab.build fold tags) fold w2 := by
  rw [C03.direct_hit_case fold tags i n hi hnd hwf f1 w1 h1 c1 v1,
      C03.direct_hit_case fold tags i n hi hnd hwf f2 w2 h2 c2 v2]

/-- **Spacing (delimiter rule).** The delimiter scan reports the same codes for any two strings that
agree after deleting blanks — in particular when blanks are added or removed around commas and
parentheses or at the ends. -/
theorem spacing_invariant (ws : Char → Bool) (s s' : List Char)
    (h : s.filter (fun c => !ws c) = s'.filter (fun c => !ws c)) : Scan.scan ws s = Scan.scan ws s' := by
  have key : ∀ t : List Char, Scan.scan ws t = Scan.scan ws (t.filter (fun c => !ws c)) := by
    intro t
    obtain ⟨h1, h2, _, _⟩ := Scan.run_rel ws t {} {} ⟨rfl, rfl, rfl, rfl⟩
    simp [Scan.scan, Scan.finish, h1, h2]
  rw [key s, key s', h]

/-- **Spacing (tag rules, from C02).** What the other rules receive as the text of a tag is a token of
`split_hed_string`: non-empty, without delimiters, beginning and ending with a non-blank — blanks next
to commas and parentheses never reach them. -/
theorem spacing_tag_tokens (s : List Char) (t : Token) (ht : t ∈ Tok.split s) (htag : t.isTag = true) :
    t.start < t.stop ∧ t.stop ≤ s.length ∧
    (∀ k c, t.start ≤ k → k < t.stop → s[k]? = some c → Tok.isDelim c = false) ∧
    (∀ c, s[t.start]? = some c → c ≠ ' ') ∧ (∀ c, s[t.stop - 1]? = some c → c ≠ ' ') := by
  have h := (C02.tiling s).2 t ht
  simp only [TokOK, htag, ↓reduceIte] at h
  exact ⟨h.1, h.2.1, h.2.2⟩

/-- **Repeats are reported.** Two members of one group — the top level or a group at any depth, at any
two positions — that are equal up to spelling and the order of their own members produce a
TAG_EXPRESSION_REPEATED issue for that element. -/
theorem repeated_anywhere {P : Tag → Prop} (hP : Adm P) (top : List Tree) (hg : ∀ t ∈ tagsL top, P t)
    (l1 l2 l3 : List Tree) (x y : Tree) (hsub : Sub (.grp (l1 ++ x :: (l2 ++ y :: l3))) (.grp top))
    (hxy : Same x y) : ∃ i ∈ issues top, i.key = skey (sortT ltNew x) := by
  obtain ⟨i, hi, hk⟩ := repeated_in_group hP l1 l2 l3 x y
    (fun t ht => hg t (by have := sub_tags hsub t (by simpa [tags] using ht); simpa [tags] using this)) hxy
  have := sub_reported hsub i hi
  exact ⟨i, by simpa [sortT, dupT, issues, sortedView] using this, hk⟩

/-- **No false repeat.** If no group (nor the top level) has two members equal up to spelling and
member order, no duplicate issue is reported. -/
theorem no_false_repeat {P : Tag → Prop} (hP : Adm P) (top : List Tree) (hg : ∀ t ∈ tagsL top, P t)
    (hn : NoRepeat (.grp top)) : issues top = [] := by
  have := noRepeat_nil hP (.grp top) (by simpa [tags] using hg) hn
  simpa [sortT, dupT, issues, sortedView] using this

/-! ### the old code -/

def mk (text key : Dup.Str) : Tree := .tag ⟨text, key, key⟩
def red : Tree := mk ['R','e','d'] ['r','e','d']
def blue : Tree := mk ['B','l','u','e'] ['b','l','u','e']
def green : Tree := mk ['G','r','e','e','n'] ['g','r','e','e','n']
def labelABC : Tree := mk ['L','a','b','e','l','/','A','B','C'] ['l','a','b','e','l','/','a','b','c']
def labelabc : Tree := mk ['L','a','b','e','l','/','a','b','c'] ['l','a','b','e','l','/','a','b','c']
def labelAbd : Tree := mk ['L','a','b','e','l','/','A','b','d'] ['l','a','b','e','l','/','a','b','d']
/-- `Informational-property/Label/abc`: same node and value as `Label/abc`, written with a longer path -/
def labelLong : Tree := .tag ⟨['L','a','b','e','l','/','a','b','c'], ['l','a','b','e','l','/','a','b','c'],
  ['i','n','f','o','r','m','a','t','i','o','n','a','l','-','p','r','o','p','e','r','t','y','/','l','a','b','e','l','/','a','b','c']⟩

def nIssues (r : Except Unit (List Issue)) : Option Nat := r.toOption.map List.length

/-- Old code: `(Red,Blue),(Green),(Blue,Red)` is accepted, but after swapping the members of the last
group (`(Red,Blue),(Green),(Red,Blue)`) or without the unrelated `(Green)` it is rejected; the fixed
code reports one repeat in all three. -/
theorem order_counterexample :
    Shuffle (.grp [.grp [red, blue], .grp [green], .grp [blue, red]]) (.grp [.grp [red, blue], .grp [green], .grp [red, blue]]) ∧
    nIssues (dupIssuesOld [.grp [red, blue], .grp [green], .grp [blue, red]]) = some 0 ∧
    nIssues (dupIssuesOld [.grp [red, blue], .grp [green], .grp [red, blue]]) = some 1 ∧
    nIssues (dupIssuesOld [.grp [red, blue], .grp [blue, red]]) = some 1 ∧
    nIssues (dupIssues [.grp [red, blue], .grp [green], .grp [blue, red]]) = some 1 ∧
    nIssues (dupIssues [.grp [red, blue], .grp [green], .grp [red, blue]]) = some 1 ∧
    nIssues (dupIssues [.grp [red, blue], .grp [blue, red]]) = some 1 := by
  refine ⟨?_, by decide, by decide, by decide, by decide, by decide, by decide⟩
  exact Shuffle.inside (pre := [.grp [red, blue], .grp [green]]) (post := []) (Shuffle.perm (List.Perm.swap _ _ _))

/-- Old code: `Label/ABC, Label/abc` is reported, `Label/ABC, Label/Abd, Label/abc` is not (the
case-sensitive sort puts `Label/Abd` between the two equal tags); the fixed code reports both. -/
theorem case_counterexample :
    nIssues (dupIssuesOld [labelABC, labelabc]) = some 1 ∧
    nIssues (dupIssuesOld [labelABC, labelAbd, labelabc]) = some 0 ∧
    nIssues (dupIssues [labelABC, labelabc]) = some 1 ∧
    nIssues (dupIssues [labelABC, labelAbd, labelabc]) = some 1 := by
  refine ⟨by decide, by decide, by decide, by decide⟩

/-- Old code: the old `__eq__` compares the short forms case-sensitively and otherwise the raw texts, so
`Label/ABC, Label/abc` is reported but `Label/ABC, Informational-property/Label/abc` is not; the fixed
code reports both. -/
theorem spelling_counterexample :
    nIssues (dupIssuesOld [labelABC, labelabc]) = some 1 ∧
    nIssues (dupIssuesOld [labelABC, labelLong]) = some 0 ∧
    nIssues (dupIssues [labelABC, labelLong]) = some 1 := by
  refine ⟨by decide, by decide, by decide⟩

/-! ### the hypotheses can be met -/

/-- tags written in short form with a clean key -/
def ShortClean (t : Tag) : Prop := t.org = t.key ∧ CleanStr t.key

theorem shortClean_adm : Adm ShortClean :=
  ⟨fun a b ha hb h => by rw [← ha.1, ← hb.1, h], fun _ h => h.2⟩

example : ∀ x ∈ tagsL [.grp [red, blue], .grp [green], .grp [blue, red]], ShortClean x := by
  simp [tagsL, tags, red, blue, green, mk, ShortClean, CleanStr]

example : Same (.grp [red, blue]) (.grp [blue, red]) :=
  shuffle_canon (Shuffle.perm (List.Perm.swap _ _ _)) (by simp [tags, tagsL, red, blue, mk, CleanStr])

example : issues [.grp [red, blue], .grp [green], .grp [blue, red]] = [⟨.grp, ['(','b','l','u','e',',','r','e','d',')']⟩] := by
  decide

example : NoRepeat (.tag ⟨['a'], ['a'], ['a']⟩) := by
  intro cs h; cases h

end HedVerif.C04

/-! ## Growth: the whole validator (`Model/Validate.lean`)

Part 1 — the tokenizer and the tree builder see a text as a sequence of events (tag text, open, close);
blanks next to delimiters do not change it (`evs_blank_*`, `construct_ev`).
Part 2 — every rule of the validator, on resolved trees related by `ForestSim` (same shape, tags the rules
cannot tell apart, members of every group permuted, spans free): `validateP_sim`.
Part 3 — the theorems of C04 for the whole validator.
-/
namespace HedVerif.Rewrite
open HedVerif Tok Tree

/-! ### what the tree builder reads of the tokens: a sequence of events -/

inductive Ev where
  | tag (w : Str)
  | opn
  | cls
deriving Repr, DecidableEq

/-- which parenthesis, if any, a delimiter token stands for: its first character that is not white space -/
def clsOf (u : Str) : Option Ev :=
  match u.find? (fun c => !pyIsSpace c) with
  | some '(' => some .opn
  | some ')' => some .cls
  | _ => none

def tokEv (s : Str) (t : Token) : Option Ev :=
  if t.isTag then some (.tag (slice s t.start t.stop)) else clsOf (slice s t.start t.stop)

def evs (s : Str) (toks : List Token) : List Ev := toks.filterMap (tokEv s)

/-- `split_into_groups` on events, building the abstract forest -/
def stepEv (top : List ATree) (stack : List (List ATree)) : Ev → Except BuildErr (List ATree × List (List ATree))
  | .tag w =>
    match stack with
    | [] => .ok (.tag w :: top, [])
    | f :: fs => .ok (top, (.tag w :: f) :: fs)
  | .opn => .ok (top, [] :: stack)
  | .cls =>
    match stack with
    | [] => .error .closing
    | f :: fs =>
      match fs with
      | [] => .ok (.group f.reverse :: top, [])
      | f2 :: fs2 => .ok (top, (.group f.reverse :: f2) :: fs2)

def buildEv : List ATree → List (List ATree) → List Ev → Except BuildErr (List ATree)
  | top, [], [] => .ok top.reverse
  | _, _ :: _, [] => .error .unmatched
  | top, stack, e :: es =>
    match stepEv top stack e with
    | .error x => .error x
    | .ok (top', stack') => buildEv top' stack' es

def absStack (s : Str) (stack : List Frame) : List (List ATree) := stack.map fun f => absList s f.kids

theorem absList_reverse (s : Str) (l : List Node) : absList s l.reverse = (absList s l).reverse := by
  simp [absList, formList_map_aux]
where
  formList_map_aux : ∀ (form : Nat → Nat → Str) (l : List Node), formList form l = l.map (formNode form) := by
    intro form l
    induction l with
    | nil => rfl
    | cons k ks ih => simp [formList, ih]

theorem clsOf_of_first (u : Str) (hne : u ≠ []) :
    ∃ ch, u[delimIndex u]? = some ch ∧
      (clsOf u = if ch == '(' then some .opn else if ch == ')' then some .cls else none) := by
  unfold delimIndex clsOf
  cases hf : u.findIdx? (fun c => !pyIsSpace c) with
  | none =>
    have hall : ∀ c ∈ u, pyIsSpace c = true := by
      rw [List.findIdx?_eq_none_iff] at hf
      intro c hc; simpa using hf c hc
    have hfind : u.find? (fun c => !pyIsSpace c) = none := by
      rw [List.find?_eq_none]; intro c hc; simp [hall c hc]
    cases u with
    | nil => exact absurd rfl hne
    | cons c cs =>
      refine ⟨c, by simp, ?_⟩
      have hc := hall c (by simp)
      rw [hfind]
      have h1 : (c == '(') = false := by
        cases h : c == '(' with
        | false => rfl
        | true => rw [beq_iff_eq] at h; subst h; simp [pyIsSpace] at hc
      have h2 : (c == ')') = false := by
        cases h : c == ')' with
        | false => rfl
        | true => rw [beq_iff_eq] at h; subst h; simp [pyIsSpace] at hc
      simp [h1, h2]
  | some k =>
    obtain ⟨hk, hp⟩ : ∃ hk : k < u.length, (!pyIsSpace u[k]) = true := by
      have := List.findIdx?_eq_some_iff_getElem.mp hf
      exact ⟨this.1, this.2.1⟩
    have hfind : u.find? (fun c => !pyIsSpace c) = some u[k] := by
      rw [List.find?_eq_some_iff_getElem]
      have := List.findIdx?_eq_some_iff_getElem.mp hf
      exact ⟨hp, k, hk, rfl, fun j hj => by simpa using this.2.2 j hj⟩
    refine ⟨u[k], by simp [hk], ?_⟩
    rw [hfind]
    by_cases h1 : u[k] = '('
    · simp [h1]
    · by_cases h2 : u[k] = ')'
      · simp [h2]
      · simp [h1, h2]


theorem stepTok_ev (s : Str) (top : List Node) (stack : List Frame) (t : Token)
    (ht : t.start < t.stop) (hs : t.stop ≤ s.length) :
    (match stepTok s top stack t with
      | .ok (top', stack') => Except.ok (absList s top', absStack s stack')
      | .error e => .error e) =
    (match tokEv s t with
      | some e => stepEv (absList s top) (absStack s stack) e
      | none => .ok (absList s top, absStack s stack)) := by
  unfold stepTok tokEv
  by_cases htag : t.isTag = true
  · simp only [htag, ↓reduceIte]
    cases stack with
    | nil => simp [stepEv, absStack, absList, formList, formNode]
    | cons f fs => simp [stepEv, absStack, absList, formList, formNode]
  · have htag' : t.isTag = false := by simpa using htag
    simp only [htag', Bool.false_eq_true, ↓reduceIte]
    have hne : slice s t.start t.stop ≠ [] := by
      intro h
      have := congrArg List.length h
      rw [slice_length s _ _ hs] at this
      simp at this; omega
    obtain ⟨ch, hch, hcls⟩ := clsOf_of_first _ hne
    have hch' : ((s.drop t.start).take (t.stop - t.start))[delimIndex ((s.drop t.start).take (t.stop - t.start))]? = some ch := hch
    simp only [hch']
    rw [show clsOf (slice s t.start t.stop) = _ from hcls]
    by_cases h1 : ch = '('
    · subst h1
      simp [stepEv, absStack, absList, formList]
    · have h1' : (ch == '(') = false := by simpa using h1
      by_cases h2 : ch = ')'
      · subst h2
        simp only [h1', Bool.false_eq_true, ↓reduceIte, beq_self_eq_true]
        cases stack with
        | nil => simp [stepEv, absStack]
        | cons f fs =>
          cases fs with
          | nil => simp [stepEv, absStack, absList, formList, formNode, absList_reverse]
          | cons f2 fs2 => simp [stepEv, absStack, absList, formList, formNode, absList_reverse]
      · have h2' : (ch == ')') = false := by simpa using h2
        simp [h1', h2']

theorem buildToks_ev (s : Str) : ∀ (toks : List Token) (top : List Node) (stack : List Frame),
    (∀ t ∈ toks, t.start < t.stop ∧ t.stop ≤ s.length) →
    (match buildToks s top stack toks with
      | .ok r => Except.ok (absList s r)
      | .error e => .error e) = buildEv (absList s top) (absStack s stack) (evs s toks)
  | [], top, stack, _ => by
    cases stack with
    | nil => simp [buildToks, buildEv, evs, absStack, absList_reverse]
    | cons f fs => simp [buildToks, buildEv, evs, absStack]
  | t :: ts, top, stack, h => by
    have hst := stepTok_ev s top stack t (h t (by simp)).1 (h t (by simp)).2
    have ih := fun top' stack' => buildToks_ev s ts top' stack' (fun x hx => h x (by simp [hx]))
    simp only [buildToks, evs, List.filterMap_cons]
    cases hstep : stepTok s top stack t with
    | error e =>
      rw [hstep] at hst
      cases hev : tokEv s t with
      | none => rw [hev] at hst; simp at hst
      | some e' =>
        rw [hev] at hst
        simp only at hst
        simp only [buildEv]
        rw [← hst]
    | ok r =>
      obtain ⟨top', stack'⟩ := r
      rw [hstep] at hst
      simp only
      cases hev : tokEv s t with
      | none =>
        rw [hev] at hst
        simp only [Except.ok.injEq, Prod.mk.injEq] at hst
        rw [ih top' stack', hst.1, hst.2]
        rfl
      | some e' =>
        rw [hev] at hst
        simp only at hst
        simp only [buildEv]
        rw [← hst]
        exact ih top' stack'

/-- **The tree is a function of the events.** -/
theorem construct_ev (s : Str) :
    absList s (construct s) = (match buildEv [] [] (evs s (split s)) with | .ok r => r | .error _ => []) := by
  have hok : ∀ t ∈ split s, t.start < t.stop ∧ t.stop ≤ s.length := by
    intro t ht
    have := (C02.tiling s).2 t ht
    exact ⟨this.1, this.2.1⟩
  have := buildToks_ev s (split s) [] [] hok
  simp only [absList, formList, absStack, List.map_nil] at this
  unfold construct build
  rw [← this]
  cases buildToks s [] [] (split s) <;> simp [absList, formList]


/-! ### the tokenizer and blanks: a simulation -/

def nbs (u : Str) : Str := u.filter (fun c => c != ' ')

theorem clsOf_nbs (u : Str) : clsOf (nbs u) = clsOf u := by
  have : (nbs u).find? (fun c => !pyIsSpace c) = u.find? (fun c => !pyIsSpace c) := by
    induction u with
    | nil => rfl
    | cons c cs ih =>
      by_cases hc : c = ' '
      · subst hc; simpa [nbs, pyIsSpace] using ih
      · have : (c != ' ') = true := by simpa using hc
        simp only [nbs, List.filter_cons, this, ↓reduceIte, List.find?_cons] at ih ⊢
        split
        · rfl
        · exact ih
  simp [clsOf, this]

theorem clsOf_congr {u v : Str} (h : nbs u = nbs v) : clsOf u = clsOf v := by
  rw [← clsOf_nbs u, ← clsOf_nbs v, h]

theorem clsOf_nil_of_nbs {u : Str} (h : nbs u = []) : clsOf u = none := by
  rw [← clsOf_nbs u, h]; rfl

theorem nbs_append (u v : Str) : nbs (u ++ v) = nbs u ++ nbs v := by simp [nbs]

theorem slice_self (s : Str) (a : Nat) : slice s a a = [] := by simp [slice]

theorem slice_snoc (s : Str) (a i : Nat) (c : Char) (h : s[i]? = some c) (ha : a ≤ i) :
    slice s a (i + 1) = slice s a i ++ [c] := by
  rw [slice_split s a i (i + 1) ha (by omega)]
  congr 1
  unfold slice
  rw [show i + 1 - i = 1 by omega]
  exact portion_single s i c h

theorem evs_cons (s : Str) (t : Token) (l : List Token) : evs s (t :: l) = (tokEv s t).toList ++ evs s l := by
  simp only [evs, List.filterMap_cons]
  cases tokEv s t <;> rfl

/-- the two runs, after `i` characters of `s` and `i'` of `s'`, have seen the same events and hold the same
pending material (the same pending tag text, or delimiter runs equal up to blanks) -/
structure Sim (s s' : Str) (st st' : St) (i i' : Nat) : Prop where
  bi : i ≤ s.length
  bi' : i' ≤ s'.length
  found : st.found = st'.found
  ev : evs s st.out = evs s' st'.out
  fm : st.found = true → st.tagStart = none ∧ st'.tagStart = none ∧
    ∃ le le', st.lastEnd = some le ∧ st'.lastEnd = some le' ∧ le ≤ i ∧ le' ≤ i' ∧
      nbs (slice s le i) = nbs (slice s' le' i')
  tm : st.found = false → st.lastEnd = none ∧ st'.lastEnd = none ∧ st.spacing = st'.spacing ∧
    ∃ ts ts', st.tagStart = some ts ∧ st'.tagStart = some ts' ∧ ts ≤ i ∧ ts' ≤ i' ∧
      slice s ts i = slice s' ts' i' ∧ (∀ c ∈ (slice s ts i).drop (i - ts - st.spacing), c = ' ') ∧
      st.spacing ≤ i - ts

theorem sim_init (s s' : Str) : Sim s s' {} {} 0 0 :=
  ⟨by simp, by simp, rfl, rfl, fun _ => ⟨rfl, rfl, 0, 0, rfl, rfl, Nat.le_refl _, Nat.le_refl _, by simp [slice_self]⟩,
    fun h => by simp at h⟩

/-- the event of the pending delimiter run when it is closed at `i` (nothing when it is empty) -/
theorem pending_ev (s : Str) (le i : Nat) (out : List Token) :
    evs s (if (le != i) = true then ⟨false, le, i⟩ :: out else out) = (clsOf (slice s le i)).toList ++ evs s out := by
  by_cases h : le = i
  · subst h
    simp [slice_self, clsOf]
  · have : (le != i) = true := by simpa using h
    simp only [this, ↓reduceIte, evs_cons, tokEv, Bool.false_eq_true]


theorem slice_take (s : Str) (a b i : Nat) (hb : b ≤ i) : slice s a b = (slice s a i).take (b - a) := by
  unfold slice
  rw [List.take_take]
  congr 1
  omega

theorem slice_drop (s : Str) (a m i : Nat) (ha : a ≤ m) (hm : m ≤ i) : slice s m i = (slice s a i).drop (m - a) := by
  have h := slice_split s a m i ha hm
  by_cases hms : m ≤ s.length
  · have hl2 := slice_length s a m hms
    rw [h, List.drop_append, hl2, List.drop_eq_nil_of_le (by omega)]
    simp
  · have hms' : s.length ≤ m := by omega
    have e1 : slice s m i = [] := by simp [slice, List.drop_eq_nil_of_le hms']
    have e2 : (slice s a i).drop (m - a) = [] := by
      apply List.drop_eq_nil_of_le
      simp only [slice, List.length_take, List.length_drop]
      omega
    rw [e1, e2]

theorem lt_of_getElem? {s : Str} {i : Nat} {c : Char} (h : s[i]? = some c) : i < s.length :=
  (List.getElem?_eq_some_iff.mp h).1

theorem mem_drop_snoc {u : Str} {x c : Char} {k : Nat} (h : c ∈ (u ++ [x]).drop k) : c ∈ u.drop k ∨ c = x := by
  rw [List.drop_append] at h
  rcases List.mem_append.mp h with h | h
  · exact Or.inl h
  · exact Or.inr (by have := List.mem_of_mem_drop h; simpa using this)

theorem sim_step {s s' : Str} {st st' : St} {i i' : Nat} (h : Sim s s' st st' i i') (c : Char)
    (hc : s[i]? = some c) (hc' : s'[i']? = some c) :
    Sim s s' (step st i c) (step st' i' c) (i + 1) (i' + 1) := by
  have hi := lt_of_getElem? hc
  have hi' := lt_of_getElem? hc'
  obtain ⟨bi, bi', hf, hev, hfm, htm⟩ := h
  by_cases hblank : c = ' '
  · -- a blank
    subst hblank
    have e1 : step st i ' ' = { st with spacing := st.spacing + 1 } := by simp [step]
    have e2 : step st' i' ' ' = { st' with spacing := st'.spacing + 1 } := by simp [step]
    rw [e1, e2]
    refine ⟨by omega, by omega, hf, hev, ?_, ?_⟩
    · intro hfd
      obtain ⟨a1, a2, le, le', b1, b2, b3, b4, b5⟩ := hfm hfd
      refine ⟨a1, a2, le, le', b1, b2, by omega, by omega, ?_⟩
      rw [slice_snoc s le i ' ' hc b3, slice_snoc s' le' i' ' ' hc' b4, nbs_append, nbs_append, b5]
    · intro hfd
      obtain ⟨a1, a2, a3, ts, ts', b1, b2, b3, b4, b5, b6, b7⟩ := htm hfd
      refine ⟨a1, a2, by simp [a3], ts, ts', b1, b2, by omega, by omega, ?_, ?_, by simp; omega⟩
      · rw [slice_snoc s ts i ' ' hc b3, slice_snoc s' ts' i' ' ' hc' b4, b5]
      · intro x hx
        rw [slice_snoc s ts i ' ' hc b3] at hx
        have hk : i + 1 - ts - (st.spacing + 1) = i - ts - st.spacing := by omega
        simp only [hk] at hx
        rcases mem_drop_snoc hx with hx | hx
        · exact b6 x hx
        · exact hx
  · have hb : (c == ' ') = false := by simpa using hblank
    by_cases hd : isDelim c = true
    · -- a delimiter
      by_cases hfd : st.found = true
      · have hfd' : st'.found = true := hf ▸ hfd
        obtain ⟨a1, a2, le, le', b1, b2, b3, b4, b5⟩ := hfm hfd
        have e1 : step st i c = { st with out := (if (le != i) = true then Token.mk false le i :: st.out else st.out), lastEnd := some i } := by
          simp only [step, hb, Bool.false_eq_true, ↓reduceIte, hd, hfd, b1]
          split <;> rfl
        have e2 : step st' i' c = { st' with out := (if (le' != i') = true then Token.mk false le' i' :: st'.out else st'.out), lastEnd := some i' } := by
          simp only [step, hb, Bool.false_eq_true, ↓reduceIte, hd, hfd', b2]
          split <;> rfl
        rw [e1, e2]
        refine ⟨by omega, by omega, hf, ?_, ?_, ?_⟩
        · simp only [pending_ev, hev, clsOf_congr b5]
        · intro _
          refine ⟨a1, a2, i, i', rfl, rfl, by omega, by omega, ?_⟩
          rw [slice_snoc s i i c hc (Nat.le_refl _), slice_snoc s' i' i' c hc' (Nat.le_refl _), slice_self, slice_self]
        · intro hx; simp [hfd] at hx
      · have hfd0 : st.found = false := by simpa using hfd
        have hfd' : st'.found = false := hf ▸ hfd0
        obtain ⟨a1, a2, a3, ts, ts', b1, b2, b3, b4, b5, b6, hs⟩ := htm hfd0
        have hL : i - ts = i' - ts' := by
          have := congrArg List.length b5
          rwa [slice_length s ts i bi, slice_length s' ts' i' bi'] at this
        have e1 : step st i c = { st with found := true, lastEnd := some (i - st.spacing), out := Token.mk true ts (i - st.spacing) :: st.out, spacing := 0, tagStart := none } := by
          simp [step, hb, hd, hfd0, b1]
        have e2 : step st' i' c = { st' with found := true, lastEnd := some (i' - st'.spacing), out := Token.mk true ts' (i' - st'.spacing) :: st'.out, spacing := 0, tagStart := none } := by
          simp [step, hb, hd, hfd', b2]
        rw [e1, e2]
        refine ⟨by omega, by omega, rfl, ?_, ?_, ?_⟩
        · simp only [evs_cons, tokEv, ↓reduceIte, hev]
          rw [slice_take s ts (i - st.spacing) i (by omega), slice_take s' ts' (i' - st'.spacing) i' (by omega), b5, ← a3]
          have : i - st.spacing - ts = i' - st.spacing - ts' := by omega
          rw [this]
        · intro _
          refine ⟨rfl, rfl, i - st.spacing, i' - st'.spacing, rfl, rfl, by omega, by omega, ?_⟩
          rw [slice_snoc s _ i c hc (by omega), slice_snoc s' _ i' c hc' (by omega),
            slice_drop s ts (i - st.spacing) i (by omega) (by omega),
            slice_drop s' ts' (i' - st'.spacing) i' (by omega) (by omega), b5, ← a3]
          have : i - st.spacing - ts = i' - st.spacing - ts' := by omega
          rw [this]
        · intro hx; simp at hx
    · -- a tag character
      have hd' : isDelim c = false := by simpa using hd
      by_cases hfd : st.found = true
      · have hfd' : st'.found = true := hf ▸ hfd
        obtain ⟨a1, a2, le, le', b1, b2, b3, b4, b5⟩ := hfm hfd
        have e1 : step st i c = { st with out := (if (le != i) = true then Token.mk false le i :: st.out else st.out), lastEnd := none, found := false, spacing := 0, tagStart := some i } := by
          simp only [step, hb, Bool.false_eq_true, ↓reduceIte, hd', hfd, b1]
          split <;> simp [a1]
        have e2 : step st' i' c = { st' with out := (if (le' != i') = true then Token.mk false le' i' :: st'.out else st'.out), lastEnd := none, found := false, spacing := 0, tagStart := some i' } := by
          simp only [step, hb, Bool.false_eq_true, ↓reduceIte, hd', hfd', b2]
          split <;> simp [a2]
        rw [e1, e2]
        refine ⟨by omega, by omega, rfl, ?_, ?_, ?_⟩
        · simp only [pending_ev, hev, clsOf_congr b5]
        · intro hx; simp at hx
        · intro _
          refine ⟨rfl, rfl, rfl, i, i', rfl, rfl, by omega, by omega, ?_, ?_, by simp⟩
          · rw [slice_snoc s i i c hc (Nat.le_refl _), slice_snoc s' i' i' c hc' (Nat.le_refl _), slice_self, slice_self]
          · intro x hx
            rw [slice_snoc s i i c hc (Nat.le_refl _), slice_self] at hx
            simp at hx
      · have hfd0 : st.found = false := by simpa using hfd
        have hfd' : st'.found = false := hf ▸ hfd0
        obtain ⟨a1, a2, a3, ts, ts', b1, b2, b3, b4, b5, b6, _⟩ := htm hfd0
        have e1 : step st i c = { st with found := false, spacing := 0, tagStart := some ts } := by
          simp [step, hb, hd', hfd0, b1]
        have e2 : step st' i' c = { st' with found := false, spacing := 0, tagStart := some ts' } := by
          simp [step, hb, hd', hfd', b2]
        rw [e1, e2]
        refine ⟨by omega, by omega, rfl, hev, ?_, ?_⟩
        · intro hx; simp at hx
        · intro _
          refine ⟨a1, a2, rfl, ts, ts', rfl, rfl, by omega, by omega, ?_, ?_, by simp⟩
          · rw [slice_snoc s ts i c hc b3, slice_snoc s' ts' i' c hc' b4, b5]
          · intro x hx
            have hlen : (slice s ts (i + 1)).length = i + 1 - ts := slice_length s ts (i + 1) (by omega)
            have : (slice s ts (i + 1)).drop (i + 1 - ts - 0) = [] := by
              apply List.drop_eq_nil_of_le; omega
            rw [this] at hx; simp at hx


theorem sim_run {s s' : Str} : ∀ (cs : Str) {st st' : St} {i i' : Nat}, Sim s s' st st' i i' → At s i cs → At s' i' cs →
    Sim s s' (run st i cs) (run st' i' cs) (i + cs.length) (i' + cs.length)
  | [], _, _, _, _, h, _, _ => by simpa [run] using h
  | c :: cs, st, st', i, i', h, ha, ha' => by
    rw [at_cons] at ha ha'
    have := sim_run cs (sim_step h c ha.1 ha'.1) ha.2 ha'.2
    simp only [run, List.length_cons]
    rwa [show i + (cs.length + 1) = i + 1 + cs.length by omega, show i' + (cs.length + 1) = i' + 1 + cs.length by omega]

/-- a blank read by the second run only, between tokens -/
theorem sim_blank_right {s s' : Str} {st st' : St} {i i' : Nat} (h : Sim s s' st st' i i') (hfd : st.found = true)
    (hc' : s'[i']? = some ' ') : Sim s s' st (step st' i' ' ') i (i' + 1) := by
  have hi' := lt_of_getElem? hc'
  obtain ⟨bi, bi', hf, hev, hfm, htm⟩ := h
  have e2 : step st' i' ' ' = { st' with spacing := st'.spacing + 1 } := by simp [step]
  rw [e2]
  refine ⟨bi, by omega, hf, hev, ?_, ?_⟩
  · intro _
    obtain ⟨a1, a2, le, le', b1, b2, b3, b4, b5⟩ := hfm hfd
    refine ⟨a1, a2, le, le', b1, b2, b3, by omega, ?_⟩
    rw [slice_snoc s' le' i' ' ' hc' b4, nbs_append, b5]
    simp [nbs]
  · intro hx; simp [hfd] at hx

/-- a blank read by the second run only, at the end of a tag, then the delimiter read by both -/
theorem sim_blank_delim {s s' : Str} {st st' : St} {i i' : Nat} (h : Sim s s' st st' i i') (d : Char)
    (hd : isDelim d = true) (hc : s[i]? = some d) (hb' : s'[i']? = some ' ') (hc' : s'[i' + 1]? = some d) :
    Sim s s' (step st i d) (step (step st' i' ' ') (i' + 1) d) (i + 1) (i' + 1 + 1) := by
  by_cases hfd : st.found = true
  · exact sim_step (sim_blank_right h hfd hb') d hc hc'
  · have hfd0 : st.found = false := by simpa using hfd
    have hi := lt_of_getElem? hc
    have hi' := lt_of_getElem? hc'
    obtain ⟨bi, bi', hf, hev, hfm, htm⟩ := h
    have hfd' : st'.found = false := hf ▸ hfd0
    obtain ⟨a1, a2, a3, ts, ts', b1, b2, b3, b4, b5, b6, hs⟩ := htm hfd0
    have hdb : (d == ' ') = false := by
      cases h : d == ' ' with
      | false => rfl
      | true => rw [beq_iff_eq] at h; subst h; simp [isDelim] at hd
    have hL : i - ts = i' - ts' := by
      have := congrArg List.length b5
      rwa [slice_length s ts i bi, slice_length s' ts' i' bi'] at this
    have e1 : step st i d = { st with found := true, lastEnd := some (i - st.spacing), out := Token.mk true ts (i - st.spacing) :: st.out, spacing := 0, tagStart := none } := by
      simp [step, hdb, hd, hfd0, b1]
    have e2 : step (step st' i' ' ') (i' + 1) d = { st' with found := true, lastEnd := some (i' - st'.spacing), out := Token.mk true ts' (i' - st'.spacing) :: st'.out, spacing := 0, tagStart := none } := by
      simp [step, hdb, hd, hfd', b2]
    rw [e1, e2]
    refine ⟨by omega, by omega, rfl, ?_, ?_, ?_⟩
    · simp only [evs_cons, tokEv, ↓reduceIte, hev]
      rw [slice_take s ts (i - st.spacing) i (by omega), slice_take s' ts' (i' - st'.spacing) i' (by omega), b5, ← a3]
      have : i - st.spacing - ts = i' - st.spacing - ts' := by omega
      rw [this]
    · intro _
      refine ⟨rfl, rfl, i - st.spacing, i' - st'.spacing, rfl, rfl, by omega, by omega, ?_⟩
      rw [slice_snoc s _ i d hc (by omega), slice_snoc s' _ (i' + 1) d hc' (by omega),
        slice_snoc s' _ i' ' ' hb' (by omega),
        slice_drop s ts (i - st.spacing) i (by omega) (by omega),
        slice_drop s' ts' (i' - st'.spacing) i' (by omega) (by omega), b5, ← a3]
      have : i - st.spacing - ts = i' - st.spacing - ts' := by omega
      rw [this]
      simp [nbs_append, nbs]
    · intro hx; simp at hx

theorem evs_reverse (s : Str) (l : List Token) : evs s l.reverse = (evs s l).reverse := by
  simp [evs, List.filterMap_reverse]

/-- the code after the loop -/
theorem sim_finish {s s' : Str} {st st' : St} (h : Sim s s' st st' s.length s'.length) :
    evs s (finish st s.length) = evs s' (finish st' s'.length) := by
  obtain ⟨bi, bi', hf, hev, hfm, htm⟩ := h
  unfold finish
  rw [evs_reverse, evs_reverse]
  congr 1
  by_cases hfd : st.found = true
  · obtain ⟨a1, a2, le, le', b1, b2, b3, b4, b5⟩ := hfm hfd
    simp only [b1, b2, a1, a2]
    have := pending_ev s le s.length st.out
    have e1 : (if (s.length != le) = true then Token.mk false le s.length :: st.out else st.out) =
        (if (le != s.length) = true then Token.mk false le s.length :: st.out else st.out) := by
      by_cases hx : le = s.length
      · subst hx; simp
      · have h1 : (s.length != le) = true := by simpa using Ne.symm hx
        have h2 : (le != s.length) = true := by simpa using hx
        simp [h1, h2]
    have e2 : (if (s'.length != le') = true then Token.mk false le' s'.length :: st'.out else st'.out) =
        (if (le' != s'.length) = true then Token.mk false le' s'.length :: st'.out else st'.out) := by
      by_cases hx : le' = s'.length
      · subst hx; simp
      · have h1 : (s'.length != le') = true := by simpa using Ne.symm hx
        have h2 : (le' != s'.length) = true := by simpa using hx
        simp [h1, h2]
    rw [e1, e2, pending_ev, pending_ev, hev, clsOf_congr b5]
  · have hfd0 : st.found = false := by simpa using hfd
    obtain ⟨a1, a2, a3, ts, ts', b1, b2, b3, b4, b5, b6, hs⟩ := htm hfd0
    have hL : s.length - ts = s'.length - ts' := by
      have := congrArg List.length b5
      rwa [slice_length s ts _ bi, slice_length s' ts' _ bi'] at this
    have htag : slice s ts (s.length - st.spacing) = slice s' ts' (s'.length - st'.spacing) := by
      rw [slice_take s ts (s.length - st.spacing) s.length (by omega),
        slice_take s' ts' (s'.length - st'.spacing) s'.length (by omega), b5, ← a3]
      have : s.length - st.spacing - ts = s'.length - st.spacing - ts' := by omega
      rw [this]
    rw [← a3] at htag
    simp only [a1, a2, b1, b2, ← a3]
    by_cases hsp : st.spacing = 0
    · simp [hsp, evs_cons, tokEv, hev]
      simpa [hsp] using htag
    · have hne : (st.spacing != 0) = true := by simpa using hsp
      simp only [hne, ↓reduceIte, evs_cons, tokEv, Bool.false_eq_true, hev, htag]
      congr 1
      rw [slice_drop s ts (s.length - st.spacing) s.length (by omega) (by omega),
        slice_drop s' ts' (s'.length - st.spacing) s'.length (by omega) (by omega), b5]
      have : s.length - st.spacing - ts = s'.length - st.spacing - ts' := by omega
      rw [this]


theorem clsOf_blanks {u : Str} (h : ∀ c ∈ u, c = ' ') : clsOf u = none := by
  apply clsOf_nil_of_nbs
  simp only [nbs, List.filter_eq_nil_iff]
  intro c hc
  simp [h c hc]

/-- the text ends with one more blank in the second run -/
theorem sim_finish_blank {s s' : Str} {st st' : St} {n' : Nat} (h : Sim s s' st st' s.length n')
    (hlen : s'.length = n' + 1) (hb : s'[n']? = some ' ') :
    evs s (finish st s.length) = evs s' (finish (step st' n' ' ') s'.length) := by
  by_cases hfd : st.found = true
  · have := sim_blank_right h hfd hb
    rw [← hlen] at this
    exact sim_finish this
  · have hfd0 : st.found = false := by simpa using hfd
    obtain ⟨bi, bi', hf, hev, hfm, htm⟩ := h
    obtain ⟨a1, a2, a3, ts, ts', b1, b2, b3, b4, b5, b6, hs⟩ := htm hfd0
    have hL : s.length - ts = n' - ts' := by
      have := congrArg List.length b5
      rwa [slice_length s ts _ bi, slice_length s' ts' _ bi'] at this
    have e2 : step st' n' ' ' = { st' with spacing := st'.spacing + 1 } := by simp [step]
    rw [e2]
    unfold finish
    rw [evs_reverse, evs_reverse]
    congr 1
    have htag : slice s ts (s.length - st.spacing) = slice s' ts' (n' - st.spacing) := by
      rw [slice_take s ts (s.length - st.spacing) s.length (by omega),
        slice_take s' ts' (n' - st.spacing) n' (by omega), b5]
      have : s.length - st.spacing - ts = n' - st.spacing - ts' := by omega
      rw [this]
    have hblank : ∀ c ∈ slice s (s.length - st.spacing) s.length, c = ' ' := by
      rw [slice_drop s ts (s.length - st.spacing) s.length (by omega) (by omega)]
      have : s.length - st.spacing - ts = s.length - ts - st.spacing := by omega
      rw [this]; exact b6
    have hblank' : ∀ c ∈ slice s' (n' - st.spacing) (n' + 1), c = ' ' := by
      rw [slice_snoc s' _ n' ' ' hb (by omega), slice_drop s' ts' (n' - st.spacing) n' (by omega) (by omega), ← b5]
      have : n' - st.spacing - ts' = s.length - ts - st.spacing := by omega
      rw [this]
      intro c hc
      rcases List.mem_append.mp hc with hc | hc
      · exact b6 c hc
      · simpa using hc
    simp only [a1, a2, b1, b2, ← a3, hlen]
    have hn : (st.spacing + 1 != 0) = true := by simp
    have hsub : n' + 1 - (st.spacing + 1) = n' - st.spacing := by omega
    simp only [hn, ↓reduceIte, hsub, evs_cons, tokEv, Bool.false_eq_true, clsOf_blanks hblank', Option.toList_none,
      List.nil_append, hev, htag]
    by_cases hsp : st.spacing = 0
    · simp [hsp, evs_cons, tokEv, hev, b5]
    · have hne : (st.spacing != 0) = true := by simpa using hsp
      simp [hne, evs_cons, tokEv, clsOf_blanks hblank, hev, htag]

theorem step_delim_found (st : St) (i : Nat) (d : Char) (hd : isDelim d = true) : (step st i d).found = true := by
  have hdb : (d == ' ') = false := by
    cases h : d == ' ' with
    | false => rfl
    | true => rw [beq_iff_eq] at h; subst h; simp [isDelim] at hd
  unfold step
  simp only [hdb, Bool.false_eq_true, ↓reduceIte, hd]
  cases hf : st.found
  · cases st.tagStart <;> simp
  · cases st.lastEnd <;> simp
    split <;> simp [hf]

theorem run_found_after_delim (st : St) (i : Nat) (a : Str) (d : Char) (hd : isDelim d = true) :
    (run st i (a ++ [d])).found = true := by
  rw [run_append]
  simp only [run]
  exact step_delim_found _ _ d hd

theorem at_shift (c : Char) (s u : Str) (i : Nat) (h : At s i u) : At (c :: s) (i + 1) u := by
  intro j x hx
  have := h j x hx
  rw [show i + 1 + j = (i + j) + 1 by omega]
  simpa using this

theorem at_prefix (x y : Str) : At (x ++ y) 0 x := by
  have := at_self (x ++ y)
  rw [at_append] at this
  exact this.1

theorem at_suffix (x y : Str) : At (x ++ y) x.length y := by
  have := at_self (x ++ y)
  rw [at_append] at this
  simpa using this.2

/-- **Blanks next to delimiters do not change what the tree builder sees.** -/
theorem evs_blank_start (s : Str) : evs s (split s) = evs (' ' :: s) (split (' ' :: s)) := by
  have h0 := sim_blank_right (sim_init s (' ' :: s)) rfl (by simp)
  have h1 := sim_run s h0 (at_self s) (at_shift ' ' s s 0 (at_self s))
  simp only [Nat.zero_add] at h1
  have h2 : Sim s (' ' :: s) (run {} 0 s) (run (step {} 0 ' ') 1 s) s.length (' ' :: s).length := by
    simpa [Nat.add_comm] using h1
  have := sim_finish h2
  simpa [split, finalSt, run] using this

theorem evs_blank_stop (s : Str) : evs s (split s) = evs (s ++ [' ']) (split (s ++ [' '])) := by
  have h1 := sim_run s (sim_init s (s ++ [' '])) (at_self s) (at_prefix s [' '])
  simp only [Nat.zero_add] at h1
  have hb : (s ++ [' '])[s.length]? = some ' ' := by simp
  have := sim_finish_blank h1 (by simp) hb
  simp only [split, finalSt, run_append, Nat.zero_add, run]
  exact this

theorem at_suffix_cons (x y : Str) (c : Char) : (x ++ c :: y)[x.length]? = some c ∧ At (x ++ c :: y) (x.length + 1) y := by
  have := at_suffix x (c :: y)
  rwa [at_cons] at this

theorem evs_blank_after (a b : Str) (d : Char) (hd : isDelim d = true) :
    evs (a ++ d :: b) (split (a ++ d :: b)) = evs (a ++ d :: ' ' :: b) (split (a ++ d :: ' ' :: b)) := by
  have e1 : a ++ d :: b = (a ++ [d]) ++ b := by simp
  have e2 : a ++ d :: ' ' :: b = (a ++ [d]) ++ ' ' :: b := by simp
  rw [e1, e2]
  have hfound := run_found_after_delim {} 0 a d hd
  generalize a ++ [d] = x at *
  have h1 := sim_run x (sim_init (x ++ b) (x ++ ' ' :: b)) (at_prefix x b) (at_prefix x (' ' :: b))
  simp only [Nat.zero_add] at h1
  obtain ⟨hb, hat⟩ := at_suffix_cons x b ' '
  have h2 := sim_blank_right h1 hfound hb
  have h3 := sim_run b h2 (at_suffix x b) hat
  have h4 : Sim (x ++ b) (x ++ ' ' :: b) (run (run {} 0 x) x.length b)
      (run (step (run {} 0 x) x.length ' ') (x.length + 1) b) (x ++ b).length (x ++ ' ' :: b).length := by
    simpa [Nat.add_assoc, Nat.add_comm 1] using h3
  have := sim_finish h4
  simpa [split, finalSt, run_append, run] using this

theorem evs_blank_before (a b : Str) (d : Char) (hd : isDelim d = true) :
    evs (a ++ d :: b) (split (a ++ d :: b)) = evs (a ++ ' ' :: d :: b) (split (a ++ ' ' :: d :: b)) := by
  have h1 := sim_run a (sim_init (a ++ d :: b) (a ++ ' ' :: d :: b)) (at_prefix a (d :: b)) (at_prefix a (' ' :: d :: b))
  simp only [Nat.zero_add] at h1
  obtain ⟨hc, hat⟩ := at_suffix_cons a b d
  obtain ⟨hb', hat'⟩ := at_suffix_cons a (d :: b) ' '
  rw [at_cons] at hat'
  have h2 := sim_blank_delim h1 d hd hc hb' hat'.1
  have h3 := sim_run b h2 hat hat'.2
  have h4 : Sim (a ++ d :: b) (a ++ ' ' :: d :: b) (run (step (run {} 0 a) a.length d) (a.length + 1) b)
      (run (step (step (run {} 0 a) a.length ' ') (a.length + 1) d) (a.length + 1 + 1) b)
      (a ++ d :: b).length (a ++ ' ' :: d :: b).length := by
    have e1 : (a ++ d :: b).length = a.length + 1 + b.length := by simp; omega
    have e2 : (a ++ ' ' :: d :: b).length = a.length + 1 + 1 + b.length := by simp; omega
    rw [e1, e2]; exact h3
  have := sim_finish h4
  simpa [split, finalSt, run_append, run] using this


end HedVerif.Rewrite

namespace HedVerif.Rewrite
open HedVerif HedVerif.Validate HedVerif.Generated.CodeMap

/-! ### `sigs`, `errCodes`: bookkeeping -/

@[simp] theorem sigs_nil : sigs [] = [] := rfl
@[simp] theorem sigs_append (a b : List Issue) : sigs (a ++ b) = sigs a ++ sigs b := by simp [sigs]
@[simp] theorem sigs_cons (a : Issue) (b : List Issue) : sigs (a :: b) = sig a :: sigs b := rfl
@[simp] theorem sigs_ite (c : Prop) [Decidable c] (a b : List Issue) :
    sigs (if c then a else b) = if c then sigs a else sigs b := by split <;> rfl
@[simp] theorem sig_ite (c : Prop) [Decidable c] (a b : Issue) :
    sig (if c then a else b) = if c then sig a else sig b := by split <;> rfl
@[simp] theorem sigs_flatMap {α} (l : List α) (f : α → List Issue) :
    sigs (l.flatMap f) = l.flatMap (fun x => sigs (f x)) := by simp [sigs, List.map_flatMap]
@[simp] theorem sigs_map {α} (l : List α) (f : α → Issue) : sigs (l.map f) = l.map (fun x => sig (f x)) := by
  simp [sigs]
@[simp] theorem sig_mk (k : Kind) (c : Str) (s : Nat) (sp sb : Option (Nat × Nat)) (ch : Option Nat) (tx : Option Str) :
    sig ⟨k, c, s, sp, sb, ch, tx⟩ = (c, s) := rfl
@[simp] theorem code_tagIssue (k : Kind) (t : RTag) : (tagIssue k t).code = k.code := rfl
@[simp] theorem sev_tagIssue (k : Kind) (t : RTag) : (tagIssue k t).sev = k.sev := rfl
@[simp] theorem code_subIssue (k : Kind) (t : RTag) (a b : Nat) : (subIssue k t a b).code = k.code := rfl
@[simp] theorem sev_subIssue (k : Kind) (t : RTag) (a b : Nat) : (subIssue k t a b).sev = k.sev := rfl
@[simp] theorem code_plain (k : Kind) : (Issue.plain k).code = k.code := rfl
@[simp] theorem sev_plain (k : Kind) : (Issue.plain k).sev = k.sev := rfl
@[simp] theorem sig_tagIssue (k : Kind) (t : RTag) : sig (tagIssue k t) = (k.code, k.sev) := rfl
@[simp] theorem sig_subIssue (k : Kind) (t : RTag) (a b : Nat) : sig (subIssue k t a b) = (k.code, k.sev) := rfl
@[simp] theorem sig_plain (k : Kind) : sig (Issue.plain k) = (k.code, k.sev) := rfl

/-- the error codes are a function of the signatures -/
def ecOf (l : List (Str × Nat)) : List Str := l.filterMap fun p => if p.2 < sevWarning then some p.1 else none

theorem errCodes_eq (l : List Issue) : errCodes l = ecOf (sigs l) := by
  induction l with
  | nil => rfl
  | cons x xs ih =>
    simp only [errCodes, errors, codes, sigs, ecOf, List.map_cons, List.filterMap_cons, sig] at ih ⊢
    by_cases hx : x.sev < sevWarning
    · simp [List.filter_cons, Issue.isError, hx, ih]
    · simp [List.filter_cons, Issue.isError, hx, ih]

theorem errCodes_of_sigs {a b : List Issue} (h : sigs a = sigs b) : errCodes a = errCodes b := by
  rw [errCodes_eq, errCodes_eq, h]

theorem errCodes_of_sigs_perm {a b : List Issue} (h : (sigs a).Perm (sigs b)) : (errCodes a).Perm (errCodes b) := by
  rw [errCodes_eq, errCodes_eq]; exact h.filterMap _

theorem errCodes_nil : errCodes [] = [] := rfl

theorem errCodes_ite (c : Prop) [Decidable c] (a b : List Issue) :
    errCodes (if c then a else b) = if c then errCodes a else errCodes b := by split <;> rfl

theorem errCodes_append (a b : List Issue) : errCodes (a ++ b) = errCodes a ++ errCodes b := by
  simp [errCodes, errors, codes]

theorem errCodes_flatMap {α : Type} (l : List α) (f : α → List Issue) :
    errCodes (l.flatMap f) = l.flatMap (fun x => errCodes (f x)) := by
  induction l with
  | nil => rfl
  | cons x xs ih => simp [List.flatMap_cons, errCodes_append, ih]

theorem hasError_eq (l : List Issue) : hasError l = !(errCodes l).isEmpty := by
  induction l with
  | nil => rfl
  | cons x xs ih =>
    simp only [hasError, List.any_cons] at ih ⊢
    by_cases hx : x.isError = true
    · simp [errCodes, errors, codes, hx]
    · have hx' : x.isError = false := by simpa using hx
      simp only [hx', Bool.false_or, ih]
      simp [errCodes, errors, codes, hx']

theorem hasError_congr {a b : List Issue} (h : (errCodes a).Perm (errCodes b)) : hasError a = hasError b := by
  rw [hasError_eq, hasError_eq]
  have := h.length_eq
  cases ha : errCodes a <;> cases hb : errCodes b <;> simp_all

/-- **Composition.** `validate` short-circuits on "any error so far" only; so phase-wise equal error-code
multisets give equal error-code multisets of the whole validation. -/
theorem validateP_congr (env : Env) (ph : Bool) (text text' : Str) (p p' : Parsed)
    (hS : (errCodes (stringIssues env ph text p)).Perm (errCodes (stringIssues env ph text' p')))
    (hNA : isNA env p.root0 = isNA env p'.root0)
    (hT : (errCodes (tagIssues env ph p)).Perm (errCodes (tagIssues env ph p')))
    (hM : (errCodes (semIssues env ph text.length p)).Perm (errCodes (semIssues env ph text'.length p')))
    (hF : hasError (basicP env ph text p) = false → hasError (basicP env ph text' p') = false →
      (errCodes (fullIssues env text.length p)).Perm (errCodes (fullIssues env text'.length p'))) :
    (errCodes (validateP env ph text p)).Perm (errCodes (validateP env ph text' p')) := by
  have hB : (errCodes (basicP env ph text p)).Perm (errCodes (basicP env ph text' p')) := by
    unfold basicP
    simp only
    rw [← hasError_congr hS, ← hNA]
    by_cases h1 : hasError (stringIssues env ph text p) = true
    · simpa [h1] using hS
    · by_cases h2 : isNA env p.root0 = true
      · simpa [h1, h2] using hS
      · have hST := hS.append hT
        rw [← errCodes_append, ← errCodes_append] at hST
        rw [← hasError_congr hST]
        by_cases h3 : hasError (stringIssues env ph text p ++ tagIssues env ph p) = true
        · simpa [h1, h2, h3] using hST
        · have := hST.append hM
          rw [← errCodes_append, ← errCodes_append] at this
          simpa [h1, h2, h3] using this
  unfold validateP
  simp only
  rw [← hasError_congr hB]
  by_cases h : hasError (basicP env ph text p) = true
  · simpa [h] using hB
  · have h' : hasError (basicP env ph text p) = false := by simpa using h
    have := hB.append (hF h' (by rw [← hasError_congr hB]; exact h'))
    rw [← errCodes_append, ← errCodes_append] at this
    simpa [h'] using this


/-! ### what the schema-based rules see of a tag -/

section core
variable {env : Env} {t t' : RTag}

theorem Core.refl (t : RTag) : Core t t := ⟨rfl, rfl, rfl, fun _ => rfl⟩
theorem Core.extension (h : Core t t') : extension t' = extension t := by simp [Validate.extension, h.ext]
theorem Core.entryAttr (h : Core t t') : entryAttr env t' = entryAttr env t := by simp [Validate.entryAttr, h.entry]
theorem Core.baseAttr (h : Core t t') : baseAttr env t' = baseAttr env t := by simp [Validate.baseAttr, h.entry]
theorem Core.strOf (h : Core t t') : strOf env t' = strOf env t := by
  unfold Validate.strOf; rw [h.entry]
  cases he : t.entry with
  | none => simp [h.org he]
  | some e => simp [h.ns, h.ext]
theorem Core.shortBase (h : Core t t') : shortBase env t' = shortBase env t := by
  unfold Validate.shortBase; rw [h.entry]
  cases he : t.entry with
  | none => simp [h.org he]
  | some e => simp
theorem Core.longTag (h : Core t t') : longTag env t' = longTag env t := by
  unfold Validate.longTag; rw [h.entry]
  cases he : t.entry with
  | none => simp [h.org he]
  | some e => simp [h.ns, h.ext]
theorem Core.tagUnitClasses (h : Core t t') : tagUnitClasses env t' = tagUnitClasses env t := by
  simp [Validate.tagUnitClasses, h.entryAttr]
theorem Core.defLabel (h : Core t t') : defLabel t' = defLabel t := by simp [Validate.defLabel, h.extension]
theorem Core.defValue (h : Core t t') : defValue t' = defValue t := by simp [Validate.defValue, h.extension]

theorem existsIssues_core (h : Core t t') : sigs (existsIssues env t') = sigs (existsIssues env t) := by
  unfold existsIssues
  simp only [h.extension, h.entryAttr, h.entry, sigs_ite, sigs_cons, sigs_nil, sig_subIssue, sig_mk,
    code_tagIssue, sev_tagIssue]

theorem valueClassIssues_core (h : Core t t') (sv : Str) :
    sigs (valueClassIssues env t' sv) = sigs (valueClassIssues env t sv) := by
  unfold valueClassIssues
  simp only [h.extension, h.entryAttr, sigs_ite, sigs_cons, sigs_nil, sig_subIssue, sigs_flatMap, sigs_map, sig_mk,
    sig_ite, code_subIssue, sev_subIssue]

theorem invalidCharsFrom_sigs (cd : CharData) (allowed : List Char) (t t' : RTag) (o : Option Str) :
    ∀ (s : Str) (i i' : Nat), sigs (invalidCharsFrom cd allowed t' o i' s) = sigs (invalidCharsFrom cd allowed t o i s)
  | [], _, _ => rfl
  | c :: cs, i, i' => by
    simp only [invalidCharsFrom, sigs_append, sigs_ite, sigs_nil, sigs_cons, sig_mk, sev_subIssue]
    rw [invalidCharsFrom_sigs cd allowed t t' o cs (i + 1) (i' + 1)]

theorem strippedText_core (h : Core t t') (text : Str) : strippedText env t' text = strippedText env t text := by
  simp [strippedText, h.tagUnitClasses, h.extension]
theorem unitFound_core (h : Core t t') (text : Str) : unitFound env t' text = unitFound env t text := by
  simp [unitFound, h.tagUnitClasses]
theorem valueText_core (h : Core t t') (text : Str) : valueText env t' text = valueText env t text := by
  simp [valueText, strippedText_core h]

theorem validateUnits_core (h : Core t t') (text : Str) :
    sigs (validateUnits env t' text) = sigs (validateUnits env t text) := by
  unfold validateUnits unitIssues extensionCharIssues
  simp only [h.tagUnitClasses, h.entryAttr, h.extension, valueText_core h, strippedText_core h, unitFound_core h,
    sigs_ite, sigs_nil, sigs_append, sigs_cons, sig_tagIssue, valueClassIssues_core h,
    invalidCharsFrom_sigs env.cd _ t t' none text ((orgBase t).length + 1) ((orgBase t').length + 1)]


theorem relocate_chars (text text' : Str) : ∀ (es : List (Nat × Char)) (a a' : Nat),
    (relocate text' a' es).map (·.1) = (relocate text a es).map (·.1)
  | [], _, _ => rfl
  | (k, ch) :: es, a, a' => by
    simp only [relocate]
    cases findCharFrom text ch a <;> cases findCharFrom text' ch a' <;>
      simp only [List.map_cons, List.cons.injEq, true_and] <;> exact relocate_chars text text' es _ _

theorem map_congr_fst {β γ : Type} (g : Char → γ) : ∀ (A B : List (Char × β)), A.map (·.1) = B.map (·.1) →
    A.map (fun x => g x.1) = B.map (fun x => g x.1)
  | [], [], _ => rfl
  | [], _ :: _, h => by simp at h
  | _ :: _, [], h => by simp at h
  | x :: xs, y :: ys, h => by
    simp only [List.map_cons, List.cons.injEq] at h ⊢
    exact ⟨by rw [h.1], map_congr_fst g xs ys h.2⟩

theorem valueClassIssuesAs_core (orig : RTag) (h : Core t t') (sv : Str) :
    sigs (valueClassIssuesAs env orig t' sv) = sigs (valueClassIssuesAs env orig t sv) := by
  unfold valueClassIssuesAs
  simp only [sigs_ite, sigs_nil, sigs_flatMap, sigs_cons, sig_mk, sev_subIssue, sigs_map, sig_ite, sig_subIssue]
  split
  · rfl
  · split
    · rfl
    · split
      · rfl
      · congr 1
        funext c
        split
        · rfl
        · by_cases hr : env.var.defCharRelocate = true
          · simp only [hr, ↓reduceIte, code_subIssue]
            exact map_congr_fst
              (fun ch => if (ch == '{' || ch == '}') = true then (Kind.curlyBrace.code, Kind.curlyBrace.sev)
                else (Kind.valueClassChar.code, Kind.valueClassChar.sev)) _ _
              (relocate_chars t.org t'.org (problemChars c sv) (orgBase t).length (orgBase t').length)
          · simp only [hr, Bool.false_eq_true, ↓reduceIte, List.map_map]
            rfl

theorem withErrorCode_sigs (code : Str) {l l' : List Issue} (h : sigs l' = sigs l) :
    sigs (withErrorCode code l') = sigs (withErrorCode code l) := by
  cases l with
  | nil => cases l' with
    | nil => rfl
    | cons _ _ => simp at h
  | cons i is => cases l' with
    | nil => simp at h
    | cons j js =>
      simp only [sigs_cons, List.cons.injEq] at h
      have hany : (j :: js).any (·.code == code) = (i :: is).any (·.code == code) := by
        have : ((j :: js).map sig).any (·.1 == code) = ((i :: is).map sig).any (·.1 == code) := by
          simp only [List.map_cons]; rw [h.1]; congr 1; exact congrArg _ h.2
        simpa [List.any_map, sig, Function.comp_def] using this
      simp only [withErrorCode, hany]
      split
      · simp [h.1, h.2]
      · have hs : j.sev = i.sev := congrArg Prod.snd h.1
        simp [h.1, h.2, sig, hs]
        exact congrArg Prod.fst h.1

theorem defUnits_core (p : RTag) (h : Core t t') (text code : Str) :
    sigs (defUnits env p t' text code) = sigs (defUnits env p t text code) := by
  unfold defUnits
  split
  · rfl
  · split
    · apply withErrorCode_sigs
      simp only [sigs_append, sigs_ite, sigs_nil, sigs_cons, sig_tagIssue, valueClassIssuesAs_core p h]
    · split
      · exact valueClassIssuesAs_core p h text
      · rfl

theorem defPlaceholder_core (h : Core t t') : defPlaceholder env t' = defPlaceholder env t := by
  simp [defPlaceholder, h.defLabel, h.defValue]

theorem defValueIssues_core (h : Core t t') : sigs (defValueIssues env t') = sigs (defValueIssues env t) := by
  unfold defValueIssues
  rw [h.defLabel, defPlaceholder_core h, h.shortBase]
  cases defLookup env (defLabel t) with
  | none => rfl
  | some e =>
    simp only [sigs_append, valueClassIssues_core h]
    cases defPlaceholder env t with
    | none => rfl
    | some p => simp only [defUnits_core p h]

/-- warnings do not count -/
theorem errCodes_styleIssues (t : RTag) : errCodes (styleIssues t) = [] := by
  unfold styleIssues
  split
  · simp [errCodes, errors, codes, Issue.isError, tagIssue, Issue.plain, Kind.sev, sevWarning, sev_STYLE_WARNING]
  · rfl

theorem placeholderFrom_sigs (t t' : RTag) : ∀ (s : Str) (a a' i i' : Nat),
    sigs (placeholderFrom t' a' i' s) = sigs (placeholderFrom t a i s)
  | [], _, _, _, _ => rfl
  | c :: cs, a, a', i, i' => by
    simp only [placeholderFrom, sigs_append, sigs_ite, sigs_cons, sigs_nil, sig_mk, sev_subIssue]
    rw [placeholderFrom_sigs t t' cs a a' (i + 1) (i' + 1)]

theorem individualIssues_core (h : Core t t') (ph b : Bool) :
    errCodes (individualIssues env ph b t') = errCodes (individualIssues env ph b t) := by
  unfold individualIssues
  simp only [errCodes_append, errCodes_styleIssues, List.append_nil]
  rw [errCodes_of_sigs (existsIssues_core h), h.entryAttr]
  congr 1
  congr 1
  · congr 1
    split
    · unfold placeholderIssues
      split
      · rfl
      · rw [h.extension]
        exact errCodes_of_sigs (placeholderFrom_sigs t t' _ _ _ 0 0)
    · rfl
  · exact errCodes_of_sigs (by simp)
  · exact errCodes_of_sigs (by simp)

/-- **one tag, phase 3** -/
theorem tagSemIssues_core (h : Core t t') (ph b : Bool) :
    errCodes (tagSemIssues env ph b t') = errCodes (tagSemIssues env ph b t) := by
  unfold tagSemIssues
  simp only [h.shortBase, h.extension, errCodes_append, individualIssues_core h ph b]
  congr 1
  · congr 1
    exact errCodes_of_sigs (by simp)
  · split
    · exact errCodes_of_sigs (defValueIssues_core h)
    · split
      · exact errCodes_of_sigs (validateUnits_core h _)
      · split
        · exact errCodes_of_sigs (validateUnits_core h _)
        · rfl

end core

/-! ### trees: everything is a `flatMap` over nodes -/

theorem tagsList_eq (l : List RNode) : tagsList l = l.flatMap tagsNode := by
  induction l with
  | nil => rfl
  | cons k ks ih => simp [tagsList, ih]

theorem groupsList_eq (top : Bool) (l : List RNode) : groupsList top l = l.flatMap (groupsNode top) := by
  induction l with
  | nil => rfl
  | cons k ks ih => simp [groupsList, ih]

def directTagsOf : RNode → List RTag
  | .tag t => [t]
  | .group _ _ => []

theorem directTags_eq (l : List RNode) : directTags l = l.flatMap directTagsOf := by
  induction l with
  | nil => rfl
  | cons k ks ih => cases k <;> simp [directTags, directTagsOf, ih]

def directGroupsOf : RNode → List ((Nat × Nat) × List RNode)
  | .tag _ => []
  | .group s k => [(s, k)]

theorem directGroups_eq (l : List RNode) : directGroups l = l.flatMap directGroupsOf := by
  induction l with
  | nil => rfl
  | cons k ks ih => cases k <;> simp [directGroups, directGroupsOf, ih]

section sim
variable {R : RTag → RTag → Prop}

theorem PointSim.length : ∀ {l m : List RNode}, PointSim R l m → l.length = m.length
  | [], [], _ => rfl
  | _ :: ks, _ :: ms, h => by simp [PointSim.length (l := ks) (m := ms) h.2]
  | [], _ :: _, h => by simp [PointSim] at h
  | _ :: _, [], h => by simp [PointSim] at h

/-- position by position: a `flatMap` is taken piecewise -/
theorem PointSim.flatMap_perm {β : Type} (φ φ' : RNode → List β) :
    ∀ {l m : List RNode}, PointSim R l m → (∀ k ∈ l, ∀ k' ∈ m, NodeSim R k k' → (φ k).Perm (φ' k')) →
      (l.flatMap φ).Perm (m.flatMap φ')
  | [], [], _, _ => List.Perm.refl _
  | k :: ks, k' :: ms, h, hφ => by
    simp only [List.flatMap_cons]
    exact (hφ k (by simp) k' (by simp) h.1).append
      (PointSim.flatMap_perm φ φ' h.2 (fun x hx x' hx' hxx => hφ x (by simp [hx]) x' (by simp [hx']) hxx))
  | [], _ :: _, h, _ => by simp [PointSim] at h
  | _ :: _, [], h, _ => by simp [PointSim] at h

theorem ForestSim.flatMap_perm {β : Type} (φ φ' : RNode → List β) {l l' : List RNode} (h : ForestSim R l l')
    (hφ : ∀ k ∈ l, ∀ k' ∈ l', NodeSim R k k' → (φ k).Perm (φ' k')) : (l.flatMap φ).Perm (l'.flatMap φ') := by
  obtain ⟨m, hm, hp⟩ := h
  exact (hm.flatMap_perm φ φ' (fun k hk k' hk' => hφ k hk k' (hp.mem_iff.mp hk'))).trans (hp.flatMap_right φ')

/-- the same with equal pieces: counting -/
theorem ForestSim.length_eq {l l' : List RNode} (h : ForestSim R l l') : l.length = l'.length := by
  obtain ⟨m, hm, hp⟩ := h
  rw [hm.length, hp.length_eq]

mutual
/-- all tags of related nodes are related, up to order -/
theorem NodeSim.tags_flatMap {β : Type} (F F' : RTag → List β) (hF : ∀ t t', R t t' → (F t).Perm (F' t')) :
    ∀ (k k' : RNode), NodeSim R k k' → ((tagsNode k).flatMap F).Perm ((tagsNode k').flatMap F')
  | .tag t, .tag t', h => by simpa [tagsNode] using hF t t' h
  | .tag _, .group _ _, h => by simp [NodeSim] at h
  | .group _ _, .tag _, h => by simp [NodeSim] at h
  | .group _ ks, .group _ ks', h => by
    obtain ⟨m, hm, hp⟩ := h
    simp only [tagsNode, tagsList_eq, List.flatMap_assoc]
    exact (PointSim.tags_flatMap F F' hF ks m hm).trans (hp.flatMap_right _)
theorem PointSim.tags_flatMap {β : Type} (F F' : RTag → List β) (hF : ∀ t t', R t t' → (F t).Perm (F' t')) :
    ∀ (l m : List RNode), PointSim R l m →
      (l.flatMap fun k => (tagsNode k).flatMap F).Perm (m.flatMap fun k => (tagsNode k).flatMap F')
  | [], [], _ => List.Perm.refl _
  | k :: ks, k' :: ms, h => by
    simp only [List.flatMap_cons]
    exact (NodeSim.tags_flatMap F F' hF k k' h.1).append (PointSim.tags_flatMap F F' hF ks ms h.2)
  | [], _ :: _, h => by simp [PointSim] at h
  | _ :: _, [], h => by simp [PointSim] at h
end

theorem ForestSim.tags_flatMap {β : Type} (F F' : RTag → List β) (hF : ∀ t t', R t t' → (F t).Perm (F' t'))
    {l l' : List RNode} (h : ForestSim R l l') : ((tagsList l).flatMap F).Perm ((tagsList l').flatMap F') := by
  obtain ⟨m, hm, hp⟩ := h
  simp only [tagsList_eq, List.flatMap_assoc]
  exact (PointSim.tags_flatMap F F' hF l m hm).trans (hp.flatMap_right _)

/-- direct tags -/
theorem ForestSim.directTags_flatMap {β : Type} (F F' : RTag → List β) (hF : ∀ t t', R t t' → (F t).Perm (F' t'))
    {l l' : List RNode} (h : ForestSim R l l') :
    ((directTags l).flatMap F).Perm ((directTags l').flatMap F') := by
  simp only [directTags_eq, List.flatMap_assoc]
  apply h.flatMap_perm
  intro k _ k' _ hk
  cases k <;> cases k' <;> simp_all [NodeSim, directTagsOf]

theorem length_flatMap_ite {α : Type} (p : α → Bool) (l : List α) :
    (l.flatMap fun t => if p t then [()] else []).length = (l.filter p).length := by
  induction l with
  | nil => rfl
  | cons x xs ih => by_cases hx : p x = true <;> simp_all [List.flatMap_cons, List.filter_cons]

/-- counting direct tags with a property the relation respects -/
theorem ForestSim.directTags_count (p p' : RTag → Bool) (hp : ∀ t t', R t t' → p t = p' t')
    {l l' : List RNode} (h : ForestSim R l l') :
    ((directTags l).filter p).length = ((directTags l').filter p').length := by
  have := (h.directTags_flatMap (fun t => if p t then [()] else []) (fun t => if p' t then [()] else [])
    (fun t t' ht => by rw [hp t t' ht])).length_eq
  rwa [length_flatMap_ite, length_flatMap_ite] at this


mutual
theorem NodeSim.groups_flatMap {β : Type} (G G' : GV → List β) :
    ∀ (top : Bool) (k k' : RNode), NodeSim R k k' →
      (∀ g ∈ groupsNode top k, ∀ g' ∈ groupsNode top k', GVSim R g g' → (G g).Perm (G' g')) →
      ((groupsNode top k).flatMap G).Perm ((groupsNode top k').flatMap G')
  | _, .tag _, .tag _, _, _ => by simp [groupsNode]
  | _, .tag _, .group _ _, h, _ => by simp [NodeSim] at h
  | _, .group _ _, .tag _, h, _ => by simp [NodeSim] at h
  | top, .group s ks, .group s' ks', h, hG => by
    obtain ⟨m, hm, hp⟩ := h
    simp only [groupsNode, List.flatMap_cons]
    refine (hG ⟨s, ks, true, top⟩ (by simp [groupsNode]) ⟨s', ks', true, top⟩ (by simp [groupsNode])
      ⟨rfl, rfl, m, hm, hp⟩).append ?_
    have hmem : ∀ g', g' ∈ groupsList false m → g' ∈ groupsList false ks' := by
      intro g' hg'
      rw [groupsList_eq] at hg' ⊢
      exact (hp.flatMap_right _).mem_iff.mp hg'
    refine (PointSim.groups_flatMap G G' false ks m hm
      (fun g hg g' hg' => hG g (by simp [groupsNode, hg]) g' (by simp [groupsNode, hmem g' hg']))).trans ?_
    simp only [groupsList_eq, List.flatMap_assoc]
    exact hp.flatMap_right _
theorem PointSim.groups_flatMap {β : Type} (G G' : GV → List β) :
    ∀ (top : Bool) (l m : List RNode), PointSim R l m →
      (∀ g ∈ groupsList top l, ∀ g' ∈ groupsList top m, GVSim R g g' → (G g).Perm (G' g')) →
      ((groupsList top l).flatMap G).Perm ((groupsList top m).flatMap G')
  | _, [], [], _, _ => List.Perm.refl _
  | top, k :: ks, k' :: ms, h, hG => by
    simp only [groupsList, List.flatMap_append]
    exact (NodeSim.groups_flatMap G G' top k k' h.1
        (fun g hg g' hg' => hG g (by simp [groupsList, hg]) g' (by simp [groupsList, hg']))).append
      (PointSim.groups_flatMap G G' top ks ms h.2
        (fun g hg g' hg' => hG g (by simp [groupsList, hg]) g' (by simp [groupsList, hg'])))
  | _, [], _ :: _, h, _ => by simp [PointSim] at h
  | _, _ :: _, [], h, _ => by simp [PointSim] at h
end

/-- every per-group rule that respects `GVSim` gives the same multiset over all groups -/
theorem ForestSim.allGroups_flatMap {β : Type} (G G' : GV → List β) {l l' : List RNode} (h : ForestSim R l l')
    (len len' : Nat)
    (hG : ∀ g ∈ allGroups len l, ∀ g' ∈ allGroups len' l', GVSim R g g' → (G g).Perm (G' g')) :
    ((allGroups len l).flatMap G).Perm ((allGroups len' l').flatMap G') := by
  simp only [allGroups, List.flatMap_cons]
  refine (hG ⟨(0, len), l, false, false⟩ (by simp [allGroups]) ⟨(0, len'), l', false, false⟩ (by simp [allGroups])
    ⟨rfl, rfl, h⟩).append ?_
  obtain ⟨m, hm, hp⟩ := h
  have hmem : ∀ g', g' ∈ groupsList true m → g' ∈ groupsList true l' := by
    intro g' hg'
    rw [groupsList_eq] at hg' ⊢
    exact (hp.flatMap_right _).mem_iff.mp hg'
  refine (PointSim.groups_flatMap G G' true l m hm
    (fun g hg g' hg' => hG g (by simp [allGroups, hg]) g' (by simp [allGroups, hmem g' hg']))).trans ?_
  simp only [groupsList_eq, List.flatMap_assoc]
  exact hp.flatMap_right _

end sim

/-! ### `multipleTopBad` looks at its argument as a set with multiplicities -/

theorem nodup_eraseDups {α : Type} [BEq α] [LawfulBEq α] : ∀ (n : Nat) (l : List α), l.length ≤ n → l.eraseDups.Nodup
  | _, [], _ => by simp
  | 0, _ :: _, h => by simp at h
  | n + 1, a :: as, h => by
    rw [List.eraseDups_cons, List.nodup_cons]
    constructor
    · rw [List.mem_eraseDups]; simp
    · apply nodup_eraseDups n
      have := List.length_filter_le (fun b => !b == a) as
      simp only [List.length_cons] at h
      omega

theorem eraseDups_of_nodup {α : Type} [BEq α] [LawfulBEq α] : ∀ (l : List α), l.Nodup → l.eraseDups = l
  | [], _ => rfl
  | a :: as, h => by
    rw [List.nodup_cons] at h
    rw [List.eraseDups_cons]
    have : as.filter (fun b => !b == a) = as := by
      rw [List.filter_eq_self]
      intro b hb
      have : b ≠ a := fun e => h.1 (e ▸ hb)
      simpa using this
    rw [this, eraseDups_of_nodup as h.2]

theorem eraseDups_perm {α : Type} [BEq α] [LawfulBEq α] {l l' : List α} (h : l.Perm l') :
    l.eraseDups.Perm l'.eraseDups :=
  (List.perm_ext_iff_of_nodup (nodup_eraseDups _ l (Nat.le_refl _)) (nodup_eraseDups _ l' (Nat.le_refl _))).mpr
    (fun a => by rw [List.mem_eraseDups, List.mem_eraseDups, h.mem_iff])

theorem multipleTopBad_perm {l l' : List Str} (h : l.Perm l') : multipleTopBad l = multipleTopBad l' := by
  have hd := eraseDups_perm h
  unfold multipleTopBad
  simp only [hd.length_eq, h.length_eq]
  have h1 : l.eraseDups.contains delayKey = l'.eraseDups.contains delayKey := by
    rw [Bool.eq_iff_iff]; simp [hd.mem_iff]
  have h2 : (l.eraseDups.filter (· != delayKey)).all (allTimeKeys.contains ·) =
      (l'.eraseDups.filter (· != delayKey)).all (allTimeKeys.contains ·) := by
    rw [Bool.eq_iff_iff]
    simp only [List.all_eq_true, List.mem_filter]
    constructor <;> intro H x hx
    · exact H x ⟨hd.mem_iff.mpr hx.1, hx.2⟩
    · exact H x ⟨hd.mem_iff.mp hx.1, hx.2⟩
  rw [h1, h2]

/-! ### the rules, group by group -/

theorem filter_flatMap {α β : Type} (p : α → Bool) (f : α → List β) (l : List α) :
    (l.filter p).flatMap f = l.flatMap (fun x => if p x then f x else []) := by
  induction l with
  | nil => rfl
  | cons x xs ih => by_cases hx : p x = true <;> simp_all [List.filter_cons, List.flatMap_cons]

theorem filter_map_eq_flatMap {α β : Type} (p : α → Bool) (f : α → β) (l : List α) :
    (l.filter p).map f = l.flatMap (fun x => if p x then [f x] else []) := by
  induction l with
  | nil => rfl
  | cons x xs ih => by_cases hx : p x = true <;> simp_all [List.filter_cons, List.flatMap_cons]

section rules
variable {R : RTag → RTag → Prop} {env : Env}

theorem levelIssues_sim (hR : ∀ t t', R t t' → Core t t') {g g' : GV} (h : GVSim R g g') :
    (errCodes (levelIssues env g)).Perm (errCodes (levelIssues env g')) := by
  obtain ⟨hg, ht, hk⟩ := h
  unfold levelIssues
  simp only [errCodes_append]
  refine ((?_ : List.Perm _ _).append ?_).append ?_
  · rw [errCodes_flatMap, errCodes_flatMap, filter_flatMap, filter_flatMap]
    apply hk.directTags_flatMap
    intro t t' htt
    rw [(hR t t' htt).baseAttr, hg]
    by_cases h1 : (baseAttr env t).tagGroup = true <;> by_cases h2 : g'.isGroup = true <;>
      simp only [h1, h2, Bool.not_true, Bool.false_eq_true, ↓reduceIte, Bool.not_false, List.Perm.refl]
    exact List.Perm.of_eq (errCodes_of_sigs (by simp))
  · rw [errCodes_flatMap, errCodes_flatMap, filter_flatMap, filter_flatMap]
    apply hk.directTags_flatMap
    intro t t' htt
    rw [(hR t t' htt).baseAttr, (hR t t' htt).shortBase, ht]
    by_cases h1 : (baseAttr env t).topLevelTagGroup = true
    · simp only [h1, ↓reduceIte]
      split
      · simp only [errCodes_append]
        refine List.Perm.append ?_ ?_
        · split
          · exact List.Perm.of_eq (errCodes_of_sigs (by simp))
          · split
            · exact List.Perm.of_eq (errCodes_of_sigs (by simp))
            · exact List.Perm.refl _
        · exact List.Perm.of_eq (errCodes_of_sigs (by simp))
      · exact List.Perm.refl _
    · simp [h1]
  · have hlen := hk.directTags_count (fun t => (baseAttr env t).topLevelTagGroup) (fun t => (baseAttr env t).topLevelTagGroup)
      (fun t t' htt => by rw [(hR t t' htt).baseAttr])
    have hperm : (((directTags g.kids).filter fun t => (baseAttr env t).topLevelTagGroup).map (shortBase env)).Perm
        (((directTags g'.kids).filter fun t => (baseAttr env t).topLevelTagGroup).map (shortBase env)) := by
      rw [filter_map_eq_flatMap, filter_map_eq_flatMap]
      apply hk.directTags_flatMap
      intro t t' htt
      rw [(hR t t' htt).baseAttr, (hR t t' htt).shortBase]
    rw [multipleTopBad_perm hperm, hlen, ht]
    split
    · rename_i hc
      simp only [Bool.and_eq_true, decide_eq_true_eq] at hc
      have h1 := hc.1.2
      have h2 : ((directTags g.kids).filter fun t => (baseAttr env t).topLevelTagGroup).length > 1 := by omega
      cases hA : (directTags g.kids).filter fun t => (baseAttr env t).topLevelTagGroup with
      | nil => simp [hA] at h2
      | cons a as =>
        cases hB : (directTags g'.kids).filter fun t => (baseAttr env t).topLevelTagGroup with
        | nil => simp [hB] at h1
        | cons b bs => exact List.Perm.of_eq (errCodes_of_sigs (by simp))
    · exact List.Perm.refl _

theorem groupIssues_sim (hR : ∀ t t', R t t' → Core t t') {g g' : GV} (h : GVSim R g g') :
    (errCodes (groupIssues env g)).Perm (errCodes (groupIssues env g')) := by
  unfold groupIssues
  simp only [errCodes_append]
  refine List.Perm.append ?_ (levelIssues_sim hR h)
  obtain ⟨hg, _, hk⟩ := h
  have : g.kids.isEmpty = g'.kids.isEmpty := by
    have := hk.length_eq
    cases h1 : g.kids <;> cases h2 : g'.kids <;> simp_all
  rw [this, hg]
  split
  · exact List.Perm.of_eq (errCodes_of_sigs (by simp [sig]))
  · exact List.Perm.refl _

theorem countPrefix_sim (hR : ∀ t t', R t t' → Core t t') {l l' : List RNode} (h : ForestSim R l l') (p : Str) :
    countPrefix env (tagsList l) p = countPrefix env (tagsList l') p := by
  unfold countPrefix
  have := (h.tags_flatMap (fun t => if (fold p).isPrefixOf (fold (longTag env t)) then [()] else [])
    (fun t => if (fold p).isPrefixOf (fold (longTag env t)) then [()] else [])
    (fun t t' htt => by rw [(hR t t' htt).longTag])).length_eq
  rwa [length_flatMap_ite, length_flatMap_ite] at this

theorem requiredIssues_sim (hR : ∀ t t', R t t' → Core t t') {l l' : List RNode} (h : ForestSim R l l') :
    requiredIssues env (tagsList l) = requiredIssues env (tagsList l') := by
  unfold requiredIssues
  simp only [countPrefix_sim hR h]

theorem uniqueIssues_sim (hR : ∀ t t', R t t' → Core t t') {l l' : List RNode} (h : ForestSim R l l') :
    uniqueIssues env (tagsList l) = uniqueIssues env (tagsList l') := by
  unfold uniqueIssues
  simp only [countPrefix_sim hR h]

mutual
theorem node_directTags (top : Bool) : ∀ (k : RNode),
    (directTagsOf k ++ (groupsNode top k).flatMap fun g => directTags g.kids).Perm (tagsNode k)
  | .tag t => by simp [directTagsOf, groupsNode, tagsNode]
  | .group s ks => by
    simp only [directTagsOf, groupsNode, tagsNode, List.flatMap_cons, List.nil_append]
    exact list_directTags false ks
theorem list_directTags (top : Bool) : ∀ (l : List RNode),
    (directTags l ++ (groupsList top l).flatMap fun g => directTags g.kids).Perm (tagsList l)
  | [] => by simp [directTags, groupsList, tagsList]
  | k :: ks => by
    have h1 := node_directTags top k
    have h2 := list_directTags top ks
    have hd : directTags (k :: ks) = directTagsOf k ++ directTags ks := by
      cases k <;> simp [directTags, directTagsOf]
    simp only [hd, groupsList, tagsList, List.flatMap_append]
    refine List.Perm.trans ?_ (h1.append h2)
    simp only [List.append_assoc]
    apply List.Perm.append_left
    rw [← List.append_assoc, ← List.append_assoc]
    exact List.Perm.append_right _ List.perm_append_comm
end

/-- every tag is a direct tag of exactly one group (or of the top level) -/
theorem allGroups_directTags (len : Nat) (root : List RNode) :
    ((allGroups len root).flatMap fun g => directTags g.kids).Perm (tagsList root) := by
  simpa [allGroups] using list_directTags true root

end rules

/-! ### the duplicate rule of `Model/Validate.lean` is the one of `Model/Dup.lean` -/

section bridge
open HedVerif.Dup (LeK skey Adm CleanStr)

theorem strLt_eq : ∀ (a b : Str), Validate.strLt a b = Dup.strLt a b
  | [], [] => rfl
  | [], _ :: _ => rfl
  | _ :: _, [] => rfl
  | a :: as, b :: bs => by simp [Validate.strLt, Dup.strLt, strLt_eq as bs]

theorem toDupL_eq_map (env : Env) (l : List RNode) : toDupL env l = l.map (toDup env) := by
  induction l with
  | nil => rfl
  | cons k ks ih => simp [toDupL, ih]

mutual
theorem sortKey_eq (env : Env) : ∀ (n : RNode), sortKeyNode env n = skey (toDup env n)
  | .tag t => by simp [sortKeyNode, toDup, toDupTag, Dup.render]
  | .group _ ks => by simp [sortKeyNode, toDup, Dup.render, sortKeyList_eq env ks]
theorem sortKeyList_eq (env : Env) : ∀ (l : List RNode), sortKeyList env l = Dup.renderL Dup.Tag.key (toDupL env l)
  | [] => rfl
  | [n] => by simp [sortKeyList, toDupL, Dup.renderL, sortKey_eq env n]
  | n :: m :: ns => by
    have h1 := sortKey_eq env n
    have h2 := sortKeyList_eq env (m :: ns)
    simp only [sortKeyList, toDupL, Dup.renderL] at h2 ⊢
    simp only [skey] at h1
    rw [h1, h2]
end

mutual
theorem nodeEq_eq (env : Env) (hv : env.var.eqFold = true) : ∀ (a b : RNode),
    nodeEq env a b = Dup.eqv Dup.teq (toDup env a) (toDup env b)
  | .tag a, .tag b => by simp [nodeEq, tagEq, hv, toDup, toDupTag, Dup.eqv, Dup.teq]
  | .tag _, .group _ _ => by simp [nodeEq, toDup, Dup.eqv]
  | .group _ _, .tag _ => by simp [nodeEq, toDup, Dup.eqv]
  | .group _ ka, .group _ kb => by simp [nodeEq, toDup, Dup.eqv, listEq_eq env hv ka kb]
theorem listEq_eq (env : Env) (hv : env.var.eqFold = true) : ∀ (a b : List RNode),
    listEq env a b = Dup.eqvL Dup.teq (toDupL env a) (toDupL env b)
  | [], [] => by simp [listEq, toDupL, Dup.eqvL]
  | [], _ :: _ => by simp [listEq, toDupL, Dup.eqvL]
  | _ :: _, [] => by simp [listEq, toDupL, Dup.eqvL]
  | a :: as, b :: bs => by simp [listEq, toDupL, Dup.eqvL, nodeEq_eq env hv a b, listEq_eq env hv as bs]
end

/-! their stable sort: a permutation, ordered by the first component of the key -/

abbrev KEntry := (Str × Str) × RNode

theorem insertKeyed_perm (x : KEntry) (l : List KEntry) : (insertKeyed x l).Perm (x :: l) := by
  induction l with
  | nil => exact List.Perm.refl _
  | cons y ys ih =>
    simp only [insertKeyed]
    split
    · exact List.Perm.refl _
    · exact (List.Perm.cons y ih).trans (List.Perm.swap x y ys)

theorem sortKeyed_perm (l : List KEntry) : (sortKeyed l).Perm l := by
  have : ∀ (l acc : List KEntry), (l.foldl (fun acc x => insertKeyed x acc) acc).Perm (acc ++ l) := by
    intro l
    induction l with
    | nil => intro acc; simp
    | cons x xs ih =>
      intro acc
      simp only [List.foldl_cons]
      refine (ih _).trans ?_
      refine ((insertKeyed_perm x acc).append_right xs).trans ?_
      simp only [List.cons_append]
      exact (List.perm_middle).symm
  simpa [sortKeyed] using this l []

theorem insertKeyed_pairwise (x : KEntry) (l : List KEntry) (hl : l.Pairwise (LeK fun e : KEntry => e.1.1)) :
    (insertKeyed x l).Pairwise (LeK fun e : KEntry => e.1.1) := by
  induction l with
  | nil => simp [insertKeyed]
  | cons y ys ih =>
    rw [List.pairwise_cons] at hl
    simp only [insertKeyed]
    by_cases hxy : keyLt x.1 y.1 = true
    · simp only [hxy, ↓reduceIte, List.pairwise_cons]
      have hle : LeK (fun e : KEntry => e.1.1) x y := by
        simp only [keyLt, Bool.or_eq_true, Bool.and_eq_true, beq_iff_eq, strLt_eq] at hxy
        rcases hxy with h | ⟨h, _⟩
        · exact Dup.strLt_asymm _ _ h
        · simp only [LeK]; rw [h]; exact Dup.strLt_irrefl _
      refine ⟨fun z hz => ?_, hl.1, hl.2⟩
      rcases List.mem_cons.mp hz with rfl | hz
      · exact hle
      · exact Dup.strLe_trans _ _ _ hle (hl.1 z hz)
    · have hxy' : keyLt x.1 y.1 = false := by simpa using hxy
      simp only [hxy', Bool.false_eq_true, ↓reduceIte, List.pairwise_cons]
      refine ⟨fun z hz => ?_, ih hl.2⟩
      rcases List.mem_cons.mp ((insertKeyed_perm x ys).mem_iff.mp hz) with rfl | hz
      · simp only [keyLt, Bool.or_eq_false_iff, strLt_eq] at hxy'
        exact hxy'.1
      · exact hl.1 z hz

theorem sortKeyed_pairwise (l : List KEntry) : (sortKeyed l).Pairwise (LeK fun e : KEntry => e.1.1) := by
  have : ∀ (l acc : List KEntry), acc.Pairwise (LeK fun e : KEntry => e.1.1) →
      (l.foldl (fun acc x => insertKeyed x acc) acc).Pairwise (LeK fun e : KEntry => e.1.1) := by
    intro l
    induction l with
    | nil => intro acc h; simpa using h
    | cons x xs ih => intro acc h; exact ih _ (insertKeyed_pairwise x acc h)
  exact this l [] List.Pairwise.nil


/-- two key-sorted lists of clean trees with the same canonical members are the same, canonically -/
theorem sorted_unique (X Y : List Dup.Tree) (hX : X.Pairwise (LeK skey)) (hY : Y.Pairwise (LeK skey))
    (cX : ∀ a ∈ X, ∀ x ∈ Dup.tags a, CleanStr x.key) (cY : ∀ a ∈ Y, ∀ x ∈ Dup.tags a, CleanStr x.key)
    (hp : (X.map Dup.canon).Perm (Y.map Dup.canon)) : X.map Dup.canon = Y.map Dup.canon := by
  have hpw : ∀ Z : List Dup.Tree, Z.Pairwise (LeK skey) → (Z.map Dup.canon).Pairwise (LeK skey) := by
    intro Z hZ
    refine List.Pairwise.map _ ?_ hZ
    intro a b hab
    simpa [LeK, Dup.skey_canon] using hab
  apply List.Perm.eq_of_pairwise (le := LeK skey) ?_ (hpw X hX) (hpw Y hY) hp
  intro a b ha hb hab hba
  obtain ⟨a0, ha0, rfl⟩ := List.mem_map.mp ha
  obtain ⟨b0, hb0, rfl⟩ := List.mem_map.mp hb
  have hk : skey a0 = skey b0 := by
    have := Dup.strLt_total _ _ hba hab
    simpa [Dup.skey_canon] using this
  exact Dup.canon_eq_of_skey (cX a0 ha0) (cY b0 hb0) hk

theorem isTag_toDup (env : Env) (n : RNode) : Dup.isTag (toDup env n) = isTagNode n := by
  cases n <;> simp [toDup, Dup.isTag, isTagNode]

theorem keyedList_eq_map (env : Env) (l : List RNode) :
    keyedList env l = l.map (fun n =>
      ((if env.var.sortCanonical then sortKeyNode env (sortNode env n) else [], strNode env n), sortNode env n)) := by
  induction l with
  | nil => rfl
  | cons k ks ih => simp [keyedList, ih]

theorem varrange_perm (E : List KEntry) : (Validate.arrange E).Perm (E.map (·.2)) := by
  unfold Validate.arrange
  apply List.Perm.map
  exact ((sortKeyed_perm _).append (sortKeyed_perm _)).trans (List.filter_append_perm _ E)

/-- one half (tags, or groups) of the two sorted views -/
theorem half_bridge (env : Env) (p : RNode → Bool) (q : Dup.Tree → Bool) (hpq : ∀ n, q (Dup.canon (toDup env n)) = p n)
    (hq : ∀ t, q (Dup.canon t) = q t)
    (E : List KEntry) (D : List Dup.Entry)
    (hkey : ∀ e ∈ E, e.1.1 = skey (toDup env e.2))
    (cE : ∀ e ∈ E, ∀ x ∈ Dup.tags (toDup env e.2), CleanStr x.key) (cD : ∀ e ∈ D, ∀ x ∈ Dup.tags e.2, CleanStr x.key)
    (hmap : E.map (fun e => Dup.canon (toDup env e.2)) = D.map (fun e => Dup.canon e.2)) :
    ((sortKeyed (E.filter fun e => p e.2)).map fun e => Dup.canon (toDup env e.2)) =
      ((Dup.sortBy Dup.ltNew (D.filter fun e => q e.2)).map fun e => Dup.canon e.2) := by
  have h1 := sorted_unique ((sortKeyed (E.filter fun e => p e.2)).map fun e => toDup env e.2)
    ((Dup.sortBy Dup.ltNew (D.filter fun e => q e.2)).map fun e => e.2) ?_ ?_ ?_ ?_ ?_
  · simpa [List.map_map, Function.comp_def] using h1
  · rw [List.pairwise_map]
    refine List.Pairwise.imp_of_mem ?_ (sortKeyed_pairwise _)
    intro a b ha hb hab
    have ma : a ∈ E := (List.mem_filter.mp ((sortKeyed_perm _).mem_iff.mp ha)).1
    have mb : b ∈ E := (List.mem_filter.mp ((sortKeyed_perm _).mem_iff.mp hb)).1
    simpa [LeK, hkey a ma, hkey b mb] using hab
  · rw [List.pairwise_map]
    exact Dup.sortNew_pairwise _
  · intro a ha x hx
    obtain ⟨e, he, rfl⟩ := List.mem_map.mp ha
    exact cE e (List.mem_filter.mp ((sortKeyed_perm _).mem_iff.mp he)).1 x hx
  · intro a ha x hx
    obtain ⟨e, he, rfl⟩ := List.mem_map.mp ha
    exact cD e (List.mem_filter.mp ((Dup.sortBy_perm Dup.ltNew _).mem_iff.mp he)).1 x hx
  · simp only [List.map_map, Function.comp_def]
    refine ((sortKeyed_perm _).map _).trans ?_
    refine List.Perm.trans ?_ ((Dup.sortBy_perm Dup.ltNew _).map _).symm
    have e1 : (E.filter fun e => p e.2).map (fun e => Dup.canon (toDup env e.2)) =
        (E.map fun e => Dup.canon (toDup env e.2)).filter q := by
      rw [List.filter_map]; congr 1; apply List.filter_congr; intro e _; simp [hpq]
    have e2 : (D.filter fun e => q e.2).map (fun e => Dup.canon e.2) = (D.map fun e => Dup.canon e.2).filter q := by
      rw [List.filter_map]; congr 1; apply List.filter_congr; intro e _; simp [hq]
    rw [e1, e2, hmap]

theorem arrange_bridge (env : Env) (E : List KEntry) (D : List Dup.Entry)
    (hkey : ∀ e ∈ E, e.1.1 = skey (toDup env e.2))
    (cE : ∀ e ∈ E, ∀ x ∈ Dup.tags (toDup env e.2), CleanStr x.key) (cD : ∀ e ∈ D, ∀ x ∈ Dup.tags e.2, CleanStr x.key)
    (hmap : E.map (fun e => Dup.canon (toDup env e.2)) = D.map (fun e => Dup.canon e.2)) :
    Dup.canonL (toDupL env (Validate.arrange E)) = Dup.canonL (Dup.arrange Dup.ltNew D) := by
  simp only [Dup.canonL_eq_map, toDupL_eq_map, Validate.arrange, Dup.arrange, List.map_append, List.map_map,
    Function.comp_def]
  have ht := half_bridge env isTagNode Dup.isTag (fun n => by rw [Dup.isTag_canon, isTag_toDup]) Dup.isTag_canon
    E D hkey cE cD hmap
  have hg := half_bridge env (fun n => !isTagNode n) Dup.isGrp
    (fun n => by rw [Dup.isGrp_canon, Dup.isGrp_eq_not, isTag_toDup]) Dup.isGrp_canon E D hkey cE cD hmap
  rw [ht, hg]


theorem mem_tags_toDupL (env : Env) (l : List RNode) (x : Dup.Tag) :
    x ∈ Dup.tagsL (toDupL env l) ↔ ∃ n ∈ l, x ∈ Dup.tags (toDup env n) := by
  rw [Dup.mem_tagsL, toDupL_eq_map]
  constructor
  · rintro ⟨c, hc, hx⟩
    obtain ⟨n, hn, rfl⟩ := List.mem_map.mp hc
    exact ⟨n, hn, hx⟩
  · rintro ⟨n, hn, hx⟩
    exact ⟨_, List.mem_map.mpr ⟨n, hn, rfl⟩, hx⟩

mutual
theorem tags_sortNode (env : Env) : ∀ (n : RNode) (x : Dup.Tag),
    x ∈ Dup.tags (toDup env (sortNode env n)) ↔ x ∈ Dup.tags (toDup env n)
  | .tag _, _ => by simp [sortNode]
  | .group s ks, x => by
    simp only [sortNode, toDup, Dup.tags, mem_tags_toDupL]
    have hl := tags_sortNodeL env ks x
    constructor
    · rintro ⟨c, hc, hx⟩
      have hc' := (varrange_perm (keyedList env ks)).mem_iff.mp hc
      rw [keyedList_eq_map] at hc'
      simp only [List.map_map, List.mem_map, Function.comp_def] at hc'
      obtain ⟨n, hn, rfl⟩ := hc'
      exact hl.mp ⟨n, hn, hx⟩
    · intro h
      obtain ⟨n, hn, hx⟩ := hl.mpr h
      refine ⟨sortNode env n, ?_, hx⟩
      apply (varrange_perm (keyedList env ks)).mem_iff.mpr
      rw [keyedList_eq_map]
      simp only [List.map_map, List.mem_map, Function.comp_def]
      exact ⟨n, hn, rfl⟩
theorem tags_sortNodeL (env : Env) : ∀ (l : List RNode) (x : Dup.Tag),
    (∃ n ∈ l, x ∈ Dup.tags (toDup env (sortNode env n))) ↔ (∃ n ∈ l, x ∈ Dup.tags (toDup env n))
  | [], _ => by simp
  | k :: ks, x => by
    have h1 := tags_sortNode env k x
    have h2 := tags_sortNodeL env ks x
    simp only [List.mem_cons, exists_eq_or_imp, h1, h2]
end

mutual
/-- the sorted view of `Model/Validate.lean` (canonical variant) and the one of `Model/Dup.lean` agree, canonically -/
theorem sortNode_canon (env : Env) (hv : env.var.sortCanonical = true) : ∀ (n : RNode),
    (∀ x ∈ Dup.tags (toDup env n), CleanStr x.key) →
    Dup.canon (toDup env (sortNode env n)) = Dup.canon (Dup.sortT Dup.ltNew (toDup env n))
  | .tag _, _ => by simp [sortNode, toDup, Dup.sortT]
  | .group s ks, hc => by
    have hcl : ∀ x ∈ Dup.tagsL (toDupL env ks), CleanStr x.key := by simpa [toDup, Dup.tags] using hc
    simp only [sortNode, toDup, Dup.sortT, Dup.canon, Dup.Tree.grp.injEq]
    apply arrange_bridge
    · intro e he
      rw [keyedList_eq_map] at he
      obtain ⟨n, _, rfl⟩ := List.mem_map.mp he
      simp [hv, sortKey_eq]
    · intro e he x hx
      rw [keyedList_eq_map] at he
      obtain ⟨n, hn, rfl⟩ := List.mem_map.mp he
      exact hcl x ((mem_tags_toDupL env ks x).mpr ⟨n, hn, (tags_sortNode env n x).mp hx⟩)
    · exact Dup.clean_sortKids hcl
    · rw [keyedList_eq_map, Dup.sortKids_eq_map]
      simp only [List.map_map, Function.comp_def]
      have := sortNodeL_canon env hv ks (fun n hn x hx => hcl x ((mem_tags_toDupL env ks x).mpr ⟨n, hn, hx⟩))
      rw [toDupL_eq_map, List.map_map] at this ⊢
      exact this
theorem sortNodeL_canon (env : Env) (hv : env.var.sortCanonical = true) : ∀ (l : List RNode),
    (∀ n ∈ l, ∀ x ∈ Dup.tags (toDup env n), CleanStr x.key) →
    l.map (fun n => Dup.canon (toDup env (sortNode env n))) =
      (toDupL env l).map (fun c => Dup.canon (Dup.sortT Dup.ltNew c))
  | [], _ => rfl
  | k :: ks, hc => by
    simp only [List.map_cons, toDupL, List.cons.injEq]
    exact ⟨sortNode_canon env hv k (hc k (by simp)), sortNodeL_canon env hv ks (fun n hn => hc n (by simp [hn]))⟩
end

/-- **Model equivalence (sorted view).** -/
theorem sortedView_canon (env : Env) (hv : env.var.sortCanonical = true) (root : List RNode)
    (hc : ∀ x ∈ Dup.tagsL (toDupL env root), CleanStr x.key) :
    Dup.canonL (toDupL env (Validate.sortedView env root)) = Dup.canonL (Dup.sortedView (toDupL env root)) := by
  have := sortNode_canon env hv (.group (0, 0) root) (by simpa [toDup, Dup.tags] using hc)
  simpa [sortNode, toDup, Dup.sortT, Dup.canon, Validate.sortedView, Dup.sortedView] using this


section simdup
variable {R : RTag → RTag → Prop}

mutual
/-- related trees have the same canonical sorted view -/
theorem NodeSim.sortT_canon (env : Env) (hR : ∀ t t', R t t' → Core t t') : ∀ (k k' : RNode), NodeSim R k k' →
    (∀ x ∈ Dup.tags (toDup env k), CleanStr x.key) → (∀ x ∈ Dup.tags (toDup env k'), CleanStr x.key) →
    Dup.canon (Dup.sortT Dup.ltNew (toDup env k)) = Dup.canon (Dup.sortT Dup.ltNew (toDup env k'))
  | .tag t, .tag t', h, _, _ => by
    have := (hR t t' h).strOf (env := env)
    simp [toDup, toDupTag, Dup.sortT, Dup.canon, Dup.ctag, this]
  | .tag _, .group _ _, h, _, _ => by simp [NodeSim] at h
  | .group _ _, .tag _, h, _, _ => by simp [NodeSim] at h
  | .group _ ks, .group _ ks', h, hc, hc' => by
    obtain ⟨m, hm, hp⟩ := h
    have hcl : ∀ x ∈ Dup.tagsL (toDupL env ks), CleanStr x.key := by simpa [toDup, Dup.tags] using hc
    have hcl' : ∀ x ∈ Dup.tagsL (toDupL env ks'), CleanStr x.key := by simpa [toDup, Dup.tags] using hc'
    simp only [toDup, Dup.sortT, Dup.canon, Dup.Tree.grp.injEq]
    apply Dup.arrange_congr _ _ (Dup.clean_sortKids hcl) (Dup.clean_sortKids hcl')
    simp only [Dup.sortKids_eq_map, List.map_map, Function.comp_def]
    have h1 := PointSim.sortT_canon env hR ks m hm
      (fun n hn x hx => hcl x ((mem_tags_toDupL env ks x).mpr ⟨n, hn, hx⟩))
      (fun n hn x hx => hcl' x ((mem_tags_toDupL env ks' x).mpr ⟨n, hp.mem_iff.mp hn, hx⟩))
    rw [h1]
    rw [toDupL_eq_map, toDupL_eq_map, List.map_map, List.map_map]
    exact hp.map _
theorem PointSim.sortT_canon (env : Env) (hR : ∀ t t', R t t' → Core t t') : ∀ (l m : List RNode), PointSim R l m →
    (∀ n ∈ l, ∀ x ∈ Dup.tags (toDup env n), CleanStr x.key) → (∀ n ∈ m, ∀ x ∈ Dup.tags (toDup env n), CleanStr x.key) →
    (toDupL env l).map (fun c => Dup.canon (Dup.sortT Dup.ltNew c)) =
      (toDupL env m).map (fun c => Dup.canon (Dup.sortT Dup.ltNew c))
  | [], [], _, _, _ => rfl
  | k :: ks, k' :: ms, h, hc, hc' => by
    simp only [toDupL, List.map_cons, List.cons.injEq]
    exact ⟨NodeSim.sortT_canon env hR k k' h.1 (hc k (by simp)) (hc' k' (by simp)),
      PointSim.sortT_canon env hR ks ms h.2 (fun n hn => hc n (by simp [hn])) (fun n hn => hc' n (by simp [hn]))⟩
  | [], _ :: _, h, _, _ => by simp [PointSim] at h
  | _ :: _, [], h, _, _ => by simp [PointSim] at h
end

theorem ForestSim.sortedView_canon (env : Env) (hR : ∀ t t', R t t' → Core t t') {l l' : List RNode}
    (h : ForestSim R l l') (hc : ∀ x ∈ Dup.tagsL (toDupL env l), CleanStr x.key)
    (hc' : ∀ x ∈ Dup.tagsL (toDupL env l'), CleanStr x.key) :
    Dup.canonL (Dup.sortedView (toDupL env l)) = Dup.canonL (Dup.sortedView (toDupL env l')) := by
  have := NodeSim.sortT_canon env hR (.group (0, 0) l) (.group (0, 0) l') (by simpa [NodeSim, ForestSim] using h)
    (by simpa [toDup, Dup.tags] using hc) (by simpa [toDup, Dup.tags] using hc')
  simpa [toDup, Dup.sortT, Dup.canon, Dup.sortedView] using this

end simdup

/-! the loop -/

theorem errCodes_repeatIssue (c : RNode) :
    errCodes [repeatIssue c] = [dupCode (if isTagNode c then .tag else .grp)] := by
  cases c <;> simp [repeatIssue, errCodes, errors, codes, Issue.isError, tagIssue, Issue.plain, Kind.sev, sevWarning,
    isTagNode, dupCode, sev_HED_TAG_REPEATED, sev_HED_TAG_REPEATED_GROUP]

mutual
theorem dupNode_eq (env : Env) (hv : env.var.eqFold = true) : ∀ (n : RNode),
    errCodes (dupNode env n) = (Dup.dupT Dup.teq (toDup env n)).map (fun i => dupCode i.kind)
  | .tag _ => by simp [dupNode, toDup, Dup.dupT, errCodes, errors, codes]
  | .group _ ks => by simpa [dupNode, toDup, Dup.dupT] using dupList_eq env hv none ks
theorem dupList_eq (env : Env) (hv : env.var.eqFold = true) : ∀ (prev : Option RNode) (l : List RNode),
    errCodes (dupList env prev l) =
      (Dup.dupL Dup.teq (prev.map (toDup env)) (toDupL env l)).map (fun i => dupCode i.kind)
  | _, [] => by simp [dupList, toDupL, Dup.dupL, errCodes, errors, codes]
  | prev, c :: cs => by
    have e1 : eqPrev env prev c = Dup.eqPrev Dup.teq (prev.map (toDup env)) (toDup env c) := by
      cases prev with
      | none => rfl
      | some p => simp [eqPrev, Dup.eqPrev, nodeEq_eq env hv]
    simp only [dupList, toDupL, Dup.dupL, errCodes_append, List.map_append, dupNode_eq env hv c,
      dupList_eq env hv (some c) cs, e1, Option.map_some]
    congr 1
    congr 1
    split
    · rw [errCodes_repeatIssue]
      simp [Dup.issueOf, isTag_toDup]
    · rfl
end


/-- **Model equivalence (duplicate rule).** On the canonical variant (the code after the C04 fixes) the
duplicate issues of `Model/Validate.lean` are those of `Model/Dup.lean`. -/
theorem dupIssues_eq (env : Env) (hs : env.var.sortCanonical = true) (he : env.var.eqFold = true)
    {P : Dup.Tag → Prop} (hP : Adm P) (root : List RNode) (hall : ∀ x ∈ Dup.tagsL (toDupL env root), P x) :
    errCodes (dupIssues env root) = (Dup.issues (toDupL env root)).map (fun i => dupCode i.kind) := by
  unfold dupIssues Dup.issues
  rw [dupList_eq env he none]
  congr 1
  apply Dup.dupL_congr hP _ _ none none
  · intro x hx
    have := (tags_sortNode env (.group (0, 0) root) x).mp (by simpa [sortNode, toDup, Dup.tags, Validate.sortedView] using hx)
    exact hall x (by simpa [toDup, Dup.tags] using this)
  · intro x hx
    exact hall x ((Dup.tags_sortedView Dup.ltNew _ x).mp hx)
  · simp
  · simp
  · rfl
  · exact sortedView_canon env hs root (fun x hx => hP.clean x (hall x hx))

theorem dupIssues_sim {R : RTag → RTag → Prop} (env : Env) (hR : ∀ t t', R t t' → Core t t')
    (hs : env.var.sortCanonical = true) (he : env.var.eqFold = true)
    {P : Dup.Tag → Prop} (hP : Adm P) {l l' : List RNode} (h : ForestSim R l l')
    (hall : ∀ x ∈ Dup.tagsL (toDupL env l), P x) (hall' : ∀ x ∈ Dup.tagsL (toDupL env l'), P x) :
    errCodes (dupIssues env l) = errCodes (dupIssues env l') := by
  rw [dupIssues_eq env hs he hP l hall, dupIssues_eq env hs he hP l' hall']
  congr 1
  unfold Dup.issues
  apply Dup.dupL_congr hP _ _ none none
  · exact fun x hx => hall x ((Dup.tags_sortedView Dup.ltNew _ x).mp hx)
  · exact fun x hx => hall' x ((Dup.tags_sortedView Dup.ltNew _ x).mp hx)
  · simp
  · simp
  · rfl
  · exact h.sortedView_canon env hR (fun x hx => hP.clean x (hall x hx)) (fun x hx => hP.clean x (hall' x hx))

end bridge
/-! ### `validate_duration_tags` -/

section duration
variable {R : RTag → RTag → Prop} {env : Env}

theorem ForestSim.directTags_length {l l' : List RNode} (h : ForestSim R l l') :
    (directTags l).length = (directTags l').length := by
  have := h.directTags_count (fun _ => true) (fun _ => true) (fun _ _ _ => rfl)
  rwa [List.filter_eq_self.mpr (fun _ _ => rfl), List.filter_eq_self.mpr (fun _ _ => rfl)] at this

theorem ForestSim.directGroups_length {l l' : List RNode} (h : ForestSim R l l') :
    (directGroups l).length = (directGroups l').length := by
  have := (h.flatMap_perm (fun k => (directGroupsOf k).map fun _ => ()) (fun k => (directGroupsOf k).map fun _ => ())
    (fun k _ k' _ hk => by cases k <;> cases k' <;> simp_all [NodeSim, directGroupsOf])).length_eq
  simpa [directGroups_eq, List.length_flatMap] using this

theorem ForestSim.directTags_any (p p' : RTag → Bool) (hp : ∀ t t', R t t' → p t = p' t')
    {l l' : List RNode} (h : ForestSim R l l') : (directTags l).any p = (directTags l').any p' := by
  have := h.directTags_count p p' hp
  rw [Bool.eq_iff_iff]
  simp only [List.any_eq_true]
  constructor
  · rintro ⟨t, ht, hpt⟩
    have : 0 < ((directTags l').filter p').length := by
      rw [← this]; exact List.length_pos_of_mem (List.mem_filter.mpr ⟨ht, hpt⟩)
    obtain ⟨t', ht'⟩ := List.exists_mem_of_length_pos this
    exact ⟨t', (List.mem_filter.mp ht').1, (List.mem_filter.mp ht').2⟩
  · rintro ⟨t, ht, hpt⟩
    have : 0 < ((directTags l).filter p).length := by
      rw [this]; exact List.length_pos_of_mem (List.mem_filter.mpr ⟨ht, hpt⟩)
    obtain ⟨t', ht'⟩ := List.exists_mem_of_length_pos this
    exact ⟨t', (List.mem_filter.mp ht').1, (List.mem_filter.mp ht').2⟩

/-- the body of `validate_duration_tags` for one anchored group, as codes -/
def durBody (env : Env) (kids : List RNode) : List Str :=
  let tl := ((tagsList kids).filter fun t => (baseAttr env t).topLevelTagGroup).map (shortBase env)
  if tl.any (temporalKeys.contains ·) then []
  else if tl.length != (directTags kids).length then
    ((directTags kids).filter fun t => !tl.contains (shortBase env t)).flatMap fun t => errCodes [tagIssue .durationOtherTags t]
  else if (directGroups kids).length != 1 then errCodes [Issue.plain .durationWrongGroups]
  else []

def durNode (env : Env) : RNode → List Str
  | .tag _ => []
  | .group _ kids =>
    if (directTags kids).any (fun t => (durationKeys.map fold).contains (fold (shortBase env t))) then durBody env kids else []

theorem durationIssues_eq (env : Env) (root : List RNode) :
    errCodes (durationIssues env root) = root.flatMap (durNode env) := by
  unfold durationIssues topLevelAnchored
  induction root with
  | nil => rfl
  | cons k ks ih =>
    cases k with
    | tag t => simpa [directGroups, durNode] using ih
    | group s kids =>
      simp only [directGroups, List.filterMap_cons, List.flatMap_cons, durNode]
      cases hf : (directTags kids).find? fun t => (durationKeys.map fold).contains (fold (shortBase env t)) with
      | none =>
        have : (directTags kids).any (fun t => (durationKeys.map fold).contains (fold (shortBase env t))) = false := by
          rw [List.find?_eq_none] at hf
          simpa [List.any_eq_false] using hf
        simp only [Option.map_none, this, Bool.false_eq_true, ↓reduceIte, List.nil_append]
        exact ih
      | some top =>
        have : (directTags kids).any (fun t => (durationKeys.map fold).contains (fold (shortBase env t))) = true := by
          rw [List.any_eq_true]
          exact ⟨top, List.mem_of_find?_eq_some hf, by simpa using List.find?_some hf⟩
        simp only [Option.map_some, List.flatMap_cons, errCodes_append, this, ↓reduceIte, ih]
        congr 1
        unfold durBody
        simp only
        split
        · rfl
        · split
          · rw [filter_map_eq_flatMap, errCodes_flatMap, filter_flatMap]
            congr 1
            funext t
            split <;> rfl
          · split
            · exact errCodes_of_sigs (by simp)
            · rfl

theorem durBody_sim (hR : ∀ t t', R t t' → Core t t') {l l' : List RNode} (h : ForestSim R l l') :
    (durBody env l).Perm (durBody env l') := by
  have htl : (((tagsList l).filter fun t => (baseAttr env t).topLevelTagGroup).map (shortBase env)).Perm
      (((tagsList l').filter fun t => (baseAttr env t).topLevelTagGroup).map (shortBase env)) := by
    rw [filter_map_eq_flatMap, filter_map_eq_flatMap]
    apply h.tags_flatMap
    intro t t' htt
    rw [(hR t t' htt).baseAttr, (hR t t' htt).shortBase]
  unfold durBody
  simp only
  have hany : ∀ p : Str → Bool, (((tagsList l).filter fun t => (baseAttr env t).topLevelTagGroup).map (shortBase env)).any p =
      (((tagsList l').filter fun t => (baseAttr env t).topLevelTagGroup).map (shortBase env)).any p := by
    intro p
    rw [Bool.eq_iff_iff]
    simp only [List.any_eq_true]
    constructor <;> rintro ⟨x, hx, hp⟩
    · exact ⟨x, htl.mem_iff.mp hx, hp⟩
    · exact ⟨x, htl.mem_iff.mpr hx, hp⟩
  have hcont : ∀ x : Str, (((tagsList l).filter fun t => (baseAttr env t).topLevelTagGroup).map (shortBase env)).contains x =
      (((tagsList l').filter fun t => (baseAttr env t).topLevelTagGroup).map (shortBase env)).contains x := by
    intro x
    rw [Bool.eq_iff_iff]
    simp only [List.contains_iff_mem]
    exact htl.mem_iff
  rw [hany, htl.length_eq, h.directTags_length, h.directGroups_length]
  split
  · exact List.Perm.refl _
  · split
    · rw [filter_flatMap, filter_flatMap]
      apply h.directTags_flatMap
      intro t t' htt
      rw [(hR t t' htt).shortBase, hcont]
      split
      · exact List.Perm.of_eq (errCodes_of_sigs (by simp))
      · exact List.Perm.refl _
    · exact List.Perm.refl _

theorem durationIssues_sim (hR : ∀ t t', R t t' → Core t t') {l l' : List RNode} (h : ForestSim R l l') :
    (errCodes (durationIssues env l)).Perm (errCodes (durationIssues env l')) := by
  rw [durationIssues_eq, durationIssues_eq]
  apply h.flatMap_perm
  intro k _ k' _ hk
  cases k with
  | tag t => cases k' <;> simp_all [NodeSim, durNode]
  | group s ks =>
    cases k' with
    | tag t => simp [NodeSim] at hk
    | group s' ks' =>
      have hf : ForestSim R ks ks' := by simpa [NodeSim, ForestSim] using hk
      simp only [durNode]
      have hany := hf.directTags_any (fun t => (durationKeys.map fold).contains (fold (shortBase env t)))
        (fun t => (durationKeys.map fold).contains (fold (shortBase env t)))
        (fun t t' htt => by rw [(hR t t' htt).shortBase])
      rw [hany]
      split
      · exact durBody_sim hR hf
      · exact List.Perm.refl _

end duration
/-! ### `validate_def_tags` -/

section defs
open HedVerif.Dup (Adm CleanStr)
variable {R : RTag → RTag → Prop} {env : Env}

mutual
theorem tags_toDup (env : Env) : ∀ (n : RNode), Dup.tags (toDup env n) = (tagsNode n).map (toDupTag env)
  | .tag _ => by simp [toDup, Dup.tags, tagsNode]
  | .group _ ks => by simp [toDup, Dup.tags, tagsNode, tags_toDupL env ks]
theorem tags_toDupL (env : Env) : ∀ (l : List RNode), Dup.tagsL (toDupL env l) = (tagsList l).map (toDupTag env)
  | [] => rfl
  | k :: ks => by simp [toDupL, Dup.tagsL, tagsList, tags_toDup env k, tags_toDupL env ks]
end

theorem all_toDupL {P : Dup.Tag → Prop} {l : List RNode} (h : ∀ t ∈ tagsList l, P (toDupTag env t)) :
    ∀ x ∈ Dup.tagsL (toDupL env l), P x := by
  intro x hx
  rw [tags_toDupL] at hx
  obtain ⟨t, ht, rfl⟩ := List.mem_map.mp hx
  exact h t ht

theorem defExpansion_core {t t' : RTag} (h : Core t t') : defExpansion env t' = defExpansion env t := by
  simp [defExpansion, h.defLabel, h.defValue]

/-- the comparison of a written Def-expand group with the expansion of its definition -/
theorem defExpand_compare (hR : ∀ t t', R t t' → Core t t') (hs : env.var.sortCanonical = true)
    (he : env.var.eqFold = true) {P : Dup.Tag → Prop} (hP : Adm P) {kids kids' : List RNode} (h : ForestSim R kids kids')
    {t t' : RTag} (htt : Core t t') (rest : List RNode)
    (h1 : ∀ x ∈ tagsList kids, P (toDupTag env x)) (h1' : ∀ x ∈ tagsList kids', P (toDupTag env x))
    (h2 : ∀ x ∈ tagsList (.tag t :: rest), P (toDupTag env x))
    (h2' : ∀ x ∈ tagsList (.tag t' :: rest), P (toDupTag env x)) :
    listEq env (Validate.sortedView env kids) (Validate.sortedView env (.tag t :: rest)) =
      listEq env (Validate.sortedView env kids') (Validate.sortedView env (.tag t' :: rest)) := by
  have key : ∀ (A B : List RNode), (∀ x ∈ tagsList A, P (toDupTag env x)) → (∀ x ∈ tagsList B, P (toDupTag env x)) →
      (listEq env (Validate.sortedView env A) (Validate.sortedView env B) = true ↔
        Dup.canonL (Dup.sortedView (toDupL env A)) = Dup.canonL (Dup.sortedView (toDupL env B))) := by
    intro A B hA hB
    have pA := all_toDupL hA
    have pB := all_toDupL hB
    have qA : ∀ x ∈ Dup.tagsL (toDupL env (Validate.sortedView env A)), P x := by
      intro x hx
      have := (tags_sortNode env (.group (0, 0) A) x).mp (by simpa [sortNode, toDup, Dup.tags, Validate.sortedView] using hx)
      exact pA x (by simpa [toDup, Dup.tags] using this)
    have qB : ∀ x ∈ Dup.tagsL (toDupL env (Validate.sortedView env B)), P x := by
      intro x hx
      have := (tags_sortNode env (.group (0, 0) B) x).mp (by simpa [sortNode, toDup, Dup.tags, Validate.sortedView] using hx)
      exact pB x (by simpa [toDup, Dup.tags] using this)
    rw [listEq_eq env he, Dup.eqvL_iff hP _ _ qA qB,
      sortedView_canon env hs A (fun x hx => hP.clean x (pA x hx)),
      sortedView_canon env hs B (fun x hx => hP.clean x (pB x hx))]
  rw [Bool.eq_iff_iff, key _ _ h1 h2, key _ _ h1' h2',
    h.sortedView_canon env hR (fun x hx => hP.clean x (all_toDupL h1 x hx)) (fun x hx => hP.clean x (all_toDupL h1' x hx))]
  have : Dup.canonL (Dup.sortedView (toDupL env (.tag t :: rest))) =
      Dup.canonL (Dup.sortedView (toDupL env (.tag t' :: rest))) := by
    have := Dup.sortT_canon_congr (.grp (toDupL env (.tag t :: rest))) (.grp (toDupL env (.tag t' :: rest)))
      (by simpa [Dup.tags] using fun x hx => hP.clean x (all_toDupL h2 x hx))
      (by simpa [Dup.tags] using fun x hx => hP.clean x (all_toDupL h2' x hx))
      (by simp [toDupL, toDup, toDupTag, Dup.canon, Dup.canonL, Dup.ctag, htt.strOf])
    simpa [Dup.sortT, Dup.canon, Dup.sortedView] using this
  rw [this]


theorem defContent_none_core {t t' : RTag} (h : Core t t') :
    errCodes (defContentIssues env t' none) = errCodes (defContentIssues env t none) := by
  unfold defContentIssues
  rw [defExpansion_core h]
  cases defExpansion env t with
  | noEntry => exact errCodes_of_sigs (by simp)
  | mismatch takes => exact errCodes_of_sigs (by simp)
  | ok rest => rfl

theorem defContent_some_sim (hR : ∀ t t', R t t' → Core t t') (hs : env.var.sortCanonical = true)
    (he : env.var.eqFold = true) {P : Dup.Tag → Prop} (hP : Adm P) (hD : DefsOK env P)
    {kids kids' : List RNode} (h : ForestSim R kids kids') {t t' : RTag} (htt : Core t t')
    (h1 : ∀ x ∈ tagsList kids, P (toDupTag env x)) (h1' : ∀ x ∈ tagsList kids', P (toDupTag env x))
    (ht : P (toDupTag env t)) (ht' : P (toDupTag env t')) :
    errCodes (defContentIssues env t (some kids)) = errCodes (defContentIssues env t' (some kids')) := by
  unfold defContentIssues
  rw [defExpansion_core htt]
  cases hx : defExpansion env t with
  | noEntry => exact errCodes_of_sigs (by simp)
  | mismatch takes => exact errCodes_of_sigs (by simp)
  | ok rest =>
    have hrest := hD t rest hx
    simp only
    rw [defExpand_compare hR hs he hP h htt rest h1 h1'
      (by intro x hx; simp only [tagsList, tagsNode, List.cons_append, List.nil_append, List.mem_cons] at hx
          rcases hx with rfl | hx
          · exact ht
          · exact hrest x hx)
      (by intro x hx; simp only [tagsList, tagsNode, List.cons_append, List.nil_append, List.mem_cons] at hx
          rcases hx with rfl | hx
          · exact ht'
          · exact hrest x hx)]
    split
    · exact errCodes_of_sigs (by simp)
    · rfl

def defItem (env : Env) : RNode → List Issue
  | .tag t => if shortBase env t == defKey then defContentIssues env t none else []
  | .group _ kids =>
    ((directTags kids).filter (fun t => shortBase env t == defExpandKey)).flatMap
      (fun t => defContentIssues env t (some kids))

theorem defIssuesOf_eq (env : Env) (l : List RNode) : defIssuesOf env l = l.flatMap (defItem env) := by
  induction l with
  | nil => rfl
  | cons k ks ih => cases k <;> simp [defIssuesOf, defItem, ih]

theorem defIssuesOf_sim (hR : ∀ t t', R t t' → Core t t') (hs : env.var.sortCanonical = true)
    (he : env.var.eqFold = true) {P : Dup.Tag → Prop} (hP : Adm P) (hD : DefsOK env P)
    {l l' : List RNode} (h : ForestSim R l l')
    (h1 : ∀ x ∈ tagsList l, P (toDupTag env x)) (h1' : ∀ x ∈ tagsList l', P (toDupTag env x)) :
    (errCodes (defIssuesOf env l)).Perm (errCodes (defIssuesOf env l')) := by
  rw [defIssuesOf_eq, defIssuesOf_eq, errCodes_flatMap, errCodes_flatMap]
  obtain ⟨m, hm, hp⟩ := h
  have hmP : ∀ x ∈ tagsList m, P (toDupTag env x) := by
    intro x hx
    apply h1' x
    rw [tagsList_eq] at hx ⊢
    exact (hp.flatMap_right _).mem_iff.mp hx
  refine (hm.flatMap_perm _ _ ?_).trans (hp.flatMap_right _)
  intro k hk k' hk' hkk
  have pk : ∀ x ∈ tagsNode k, P (toDupTag env x) := fun x hx => h1 x (by
    rw [tagsList_eq]; exact List.mem_flatMap.mpr ⟨k, hk, hx⟩)
  have pk' : ∀ x ∈ tagsNode k', P (toDupTag env x) := fun x hx => hmP x (by
    rw [tagsList_eq]; exact List.mem_flatMap.mpr ⟨k', hk', hx⟩)
  cases k with
  | tag t =>
    cases k' with
    | group _ _ => simp [NodeSim] at hkk
    | tag t' =>
      have hc := hR t t' hkk
      simp only [defItem, hc.shortBase]
      split
      · exact List.Perm.of_eq (defContent_none_core hc).symm
      · exact List.Perm.refl _
  | group s ks =>
    cases k' with
    | tag _ => simp [NodeSim] at hkk
    | group s' ks' =>
      have hf : ForestSim R ks ks' := by simpa [NodeSim, ForestSim] using hkk
      simp only [defItem, errCodes_flatMap, filter_flatMap, errCodes_ite, errCodes_nil]
      have hmem : ∀ {l0 : List RNode} {x : RTag}, x ∈ directTags l0 → x ∈ tagsList l0 := fun h => C01.directTags_sub _ _ h
      -- a pointwise statement needs the tags' membership: go through the positions
      obtain ⟨m2, hm2, hp2⟩ := hf
      have hstep : ∀ (a b : List RNode), PointSim R a b → (∀ x ∈ directTags a, x ∈ tagsList ks) →
          (∀ x ∈ directTags b, x ∈ tagsList ks') →
          ((directTags a).flatMap fun t => if (shortBase env t == defExpandKey) = true then
              errCodes (defContentIssues env t (some ks)) else []).Perm
            ((directTags b).flatMap fun t => if (shortBase env t == defExpandKey) = true then
              errCodes (defContentIssues env t (some ks')) else []) := by
        intro a
        induction a with
        | nil => intro b hab _ _; cases b <;> simp_all [PointSim, directTags]
        | cons x xs ih =>
          intro b hab ha hb
          cases b with
          | nil => simp [PointSim] at hab
          | cons y ys =>
            obtain ⟨hxy, hrest⟩ := hab
            cases x with
            | group _ _ =>
              cases y with
              | tag _ => simp [NodeSim] at hxy
              | group _ _ =>
                simpa [directTags] using ih ys hrest (fun t ht => ha t (by simpa [directTags] using ht))
                  (fun t ht => hb t (by simpa [directTags] using ht))
            | tag t =>
              cases y with
              | group _ _ => simp [NodeSim] at hxy
              | tag t' =>
                have hc := hR t t' hxy
                simp only [directTags, List.flatMap_cons, hc.shortBase]
                refine List.Perm.append ?_ (ih ys hrest (fun t ht => ha t (by simp [directTags, ht]))
                  (fun t ht => hb t (by simp [directTags, ht])))
                split
                · refine List.Perm.of_eq (defContent_some_sim hR hs he hP hD ⟨m2, hm2, hp2⟩ hc ?_ ?_ ?_ ?_)
                  · exact fun x hx => pk x (by simpa [tagsNode] using hx)
                  · exact fun x hx => pk' x (by simpa [tagsNode] using hx)
                  · exact pk t (by simpa [tagsNode] using ha t (by simp [directTags]))
                  · exact pk' t' (by simpa [tagsNode] using hb t' (by simp [directTags]))
                · exact List.Perm.refl _
      have hperm : (directTags m2).Perm (directTags ks') := by
        rw [directTags_eq, directTags_eq]; exact hp2.flatMap_right _
      refine (hstep ks m2 hm2 (fun x hx => hmem hx) (fun x hx => hmem (hperm.mem_iff.mp hx))).trans ?_
      exact hperm.flatMap_right _



theorem defPhase_sim (hR : ∀ t t', R t t' → Core t t') (hs : env.var.sortCanonical = true)
    (he : env.var.eqFold = true) {P : Dup.Tag → Prop} (hP : Adm P) (hD : DefsOK env P)
    {l l' : List RNode} (h : ForestSim R l l') (len len' : Nat)
    (h1 : ∀ x ∈ tagsList l, P (toDupTag env x)) (h1' : ∀ x ∈ tagsList l', P (toDupTag env x)) :
    (errCodes (defPhase env len l)).Perm (errCodes (defPhase env len' l')) := by
  unfold defPhase
  rw [errCodes_flatMap, errCodes_flatMap]
  apply h.allGroups_flatMap _ _ len len'
  intro g hg g' hg' hgg
  have sub : ∀ (len : Nat) (l : List RNode) (g : GV), g ∈ allGroups len l → ∀ x ∈ tagsList g.kids, x ∈ tagsList l := by
    intro len l g hg x hx
    simp only [allGroups, List.mem_cons] at hg
    rcases hg with rfl | hg
    · exact hx
    · exact C01.groupsList_tags true l g hg x hx
  exact defIssuesOf_sim hR hs he hP hD hgg.2.2 (fun x hx => h1 x (sub len l g hg x hx))
    (fun x hx => h1' x (sub len' l' g' hg' x hx))

end defs

/-! ### phases -/

section phases
open HedVerif.Dup (Adm CleanStr)
variable {R : RTag → RTag → Prop} {env : Env}

/-! #### the definition flag of `_validate_individual_tags_in_hed_string` is positional -/

mutual
theorem groupsNode_isGroup : ∀ (top : Bool) (k : RNode) (g : GV), g ∈ groupsNode top k → g.isGroup = true
  | _, .tag _, _, h => by simp [groupsNode] at h
  | top, .group s ks, g, h => by
    simp only [groupsNode, List.mem_cons] at h
    rcases h with rfl | h
    · rfl
    · exact groupsList_isGroup false ks g h
theorem groupsList_isGroup : ∀ (top : Bool) (l : List RNode) (g : GV), g ∈ groupsList top l → g.isGroup = true
  | _, [], _, h => by simp [groupsList] at h
  | top, k :: ks, g, h => by
    simp only [groupsList, List.mem_append] at h
    rcases h with h | h
    · exact groupsNode_isGroup top k g h
    · exact groupsList_isGroup top ks g h
end

mutual
theorem groupsNode_start : ∀ (top : Bool) (k : RNode) (g : GV), g ∈ groupsNode top k → g.span.1 ∈ rstartsNode k
  | _, .tag _, _, h => by simp [groupsNode] at h
  | top, .group s ks, g, h => by
    simp only [groupsNode, List.mem_cons] at h
    rcases h with rfl | h
    · simp [rstartsNode]
    · simp only [rstartsNode, List.mem_cons]; exact Or.inr (groupsList_start false ks g h)
theorem groupsList_start : ∀ (top : Bool) (l : List RNode) (g : GV), g ∈ groupsList top l → g.span.1 ∈ rstartsList l
  | _, [], _, h => by simp [groupsList] at h
  | top, k :: ks, g, h => by
    simp only [groupsList, List.mem_append] at h
    simp only [rstartsList, List.mem_append]
    rcases h with h | h
    · exact Or.inl (groupsNode_start top k g h)
    · exact Or.inr (groupsList_start top ks g h)
end

theorem rstartsList_eq (l : List RNode) : rstartsList l = l.flatMap rstartsNode := by
  induction l with
  | nil => rfl
  | cons k ks ih => simp [rstartsList, ih]

theorem flatMap_congr' {α β : Type} {l : List α} {f g : α → List β} (h : ∀ x ∈ l, f x = g x) :
    l.flatMap f = l.flatMap g := by
  induction l with
  | nil => rfl
  | cons x xs ih =>
    simp only [List.flatMap_cons, h x (by simp), ih (fun y hy => h y (by simp [hy]))]

/-- a top-level member that is a group holding a `Definition` tag -/
def holdsDefNode (env : Env) : RNode → Bool
  | .tag _ => false
  | .group _ kids => holdsDefinition env kids

theorem definitionSpans_eq (env : Env) (root : List RNode) :
    definitionSpans env root = root.flatMap fun k => if holdsDefNode env k then (groupsNode true k).map (·.span) else [] := by
  unfold definitionSpans
  induction root with
  | nil => rfl
  | cons k ks ih =>
    cases k with
    | tag t => simpa [directGroups, holdsDefNode] using ih
    | group s kids =>
      simp only [directGroups, List.flatMap_cons, holdsDefNode, groupsNode, List.map_cons, ih]

/-- with distinct start positions, "the span is one of the definition spans" says "sits in a top-level group that
holds a Definition" -/
theorem isDefGroup_pos (env : Env) (pre post : List RNode) (k : RNode)
    (hn : (rstartsList (pre ++ k :: post)).Nodup) (g : GV) (hg : g ∈ groupsNode true k) :
    isDefGroup env (pre ++ k :: post) g = holdsDefNode env k := by
  unfold isDefGroup
  rw [groupsNode_isGroup true k g hg, Bool.true_and, definitionSpans_eq, Bool.eq_iff_iff, List.contains_iff_mem]
  rw [rstartsList_eq, List.flatMap_append, List.flatMap_cons] at hn
  have hst := groupsNode_start true k g hg
  constructor
  · intro hm
    obtain ⟨k', hk', hm'⟩ := List.mem_flatMap.mp hm
    by_cases hd : holdsDefNode env k' = true
    · simp only [hd, ↓reduceIte, List.mem_map] at hm'
      obtain ⟨g', hg', hsp⟩ := hm'
      have hst' := groupsNode_start true k' g' hg'
      rw [hsp] at hst'
      rw [List.nodup_append] at hn
      obtain ⟨_, hn2, hdis⟩ := hn
      rw [List.nodup_append] at hn2
      obtain ⟨_, _, hdis2⟩ := hn2
      rcases List.mem_append.mp hk' with hp | hp
      · exact absurd rfl (hdis g.span.1 (List.mem_flatMap.mpr ⟨k', hp, hst'⟩) g.span.1
          (List.mem_append.mpr (Or.inl hst)))
      · rcases List.mem_cons.mp hp with rfl | hp
        · exact hd
        · exact absurd rfl (hdis2 g.span.1 hst g.span.1 (List.mem_flatMap.mpr ⟨k', hp, hst'⟩))
    · simp [hd] at hm'
  · intro hd
    refine List.mem_flatMap.mpr ⟨k, by simp, ?_⟩
    simp only [hd, ↓reduceIte, List.mem_map]
    exact ⟨g, hg, rfl⟩

/-- `_validate_individual_tags_in_hed_string`, flag by position -/
theorem individualPhase_struct (env : Env) (ph : Bool) (len : Nat) (root : List RNode) (hn : (rstartsList root).Nodup) :
    individualPhase env ph len root =
      (directTags root).flatMap (tagSemIssues env ph false) ++
      root.flatMap fun k => (groupsNode true k).flatMap fun g =>
        (directTags g.kids).flatMap (tagSemIssues env ph (holdsDefNode env k)) := by
  unfold individualPhase
  simp only [allGroups, List.flatMap_cons, groupsList_eq, List.flatMap_assoc]
  congr 1
  apply flatMap_congr'
  intro k hk
  obtain ⟨pre, post, rfl⟩ := List.append_of_mem hk
  apply flatMap_congr'
  intro g hg
  rw [isDefGroup_pos env pre post k hn g hg]

theorem holdsDefNode_sim (hR : ∀ t t', R t t' → Core t t') {k k' : RNode} (h : NodeSim R k k') :
    holdsDefNode env k = holdsDefNode env k' := by
  cases k with
  | tag t => cases k' <;> simp_all [NodeSim, holdsDefNode]
  | group s ks =>
    cases k' with
    | tag t => simp [NodeSim] at h
    | group s' ks' =>
      have hf : ForestSim R ks ks' := by simpa [NodeSim, ForestSim] using h
      simp only [holdsDefNode, holdsDefinition]
      exact hf.directTags_any _ _ (fun t t' htt => by rw [(hR t t' htt).shortBase])

theorem individualPhase_sim (hR : ∀ t t', R t t' → Core t t') (ph : Bool) {l l' : List RNode} (h : ForestSim R l l')
    (len len' : Nat) (hn : (rstartsList l).Nodup) (hn' : (rstartsList l').Nodup) :
    (errCodes (individualPhase env ph len l)).Perm (errCodes (individualPhase env ph len' l')) := by
  rw [individualPhase_struct env ph len l hn, individualPhase_struct env ph len' l' hn', errCodes_append, errCodes_append]
  refine List.Perm.append ?_ ?_
  · rw [errCodes_flatMap, errCodes_flatMap]
    exact h.directTags_flatMap _ _ (fun t t' htt => List.Perm.of_eq (tagSemIssues_core (hR t t' htt) ph false).symm)
  · rw [errCodes_flatMap, errCodes_flatMap]
    apply h.flatMap_perm
    intro k _ k' _ hk
    rw [errCodes_flatMap, errCodes_flatMap, holdsDefNode_sim hR hk]
    apply NodeSim.groups_flatMap _ _ true k k' hk
    intro g _ g' _ hgg
    rw [errCodes_flatMap, errCodes_flatMap]
    exact hgg.2.2.directTags_flatMap _ _
      (fun t t' htt => List.Perm.of_eq (tagSemIssues_core (hR t t' htt) ph _).symm)

/-- **the full-string checks** (the rule on Onset/Offset/Inset groups is a premise here) -/
theorem fullPhase_sim (hR : ∀ t t', R t t' → Core t t') (hs : env.var.sortCanonical = true)
    (he : env.var.eqFold = true) {P : Dup.Tag → Prop} (hP : Adm P)
    {l l' : List RNode} (h : ForestSim R l l') (len len' : Nat)
    (h1 : ∀ x ∈ tagsList l, P (toDupTag env x)) (h1' : ∀ x ∈ tagsList l', P (toDupTag env x))
    (honset : (errCodes (onsetIssues env l)).Perm (errCodes (onsetIssues env l'))) :
    (errCodes (fullPhase env len l)).Perm (errCodes (fullPhase env len' l')) := by
  unfold fullPhase
  simp only [errCodes_append]
  rw [requiredIssues_sim hR h, uniqueIssues_sim hR h, errCodes_flatMap, errCodes_flatMap,
    dupIssues_sim env hR hs he hP h (all_toDupL h1) (all_toDupL h1')]
  refine (((((List.Perm.refl _).append (List.Perm.refl _)).append ?_).append (List.Perm.refl _)).append
    (durationIssues_sim hR h)).append honset
  exact h.allGroups_flatMap _ _ len len' (fun g _ g' _ hgg => groupIssues_sim hR hgg)


/-! #### "n/a", the second canonicalisation pass -/

theorem strList_na (env : Env) (l : List RNode) :
    strList env l = ['n', '/', 'a'] ↔ ∃ t, l = [.tag t] ∧ strOf env t = ['n', '/', 'a'] := by
  constructor
  · intro h
    match l, h with
    | [], h => simp [strList] at h
    | [.tag t], h => exact ⟨t, rfl, by simpa [strList, strNode] using h⟩
    | [.group _ _], h => simp [strList, strNode] at h
    | n :: m :: ns, h =>
      have : ',' ∈ strList env (n :: m :: ns) := by simp [strList]
      rw [h] at this
      simp at this
  · rintro ⟨t, rfl, h⟩
    simpa [strList, strNode] using h

theorem isNA_sim (hR : ∀ t t', R t t' → Core t t') {l l' : List RNode} (h : ForestSim R l l') :
    isNA env l = isNA env l' := by
  obtain ⟨m, hm, hp⟩ := h
  unfold isNA
  rw [Bool.eq_iff_iff, beq_iff_eq, beq_iff_eq, strList_na, strList_na]
  constructor
  · rintro ⟨t, rfl, ht⟩
    match m, hm with
    | [.tag t'], hm =>
      have hc := hR t t' (by simpa [PointSim, NodeSim] using hm)
      have : l' = [.tag t'] := by simpa using hp.symm
      exact ⟨t', this, by rw [hc.strOf]; exact ht⟩
    | [.group _ _], hm => simp [PointSim, NodeSim] at hm
    | [], hm => simp [PointSim] at hm
    | _ :: _ :: _, hm => simp [PointSim] at hm
  · rintro ⟨t', rfl, ht'⟩
    have hm' : m = [.tag t'] := by simpa using hp
    subst hm'
    match l, hm with
    | [.tag t], hm =>
      have hc := hR t t' (by simpa [PointSim, NodeSim] using hm)
      exact ⟨t, rfl, by rw [← hc.strOf]; exact ht'⟩
    | [.group _ _], hm => simp [PointSim, NodeSim] at hm
    | [], hm => simp [PointSim] at hm
    | _ :: _ :: _, hm => simp [PointSim] at hm

theorem recanonList_map (env : Env) (l : List RNode) :
    (recanonList env l).1 = l.map (fun n => (recanonNode env n).1) := by
  induction l with
  | nil => rfl
  | cons k ks ih => simp [recanonList, ih]

mutual
theorem NodeSim.recanon (hrec : ∀ t t', R t t' → R (canon env t).1 (canon env t').1) : ∀ (k k' : RNode),
    NodeSim R k k' → NodeSim R (recanonNode env k).1 (recanonNode env k').1
  | .tag t, .tag t', h => by simpa [recanonNode, NodeSim] using hrec t t' h
  | .tag _, .group _ _, h => by simp [NodeSim] at h
  | .group _ _, .tag _, h => by simp [NodeSim] at h
  | .group _ ks, .group _ ks', h => by
    obtain ⟨m, hm, hp⟩ := h
    simp only [recanonNode, NodeSim]
    refine ⟨(recanonList env m).1, PointSim.recanon hrec ks m hm, ?_⟩
    rw [recanonList_map, recanonList_map]
    exact hp.map _
theorem PointSim.recanon (hrec : ∀ t t', R t t' → R (canon env t).1 (canon env t').1) : ∀ (l m : List RNode),
    PointSim R l m → PointSim R (recanonList env l).1 (recanonList env m).1
  | [], [], _ => by simp [recanonList, PointSim]
  | k :: ks, k' :: ms, h => by
    simp only [recanonList, PointSim]
    exact ⟨NodeSim.recanon hrec k k' h.1, PointSim.recanon hrec ks ms h.2⟩
  | [], _ :: _, h => by simp [PointSim] at h
  | _ :: _, [], h => by simp [PointSim] at h
end

theorem ForestSim.recanon (hrec : ∀ t t', R t t' → R (canon env t).1 (canon env t').1) {l l' : List RNode}
    (h : ForestSim R l l') : ForestSim R (recanonList env l).1 (recanonList env l').1 := by
  obtain ⟨m, hm, hp⟩ := h
  refine ⟨(recanonList env m).1, PointSim.recanon hrec l m hm, ?_⟩
  rw [recanonList_map, recanonList_map]
  exact hp.map _


theorem parse_wf (env : Env) (text : Str) : ParsedWF env (parse env text) := ⟨rfl, rfl⟩

end phases

theorem canon_span (env : Env) (t : RTag) : (canon env t).1.span = t.span := by
  unfold canon
  split
  · rfl
  · simp only
    cases Schema.find env.vocab fold (List.drop t.ns.length (strOf env t)) <;> rfl

theorem rstarts_recanon (env : Env) : ∀ (l : List RNode), rstartsList (recanonList env l).1 = rstartsList l := by
  have hc : ∀ t : RTag, (canon env t).1.span = t.span := canon_span env
  have key : (∀ k : RNode, rstartsNode (recanonNode env k).1 = rstartsNode k) ∧
      (∀ l : List RNode, rstartsList (recanonList env l).1 = rstartsList l) := by
    exact ⟨fun k => goN hc k, fun l => goL hc l⟩
  exact key.2
where
  goN (hc : ∀ t : RTag, (canon env t).1.span = t.span) : ∀ k : RNode, rstartsNode (recanonNode env k).1 = rstartsNode k
    | .tag t => by simp [recanonNode, rstartsNode, hc]
    | .group s ks => by simp [recanonNode, rstartsNode, goL hc ks]
  goL (hc : ∀ t : RTag, (canon env t).1.span = t.span) : ∀ l : List RNode, rstartsList (recanonList env l).1 = rstartsList l
    | [] => rfl
    | k :: ks => by simp [recanonList, rstartsList, goN hc k, goL hc ks]

/-! ### the rule on Onset/Offset/Inset groups (`validate_onset_offset`) -/

/-- the one code of the rule -/
def tcode : Str := val_TEMPORAL_TAG_ERROR

theorem errCodes_onset_kind (k : Kind) (t : RTag)
    (hk : k = .onsetNoDef ∨ k = .onsetWrongNumberGroups ∨ k = .onsetTagOutsideGroup ∨ k = .onsetTooManyDefs) :
    errCodes [tagIssue k t] = [tcode] := by
  rcases hk with rfl | rfl | rfl | rfl <;> rfl

/-- how many issues the rule reports for one anchored group, the check of the definition itself aside -/
def onsetCount (env : Env) (onset : RTag) (kids : List RNode) : Nat :=
  match defItemsOf env kids with
  | [] => 1
  | [(_, dspan)] =>
    let children := kids.filter fun c => nodeSpan c != dspan && nodeSpan c != onset.span
    let children := children.filter fun c => match c with
      | .tag t => shortBase env t != delayKey
      | .group _ _ => true
    if children.length > (if shortBase env onset == offsetKey then 0 else 1) then 1
    else (match children with
      | .tag _ :: _ => 1
      | _ => 0)
  | _ :: _ :: _ => 1

theorem onsetGroup_codes (env : Env) (onset : RTag) (kids : List RNode)
    (hdef : ∀ it ∈ defItemsOf env kids, onsetDefIssues env it.1 = []) :
    errCodes (onsetGroupIssues env onset kids) = List.replicate (onsetCount env onset kids) tcode := by
  unfold onsetGroupIssues onsetCount
  cases hd : defItemsOf env kids with
  | nil => exact errCodes_onset_kind _ _ (Or.inl rfl)
  | cons it rest =>
    obtain ⟨dt, dspan⟩ := it
    cases rest with
    | cons it2 rest2 => exact errCodes_onset_kind _ _ (Or.inr (Or.inr (Or.inr rfl)))
    | nil =>
      have h0 : onsetDefIssues env dt = [] := hdef (dt, dspan) (by simp [hd])
      simp only [h0, List.append_nil]
      generalize (List.filter (fun c => match c with
        | RNode.tag t => shortBase env t != delayKey
        | RNode.group _ _ => true) (List.filter (fun c => nodeSpan c != dspan && nodeSpan c != onset.span) kids)) = ch
      generalize (if (shortBase env onset == offsetKey) = true then 0 else 1) = lim
      by_cases hgt : ch.length > lim
      · simp only [hgt, ↓reduceIte]
        exact errCodes_onset_kind _ _ (Or.inr (Or.inl rfl))
      · simp only [hgt, ↓reduceIte]
        cases ch with
        | nil => rfl
        | cons c cs =>
          cases c with
          | tag t => exact errCodes_onset_kind _ _ (Or.inr (Or.inr (Or.inl rfl)))
          | group _ _ => rfl


/-! list bookkeeping -/

theorem eq_of_nodup_map {α β : Type} (f : α → β) : ∀ (l : List α), (l.map f).Nodup → ∀ x ∈ l, ∀ y ∈ l, f x = f y → x = y
  | [], _, _, hx, _, _, _ => by simp at hx
  | a :: l, hn, x, hx, y, hy, h => by
    rw [List.map_cons, List.nodup_cons] at hn
    rcases List.mem_cons.mp hx with rfl | hx' <;> rcases List.mem_cons.mp hy with rfl | hy'
    · rfl
    · exact absurd (List.mem_map.mpr ⟨y, hy', h.symm⟩) hn.1
    · exact absurd (List.mem_map.mpr ⟨x, hx', h⟩) hn.1
    · exact eq_of_nodup_map f l hn.2 x hx' y hy' h

theorem countP_eq_one_of_unique {α : Type} (p : α → Bool) : ∀ (l : List α) (x : α), l.Nodup → x ∈ l → p x = true →
    (∀ y ∈ l, p y = true → y = x) → l.countP p = 1
  | [], _, _, hx, _, _ => by simp at hx
  | a :: l, x, hn, hx, hp, hu => by
    rw [List.nodup_cons] at hn
    rcases List.mem_cons.mp hx with rfl | hx'
    · have : l.countP p = 0 := by
        rw [List.countP_eq_zero]
        intro y hy hpy
        have := hu y (by simp [hy]) (by simpa using hpy)
        exact hn.1 (this ▸ hy)
      simp [List.countP_cons, hp, this]
    · have ha : p a = false := by
        cases h : p a with
        | false => rfl
        | true => exact absurd (hu a (by simp) h ▸ hx') hn.1
      simp only [List.countP_cons, ha, Bool.false_eq_true, ↓reduceIte, Nat.add_zero]
      exact countP_eq_one_of_unique p l x hn.2 hx' hp (fun y hy => hu y (by simp [hy]))

theorem nodup_of_nodup_map {α β : Type} (f : α → β) {l : List α} (h : (l.map f).Nodup) : l.Nodup := by
  induction l with
  | nil => simp
  | cons a l ih =>
    rw [List.map_cons, List.nodup_cons] at h
    rw [List.nodup_cons]
    exact ⟨fun hm => h.1 (List.mem_map.mpr ⟨a, hm, rfl⟩), ih h.2⟩

/-- a list split into four classes, element by element -/
theorem length_four {α : Type} (q p1 p2 p3 : α → Bool) : ∀ (l : List α),
    (∀ x ∈ l, (q x).toNat + (p1 x).toNat + (p2 x).toNat + (p3 x).toNat = 1) →
    l.length = l.countP q + l.countP p1 + l.countP p2 + l.countP p3
  | [], _ => rfl
  | a :: l, h => by
    have ih := length_four q p1 p2 p3 l (fun x hx => h x (by simp [hx]))
    have ha := h a (by simp)
    simp only [List.length_cons, List.countP_cons, ih]
    cases hq : q a <;> cases h1 : p1 a <;> cases h2 : p2 a <;> cases h3 : p3 a <;>
      simp [hq, h1, h2, h3] at ha ⊢ <;> omega

section onset
variable {env : Env}

def startOf (c : RNode) : Nat := (nodeSpan c).1

def isDelayNode (env : Env) : RNode → Bool
  | .tag t => shortBase env t == delayKey
  | .group _ _ => false

def anchorP (env : Env) (t : RTag) : Bool := (temporalKeys.map fold).contains (fold (shortBase env t))

def defItemsNode (env : Env) : RNode → List (RTag × (Nat × Nat))
  | .tag t => if shortBase env t == defKey then [(t, t.span)] else []
  | .group s kids => ((directTags kids).filter (fun t => shortBase env t == defExpandKey)).map (fun t => (t, s))

theorem defItemsOf_eq (env : Env) (l : List RNode) : defItemsOf env l = l.flatMap (defItemsNode env) := by
  induction l with
  | nil => rfl
  | cons k ks ih => cases k <;> simp [defItemsOf, defItemsNode, ih]

theorem anchor_not_delay {t : RTag} (h : anchorP env t = true) : (shortBase env t == delayKey) = false := by
  cases hx : shortBase env t == delayKey with
  | false => rfl
  | true =>
    rw [beq_iff_eq] at hx
    rw [anchorP, hx] at h
    exact absurd h (by decide)

theorem anchor_not_def {t : RTag} (h : anchorP env t = true) : (shortBase env t == defKey) = false := by
  cases hx : shortBase env t == defKey with
  | false => rfl
  | true =>
    rw [beq_iff_eq] at hx
    rw [anchorP, hx] at h
    exact absurd h (by decide)

theorem mem_directTags {l : List RNode} {t : RTag} : t ∈ directTags l ↔ RNode.tag t ∈ l := by
  induction l with
  | nil => simp [directTags]
  | cons k ks ih => cases k <;> simp [directTags, ih]

/-- the node a definition item stands for -/
theorem defItem_node {kids : List RNode} {dt : RTag} {dspan : Nat × Nat} (h : (dt, dspan) ∈ defItemsOf env kids) :
    ∃ x ∈ kids, nodeSpan x = dspan ∧ isDelayNode env x = false ∧
      ((x = .tag dt ∧ (shortBase env dt == defKey) = true) ∨ isTagNode x = false) := by
  rw [defItemsOf_eq] at h
  obtain ⟨x, hx, hm⟩ := List.mem_flatMap.mp h
  refine ⟨x, hx, ?_⟩
  cases x with
  | tag t =>
    simp only [defItemsNode] at hm
    split at hm
    · rename_i hd
      simp only [List.mem_singleton, Prod.mk.injEq] at hm
      obtain ⟨rfl, rfl⟩ := hm
      refine ⟨rfl, ?_, Or.inl ⟨rfl, hd⟩⟩
      simp only [isDelayNode]
      rw [beq_iff_eq] at hd
      rw [hd]; decide
    · simp at hm
  | group s ks =>
    simp only [defItemsNode, List.mem_map] at hm
    obtain ⟨t, _, he⟩ := hm
    simp only [Prod.mk.injEq] at he
    exact ⟨he.2, rfl, Or.inr rfl⟩

end onset

section onset2
variable {env : Env}

theorem defTag_item {kids : List RNode} {t : RTag} (ht : t ∈ directTags kids) (hd : (shortBase env t == defKey) = true) :
    (t, t.span) ∈ defItemsOf env kids := by
  rw [defItemsOf_eq]
  exact List.mem_flatMap.mpr ⟨.tag t, mem_directTags.mp ht, by simp [defItemsNode, hd]⟩

theorem directTags_filter_nodes (p : RTag → Bool) (kids : List RNode) :
    ((directTags kids).filter p).map (fun t => RNode.tag t) =
      kids.filter fun c => match c with | .tag t => p t | .group _ _ => false := by
  induction kids with
  | nil => rfl
  | cons k ks ih =>
    cases k with
    | tag t => by_cases h : p t = true <;> simp [directTags, List.filter_cons, h, ih]
    | group s g => simpa [directTags, List.filter_cons] using ih

/-- the members left over once the Def, the anchor and the Delay tags are set aside: how many, and how many tags -/
theorem children_counts {kids : List RNode} (hN : (kids.map startOf).Nodup) {dt : RTag} {dspan : Nat × Nat}
    (hitems : defItemsOf env kids = [(dt, dspan)]) {onset : RTag} (honset : onset ∈ directTags kids)
    (ha : anchorP env onset = true) :
    let ch := (kids.filter fun c => nodeSpan c != dspan && nodeSpan c != onset.span).filter fun c => match c with
      | .tag t => shortBase env t != delayKey
      | .group _ _ => true
    ch.length + 2 + kids.countP (isDelayNode env) = kids.length ∧
    ch.countP isTagNode + ((directTags kids).filter fun t => shortBase env t == defKey).length + 1 +
      kids.countP (isDelayNode env) = kids.countP isTagNode := by
  intro ch
  obtain ⟨x, hx, hxs, hxd, hxk⟩ := defItem_node (env := env) (kids := kids) (dt := dt) (dspan := dspan) (by simp [hitems])
  have hy : RNode.tag onset ∈ kids := mem_directTags.mp honset
  have hnd := nodup_of_nodup_map startOf hN
  have uniq : ∀ c ∈ kids, ∀ z ∈ kids, nodeSpan c = nodeSpan z → c = z :=
    fun c hc z hz h => eq_of_nodup_map startOf kids hN c hc z hz (by simp [startOf, h])
  have hxy : x ≠ RNode.tag onset := by
    intro h
    rcases hxk with ⟨h1, h2⟩ | h1
    · rw [h] at h1
      simp only [RNode.tag.injEq] at h1
      rw [← h1, anchor_not_def ha] at h2
      cases h2
    · rw [h] at h1; simp [isTagNode] at h1
  let P1 : RNode → Bool := fun c => nodeSpan c == dspan
  let P2 : RNode → Bool := fun c => nodeSpan c == onset.span
  let Q : RNode → Bool := fun c => (nodeSpan c != dspan && nodeSpan c != onset.span) && !isDelayNode env c
  have hB : ∀ c : RNode, (match c with | .tag t => shortBase env t != delayKey | .group _ _ => true) = !isDelayNode env c := by
    intro c; cases c <;> simp [isDelayNode, bne]
  have hch : ch = kids.filter Q := by
    simp only [ch, List.filter_filter, Q]
    congr 1
    funext c
    rw [hB c, Bool.and_comm]
  have hP1 : ∀ c ∈ kids, P1 c = true → c = x := fun c hc h => uniq c hc x hx (by simpa [P1, hxs] using h)
  have hP2 : ∀ c ∈ kids, P2 c = true → c = .tag onset := fun c hc h => uniq c hc _ hy (by simpa [P2, nodeSpan] using h)
  have hyd : isDelayNode env (.tag onset) = false := by simpa [isDelayNode] using anchor_not_delay ha
  have hclass : ∀ c ∈ kids, (Q c).toNat + (P1 c).toNat + (P2 c).toNat + (isDelayNode env c).toNat = 1 := by
    intro c hc
    by_cases h1 : P1 c = true
    · have := hP1 c hc h1
      subst this
      have h2 : P2 c = false := by
        cases h : P2 c with
        | false => rfl
        | true => exact absurd (hP2 c hc h) hxy
      have hq : Q c = false := by simp only [Q, P1] at h1 ⊢; simp [bne, h1]
      simp [h1, h2, hq, hxd]
    · have h1' : P1 c = false := by simpa using h1
      by_cases h2 : P2 c = true
      · have := hP2 c hc h2
        subst this
        have hq : Q (.tag onset) = false := by simp only [Q, P2] at h2 ⊢; simp [bne, h2]
        simp [h1', h2, hq, hyd]
      · have h2' : P2 c = false := by simpa using h2
        have hq : Q c = !isDelayNode env c := by
          simp only [Q, P1, P2] at h1' h2' ⊢
          simp [bne, h1', h2']
        cases hd : isDelayNode env c <;> simp [h1', h2', hq, hd]
  have c1 : kids.countP P1 = 1 := countP_eq_one_of_unique P1 kids x hnd hx (by simp [P1, hxs]) hP1
  have c2 : kids.countP P2 = 1 := countP_eq_one_of_unique P2 kids _ hnd hy (by simp [P2, nodeSpan]) hP2
  have hlen := length_four Q P1 P2 (isDelayNode env) kids hclass
  refine ⟨by rw [hch, ← List.countP_eq_length_filter]; omega, ?_⟩
  -- the same among the tags
  have hsub : ∀ c ∈ kids.filter isTagNode, c ∈ kids := fun c hc => (List.mem_filter.mp hc).1
  have hlenT := length_four Q P1 P2 (isDelayNode env) (kids.filter isTagNode) (fun c hc => hclass c (hsub c hc))
  have hdel : (kids.filter isTagNode).countP (isDelayNode env) = kids.countP (isDelayNode env) := by
    rw [List.countP_filter]
    congr 1
    funext c
    cases c <;> simp [isDelayNode, isTagNode]
  have c2T : (kids.filter isTagNode).countP P2 = 1 :=
    countP_eq_one_of_unique P2 _ (.tag onset) (hnd.sublist List.filter_sublist)
      (List.mem_filter.mpr ⟨hy, rfl⟩) (by simp [P2, nodeSpan]) (fun c hc => hP2 c (hsub c hc))
  have hq : ch.countP isTagNode = (kids.filter isTagNode).countP Q := by
    rw [hch, List.countP_filter, List.countP_filter]
    congr 1
    funext c
    exact Bool.and_comm _ _
  have c1T : (kids.filter isTagNode).countP P1 = ((directTags kids).filter fun t => shortBase env t == defKey).length := by
    have hle : ((directTags kids).filter fun t => shortBase env t == defKey).length ≤ 1 := by
      have : ∀ t ∈ (directTags kids).filter (fun t => shortBase env t == defKey), t = dt := by
        intro t ht
        obtain ⟨h1, h2⟩ := List.mem_filter.mp ht
        have := defTag_item (env := env) h1 h2
        rw [hitems] at this
        simpa using (Prod.mk.inj (List.mem_singleton.mp this)).1
      -- all members equal and the list duplicate-free would do; count through the nodes instead
      have hinj := directTags_filter_nodes (fun t => shortBase env t == defKey) kids
      have hnd2 : (kids.filter fun c => match c with | .tag t => shortBase env t == defKey | .group _ _ => false).Nodup :=
        hnd.sublist List.filter_sublist
      rw [← hinj] at hnd2
      have hnd3 := nodup_of_nodup_map _ hnd2
      match hl : (directTags kids).filter (fun t => shortBase env t == defKey), this, hnd3 with
      | [], _, _ => simp
      | [_], _, _ => simp
      | a :: b :: r, hall, hn =>
        have ea := hall a (by simp)
        have eb := hall b (by simp)
        rw [ea, eb] at hn
        simp at hn
    rcases hxk with ⟨h1, h2⟩ | h1
    · -- the Def is a tag
      have hm : dt ∈ (directTags kids).filter fun t => shortBase env t == defKey :=
        List.mem_filter.mpr ⟨mem_directTags.mpr (h1 ▸ hx), h2⟩
      have hpos := List.length_pos_of_mem hm
      have : (kids.filter isTagNode).countP P1 = 1 :=
        countP_eq_one_of_unique P1 _ x (hnd.sublist List.filter_sublist)
          (List.mem_filter.mpr ⟨hx, by rw [h1]; rfl⟩) (by simp [P1, hxs]) (fun c hc => hP1 c (hsub c hc))
      omega
    · -- the Def stands in a group: no tag of the group has its span, and no Def tag exists
      have z1 : (kids.filter isTagNode).countP P1 = 0 := by
        rw [List.countP_eq_zero]
        intro c hc hp
        have := hP1 c (hsub c hc) (by simpa using hp)
        rw [this] at hc
        rw [(List.mem_filter.mp hc).2] at h1
        cases h1
      have z2 : ((directTags kids).filter fun t => shortBase env t == defKey).length = 0 := by
        rw [List.length_eq_zero_iff, List.filter_eq_nil_iff]
        intro t ht hd
        have := defTag_item (env := env) ht (by simpa using hd)
        rw [hitems] at this
        have he := Prod.mk.inj (List.mem_singleton.mp this)
        have : RNode.tag t = x := uniq _ (mem_directTags.mp ht) x hx (by rw [hxs]; exact he.2)
        rw [← this] at h1
        simp [isTagNode] at h1
      omega
  rw [← List.countP_eq_length_filter] at hlenT
  omega

end onset2

section onset3
variable {env : Env}

/-- the count of the rule's issues for one top-level group, from numbers that do not depend on the order of its
members: anchors (Onset/Offset/Inset tags), Offset anchors, Def items, members, Delay tags, tags, Def tags -/
def onsF (a aOff d L Dl Tg dT : Nat) : Nat :=
  if a = 0 then 0 else if d ≠ 1 then 1 else if 2 ≤ a then 1 else
    if L - 2 - Dl > (if aOff = 1 then 0 else 1) then 1 else Tg - dT - 1 - Dl

def onsNums (env : Env) (kids : List RNode) : Nat × Nat × Nat × Nat × Nat × Nat × Nat :=
  (((directTags kids).filter (anchorP env)).length,
   ((directTags kids).filter fun t => anchorP env t && shortBase env t == offsetKey).length,
   (defItemsOf env kids).length, kids.length, kids.countP (isDelayNode env), kids.countP isTagNode,
   ((directTags kids).filter fun t => shortBase env t == defKey).length)

def onsNode (env : Env) : RNode → List Issue
  | .tag _ => []
  | .group _ kids =>
    match (directTags kids).find? (anchorP env) with
    | some t => onsetGroupIssues env t kids
    | none => []

theorem onsetIssues_eq (env : Env) (root : List RNode) : onsetIssues env root = root.flatMap (onsNode env) := by
  unfold onsetIssues topLevelAnchored
  induction root with
  | nil => rfl
  | cons k ks ih =>
    cases k with
    | tag t => simpa [directGroups, onsNode] using ih
    | group s kids =>
      have e : anchorP env = fun t => (temporalKeys.map fold).contains (fold (shortBase env t)) := rfl
      simp only [directGroups, List.filterMap_cons, List.flatMap_cons, onsNode]
      rw [e]
      cases hf : (directTags kids).find? fun t => (temporalKeys.map fold).contains (fold (shortBase env t)) with
      | none => simpa using ih
      | some t => simp only [Option.map_some, List.flatMap_cons, ih]

theorem find?_eq_head_filter {α : Type} (p : α → Bool) : ∀ (l : List α), l.find? p = (l.filter p).head?
  | [] => rfl
  | a :: l => by
    by_cases h : p a = true
    · rw [List.find?_cons, List.filter_cons]; simp only [h, ↓reduceIte]; rfl
    · have h' : p a = false := by simpa using h
      rw [List.find?_cons, List.filter_cons]; simp only [h', Bool.false_eq_true, ↓reduceIte]
      exact find?_eq_head_filter p l

theorem countP_tags (kids : List RNode) : kids.countP isTagNode = (directTags kids).length := by
  induction kids with
  | nil => rfl
  | cons k ks ih => cases k <;> simp [directTags, isTagNode, List.countP_cons, ih]

theorem countP_delay (env : Env) (kids : List RNode) :
    kids.countP (isDelayNode env) = ((directTags kids).filter fun t => shortBase env t == delayKey).length := by
  induction kids with
  | nil => rfl
  | cons k ks ih =>
    cases k with
    | tag t => by_cases h : (shortBase env t == delayKey) = true <;> simp [directTags, isDelayNode, List.countP_cons, List.filter_cons, h, ih]
    | group s g => simpa [directTags, isDelayNode, List.countP_cons] using ih

theorem three_filters_le {α : Type} (p q r : α → Bool) (l : List α)
    (h : ∀ x ∈ l, ¬ (p x = true ∧ q x = true) ∧ ¬ (p x = true ∧ r x = true) ∧ ¬ (q x = true ∧ r x = true)) :
    (l.filter p).length + (l.filter q).length + (l.filter r).length ≤ l.length := by
  induction l with
  | nil => simp
  | cons a l ih =>
    have := ih (fun x hx => h x (by simp [hx]))
    have ha := h a (by simp)
    simp only [List.filter_cons, List.length_cons]
    cases hp : p a <;> cases hq : q a <;> cases hr : r a <;> simp_all <;> omega

theorem head_tag_count : ∀ (ch : List RNode), ch.length ≤ 1 →
    (match ch with | .tag _ :: _ => 1 | _ => 0) = ch.countP isTagNode
  | [], _ => rfl
  | [.tag _], _ => rfl
  | [.group _ _], _ => rfl
  | _ :: _ :: _, h => by simp at h

theorem onsetCount_eq {kids : List RNode} (hN : (kids.map startOf).Nodup) {onset : RTag}
    (hfind : (directTags kids).find? (anchorP env) = some onset) :
    onsetCount env onset kids =
      (let n := onsNums env kids; onsF n.1 n.2.1 n.2.2.1 n.2.2.2.1 n.2.2.2.2.1 n.2.2.2.2.2.1 n.2.2.2.2.2.2) := by
  have honset : onset ∈ directTags kids := List.mem_of_find?_eq_some hfind
  have ha : anchorP env onset = true := by simpa using List.find?_some hfind
  have hA : ∃ rest, (directTags kids).filter (anchorP env) = onset :: rest := by
    have : ((directTags kids).filter (anchorP env)).head? = some onset := by
      rw [← find?_eq_head_filter]; exact hfind
    cases hl : (directTags kids).filter (anchorP env) with
    | nil => rw [hl] at this; simp at this
    | cons b r => rw [hl] at this; simp at this; exact ⟨r, by rw [this]⟩
  obtain ⟨rest, hA⟩ := hA
  simp only [onsNums, onsF, hA, List.length_cons]
  have ha0 : ¬ (rest.length + 1 = 0) := by omega
  simp only [ha0, ↓reduceIte]
  unfold onsetCount
  cases hd : defItemsOf env kids with
  | nil => simp
  | cons it r2 =>
    obtain ⟨dt, dspan⟩ := it
    cases r2 with
    | cons _ _ => simp
    | nil =>
      simp only [List.length_singleton, ne_eq, not_true_eq_false, ↓reduceIte]
      obtain ⟨c1, c2⟩ := children_counts (env := env) hN hd honset ha
      generalize hch : (List.filter (fun c => match c with
        | RNode.tag t => shortBase env t != delayKey
        | RNode.group _ _ => true) (List.filter (fun c => nodeSpan c != dspan && nodeSpan c != onset.span) kids)) = ch at c1 c2 ⊢
      have hTm : ch.countP isTagNode ≤ ch.length := List.countP_le_length
      by_cases h2 : 2 ≤ rest.length + 1
      · -- several anchors: the others are tag members, so exactly one issue either way
        simp only [h2, ↓reduceIte]
        have hge : ((directTags kids).filter (anchorP env)).length +
            ((directTags kids).filter fun t => shortBase env t == defKey).length +
            ((directTags kids).filter fun t => shortBase env t == delayKey).length ≤ (directTags kids).length := by
          apply three_filters_le
          intro t _
          refine ⟨?_, ?_, ?_⟩
          · rintro ⟨h1, h2⟩; rw [anchor_not_def h1] at h2; cases h2
          · rintro ⟨h1, h2⟩; rw [anchor_not_delay h1] at h2; cases h2
          · rintro ⟨h1, h2⟩
            rw [beq_iff_eq] at h1 h2
            rw [h1] at h2
            exact absurd h2 (by decide)
        rw [hA, List.length_cons, ← countP_tags, ← countP_delay] at hge
        have hT1 : 1 ≤ ch.countP isTagNode := by omega
        generalize hlim : (if (shortBase env onset == offsetKey) = true then 0 else 1) = lim
        have hlim1 : lim ≤ 1 := by rw [← hlim]; split <;> omega
        by_cases hgt : ch.length > lim
        · simp only [hgt, ↓reduceIte]
        · simp only [hgt, ↓reduceIte]
          rw [head_tag_count ch (by omega)]
          omega
      · have h1 : rest = [] := by
          cases rest with
          | nil => rfl
          | cons _ _ => simp at h2
        subst h1
        simp only [h2, ↓reduceIte]
        have hoff : ((directTags kids).filter fun t => anchorP env t && shortBase env t == offsetKey).length =
            if (shortBase env onset == offsetKey) = true then 1 else 0 := by
          have : ((directTags kids).filter fun t => anchorP env t && shortBase env t == offsetKey) =
              ((directTags kids).filter (anchorP env)).filter (fun t => shortBase env t == offsetKey) := by
            rw [List.filter_filter]; congr 1; funext t; exact Bool.and_comm _ _
          rw [this, hA]
          by_cases ho : (shortBase env onset == offsetKey) = true <;> simp [List.filter_cons, ho]
        rw [hoff]
        have hlim : (if (if (shortBase env onset == offsetKey) = true then 1 else 0) = 1 then 0 else 1) =
            (if (shortBase env onset == offsetKey) = true then 0 else 1) := by
          split <;> simp
        rw [hlim]
        have hm : kids.length - 2 - kids.countP (isDelayNode env) = ch.length := by omega
        rw [hm]
        generalize hlim' : (if (shortBase env onset == offsetKey) = true then 0 else 1) = lim
        have hlim1 : lim ≤ 1 := by rw [← hlim']; split <;> omega
        by_cases hgt : ch.length > lim
        · simp only [hgt, ↓reduceIte]
        · simp only [hgt, ↓reduceIte]
          rw [head_tag_count ch (by omega)]
          omega

end onset3

section onset4
variable {env : Env} {R : RTag → RTag → Prop}

theorem onsNode_codes {s : Nat × Nat} {kids : List RNode} (hN : (kids.map startOf).Nodup)
    (hdef : ∀ it ∈ defItemsOf env kids, onsetDefIssues env it.1 = []) :
    errCodes (onsNode env (.group s kids)) =
      List.replicate (let n := onsNums env kids; onsF n.1 n.2.1 n.2.2.1 n.2.2.2.1 n.2.2.2.2.1 n.2.2.2.2.2.1 n.2.2.2.2.2.2) tcode := by
  simp only [onsNode]
  cases hf : (directTags kids).find? (anchorP env) with
  | none =>
    have : (directTags kids).filter (anchorP env) = [] := by
      rw [List.filter_eq_nil_iff]
      intro t ht
      have := List.find?_eq_none.mp hf t ht
      simpa using this
    simp [onsNums, onsF, this, errCodes]
    rfl
  | some onset =>
    simp only
    rw [onsetGroup_codes env onset kids hdef, onsetCount_eq hN hf]

theorem onsNums_sim (hR : ∀ t t', R t t' → Core t t') {kids kids' : List RNode} (h : ForestSim R kids kids') :
    onsNums env kids = onsNums env kids' := by
  have hd : (defItemsOf env kids).length = (defItemsOf env kids').length := by
    rw [defItemsOf_eq, defItemsOf_eq]
    have := (h.flatMap_perm (fun k => (defItemsNode env k).map fun _ => ()) (fun k => (defItemsNode env k).map fun _ => ())
      (by
        intro k _ k' _ hk
        cases k with
        | tag t =>
          cases k' with
          | group _ _ => simp [NodeSim] at hk
          | tag t' =>
            have hc := hR t t' (by simpa [NodeSim] using hk)
            simp only [defItemsNode, hc.shortBase]
            split <;> exact List.Perm.refl _
        | group s ks =>
          cases k' with
          | tag _ => simp [NodeSim] at hk
          | group s' ks' =>
            have hf : ForestSim R ks ks' := by simpa [NodeSim, ForestSim] using hk
            have := hf.directTags_count (fun t => shortBase env t == defExpandKey) (fun t => shortBase env t == defExpandKey)
              (fun t t' htt => by rw [(hR t t' htt).shortBase])
            simp only [defItemsNode, List.map_map]
            apply List.Perm.of_eq
            apply List.ext_getElem <;> simp [this])).length_eq
    simpa [List.length_flatMap] using this
  unfold onsNums
  rw [hd, h.length_eq, countP_delay, countP_delay, countP_tags, countP_tags, h.directTags_length,
    h.directTags_count (anchorP env) (anchorP env) (fun t t' htt => by simp [anchorP, (hR t t' htt).shortBase]),
    h.directTags_count (fun t => anchorP env t && shortBase env t == offsetKey)
      (fun t => anchorP env t && shortBase env t == offsetKey)
      (fun t t' htt => by simp [anchorP, (hR t t' htt).shortBase]),
    h.directTags_count (fun t => shortBase env t == delayKey) (fun t => shortBase env t == delayKey)
      (fun t t' htt => by rw [(hR t t' htt).shortBase]),
    h.directTags_count (fun t => shortBase env t == defKey) (fun t => shortBase env t == defKey)
      (fun t t' htt => by rw [(hR t t' htt).shortBase])]

/-- the Def and Def-expand tags the rule looks at are declared with the right arity (when they are not, the
definition check of the earlier phase has already reported an error and the rule is not reached) -/
def DefItemsOK (env : Env) (root : List RNode) : Prop :=
  ∀ s kids, RNode.group s kids ∈ root → ∀ it ∈ defItemsOf env kids, onsetDefIssues env it.1 = []

theorem startOf_sublist : ∀ (kids : List RNode), (kids.map startOf).Sublist (rstartsList kids)
  | [] => List.Sublist.slnil
  | c :: cs => by
    have ih := startOf_sublist cs
    cases c with
    | tag t =>
      simp only [List.map_cons, rstartsList, rstartsNode, startOf, nodeSpan, List.cons_append, List.nil_append]
      exact List.Sublist.cons_cons _ ih
    | group s ks =>
      simp only [List.map_cons, rstartsList, rstartsNode, startOf, nodeSpan, List.cons_append]
      exact List.Sublist.cons_cons _ (ih.trans (List.sublist_append_right (rstartsList ks) (rstartsList cs)))

theorem siblings_nodup {root : List RNode} (hn : (rstartsList root).Nodup) {s : Nat × Nat} {kids : List RNode}
    (hk : RNode.group s kids ∈ root) : (kids.map startOf).Nodup := by
  obtain ⟨pre, post, rfl⟩ := List.append_of_mem hk
  rw [rstartsList_eq, List.flatMap_append, List.flatMap_cons] at hn
  have h1 : (rstartsNode (.group s kids)).Nodup :=
    hn.sublist ((List.sublist_append_left _ _).trans (List.sublist_append_right _ _))
  simp only [rstartsNode] at h1
  exact ((List.nodup_cons.mp h1).2).sublist (startOf_sublist kids)

/-- **the Onset/Offset/Inset rule does not depend on the order or the spelling of the members** -/
theorem onsetIssues_sim (hR : ∀ t t', R t t' → Core t t') {l l' : List RNode} (h : ForestSim R l l')
    (hn : (rstartsList l).Nodup) (hn' : (rstartsList l').Nodup) (hd : DefItemsOK env l) (hd' : DefItemsOK env l') :
    (errCodes (onsetIssues env l)).Perm (errCodes (onsetIssues env l')) := by
  rw [onsetIssues_eq, onsetIssues_eq, errCodes_flatMap, errCodes_flatMap]
  apply h.flatMap_perm
  intro k hk k' hk' hkk
  cases k with
  | tag t => cases k' <;> simp_all [NodeSim, onsNode, errCodes, errors, codes]
  | group s ks =>
    cases k' with
    | tag _ => simp [NodeSim] at hkk
    | group s' ks' =>
      have hf : ForestSim R ks ks' := by simpa [NodeSim, ForestSim] using hkk
      rw [onsNode_codes (siblings_nodup hn hk) (hd s ks hk), onsNode_codes (siblings_nodup hn' hk') (hd' s' ks' hk'),
        onsNums_sim hR hf]

end onset4

section crossphase
variable {env : Env}

theorem noError_mem {l : List Issue} (h : hasError l = false) {i : Issue} (hi : i ∈ l) : i.isError = false := by
  simp only [hasError, List.any_eq_false] at h
  simpa using h i hi

/-- a Def (or Def-expand) tag whose content check raised no error is declared with the right arity -/
theorem onsetDef_nil_of_content (dt : RTag) (grp : Option (List RNode))
    (h : ∀ i ∈ defContentIssues env dt grp, i.isError = false) : onsetDefIssues env dt = [] := by
  unfold defContentIssues defExpansion at h
  unfold onsetDefIssues
  cases hl : defLookup env (defLabel dt) with
  | none =>
    rw [hl] at h
    have := h _ (List.mem_singleton.mpr rfl)
    cases grp <;> simp [Issue.isError, tagIssue, Issue.plain, Kind.sev, sevWarning, sev_HED_DEF_UNMATCHED,
      sev_HED_DEF_EXPAND_UNMATCHED] at this
  | some e =>
    rw [hl] at h
    simp only at h ⊢
    by_cases hm : (e.takes == (defValue dt).isEmpty) = true
    · simp only [hm, ↓reduceIte] at h
      have := h _ (List.mem_singleton.mpr rfl)
      cases grp <;> cases ht : e.takes <;> simp [ht, Issue.isError, tagIssue, Issue.plain, Kind.sev, sevWarning,
        sev_HED_DEF_VALUE_MISSING, sev_HED_DEF_VALUE_EXTRA, sev_HED_DEF_EXPAND_VALUE_MISSING,
        sev_HED_DEF_EXPAND_VALUE_EXTRA] at this
    · have : (e.takes != !(defValue dt).isEmpty) = false := by
        cases ht : e.takes <;> cases hv : (defValue dt).isEmpty <;> simp_all
      simp [this]

/-- **Cross-phase.** When the definition check of phase 3 reports no error, every Def item the temporal rule looks
at passes the rule's own look-up. -/
theorem defItemsOK_of_defPhase (len : Nat) (root : List RNode) (h : hasError (defPhase env len root) = false) :
    DefItemsOK env root := by
  intro s kids hk it hit
  obtain ⟨dt, sp⟩ := it
  have hg : (⟨s, kids, true, true⟩ : GV) ∈ allGroups len root := by
    simp only [allGroups, List.mem_cons, groupsList_eq, List.mem_flatMap]
    exact Or.inr ⟨_, hk, by simp [groupsNode]⟩
  have hsub : ∀ i ∈ defIssuesOf env kids, i.isError = false := by
    intro i hi
    exact noError_mem h (List.mem_flatMap.mpr ⟨_, hg, hi⟩)
  rw [defItemsOf_eq] at hit
  obtain ⟨x, hx, hm⟩ := List.mem_flatMap.mp hit
  cases x with
  | tag t =>
    simp only [defItemsNode] at hm
    split at hm
    · rename_i hd
      simp only [List.mem_singleton, Prod.mk.injEq] at hm
      obtain ⟨rfl, _⟩ := hm
      exact onsetDef_nil_of_content dt none
        (fun i hi => hsub i (C01.defIssuesOf_mem env dt (by simpa using hd) i hi kids hx))
    · simp at hm
  | group s2 ks =>
    simp only [defItemsNode, List.mem_map, List.mem_filter] at hm
    obtain ⟨t, ⟨ht, hd⟩, he⟩ := hm
    simp only [Prod.mk.injEq] at he
    obtain ⟨rfl, _⟩ := he
    exact onsetDef_nil_of_content t (some ks)
      (fun i hi => hsub i (C01.defIssuesOf_mem_expand env t s2 ks ht (by simpa using hd) i hi kids hx))

end crossphase

/-- when the basic checks raise no error and the text is not "n/a", the definition check of phase 3 raised none -/
theorem defPhase_noError {env : Env} {ph : Bool} {text : Str} {p : Parsed}
    (h : hasError (basicP env ph text p) = false) (hna : isNA env p.root0 = false) :
    hasError (defPhase env text.length p.root1) = false := by
  unfold basicP at h
  simp only [hna, Bool.false_eq_true, ↓reduceIte] at h
  by_cases h1 : hasError (stringIssues env ph text p) = true
  · simp [h1] at h
  · simp only [h1, Bool.false_eq_true, ↓reduceIte] at h
    by_cases h2 : hasError (stringIssues env ph text p ++ tagIssues env ph p) = true
    · simp [h2] at h
    · simp only [h2, Bool.false_eq_true, ↓reduceIte] at h
      rw [C01.hasError_append, Bool.or_eq_false_iff] at h
      have := h.2
      unfold semIssues at this
      rw [C01.hasError_append, Bool.or_eq_false_iff] at this
      exact this.2

theorem defItemsOK_final {env : Env} {ph : Bool} {text : Str} {p : Parsed}
    (h : hasError (basicP env ph text p) = false) : DefItemsOK env (p.final env) := by
  unfold Parsed.final
  by_cases hna : isNA env p.root0 = true
  · simp only [hna, ↓reduceIte]
    obtain ⟨t, ht, _⟩ := (strList_na env p.root0).mp (by simpa [isNA] using hna)
    intro s kids hk
    rw [ht] at hk
    simp at hk
  · have hna' : isNA env p.root0 = false := by simpa using hna
    simp only [hna', Bool.false_eq_true, ↓reduceIte]
    exact defItemsOK_of_defPhase _ _ (defPhase_noError h hna')

section whole
open HedVerif.Dup (Adm CleanStr)
variable {R : RTag → RTag → Prop} {env : Env}

/-- **Whole validator, tree level.** Two parsed annotations whose first trees are related (same shape, related
tags, members of every group permuted, spans free but distinct) and whose raw-text rules agree get the same
multiset of error codes — for both values of `allow_placeholders`, every rule included. -/
theorem validateP_sim (hR : TagRel env R) (hs : env.var.sortCanonical = true) (he : env.var.eqFold = true)
    {P : Dup.Tag → Prop} (hP : Adm P) (hD : DefsOK env P) (ph : Bool) (text text' : Str) (p p' : Parsed)
    (hw : ParsedWF env p) (hw' : ParsedWF env p') (h0 : ForestSim R p.root0 p'.root0)
    (hText : (errCodes (textIssues env ph text)).Perm (errCodes (textIssues env ph text')))
    (hP0 : ∀ x ∈ tagsList p.root0, P (toDupTag env x)) (hP0' : ∀ x ∈ tagsList p'.root0, P (toDupTag env x))
    (hP1 : ∀ x ∈ tagsList p.root1, P (toDupTag env x)) (hP1' : ∀ x ∈ tagsList p'.root1, P (toDupTag env x))
    (hn : (rstartsList p.root0).Nodup) (hn' : (rstartsList p'.root0).Nodup) :
    (errCodes (validateP env ph text p)).Perm (errCodes (validateP env ph text' p')) := by
  have h1 : ForestSim R p.root1 p'.root1 := by rw [hw.1, hw'.1]; exact h0.recanon hR.recanon
  have hn1 : (rstartsList p.root1).Nodup := by rw [hw.1, rstarts_recanon]; exact hn
  have hn1' : (rstartsList p'.root1).Nodup := by rw [hw'.1, rstarts_recanon]; exact hn'
  have hna := isNA_sim (env := env) hR.core h0
  apply validateP_congr env ph text text' p p'
  · -- phase 1
    unfold stringIssues stringPhase
    have := hText
    simp only [textIssues, errCodes_append] at this ⊢
    refine this.append ?_
    rw [errCodes_flatMap, errCodes_flatMap]
    exact h0.tags_flatMap _ _ (fun t t' htt => List.Perm.of_eq (hR.slash t t' htt))
  · exact hna
  · -- phase 2
    unfold tagIssues
    simp only [errCodes_append]
    refine List.Perm.append ?_ ?_
    · rw [errCodes_flatMap, errCodes_flatMap]
      exact h0.tags_flatMap _ _ (fun t t' htt => List.Perm.of_eq (hR.chars t t' htt ph))
    · rw [hw.2, hw'.2, C01.recanonList_issues, C01.recanonList_issues, errCodes_flatMap, errCodes_flatMap]
      exact h0.tags_flatMap _ _ (fun t t' htt => List.Perm.of_eq (hR.lookup t t' htt))
  · -- phase 3
    unfold semIssues
    simp only [errCodes_append]
    exact (individualPhase_sim hR.core ph h1 _ _ hn1 hn1').append (defPhase_sim hR.core hs he hP hD h1 _ _ hP1 hP1')
  · -- phase 4
    intro hb hb'
    unfold fullIssues
    have hfin : ForestSim R (p.final env) (p'.final env) := by
      unfold Parsed.final; rw [← hna]; split
      · exact h0
      · exact h1
    have hnf : (rstartsList (p.final env)).Nodup := by unfold Parsed.final; split <;> assumption
    have hnf' : (rstartsList (p'.final env)).Nodup := by unfold Parsed.final; split <;> assumption
    refine fullPhase_sim hR.core hs he hP hfin _ _ ?_ ?_
      (onsetIssues_sim hR.core hfin hnf hnf' (defItemsOK_final hb) (defItemsOK_final hb'))
    · unfold Parsed.final; split
      · exact hP0
      · exact hP1
    · unfold Parsed.final; split
      · exact hP0'
      · exact hP1'

end whole


/-! ### the relations: same tag (order, spacing), respelled tag (spelling) -/

theorem SameTag.core {t t' : RTag} (h : SameTag t t') : Core t t' := ⟨h.2.1, h.2.2.1, h.2.2.2, fun _ => h.1⟩

theorem SameTag.orgBase {t t' : RTag} (h : SameTag t t') : orgBase t' = orgBase t := by
  simp [Validate.orgBase, h.1, h.2.2.1, h.2.2.2]

theorem canon_core_sigs (env : Env) {t t' : RTag} (h : Core t t') : sigs (canon env t').2 = sigs (canon env t).2 := by
  unfold canon
  rw [h.ns, h.strOf]
  split
  · simp
  · simp only
    cases Schema.find env.vocab fold (List.drop t.ns.length (strOf env t)) <;> simp

theorem canon_same (env : Env) {t t' : RTag} (h : SameTag t t') : SameTag (canon env t).1 (canon env t').1 := by
  have hs := h.core.strOf (env := env)
  obtain ⟨h1, h2, h3, h4⟩ := h
  unfold canon SameTag
  rw [h2, hs]
  split
  · simp [h1, h4]
  · simp only
    cases Schema.find env.vocab fold (List.drop t.ns.length (strOf env t)) <;> simp [h1, h4]

theorem sameTag_rel (env : Env) : TagRel env SameTag where
  core := fun _ _ h => h.core
  slash := fun t t' h => errCodes_of_sigs (by simp [slashIssues, h.1])
  chars := fun t t' h ph => errCodes_of_sigs (by
    unfold tagCharIssues
    simp only [h.2.1, h.orgBase, sigs_append, sigs_ite, sigs_cons, sigs_nil, sig_tagIssue,
      invalidCharsFrom_sigs env.cd _ t t' none (orgBase t) 0 0])
  recanon := fun _ _ h => canon_same env h
  lookup := fun _ _ h => (errCodes_of_sigs (canon_core_sigs env h.core)).symm


/-! ### from texts to trees: the abstract forest of a text decides its resolved tree, up to spans -/

mutual
/-- abstract forests (`ATree` of `Props/C02`): same shape, tag texts related by `Rt`, members permuted -/
def ANodeSim (Rt : Str → Str → Prop) : ATree → ATree → Prop
  | .tag w, .tag w' => Rt w w'
  | .group ks, .group ks' => ∃ m, APointSim Rt ks m ∧ m.Perm ks'
  | .tag _, .group _ => False
  | .group _, .tag _ => False
def APointSim (Rt : Str → Str → Prop) : List ATree → List ATree → Prop
  | [], [] => True
  | k :: ks, k' :: ks' => ANodeSim Rt k k' ∧ APointSim Rt ks ks'
  | [], _ :: _ => False
  | _ :: _, [] => False
end

def AForestSim (Rt : Str → Str → Prop) (l l' : List ATree) : Prop := ∃ m, APointSim Rt l m ∧ m.Perm l'

theorem mkTag_eq (env : Env) (text : Str) (a b : Nat) : mkTag env text a b = mkTagW env (Tree.slice text a b) (a, b) := rfl

theorem perm_map_exists {α β : Type} (f : α → β) : ∀ (m : List β) (l : List α), m.Perm (l.map f) →
    ∃ l' : List α, l'.Perm l ∧ m = l'.map f
  | [], l, h => by
    have hl : l = [] := by
      have := h.length_eq
      simp at this
      exact List.length_eq_zero_iff.mp this.symm
    subst hl; exact ⟨[], List.Perm.refl _, rfl⟩
  | a :: m, l, h => by
    have ha : a ∈ l.map f := h.subset (by simp)
    obtain ⟨x, hx, rfl⟩ := List.mem_map.mp ha
    obtain ⟨l1, l2, rfl⟩ := List.append_of_mem hx
    have h2 : m.Perm ((l1 ++ l2).map f) := by
      have : (f x :: m).Perm (f x :: (l1 ++ l2).map f) := by
        refine h.trans ?_
        simp only [List.map_append, List.map_cons]
        exact List.perm_middle
      exact this.cons_inv
    obtain ⟨l', hl', rfl⟩ := perm_map_exists f m (l1 ++ l2) h2
    exact ⟨x :: l', (List.Perm.cons x hl').trans List.perm_middle.symm, rfl⟩

theorem resolveList_map (env : Env) (s : Str) (l : List Node) : resolveList env s l = l.map (resolveNode env s) := by
  induction l with
  | nil => rfl
  | cons k ks ih => simp [resolveList, ih]

theorem formList_map (form : Nat → Nat → Str) (l : List Node) : formList form l = l.map (formNode form) := by
  induction l with
  | nil => rfl
  | cons k ks ih => simp [formList, ih]

section textsim
variable {Rt : Str → Str → Prop} {R : RTag → RTag → Prop} (env : Env)

mutual
theorem resolveNode_sim (hRt : ∀ w w' sp sp', Rt w w' → R (mkTagW env w sp) (mkTagW env w' sp')) (s s' : Str) :
    ∀ (n n' : Node), ANodeSim Rt (absNode s n) (absNode s' n') → NodeSim R (resolveNode env s n) (resolveNode env s' n')
  | .tag a b, .tag a' b', h => by
    simp only [absNode, formNode, ANodeSim] at h
    simpa [resolveNode, NodeSim, mkTag_eq] using hRt _ _ (a, b) (a', b') h
  | .tag _ _, .group _ _ _, h => by simp [absNode, formNode, ANodeSim] at h
  | .group _ _ _, .tag _ _, h => by simp [absNode, formNode, ANodeSim] at h
  | .group _ _ ks, .group _ _ ks', h => by
    simp only [absNode, formNode, ANodeSim] at h
    obtain ⟨mA, hm, hp⟩ := h
    rw [formList_map] at hp
    obtain ⟨ks'', hk, rfl⟩ := perm_map_exists _ mA ks' hp
    simp only [resolveNode, NodeSim]
    refine ⟨resolveList env s' ks'', resolveList_sim hRt s s' ks ks'' (by simpa [absList, formList_map] using hm), ?_⟩
    rw [resolveList_map, resolveList_map]
    exact hk.map _
theorem resolveList_sim (hRt : ∀ w w' sp sp', Rt w w' → R (mkTagW env w sp) (mkTagW env w' sp')) (s s' : Str) :
    ∀ (l m : List Node), APointSim Rt (absList s l) (absList s' m) →
      PointSim R (resolveList env s l) (resolveList env s' m)
  | [], [], _ => by simp [resolveList, PointSim]
  | k :: ks, k' :: ms, h => by
    simp only [absList, formList, APointSim] at h
    simp only [resolveList, PointSim]
    exact ⟨resolveNode_sim hRt s s' k k' h.1, resolveList_sim hRt s s' ks ms h.2⟩
  | [], _ :: _, h => by simp [absList, formList, APointSim] at h
  | _ :: _, [], h => by simp [absList, formList, APointSim] at h
end

/-- the abstract forests of two texts are related ⇒ so are their resolved trees -/
theorem parse_sim (hRt : ∀ w w' sp sp', Rt w w' → R (mkTagW env w sp) (mkTagW env w' sp')) (s s' : Str)
    (h : AForestSim Rt (absList s (Tree.construct s)) (absList s' (Tree.construct s'))) :
    ForestSim R (parse env s).root0 (parse env s').root0 := by
  obtain ⟨mA, hm, hp⟩ := h
  rw [show absList s' (Tree.construct s') = (Tree.construct s').map (absNode s') from formList_map _ _] at hp
  obtain ⟨ms, hk, rfl⟩ := perm_map_exists _ mA _ hp
  refine ⟨resolveList env s' ms, resolveList_sim env hRt s s' _ ms (by simpa [absList, absNode, formList_map] using hm), ?_⟩
  show (resolveList env s' ms).Perm (resolveList env s' (Tree.construct s'))
  rw [resolveList_map, resolveList_map]
  exact hk.map _

end textsim

/-! ### blanks and the rules that read the raw text -/

section blanktext
variable (env : Env)

theorem badChar_blank (ph : Bool) : badChar env ph ' ' = false := by
  cases ph <;> simp [badChar, invalidStringCharsPlaceholders, invalidStringChars, isPrintable, isAscii]

theorem charIssuesFrom_codes (ph : Bool) : ∀ (s : Str) (i : Nat),
    errCodes (charIssuesFrom env ph i s) = s.flatMap fun c => if badChar env ph c then errCodes [charIssue 0 c] else []
  | [], _ => rfl
  | c :: cs, i => by
    simp only [charIssuesFrom, errCodes_append, List.flatMap_cons, charIssuesFrom_codes ph cs (i + 1)]
    congr 1
    split
    · exact errCodes_of_sigs (by simp [charIssue] <;> (split <;> rfl))
    · rfl

theorem charIssues_blank (ph : Bool) (a b : Str) :
    errCodes (charIssues env ph (a ++ ' ' :: b)) = errCodes (charIssues env ph (a ++ b)) := by
  simp [charIssues, charIssuesFrom_codes, List.flatMap_append, List.flatMap_cons, badChar_blank]

theorem parens_blank_insert (a b : Str) : parens (a ++ ' ' :: b) = parens (a ++ b) := by
  simp [parens, List.filterMap_append, List.filterMap_cons, parenOf]

theorem parenIssues_blank (a b : Str) :
    errCodes (parenIssues (a ++ ' ' :: b)) = errCodes (parenIssues (a ++ b)) := by
  have hm : Paren.mismatch (a ++ ' ' :: b) = Paren.mismatch (a ++ b) := by
    rw [Bool.eq_iff_iff, C02.mismatch_reported, C02.mismatch_reported]
    simp [balanced, parens_blank_insert]
  unfold parenIssues
  rw [hm]
  split
  · exact errCodes_of_sigs (by simp)
  · rfl

/-- what the delimiter scan remembers, positions and texts aside -/
def DRel (cd : CharData) (a b : Validate.DSt) : Prop :=
  a.last = b.last ∧ sigs a.issues = sigs b.issues ∧ a.stop = b.stop ∧
    a.cur.all (isSpace cd) = b.cur.all (isSpace cd)

theorem DRel.symm {cd : CharData} {a b : Validate.DSt} (h : DRel cd a b) : DRel cd b a :=
  ⟨h.1.symm, h.2.1.symm, h.2.2.1.symm, h.2.2.2.symm⟩
theorem DRel.trans {cd : CharData} {a b c : Validate.DSt} (h : DRel cd a b) (g : DRel cd b c) : DRel cd a c :=
  ⟨h.1.trans g.1, h.2.1.trans g.2.1, h.2.2.1.trans g.2.2.1, h.2.2.2.trans g.2.2.2⟩

theorem strip_eq (cd : CharData) (s : Str) : Validate.strip cd s = Dup.Scan.strip (isSpace cd) s := rfl

theorem dstep_blank (cd : CharData) (a b : Validate.DSt) (i : Nat) (c : Char) (hc : isSpace cd c = true)
    (h : DRel cd a b) : DRel cd (dstep cd a i c) b := by
  obtain ⟨al, ai, ac, aI, as⟩ := a
  obtain ⟨bl, bi, bc, bI, bs⟩ := b
  obtain ⟨h1, h2, h3, h4⟩ := h
  simp only at h1 h2 h3 h4
  subst h1 h3
  cases as <;> simp [dstep, DRel, hc, h2, h4]

theorem dstep_nonblank (cd : CharData) (a b : Validate.DSt) (i j : Nat) (c : Char) (hc : isSpace cd c = false)
    (h : DRel cd a b) : DRel cd (dstep cd a i c) (dstep cd b j c) := by
  obtain ⟨al, ai, ac, aI, as⟩ := a
  obtain ⟨bl, bi, bc, bI, bs⟩ := b
  obtain ⟨h1, h2, h3, h4⟩ := h
  simp only at h1 h2 h3 h4
  subst h1 h3
  cases as
  · simp only [dstep, Bool.false_eq_true, ↓reduceIte, hc, strip_eq, Dup.Scan.strip_snoc (isSpace cd) c hc]
    by_cases hcomma : c = ','
    · subst hcomma
      simp only [beq_self_eq_true, ↓reduceIte, Dup.Scan.strip_snoc (isSpace cd) ',' hc, h4]
      split <;> simp [DRel, h2, emptyAt, sig]
    · have hcomma' : (c == ',') = false := by simpa using hcomma
      simp only [hcomma', Bool.false_eq_true, ↓reduceIte]
      by_cases hop : c = '('
      · subst hop
        simp only [beq_self_eq_true, ↓reduceIte, Dup.Scan.strip_snoc (isSpace cd) '(' hc, h4]
        split <;> simp [DRel, h2, hc, h4, commaMissing, sig]
      · have hop' : (c == '(') = false := by simpa using hop
        simp only [hop', Bool.false_eq_true, ↓reduceIte]
        repeat' split
        all_goals simp [DRel, h2, hc, h4, emptyAt, commaMissing, sig]
  · simp [dstep, DRel, h2, h4]

theorem drun_rel (cd : CharData) : ∀ (s : Str) (a b : Validate.DSt) (i j : Nat), DRel cd a b →
    DRel cd (drun cd a i s) (drun cd b j s)
  | [], _, _, _, _, h => h
  | c :: cs, a, b, i, j, h => by
    simp only [drun]
    by_cases hc : isSpace cd c = true
    · have h1 := dstep_blank cd a b i c hc h
      have h2 : DRel cd (dstep cd a i c) (dstep cd b j c) :=
        h1.trans (dstep_blank cd b b j c hc ⟨rfl, rfl, rfl, rfl⟩).symm
      exact drun_rel cd cs _ _ _ _ h2
    · exact drun_rel cd cs _ _ _ _ (dstep_nonblank cd a b i j c (by simpa using hc) h)

theorem drun_append (cd : CharData) : ∀ (a b : Str) (st : Validate.DSt) (i : Nat),
    drun cd st i (a ++ b) = drun cd (drun cd st i a) (i + a.length) b
  | [], _, _, _ => by simp [drun]
  | c :: cs, b, st, i => by
    simp only [List.cons_append, drun, List.length_cons]
    rw [drun_append cd cs b _ (i + 1)]
    congr 1
    omega

theorem delimIssues_blank (cd : CharData) (a b : Str) :
    errCodes (delimIssues cd (a ++ ' ' :: b)) = errCodes (delimIssues cd (a ++ b)) := by
  have hsp : isSpace cd ' ' = true := by simp [isSpace, isAscii]
  have hrel : DRel cd (drun cd {} 0 (a ++ ' ' :: b)) (drun cd {} 0 (a ++ b)) := by
    rw [drun_append, drun_append]
    simp only [drun]
    apply drun_rel
    exact dstep_blank cd _ _ _ ' ' hsp ⟨rfl, rfl, rfl, rfl⟩
  obtain ⟨h1, h2, _, _⟩ := hrel
  unfold delimIssues
  simp only
  apply errCodes_of_sigs
  rw [sigs_append, sigs_append, h2, h1]
  congr 1
  split <;> simp [emptyAt, sig]

/-- **raw-text rules and blanks**: inserting a blank anywhere changes none of their codes -/
theorem textIssues_blank (ph : Bool) (a b : Str) :
    errCodes (textIssues env ph (a ++ ' ' :: b)) = errCodes (textIssues env ph (a ++ b)) := by
  simp only [textIssues, errCodes_append, charIssues_blank, parenIssues_blank, delimIssues_blank]

end blanktext

end HedVerif.Rewrite

namespace HedVerif.Rewrite
open HedVerif HedVerif.Validate HedVerif.Generated.CodeMap Tok Tree

/-! ### Part 3: texts -/

theorem evs_blankStep {s s' : Str} (h : BlankStep s s') : evs s (split s) = evs s' (split s') := by
  cases h with
  | start => exact evs_blank_start _
  | stop => exact evs_blank_stop _
  | after a b d hd => exact evs_blank_after a b d hd
  | before a b d hd => exact evs_blank_before a b d hd

theorem evs_blank {s s' : Str} (h : Blank s s') : evs s (split s) = evs s' (split s') := by
  induction h with
  | refl => rfl
  | ins h => exact evs_blankStep h
  | del h => exact (evs_blankStep h).symm
  | trans _ _ ih1 ih2 => exact ih1.trans ih2

/-- the texts of the tag tokens, in order -/
def tagTexts (s : Str) : List Str := ((split s).filter (·.isTag)).map fun t => slice s t.start t.stop

theorem tagTexts_eq_evs (s : Str) : tagTexts s = (evs s (split s)).filterMap fun e => match e with | .tag w => some w | _ => none := by
  unfold tagTexts evs
  generalize split s = l
  induction l with
  | nil => rfl
  | cons t ts ih =>
    by_cases ht : t.isTag = true
    · simp [List.filter_cons, ht, tokEv, ih]
    · have ht' : t.isTag = false := by simpa using ht
      simp only [List.filter_cons, ht', Bool.false_eq_true, ↓reduceIte, List.filterMap_cons, tokEv, ih]
      cases h : clsOf (slice s t.start t.stop) with
      | none => rfl
      | some e =>
        have : e = .opn ∨ e = .cls := by
          unfold clsOf at h
          split at h <;> simp_all
        rcases this with rfl | rfl <;> simp


/-- **Spacing, parse level (all texts).** Blanks inserted or deleted next to delimiters or at the ends leave the
texts of the tag tokens and the group structure unchanged: the two parse trees are equal up to spans. -/
theorem spacing_invariant_text {s s' : Str} (h : Blank s s') :
    tagTexts s = tagTexts s' ∧ absList s (construct s) = absList s' (construct s') := by
  have he := evs_blank h
  exact ⟨by rw [tagTexts_eq_evs, tagTexts_eq_evs, he], by rw [construct_ev, construct_ev, he]⟩

theorem textIssues_blankStep (env : Env) (ph : Bool) {s s' : Str} (h : BlankStep s s') :
    errCodes (textIssues env ph s) = errCodes (textIssues env ph s') := by
  cases h with
  | start => exact (textIssues_blank env ph [] _).symm
  | stop => simpa using (textIssues_blank env ph _ []).symm
  | after a b d _ =>
    have := textIssues_blank env ph (a ++ [d]) b
    simpa using this.symm
  | before a b d _ => exact (textIssues_blank env ph a (d :: b)).symm

theorem textIssues_blankRel (env : Env) (ph : Bool) {s s' : Str} (h : Blank s s') :
    errCodes (textIssues env ph s) = errCodes (textIssues env ph s') := by
  induction h with
  | refl => rfl
  | ins h => exact textIssues_blankStep env ph h
  | del h => exact (textIssues_blankStep env ph h).symm
  | trans _ _ ih1 ih2 => exact ih1.trans ih2

mutual
theorem aNodeSim_refl : ∀ (n : ATree), ANodeSim Eq n n
  | .tag _ => by simp [ANodeSim]
  | .group ks => by simpa [ANodeSim] using ⟨ks, aPointSim_refl ks, List.Perm.refl _⟩
theorem aPointSim_refl : ∀ (l : List ATree), APointSim Eq l l
  | [] => by simp [APointSim]
  | k :: ks => by simpa [APointSim] using ⟨aNodeSim_refl k, aPointSim_refl ks⟩
end

theorem aForestSim_refl (l : List ATree) : AForestSim Eq l l := ⟨l, aPointSim_refl l, List.Perm.refl _⟩

theorem mkTagW_same (env : Env) (w : Str) (sp sp' : Nat × Nat) : SameTag (mkTagW env w sp) (mkTagW env w sp') :=
  canon_same env ⟨rfl, rfl, rfl, rfl⟩

/-! ### every node of a parse tree starts at its own position -/

mutual
/-- start positions of a node and of everything below it -/
def startsNode : Node → List Nat
  | .tag a _ => [a]
  | .group a _ kids => a :: startsList kids
def startsList : List Node → List Nat
  | [] => []
  | n :: ns => startsNode n ++ startsList ns
end

theorem startsList_eq (l : List Node) : startsList l = l.flatMap startsNode := by
  induction l with
  | nil => rfl
  | cons k ks ih => simp [startsList, ih]

theorem startsList_reverse (l : List Node) : (startsList l.reverse).Perm (startsList l) := by
  rw [startsList_eq, startsList_eq]
  exact (List.reverse_perm l).flatMap_right _

/-- starts held in the open frames -/
def frameStarts (stack : List Frame) : List Nat := stack.flatMap fun f => f.start :: startsList f.kids

def allStarts (top : List Node) (stack : List Frame) : List Nat := startsList top ++ frameStarts stack

/-- one token: the starts grow by at most one position, inside the token -/
theorem stepTok_starts (s : Str) (top top' : List Node) (stack stack' : List Frame) (t : Token)
    (ht : t.start < t.stop) (hs : t.stop ≤ s.length) (h : stepTok s top stack t = .ok (top', stack')) :
    (allStarts top' stack').Perm (allStarts top stack) ∨
      ∃ x, t.start ≤ x ∧ x < t.stop ∧ (allStarts top' stack').Perm (x :: allStarts top stack) := by
  unfold stepTok at h
  by_cases htag : t.isTag = true
  · simp only [htag, ↓reduceIte] at h
    right
    refine ⟨t.start, Nat.le_refl _, ht, ?_⟩
    cases stack with
    | nil =>
      simp only [Except.ok.injEq, Prod.mk.injEq] at h
      obtain ⟨rfl, rfl⟩ := h
      simp [allStarts, startsList, startsNode, frameStarts]
    | cons f fs =>
      simp only [Except.ok.injEq, Prod.mk.injEq] at h
      obtain ⟨rfl, rfl⟩ := h
      simp only [allStarts, frameStarts, List.flatMap_cons, startsList, startsNode, List.cons_append, List.nil_append]
      refine List.Perm.trans ?_ (List.perm_middle)
      exact List.Perm.append_left _ (List.Perm.swap _ _ _)
  · have htag' : t.isTag = false := by simpa using htag
    simp only [htag', Bool.false_eq_true, ↓reduceIte] at h
    have hne : slice s t.start t.stop ≠ [] := by
      intro hh
      have := congrArg List.length hh
      rw [slice_length s _ _ hs] at this
      simp at this; omega
    obtain ⟨ch, hch, _⟩ := clsOf_of_first _ hne
    have hdi : delimIndex (slice s t.start t.stop) < t.stop - t.start := by
      have := (List.getElem?_eq_some_iff.mp hch).1
      rwa [slice_length s _ _ hs] at this
    have hch' : ((s.drop t.start).take (t.stop - t.start))[delimIndex ((s.drop t.start).take (t.stop - t.start))]? = some ch := hch
    simp only [hch'] at h
    by_cases h1 : ch = '('
    · subst h1
      simp only [beq_self_eq_true, ↓reduceIte, Except.ok.injEq, Prod.mk.injEq] at h
      obtain ⟨rfl, rfl⟩ := h
      right
      refine ⟨t.start + delimIndex (slice s t.start t.stop), by omega, by omega, ?_⟩
      simp only [allStarts, frameStarts, List.flatMap_cons, startsList, List.append_nil]
      exact List.perm_middle
    · have h1' : (ch == '(') = false := by simpa using h1
      simp only [h1', Bool.false_eq_true, ↓reduceIte] at h
      by_cases h2 : ch = ')'
      · subst h2
        simp only [beq_self_eq_true, ↓reduceIte] at h
        left
        cases stack with
        | nil => simp at h
        | cons f fs =>
          cases fs with
          | nil =>
            simp only [Except.ok.injEq, Prod.mk.injEq] at h
            obtain ⟨rfl, rfl⟩ := h
            simp only [allStarts, frameStarts, List.flatMap_cons, List.flatMap_nil, startsList, startsNode,
              List.append_nil]
            refine List.Perm.trans ?_ List.perm_append_comm
            simp only [List.cons_append]
            exact List.Perm.cons _ (List.Perm.append_right _ (startsList_reverse _))
          | cons f2 fs2 =>
            simp only [Except.ok.injEq, Prod.mk.injEq] at h
            obtain ⟨rfl, rfl⟩ := h
            simp only [allStarts, frameStarts, List.flatMap_cons, startsList, startsNode, List.cons_append]
            apply List.Perm.append_left
            have hr := startsList_reverse f.kids
            rw [List.perm_iff_count]
            intro a
            have := hr.count_eq a
            simp only [List.count_append, List.count_cons, this]
            omega
      · have h2' : (ch == ')') = false := by simpa using h2
        simp only [h2', Bool.false_eq_true, ↓reduceIte, Except.ok.injEq, Prod.mk.injEq] at h
        obtain ⟨rfl, rfl⟩ := h
        left; exact List.Perm.refl _


theorem buildToks_starts (s : Str) : ∀ (toks : List Token) (p : Nat) (top : List Node) (stack : List Frame),
    Tiles toks p s.length → (∀ x ∈ allStarts top stack, x < p) → (allStarts top stack).Nodup →
    ∀ r, buildToks s top stack toks = .ok r → (startsList r).Nodup
  | [], _, top, stack, _, _, hn, r, hr => by
    cases stack with
    | nil =>
      simp only [buildToks, Except.ok.injEq] at hr
      subst hr
      have : (startsList top).Nodup := by simpa [allStarts, frameStarts] using hn
      exact (startsList_reverse top).symm.nodup_iff.mp this |> fun h => h
    | cons f fs => simp [buildToks] at hr
  | t :: ts, p, top, stack, hT, hlt, hn, r, hr => by
    obtain ⟨hs, htl, hT'⟩ := hT
    have hstop : t.stop ≤ s.length := tiles_le ts t.stop s.length hT'
    simp only [buildToks] at hr
    cases hstep : stepTok s top stack t with
    | error e => rw [hstep] at hr; simp at hr
    | ok res =>
      obtain ⟨top', stack'⟩ := res
      rw [hstep] at hr
      simp only at hr
      have hcase := stepTok_starts s top top' stack stack' t htl hstop hstep
      refine buildToks_starts s ts t.stop top' stack' hT' ?_ ?_ r hr
      · intro x hx
        rcases hcase with hp | ⟨y, hy1, hy2, hp⟩
        · have := hlt x (hp.mem_iff.mp hx); omega
        · rcases List.mem_cons.mp (hp.mem_iff.mp hx) with rfl | hx'
          · exact hy2
          · have := hlt x hx'; omega
      · rcases hcase with hp | ⟨y, hy1, hy2, hp⟩
        · exact hp.symm.nodup_iff.mp hn |> fun h => h
        · refine hp.symm.nodup_iff.mp ?_
          rw [List.nodup_cons]
          refine ⟨fun hm => ?_, hn⟩
          have := hlt y hm
          omega

/-- **Distinct positions.** In the tree of any text, every node (tag or group, at any depth) starts at a position
of its own. -/
theorem construct_starts_nodup (s : Str) : (startsList (construct s)).Nodup := by
  unfold construct
  cases h : build s with
  | error e => simp [startsList]
  | ok r =>
    exact buildToks_starts s (split s) 0 [] [] (C02.tiling s).1 (by simp [allStarts, frameStarts, startsList])
      (by simp [allStarts, frameStarts, startsList]) r h


mutual
theorem rstarts_resolveNode (env : Env) (s : Str) : ∀ (n : Node), rstartsNode (resolveNode env s n) = startsNode n
  | .tag a b => by simp [resolveNode, rstartsNode, startsNode, mkTag, canon_span]
  | .group a b ks => by simp [resolveNode, rstartsNode, startsNode, rstarts_resolveList env s ks]
theorem rstarts_resolveList (env : Env) (s : Str) : ∀ (l : List Node), rstartsList (resolveList env s l) = startsList l
  | [] => rfl
  | k :: ks => by simp [resolveList, rstartsList, startsList, rstarts_resolveNode env s k, rstarts_resolveList env s ks]
end

/-- in the resolved tree of any text every node starts at a position of its own -/
theorem parse_starts_nodup (env : Env) (s : Str) : (rstartsList (parse env s).root0).Nodup := by
  show (rstartsList (resolveList env s (construct s))).Nodup
  rw [rstarts_resolveList]
  exact construct_starts_nodup s

/-- every tag of a parse satisfies `P` (as the duplicate rule sees it), before and after the second pass -/
def TagsOK (env : Env) (P : Dup.Tag → Prop) (s : Str) : Prop :=
  (∀ x ∈ tagsList (parse env s).root0, P (toDupTag env x)) ∧ (∀ x ∈ tagsList (parse env s).root1, P (toDupTag env x))

/-- **Whole validator, text level.** Two texts whose abstract forests are related (same shape, related tag
texts, members of every group permuted) and whose raw-text rules agree get the same multiset of error codes. -/
theorem validate_sim {env : Env} {R : RTag → RTag → Prop} {Rt : Str → Str → Prop} (hR : TagRel env R)
    (hRt : ∀ w w' sp sp', Rt w w' → R (mkTagW env w sp) (mkTagW env w' sp'))
    (hs : env.var.sortCanonical = true) (he : env.var.eqFold = true)
    {P : Dup.Tag → Prop} (hP : Dup.Adm P) (hD : DefsOK env P) (ph : Bool) (s s' : Str)
    (hA : AForestSim Rt (absList s (construct s)) (absList s' (construct s')))
    (hText : (errCodes (textIssues env ph s)).Perm (errCodes (textIssues env ph s')))
    (hok : TagsOK env P s) (hok' : TagsOK env P s') :
    (errCodes (validate env ph s)).Perm (errCodes (validate env ph s')) :=
  validateP_sim hR hs he hP hD ph s s' (parse env s) (parse env s') (parse_wf env s) (parse_wf env s')
    (parse_sim env hRt s s' hA) hText hok.1 hok'.1 hok.2 hok'.2 (parse_starts_nodup env s) (parse_starts_nodup env s')


/-! ### the raw-text rules on a printed forest -/

section printed
variable (cd : CharData)

/-- the scan stands before an element: nothing pending, last significant character none, `,` or `(` -/
def DReady (st : Validate.DSt) : Prop :=
  st.stop = false ∧ st.issues = [] ∧ st.cur.all (isSpace cd) = true ∧
    (st.last = none ∨ st.last = some ',' ∨ st.last = some '(')

/-- the scan stands after an element -/
def DDone (st : Validate.DSt) : Prop :=
  st.stop = false ∧ st.issues = [] ∧ st.cur.all (isSpace cd) = false ∧ ∃ c, st.last = some c ∧ c ≠ ',' ∧ c ≠ '('

/-- a tag text the delimiter scan can see: it starts with a character that is not white space -/
def SolidText (w : Str) : Prop := ValidText w ∧ ∀ c, w.head? = some c → isSpace cd c = false

theorem isSpace_delim {c : Char} (h : isDelim c = true) : isSpace cd c = false := by
  simp only [isDelim, Bool.or_eq_true, beq_iff_eq] at h
  rcases h with (rfl | rfl) | rfl <;> simp [isSpace, isAscii]

theorem dstep_tagchar (st : Validate.DSt) (i : Nat) (c : Char) (hd : isDelim c = false)
    (h : DDone cd st ∧ st.last ≠ some ')' ∨ DReady cd st) (hc : isSpace cd c = false ∨ DDone cd st ∧ st.last ≠ some ')') :
    DDone cd (dstep cd st i c) ∧ (dstep cd st i c).last ≠ some ')' := by
  have h1 : (c == ',') = false := by
    cases hx : c == ',' with
    | false => rfl
    | true => rw [beq_iff_eq] at hx; subst hx; simp [isDelim] at hd
  have h2 : (c == '(') = false := by
    cases hx : c == '(' with
    | false => rfl
    | true => rw [beq_iff_eq] at hx; subst hx; simp [isDelim] at hd
  have h3 : (c == ')') = false := by
    cases hx : c == ')' with
    | false => rfl
    | true => rw [beq_iff_eq] at hx; subst hx; simp [isDelim] at hd
  have h3' : c ≠ ')' := by simpa using h3
  obtain ⟨sl, si, sc, sI, ss⟩ := st
  by_cases hsp : isSpace cd c = true
  · -- inner blank of a tag: only possible once the tag has begun
    rcases hc with hc | hc
    · rw [hsp] at hc; cases hc
    · obtain ⟨⟨a1, a2, a3, x, a4, a5, a6⟩, a7⟩ := hc
      simp only at a1 a2 a3 a4 a7
      subst a1 a2
      refine ⟨⟨by simp [dstep, hsp], by simp [dstep, hsp], by simp [dstep, hsp, a3], x, by simp [dstep, hsp, a4], a5, a6⟩, ?_⟩
      simp [dstep, hsp]; exact a7
  · have hsp' : isSpace cd c = false := by simpa using hsp
    have hstop : ss = false := by rcases h with ⟨⟨a, _⟩, _⟩ | ⟨a, _⟩ <;> exact a
    have hiss : sI = [] := by rcases h with ⟨⟨_, a, _⟩, _⟩ | ⟨_, a, _⟩ <;> exact a
    have hl1 : ¬ (sl = some ',' ∧ c = ')') := fun hx => h3' hx.2
    have hl2 : sl ≠ some ')' := by
      rcases h with ⟨_, a⟩ | ⟨_, _, _, a⟩
      · exact a
      · rcases a with a | a | a <;> simp_all
    subst hstop hiss
    have e : dstep cd ⟨sl, si, sc, [], false⟩ i c = ⟨some c, i, sc ++ [c], [], false⟩ := by
      simp only [dstep, Bool.false_eq_true, ↓reduceIte, hsp', h1, h2]
      have g1 : (sl == some ',' && c == ')') = false := by simp [h3]
      have g2 : (sl == some ')' && !(c == ',' || c == ')')) = false := by
        have : (sl == some ')') = false := by simpa using hl2
        simp [this]
      have g3 : (sl == some ')' && !(false || c == ')')) = false := by simpa [h1] using g2
      simp only [g1, g3, Bool.false_eq_true, ↓reduceIte]
    rw [e]
    refine ⟨⟨rfl, rfl, by simp [hsp'], c, rfl, by simpa using h1, by simpa using h2⟩, by simp [h3']⟩

end printed

section printed2
variable (cd : CharData)

theorem drun_tagtail : ∀ (w : Str) (st : Validate.DSt) (i : Nat), (∀ c ∈ w, isDelim c = false) →
    DDone cd st ∧ st.last ≠ some ')' → DDone cd (drun cd st i w) ∧ (drun cd st i w).last ≠ some ')'
  | [], _, _, _, h => h
  | c :: cs, st, i, hw, h => by
    simp only [drun]
    exact drun_tagtail cs _ _ (fun x hx => hw x (by simp [hx]))
      (dstep_tagchar cd st i c (hw c (by simp)) (Or.inl h) (Or.inr h))

theorem drun_tagtext (w : Str) (hw : SolidText cd w) (st : Validate.DSt) (i : Nat) (h : DReady cd st) :
    DDone cd (drun cd st i w) := by
  obtain ⟨⟨hne, hnd, _, _⟩, hsol⟩ := hw
  cases w with
  | nil => exact absurd rfl hne
  | cons c cs =>
    simp only [drun]
    exact (drun_tagtail cd cs _ _ (fun x hx => hnd x (by simp [hx]))
      (dstep_tagchar cd st i c (hnd c (by simp)) (Or.inr h) (Or.inl (hsol c rfl)))).1

theorem dstep_comma (st : Validate.DSt) (i : Nat) (h : DDone cd st) : DReady cd (dstep cd st i ',') := by
  obtain ⟨sl, si, sc, sI, ss⟩ := st
  obtain ⟨a1, a2, a3, x, a4, a5, a6⟩ := h
  simp only at a1 a2 a3 a4
  subst a1 a2
  have hsp : isSpace cd ',' = false := isSpace_delim cd (by decide)
  have : (strip cd (sc ++ [',']) == [',']) = false := by
    rw [strip_eq, Dup.Scan.strip_snoc (isSpace cd) ',' hsp]; exact a3
  simp [dstep, hsp, this, DReady]

theorem dstep_open (st : Validate.DSt) (i : Nat) (h : DReady cd st) :
    DReady cd (dstep cd st i '(') ∧ (dstep cd st i '(').last = some '(' := by
  obtain ⟨sl, si, sc, sI, ss⟩ := st
  obtain ⟨a1, a2, a3, a4⟩ := h
  simp only at a1 a2 a3 a4
  subst a1 a2
  have hsp : isSpace cd '(' = false := isSpace_delim cd (by decide)
  have : (strip cd (sc ++ ['(']) == ['(']) = true := by
    rw [strip_eq, Dup.Scan.strip_snoc (isSpace cd) '(' hsp]; exact a3
  simp [dstep, hsp, this, DReady]

theorem dstep_close (st : Validate.DSt) (i : Nat) (h : DDone cd st ∨ (DReady cd st ∧ st.last = some '(')) :
    DDone cd (dstep cd st i ')') := by
  obtain ⟨sl, si, sc, sI, ss⟩ := st
  have hsp : isSpace cd ')' = false := isSpace_delim cd (by decide)
  have hstop : ss = false := by rcases h with ⟨a, _⟩ | ⟨⟨a, _⟩, _⟩ <;> exact a
  have hiss : sI = [] := by rcases h with ⟨_, a, _⟩ | ⟨⟨_, a, _⟩, _⟩ <;> exact a
  have hl : sl ≠ some ',' := by
    rcases h with ⟨_, _, _, x, a4, a5, _⟩ | ⟨_, a⟩
    · simp only at a4; rw [a4]; simpa using a5
    · simp only at a; rw [a]; simp
  subst hstop hiss
  have g1 : (sl == some ',') = false := by simpa using hl
  simp [dstep, hsp, g1, DDone]

mutual
def SolidNode (cd : CharData) : ATree → Prop
  | .tag w => SolidText cd w
  | .group kids => SolidList cd kids
def SolidList (cd : CharData) : List ATree → Prop
  | [] => True
  | n :: ns => SolidNode cd n ∧ SolidList cd ns
end

mutual
theorem drun_node : ∀ (n : ATree), SolidNode cd n → ∀ (st : Validate.DSt) (i : Nat), DReady cd st →
    DDone cd (drun cd st i (renderNode n))
  | .tag w, hn, st, i, h => drun_tagtext cd w hn st i h
  | .group kids, hn, st, i, h => by
    simp only [renderNode, drun]
    rw [drun_append]
    simp only [drun]
    have ho := dstep_open cd st i h
    cases kids with
    | nil =>
      simp only [renderList, drun]
      exact dstep_close cd _ _ (Or.inr ho)
    | cons k ks =>
      exact dstep_close cd _ _ (Or.inl (drun_list (k :: ks) (by simp) hn _ _ ho.1))
theorem drun_list : ∀ (l : List ATree), l ≠ [] → SolidList cd l → ∀ (st : Validate.DSt) (i : Nat), DReady cd st →
    DDone cd (drun cd st i (renderList l))
  | [], hne, _, _, _, _ => absurd rfl hne
  | [n], _, hl, st, i, h => by
    simp only [renderList]
    exact drun_node n hl.1 st i h
  | n :: m :: ns, _, hl, st, i, h => by
    simp only [renderList]
    rw [drun_append]
    simp only [drun]
    exact drun_list (m :: ns) (by simp) hl.2 _ _ (dstep_comma cd _ _ (drun_node n hl.1 st i h))
end

/-- the delimiter scan has nothing to say about a printed forest -/
theorem delimIssues_render (l : List ATree) (hl : SolidList cd l) : delimIssues cd (renderList l) = [] := by
  unfold delimIssues
  cases l with
  | nil => simp [renderList, drun]
  | cons k ks =>
    have h := drun_list cd (k :: ks) (by simp) hl {} 0 ⟨rfl, rfl, rfl, Or.inl rfl⟩
    obtain ⟨_, a2, _, x, a4, a5, _⟩ := h
    simp only [a2, a4, List.nil_append]
    have : (some x == some ',') = false := by simpa using a5
    simp [this]

end printed2

section printed3

mutual
theorem solid_valid (cd : CharData) : ∀ (n : ATree), SolidNode cd n → ValidNode n
  | .tag _, h => h.1
  | .group ks, h => solidList_valid cd ks h
theorem solidList_valid (cd : CharData) : ∀ (l : List ATree), SolidList cd l → ValidList l
  | [], _ => trivial
  | n :: ns, h => ⟨solid_valid cd n h.1, solidList_valid cd ns h.2⟩
end

theorem parenIssues_render (l : List ATree) (hv : ValidList l) : parenIssues (renderList l) = [] := by
  have hb : balanced (renderList l) := (C02.build_ok_iff_balanced _).mp ⟨_, build_render l hv⟩
  have : Paren.mismatch (renderList l) = false := by
    cases h : Paren.mismatch (renderList l) with
    | false => rfl
    | true => exact absurd hb ((C02.mismatch_reported _).mp h)
  simp [parenIssues, this]

/-- the codes of the character rule, character by character -/
def charCodes (env : Env) (ph : Bool) (s : Str) : List Str :=
  s.flatMap fun c => if badChar env ph c then errCodes [charIssue 0 c] else []

theorem charIssues_codes (env : Env) (ph : Bool) (s : Str) : errCodes (charIssues env ph s) = charCodes env ph s :=
  charIssuesFrom_codes env ph s 0

theorem charCodes_append (env : Env) (ph : Bool) (a b : Str) : charCodes env ph (a ++ b) = charCodes env ph a ++ charCodes env ph b := by
  simp [charCodes]

theorem charCodes_delim (env : Env) (ph : Bool) (c : Char) (h : isDelim c = true) : charCodes env ph [c] = [] := by
  simp only [isDelim, Bool.or_eq_true, beq_iff_eq] at h
  rcases h with (rfl | rfl) | rfl <;> cases ph <;>
    simp [charCodes, badChar, invalidStringCharsPlaceholders, invalidStringChars, isPrintable, isAscii]

mutual
def textsNode : ATree → List Str
  | .tag w => [w]
  | .group ks => textsList ks
def textsList : List ATree → List Str
  | [] => []
  | k :: ks => textsNode k ++ textsList ks
end

theorem textsList_eq (l : List ATree) : textsList l = l.flatMap textsNode := by
  induction l with
  | nil => rfl
  | cons k ks ih => simp [textsList, ih]

mutual
theorem charCodes_node (env : Env) (ph : Bool) : ∀ (n : ATree), charCodes env ph (renderNode n) = (textsNode n).flatMap (charCodes env ph)
  | .tag w => by simp [renderNode, textsNode]
  | .group ks => by
    have := charCodes_list env ph ks
    have e : '(' :: (renderList ks ++ [')']) = ['('] ++ renderList ks ++ [')'] := by simp
    rw [renderNode, e, charCodes_append, charCodes_append, charCodes_delim env ph '(' (by decide),
      charCodes_delim env ph ')' (by decide), this]
    simp [textsNode]
theorem charCodes_list (env : Env) (ph : Bool) : ∀ (l : List ATree), charCodes env ph (renderList l) = (textsList l).flatMap (charCodes env ph)
  | [] => by simp [renderList, textsList, charCodes]
  | [n] => by simp [renderList, textsList, charCodes_node env ph n]
  | n :: m :: ns => by
    have h1 := charCodes_node env ph n
    have h2 := charCodes_list env ph (m :: ns)
    have e : renderNode n ++ ',' :: renderList (m :: ns) = renderNode n ++ [','] ++ renderList (m :: ns) := by simp
    rw [renderList, e, charCodes_append, charCodes_append, charCodes_delim env ph ',' (by decide), h1, h2]
    simp [textsList]
end

section asim
variable {Rt : Str → Str → Prop}

mutual
theorem ANodeSim.texts_flatMap {β : Type} (F : Str → List β) (hF : ∀ w w', Rt w w' → (F w).Perm (F w')) :
    ∀ (k k' : ATree), ANodeSim Rt k k' → ((textsNode k).flatMap F).Perm ((textsNode k').flatMap F)
  | .tag w, .tag w', h => by simpa [textsNode] using hF w w' h
  | .tag _, .group _, h => by simp [ANodeSim] at h
  | .group _, .tag _, h => by simp [ANodeSim] at h
  | .group ks, .group ks', h => by
    obtain ⟨m, hm, hp⟩ := h
    simp only [textsNode, textsList_eq, List.flatMap_assoc]
    exact (APointSim.texts_flatMap F hF ks m hm).trans (hp.flatMap_right _)
theorem APointSim.texts_flatMap {β : Type} (F : Str → List β) (hF : ∀ w w', Rt w w' → (F w).Perm (F w')) :
    ∀ (l m : List ATree), APointSim Rt l m →
      (l.flatMap fun k => (textsNode k).flatMap F).Perm (m.flatMap fun k => (textsNode k).flatMap F)
  | [], [], _ => List.Perm.refl _
  | k :: ks, k' :: ms, h => by
    simp only [List.flatMap_cons]
    exact (ANodeSim.texts_flatMap F hF k k' h.1).append (APointSim.texts_flatMap F hF ks ms h.2)
  | [], _ :: _, h => by simp [APointSim] at h
  | _ :: _, [], h => by simp [APointSim] at h
end

theorem AForestSim.texts_flatMap {β : Type} (F : Str → List β) (hF : ∀ w w', Rt w w' → (F w).Perm (F w'))
    {l l' : List ATree} (h : AForestSim Rt l l') : ((textsList l).flatMap F).Perm ((textsList l').flatMap F) := by
  obtain ⟨m, hm, hp⟩ := h
  simp only [textsList_eq, List.flatMap_assoc]
  exact (APointSim.texts_flatMap F hF l m hm).trans (hp.flatMap_right _)

/-- the raw-text rules on two printed forests whose tag texts have the same forbidden characters -/
theorem textIssues_render (env : Env) (ph : Bool) {l l' : List ATree} (hl : SolidList env.cd l) (hl' : SolidList env.cd l')
    (h : AForestSim Rt l l') (hRt : ∀ w w', Rt w w' → (charCodes env ph w).Perm (charCodes env ph w')) :
    (errCodes (textIssues env ph (renderList l))).Perm (errCodes (textIssues env ph (renderList l'))) := by
  simp only [textIssues, errCodes_append, parenIssues_render l (solidList_valid _ l hl),
    parenIssues_render l' (solidList_valid _ l' hl'), delimIssues_render _ l hl, delimIssues_render _ l' hl',
    charIssues_codes, charCodes_list, errCodes_nil, List.append_nil]
  exact h.texts_flatMap _ hRt

end asim
end printed3

/-! ### the Onset/Offset/Inset rule: vacuous when no top-level group is anchored by such a tag -/

def NoTemporal (env : Env) (root : List RNode) : Prop := topLevelAnchored env temporalKeys root = []

theorem onsetIssues_nil {env : Env} {root : List RNode} (h : NoTemporal env root) : onsetIssues env root = [] := by
  simp [onsetIssues, NoTemporal] at *
  simp [h]

def anchoredOf (env : Env) : RNode → List Unit
  | .tag _ => []
  | .group _ ks =>
    if (directTags ks).any (fun t => (temporalKeys.map fold).contains (fold (shortBase env t))) then [()] else []

theorem noTemporal_iff (env : Env) (root : List RNode) : NoTemporal env root ↔ root.flatMap (anchoredOf env) = [] := by
  unfold NoTemporal topLevelAnchored
  induction root with
  | nil => simp [directGroups]
  | cons k ks ih =>
    cases k with
    | tag t => simpa [directGroups, anchoredOf] using ih
    | group s kids =>
      cases hf : (directTags kids).find? fun t => (temporalKeys.map fold).contains (fold (shortBase env t)) with
      | none =>
        have : (directTags kids).any (fun t => (temporalKeys.map fold).contains (fold (shortBase env t))) = false := by
          rw [List.find?_eq_none] at hf
          simpa [List.any_eq_false] using hf
        simp only [directGroups, List.filterMap_cons, List.flatMap_cons, anchoredOf, hf, Option.map_none, this,
          Bool.false_eq_true, ↓reduceIte, List.nil_append]
        exact ih
      | some top =>
        have : (directTags kids).any (fun t => (temporalKeys.map fold).contains (fold (shortBase env t))) = true := by
          rw [List.any_eq_true]
          exact ⟨top, List.mem_of_find?_eq_some hf, by simpa using List.find?_some hf⟩
        simp only [directGroups, List.filterMap_cons, List.flatMap_cons, anchoredOf, hf, Option.map_some, this,
          ↓reduceIte]
        simp

theorem noTemporal_sim {env : Env} {R : RTag → RTag → Prop} (hR : ∀ t t', R t t' → Core t t') {l l' : List RNode}
    (h : ForestSim R l l') (hn : NoTemporal env l) : NoTemporal env l' := by
  rw [noTemporal_iff] at hn ⊢
  have := (h.flatMap_perm (anchoredOf env) (anchoredOf env) (by
    intro k _ k' _ hk
    cases k with
    | tag t => cases k' <;> simp_all [NodeSim, anchoredOf]
    | group s ks =>
      cases k' with
      | tag t => simp [NodeSim] at hk
      | group s' ks' =>
        have hf : ForestSim R ks ks' := by simpa [NodeSim, ForestSim] using hk
        simp only [anchoredOf]
        rw [hf.directTags_any (fun t => (temporalKeys.map fold).contains (fold (shortBase env t)))
          (fun t => (temporalKeys.map fold).contains (fold (shortBase env t)))
          (fun t t' htt => by rw [(hR t t' htt).shortBase])])).length_eq
  rw [hn] at this
  exact List.length_eq_zero_iff.mp this.symm

/-! ### the tag relation of the rewrites: the same tag, or a respelled one -/

def Rewritten (env : Env) (t t' : RTag) : Prop := SameTag t t' ∨ Respelled env t t'

theorem rewritten_rel (env : Env) : TagRel env (Rewritten env) where
  core := fun _ _ h => h.elim SameTag.core (·.core)
  slash := fun t t' h => h.elim ((sameTag_rel env).slash t t') (·.slash)
  chars := fun t t' h ph => h.elim (fun g => (sameTag_rel env).chars t t' g ph) (fun g => g.chars ph)
  recanon := fun t t' h => h.elim (fun g => Or.inl (canon_same env g))
    (fun g => Or.inr (by rw [g.stable.1, g.stable.2]; exact g))
  lookup := fun t t' h => (errCodes_of_sigs (canon_core_sigs env (h.elim SameTag.core (·.core)))).symm

/-- tag texts: the same text, or another spelling of the same tag with the same forbidden characters -/
def RespellText (env : Env) (w w' : Str) : Prop :=
  w' = w ∨ ((∀ sp sp', Respelled env (mkTagW env w sp) (mkTagW env w' sp')) ∧
    ∀ ph, (charCodes env ph w).Perm (charCodes env ph w'))

theorem respellText_tag (env : Env) (w w' : Str) (sp sp' : Nat × Nat) (h : RespellText env w w') :
    Rewritten env (mkTagW env w sp) (mkTagW env w' sp') := by
  rcases h with rfl | h
  · exact Or.inl (mkTagW_same env _ sp sp')
  · exact Or.inr (h.1 sp sp')

theorem respellText_chars (env : Env) (ph : Bool) (w w' : Str) (h : RespellText env w w') :
    (charCodes env ph w).Perm (charCodes env ph w') := by
  rcases h with rfl | h
  · exact List.Perm.refl _
  · exact h.2 ph

/-- two spellings that the look-up resolves to the same entry with the same remainder give `Core` tags (C03
provides the premise: `C04.spelling_same_node`, `C03.forms_roundtrip_remainder`) -/
theorem mkTagW_core (env : Env) (w w' : Str) (sp sp' : Nat × Nat)
    (hns : Schema.namespaceOf w = env.ns) (hns' : Schema.namespaceOf w' = env.ns) (i : Nat) (rem : Str)
    (hf : Schema.find env.vocab fold (w.drop env.ns.length) = .found i rem)
    (hf' : Schema.find env.vocab fold (w'.drop env.ns.length) = .found i rem) :
    Core (mkTagW env w sp) (mkTagW env w' sp') := by
  unfold mkTagW canon
  simp only [strOf, hns, hns', bne_self_eq_false, Bool.false_eq_true, ↓reduceIte, hf, hf']
  exact ⟨rfl, rfl, rfl, fun h => by simp at h⟩

end HedVerif.Rewrite

/-! ## The property theorems for the whole validator -/
namespace HedVerif.C04
open HedVerif HedVerif.Validate HedVerif.Rewrite Tok Tree

/-- what is assumed of every text the rewrites pass through: its tags are admissible for the duplicate rule
(`Dup.Adm`: what C02 and C03 say of parsed, resolved tags) -/
def TextOK (env : Env) (P : Dup.Tag → Prop) (s : Str) : Prop := TagsOK env P s

/-- **Distinct positions** (every text): in the tree of `HedString(s)` every tag and every group, at any depth,
starts at a position of its own.  This is what identifies a node where the code tests identity (`is`). -/
theorem construct_starts_nodup (s : Str) : (startsList (construct s)).Nodup := Rewrite.construct_starts_nodup s

/-- **Spacing, parse level, every text** (`Tok.split`, `Tree.construct`): same tag texts, same tree up to spans. -/
theorem spacing_invariant_text {s s' : Str} (h : Blank s s') :
    tagTexts s = tagTexts s' ∧ absList s (construct s) = absList s' (construct s') :=
  Rewrite.spacing_invariant_text h

/-- **Spacing, whole validator**, every rule, both values of `allow_placeholders`, every text. -/
theorem spacing_invariant_full (env : Env) (hs : env.var.sortCanonical = true) (he : env.var.eqFold = true)
    {P : Dup.Tag → Prop} (hP : Dup.Adm P) (hD : DefsOK env P) (ph : Bool) {s s' : Str} (h : Blank s s')
    (hok : TextOK env P s) (hok' : TextOK env P s') :
    (errCodes (validate env ph s)).Perm (errCodes (validate env ph s')) := by
  refine validate_sim (sameTag_rel env) (Rt := Eq) (fun w w' sp sp' hw => by subst hw; exact mkTagW_same env _ sp sp')
    hs he hP hD ph s s' ?_ (List.Perm.of_eq (textIssues_blankRel env ph h)) hok hok'
  rw [(Rewrite.spacing_invariant_text h).2]
  exact aForestSim_refl _

/-- **Order and spelling, whole validator, on printed annotations.** For forests `T`, `T'` of tags and groups
with the same shape up to the order of the members of every group (and of the top level), whose tag texts are
equal or respellings of each other: validating the two printed texts gives the same multiset of error codes. -/
theorem rewrite_printed_invariant (env : Env) (hs : env.var.sortCanonical = true) (he : env.var.eqFold = true)
    {P : Dup.Tag → Prop} (hP : Dup.Adm P) (hD : DefsOK env P) (ph : Bool) {T T' : List ATree}
    (hT : SolidList env.cd T) (hT' : SolidList env.cd T') (h : AForestSim (RespellText env) T T')
    (hok : TextOK env P (renderList T)) (hok' : TextOK env P (renderList T')) :
    (errCodes (validate env ph (renderList T))).Perm (errCodes (validate env ph (renderList T'))) := by
  refine validate_sim (rewritten_rel env) (Rt := RespellText env) (fun w w' sp sp' hw => respellText_tag env w w' sp sp' hw)
    hs he hP hD ph _ _ ?_ (textIssues_render env ph hT hT' h (respellText_chars env ph)) hok hok'
  rw [(C02.roundtrip_original T (solidList_valid _ T hT)).2.1, (C02.roundtrip_original T' (solidList_valid _ T' hT')).2.1]
  exact h

mutual
theorem aNodeSim_mono {Rt Rt' : Str → Str → Prop} (hm : ∀ w w', Rt w w' → Rt' w w') :
    ∀ (k k' : ATree), ANodeSim Rt k k' → ANodeSim Rt' k k'
  | .tag _, .tag _, h => by simpa [ANodeSim] using hm _ _ (by simpa [ANodeSim] using h)
  | .tag _, .group _, h => by simp [ANodeSim] at h
  | .group _, .tag _, h => by simp [ANodeSim] at h
  | .group ks, .group ks', h => by
    obtain ⟨m, hmm, hp⟩ := h
    exact ⟨m, aPointSim_mono hm ks m hmm, hp⟩
theorem aPointSim_mono {Rt Rt' : Str → Str → Prop} (hm : ∀ w w', Rt w w' → Rt' w w') :
    ∀ (l m : List ATree), APointSim Rt l m → APointSim Rt' l m
  | [], [], _ => by simp [APointSim]
  | k :: ks, k' :: ms, h => ⟨aNodeSim_mono hm k k' h.1, aPointSim_mono hm ks ms h.2⟩
  | [], _ :: _, h => by simp [APointSim] at h
  | _ :: _, [], h => by simp [APointSim] at h
end

/-- **Order, whole validator**: permuting the members of any group or of the top level, at any depth. -/
theorem order_invariant_full (env : Env) (hs : env.var.sortCanonical = true) (he : env.var.eqFold = true)
    {P : Dup.Tag → Prop} (hP : Dup.Adm P) (hD : DefsOK env P) (ph : Bool) {T T' : List ATree}
    (hT : SolidList env.cd T) (hT' : SolidList env.cd T') (h : AForestSim Eq T T')
    (hok : TextOK env P (renderList T)) (hok' : TextOK env P (renderList T')) :
    (errCodes (validate env ph (renderList T))).Perm (errCodes (validate env ph (renderList T'))) := by
  obtain ⟨m, hm, hp⟩ := h
  exact rewrite_printed_invariant env hs he hP hD ph hT hT'
    ⟨m, aPointSim_mono (fun w w' hw => Or.inl hw.symm) T m hm, hp⟩ hok hok'

/-- **Spelling, whole validator**: every tag text replaced by a respelling (`RespellText`: the two texts resolve
to tags the schema-based rules cannot tell apart — same namespace, entry and value, C03 —, the slash and
character rules say the same about both, and both have the same forbidden characters). -/
theorem spelling_invariant_full (env : Env) (hs : env.var.sortCanonical = true) (he : env.var.eqFold = true)
    {P : Dup.Tag → Prop} (hP : Dup.Adm P) (hD : DefsOK env P) (ph : Bool) {T T' : List ATree}
    (hT : SolidList env.cd T) (hT' : SolidList env.cd T') (h : APointSim (RespellText env) T T')
    (hok : TextOK env P (renderList T)) (hok' : TextOK env P (renderList T')) :
    (errCodes (validate env ph (renderList T))).Perm (errCodes (validate env ph (renderList T'))) :=
  rewrite_printed_invariant env hs he hP hD ph hT hT' ⟨T', h, List.Perm.refl _⟩ hok hok'

/-- **The rewrites of C04**, on texts: blanks next to delimiters or at the ends (any text), and — on printed
annotations — respelling tags and permuting the members of groups; composed freely. -/
inductive Rewrite (env : Env) (Ok : Str → Prop) : Str → Str → Prop
  | refl (s : Str) : Rewrite env Ok s s
  | blank {s s' : Str} : Blank s s' → Ok s → Ok s' → Rewrite env Ok s s'
  | printed {T T' : List ATree} : SolidList env.cd T → SolidList env.cd T' → AForestSim (RespellText env) T T' →
      Ok (renderList T) → Ok (renderList T') → Rewrite env Ok (renderList T) (renderList T')
  | trans {a b c : Str} : Rewrite env Ok a b → Rewrite env Ok b c → Rewrite env Ok a c

/-- **C04 for the whole validator** (`HedValidator.validate`, both values of `allow_placeholders`, the duplicate
rule after the C04 fixes): any composition of the rewrites leaves the multiset of error codes unchanged. -/
theorem rewrite_invariant (env : Env) (hs : env.var.sortCanonical = true) (he : env.var.eqFold = true)
    {P : Dup.Tag → Prop} (hP : Dup.Adm P) (hD : DefsOK env P) (ph : Bool) {Ok : Str → Prop}
    (hOk : ∀ s, Ok s → TextOK env P s) {s s' : Str} (h : Rewrite env Ok s s') :
    (errCodes (validate env ph s)).Perm (errCodes (validate env ph s')) := by
  induction h with
  | refl => exact List.Perm.refl _
  | blank hb o o' => exact spacing_invariant_full env hs he hP hD ph hb (hOk _ o) (hOk _ o')
  | printed hT hT' hA o o' => exact rewrite_printed_invariant env hs he hP hD ph hT hT' hA (hOk _ o) (hOk _ o')
  | trans _ _ ih1 ih2 => exact ih1.trans ih2

/-- **Order and spelling for texts that are not printed canonically.** The texts reached are exactly those that
differ from a printed forest by blanks next to delimiters or at the ends (`Blank s (renderList T)`): for two
such texts whose forests are related, the error codes agree. -/
theorem rewrite_invariant_text (env : Env) (hs : env.var.sortCanonical = true) (he : env.var.eqFold = true)
    {P : Dup.Tag → Prop} (hP : Dup.Adm P) (hD : DefsOK env P) (ph : Bool) {s s' : Str} {T T' : List ATree}
    (hT : SolidList env.cd T) (hT' : SolidList env.cd T') (hb : Blank s (renderList T)) (hb' : Blank s' (renderList T'))
    (h : AForestSim (RespellText env) T T')
    (hok : TextOK env P s) (hok' : TextOK env P s')
    (hpr : TextOK env P (renderList T)) (hpr' : TextOK env P (renderList T')) :
    (errCodes (validate env ph s)).Perm (errCodes (validate env ph s')) :=
  ((spacing_invariant_full env hs he hP hD ph hb hok hpr).trans
    (rewrite_printed_invariant env hs he hP hD ph hT hT' h hpr hpr')).trans
    (spacing_invariant_full env hs he hP hD ph hb' hok' hpr').symm

/-- **Model equivalence**: the duplicate rule inside the full validator model is the one of `Model/Dup.lean`
(for which `order_invariant`, `repeated_anywhere`, `no_false_repeat` are proved). -/
theorem dup_rule_is_dup_model (env : Env) (hs : env.var.sortCanonical = true) (he : env.var.eqFold = true)
    {P : Dup.Tag → Prop} (hP : Dup.Adm P) (root : List RNode) (hall : ∀ x ∈ Dup.tagsL (toDupL env root), P x) :
    errCodes (dupIssues env root) = (Dup.issues (toDupL env root)).map (fun i => dupCode i.kind) :=
  dupIssues_eq env hs he hP root hall

end HedVerif.C04

/-! ### the hypotheses can be met -/
namespace HedVerif.C04
open HedVerif HedVerif.Validate HedVerif.Rewrite Tok Tree

/-- a small environment: the duplicate rule after the C04 fixes, an empty vocabulary, no definitions -/
def envEx : Env :=
  { var := { sortCanonical := true, eqFold := true, emptyDupSafe := true }, vocab := Schema.Vocab.build fold [],
    ns := [], attrs := #[], mods := [], unitClasses := #[], modern := true, cd := {} }

theorem defsOK_ex : DefsOK envEx ShortClean := by
  intro t rest h
  simp [defExpansion, defLookup, envEx] at h

theorem textOK_ab : TextOK envEx ShortClean ['a', ',', 'b'] := by
  refine ⟨?_, ?_⟩
  · have : (parse envEx ['a', ',', 'b']).root0 =
        [.tag ⟨(0,1), ['a'], [], none, []⟩, .tag ⟨(2,3), ['b'], [], none, []⟩] := by rfl
    rw [this]
    simp [tagsList, tagsNode, toDupTag, strOf, Validate.fold, ShortClean, Dup.CleanStr]
  · have : (parse envEx ['a', ',', 'b']).root1 =
        [.tag ⟨(0,1), ['a'], [], none, []⟩, .tag ⟨(2,3), ['b'], [], none, []⟩] := by rfl
    rw [this]
    simp [tagsList, tagsNode, toDupTag, strOf, Validate.fold, ShortClean, Dup.CleanStr]

theorem textOK_a_b : TextOK envEx ShortClean ['a', ',', ' ', 'b'] := by
  refine ⟨?_, ?_⟩
  · have : (parse envEx ['a', ',', ' ', 'b']).root0 =
        [.tag ⟨(0,1), ['a'], [], none, []⟩, .tag ⟨(3,4), ['b'], [], none, []⟩] := by rfl
    rw [this]
    simp [tagsList, tagsNode, toDupTag, strOf, Validate.fold, ShortClean, Dup.CleanStr]
  · have : (parse envEx ['a', ',', ' ', 'b']).root1 =
        [.tag ⟨(0,1), ['a'], [], none, []⟩, .tag ⟨(3,4), ['b'], [], none, []⟩] := by rfl
    rw [this]
    simp [tagsList, tagsNode, toDupTag, strOf, Validate.fold, ShortClean, Dup.CleanStr]

theorem textOK_ba : TextOK envEx ShortClean ['b', ',', 'a'] := by
  refine ⟨?_, ?_⟩
  · have : (parse envEx ['b', ',', 'a']).root0 =
        [.tag ⟨(0,1), ['b'], [], none, []⟩, .tag ⟨(2,3), ['a'], [], none, []⟩] := by rfl
    rw [this]
    simp [tagsList, tagsNode, toDupTag, strOf, Validate.fold, ShortClean, Dup.CleanStr]
  · have : (parse envEx ['b', ',', 'a']).root1 =
        [.tag ⟨(0,1), ['b'], [], none, []⟩, .tag ⟨(2,3), ['a'], [], none, []⟩] := by rfl
    rw [this]
    simp [tagsList, tagsNode, toDupTag, strOf, Validate.fold, ShortClean, Dup.CleanStr]

/-- `a,b` and `a, b` -/
example : (errCodes (validate envEx true ['a', ',', 'b'])).Perm (errCodes (validate envEx true ['a', ',', ' ', 'b'])) :=
  spacing_invariant_full envEx rfl rfl shortClean_adm defsOK_ex true
    (Blank.ins (BlankStep.after ['a'] ['b'] ',' rfl)) textOK_ab textOK_a_b

/-- `a,b` and `b,a` -/
example : (errCodes (validate envEx false ['a', ',', 'b'])).Perm (errCodes (validate envEx false ['b', ',', 'a'])) := by
  have hT : SolidList envEx.cd [ATree.tag ['a'], ATree.tag ['b']] := by
    simp [SolidList, SolidNode, SolidText, ValidText, isDelim, Validate.isSpace, Validate.isAscii, envEx]
  have hT' : SolidList envEx.cd [ATree.tag ['b'], ATree.tag ['a']] := by
    simp [SolidList, SolidNode, SolidText, ValidText, isDelim, Validate.isSpace, Validate.isAscii, envEx]
  have hsim : AForestSim Eq [ATree.tag ['a'], ATree.tag ['b']] [ATree.tag ['b'], ATree.tag ['a']] :=
    ⟨_, aPointSim_refl _, List.Perm.swap _ _ _⟩
  exact order_invariant_full envEx rfl rfl shortClean_adm defsOK_ex false hT hT' hsim textOK_ab textOK_ba

end HedVerif.C04
