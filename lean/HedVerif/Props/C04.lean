/-
C04 — Validation outcome does not depend on how an annotation is written.

Theorems about `Model/Dup.lean` (duplicate detection on the recursively sorted view, `HedTag.__eq__`,
the delimiter scan), for the code *after* fixes/C04_duplicates_canonical_sort.diff and
fixes/C04_repeated_empty_group.diff; the old code is kept in the model (`…Old`) and refuted by
`order_counterexample`, `case_counterexample`, `spelling_counterexample`, `empty_groups_counterexample`.

Structure of the order proof: the fixed sort key (`skey`) is a function of the canonical form `canon`
(tags replaced by their folded short form) and determines it (`canon_eq_of_skey`, unique readability of
the parenthesised printout of clean tags); hence the sorted view of a group, in canonical form, is the
unique key-sorted arrangement of the multiset of its members' canonical sorted views
(`List.Perm.eq_of_pairwise`), and the duplicate loop depends on the canonical form only (`dupL_congr`).
Helper lemmas first (namespace `HedVerif.Dup`), the property theorems in `namespace HedVerif.C04`.
-/
import HedVerif.Model.Dup
import HedVerif.Props.C02
import HedVerif.Props.C03
namespace HedVerif.Dup

theorem strLt_irrefl (a : Str) : strLt a a = false := by
  induction a with
  | nil => rfl
  | cons x xs ih => simp [strLt, ih]

theorem strLt_asymm : ∀ (a b : Str), strLt a b = true → strLt b a = false
  | _, [], h => by simp [strLt] at h
  | [], _ :: _, _ => by simp [strLt]
  | a :: as, b :: bs, h => by
    simp only [strLt, Bool.or_eq_true, decide_eq_true_eq, Bool.and_eq_true, beq_iff_eq] at h
    simp only [strLt, Bool.or_eq_false_iff, decide_eq_false_iff_not, Bool.and_eq_false_imp, beq_iff_eq]
    rcases h with h | ⟨rfl, h⟩
    · exact ⟨by omega, fun e => by subst e; omega⟩
    · exact ⟨by omega, fun _ => strLt_asymm _ _ h⟩

/-- `≤` is transitive -/
theorem strLe_trans : ∀ (a b c : Str), strLt b a = false → strLt c b = false → strLt c a = false
  | [], _, c, h1, h2 => by
    cases c with
    | nil => simp [strLt]
    | cons c cs => rename_i b; cases b <;> simp_all [strLt]
  | _ :: _, [], _, h1, _ => by simp [strLt] at h1
  | _ :: _, _ :: _, [], _, h2 => by simp [strLt] at h2
  | a :: as, b :: bs, c :: cs, h1, h2 => by
    simp only [strLt, Bool.or_eq_false_iff, decide_eq_false_iff_not, Bool.and_eq_false_imp, beq_iff_eq] at h1 h2 ⊢
    refine ⟨by omega, fun e => ?_⟩
    have hab : a = b := Char.toNat_inj.mp (by subst e; omega)
    have hbc : b = c := by rw [← hab]; exact e.symm
    exact strLe_trans as bs cs (h1.2 hab.symm) (h2.2 hbc.symm)

theorem strLt_total : ∀ (a b : Str), strLt a b = false → strLt b a = false → a = b
  | [], [], _, _ => rfl
  | [], _ :: _, h, _ => by simp [strLt] at h
  | _ :: _, [], _, h => by simp [strLt] at h
  | a :: as, b :: bs, h1, h2 => by
    simp only [strLt, Bool.or_eq_false_iff, decide_eq_false_iff_not, Bool.and_eq_false_imp, beq_iff_eq] at h1 h2
    have : a.toNat = b.toNat := by omega
    have hab : a = b := Char.toNat_inj.mp this
    subst hab
    rw [strLt_total as bs (h1.2 rfl) (h2.2 rfl)]

/-! ### the stable sort -/

theorem insBy_perm {α : Type} (lt : α → α → Bool) (x : α) (l : List α) : (insBy lt x l).Perm (x :: l) := by
  induction l with
  | nil => exact List.Perm.refl _
  | cons y ys ih =>
    simp only [insBy]
    split
    · exact (List.Perm.cons y ih).trans (List.Perm.swap x y ys)
    · exact List.Perm.refl _

theorem sortBy_perm {α : Type} (lt : α → α → Bool) (l : List α) : (sortBy lt l).Perm l := by
  induction l with
  | nil => exact List.Perm.refl _
  | cons x xs ih => exact (insBy_perm lt x _).trans (List.Perm.cons x ih)

/-- `a` may stand before `b` as far as the primary key `k` goes -/
abbrev LeK {α : Type} (k : α → Str) (a b : α) : Prop := strLt (k b) (k a) = false

theorem insBy_pairwise {α : Type} (lt : α → α → Bool) (k : α → Str)
    (h1 : ∀ a b, lt a b = true → strLt (k b) (k a) = false)
    (h2 : ∀ a b, lt a b = false → strLt (k a) (k b) = false)
    (x : α) (l : List α) (hl : l.Pairwise (LeK k)) : (insBy lt x l).Pairwise (LeK k) := by
  induction l with
  | nil => simp [insBy]
  | cons y ys ih =>
    rw [List.pairwise_cons] at hl
    simp only [insBy]
    by_cases hyx : lt y x = true
    · simp only [hyx, ↓reduceIte, List.pairwise_cons]
      refine ⟨fun z hz => ?_, ih hl.2⟩
      rcases List.mem_cons.mp ((insBy_perm lt x ys).mem_iff.mp hz) with rfl | hz
      · exact h1 _ _ hyx
      · exact hl.1 z hz
    · have hyx' : lt y x = false := by simpa using hyx
      simp only [hyx', Bool.false_eq_true, ↓reduceIte, List.pairwise_cons]
      refine ⟨fun z hz => ?_, hl⟩
      rcases List.mem_cons.mp hz with rfl | hz
      · exact h2 _ _ hyx'
      · exact strLe_trans _ _ _ (h2 _ _ hyx') (hl.1 z hz)

theorem sortBy_pairwise {α : Type} (lt : α → α → Bool) (k : α → Str)
    (h1 : ∀ a b, lt a b = true → strLt (k b) (k a) = false)
    (h2 : ∀ a b, lt a b = false → strLt (k a) (k b) = false)
    (l : List α) : (sortBy lt l).Pairwise (LeK k) := by
  induction l with
  | nil => simp [sortBy]
  | cons x xs ih => exact insBy_pairwise lt k h1 h2 x _ ih

theorem ltNew_h1 (a b : Entry) (h : ltNew a b = true) : strLt (skey b.2) (skey a.2) = false := by
  simp only [ltNew, Bool.or_eq_true, Bool.and_eq_true, beq_iff_eq] at h
  rcases h with h | ⟨h, _⟩
  · exact strLt_asymm _ _ h
  · rw [h]; exact strLt_irrefl _

theorem ltNew_h2 (a b : Entry) (h : ltNew a b = false) : strLt (skey a.2) (skey b.2) = false := by
  simp only [ltNew, Bool.or_eq_false_iff] at h
  exact h.1

/-- the fixed sort orders by the canonical key -/
theorem sortNew_pairwise (l : List Entry) : (sortBy ltNew l).Pairwise (LeK (fun e => skey e.2)) :=
  sortBy_pairwise ltNew _ ltNew_h1 ltNew_h2 l


/-! ### trees: tags, canonical form -/

mutual
/-- all tags of a tree -/
def tags : Tree → List Tag
  | .tag t => [t]
  | .grp cs => tagsL cs
def tagsL : List Tree → List Tag
  | [] => []
  | c :: cs => tags c ++ tagsL cs
end

theorem mem_tagsL {x : Tag} {l : List Tree} : x ∈ tagsL l ↔ ∃ c ∈ l, x ∈ tags c := by
  induction l with
  | nil => simp [tagsL]
  | cons c cs ih => simp [tagsL, ih]

/-- a tag reduced to what the fixed code looks at -/
def ctag (t : Tag) : Tag := ⟨t.key, t.key, t.key⟩

mutual
/-- canonical form: every tag replaced by its folded short form -/
def canon : Tree → Tree
  | .tag t => .tag (ctag t)
  | .grp cs => .grp (canonL cs)
def canonL : List Tree → List Tree
  | [] => []
  | c :: cs => canon c :: canonL cs
end

theorem canonL_eq_map (l : List Tree) : canonL l = l.map canon := by
  induction l with
  | nil => rfl
  | cons c cs ih => simp [canonL, ih]

theorem isTag_canon (t : Tree) : isTag (canon t) = isTag t := by cases t <;> simp [canon, isTag]
theorem isGrp_canon (t : Tree) : isGrp (canon t) = isGrp t := by cases t <;> simp [canon, isGrp]
theorem isGrp_eq_not (t : Tree) : isGrp t = !isTag t := by cases t <;> simp [isTag, isGrp]

mutual
theorem skey_canon : ∀ t : Tree, skey (canon t) = skey t
  | .tag t => by simp [canon, render, ctag]
  | .grp cs => by simp [canon, render, skeyL_canon cs]
theorem skeyL_canon : ∀ l : List Tree, renderL Tag.key (canonL l) = renderL Tag.key l
  | [] => by simp [canonL]
  | c :: cs => by
    have h1 := skey_canon c
    have h2 := skeyL_canon cs
    cases cs with
    | nil => simpa [canonL, renderL] using h1
    | cons d ds =>
      simp only [canonL, renderL] at h2 ⊢
      simp only [skey] at h1
      rw [h1, h2]
end

/-- the canonical key depends on the canonical form only -/
theorem skey_eq_of_canon {a b : Tree} (h : canon a = canon b) : skey a = skey b := by
  rw [← skey_canon a, ← skey_canon b, h]

/-! ### the canonical key determines the canonical form (unique readability) -/

/-- what a tag text can be after tokenisation (C02 `tiling`): non-empty, no delimiter -/
def CleanStr (s : Str) : Prop := s ≠ [] ∧ ∀ c ∈ s, c ≠ '(' ∧ c ≠ ')' ∧ c ≠ ','

/-- the rest of the text after an element: empty, or a comma, or a closing parenthesis -/
def stop : Str → Bool
  | [] => true
  | c :: _ => c == ',' || c == ')'

theorem span_unique : ∀ (k k' s s' : Str), (∀ c ∈ k, c ≠ '(' ∧ c ≠ ')' ∧ c ≠ ',') →
    (∀ c ∈ k', c ≠ '(' ∧ c ≠ ')' ∧ c ≠ ',') → stop s = true → stop s' = true →
    k ++ s = k' ++ s' → k = k' ∧ s = s'
  | [], [], _, _, _, _, _, _, h => ⟨rfl, by simpa using h⟩
  | [], c :: k', s, s', _, hk', hs, _, h => by
    simp only [List.nil_append] at h
    subst h
    have := hk' c (by simp)
    simp [stop] at hs
    rcases hs with rfl | rfl <;> simp_all
  | c :: k, [], s, s', hk, _, _, hs', h => by
    simp only [List.nil_append] at h
    subst h
    have := hk c (by simp)
    simp [stop] at hs'
    rcases hs' with rfl | rfl <;> simp_all
  | c :: k, c' :: k', s, s', hk, hk', hs, hs', h => by
    simp only [List.cons_append, List.cons.injEq] at h
    obtain ⟨rfl, h⟩ := h
    have := span_unique k k' s s' (fun x hx => hk x (by simp [hx])) (fun x hx => hk' x (by simp [hx])) hs hs' h
    exact ⟨by rw [this.1], this.2⟩

/-- the key of a clean tree starts with a character that is neither `,` nor `)` -/
theorem skey_head (a : Tree) (ha : ∀ x ∈ tags a, CleanStr x.key) :
    ∃ c r, skey a = c :: r ∧ c ≠ ',' ∧ c ≠ ')' := by
  cases a with
  | tag t =>
    have h := ha t (by simp [tags])
    cases hk : t.key with
    | nil => exact absurd hk h.1
    | cons c r =>
      have := h.2 c (by simp [hk])
      exact ⟨c, r, by simp [render, hk], this.2.2, this.2.1⟩
  | grp cs => exact ⟨'(', renderL Tag.key cs ++ [')'], by simp [render], by decide, by decide⟩

mutual
theorem skey_inj : ∀ (a b : Tree) (s s' : Str), (∀ x ∈ tags a, CleanStr x.key) → (∀ x ∈ tags b, CleanStr x.key) →
    stop s = true → stop s' = true → skey a ++ s = skey b ++ s' → canon a = canon b ∧ s = s'
  | .tag t, .tag u, s, s', ha, hb, hs, hs', h => by
    have h1 := ha t (by simp [tags])
    have h2 := hb u (by simp [tags])
    simp only [skey, render] at h
    have := span_unique _ _ _ _ h1.2 h2.2 hs hs' h
    exact ⟨by simp [canon, ctag, this.1], this.2⟩
  | .tag t, .grp ds, s, s', ha, _, _, _, h => by
    have h1 := ha t (by simp [tags])
    simp only [skey, render] at h
    cases hk : t.key with
    | nil => exact absurd hk h1.1
    | cons c r =>
      rw [hk] at h
      simp only [List.cons_append, List.cons.injEq] at h
      have := h1.2 c (by simp [hk])
      exact absurd h.1 this.1
  | .grp cs, .tag u, s, s', _, hb, _, _, h => by
    have h1 := hb u (by simp [tags])
    simp only [skey, render] at h
    cases hk : u.key with
    | nil => exact absurd hk h1.1
    | cons c r =>
      rw [hk] at h
      simp only [List.cons_append, List.cons.injEq] at h
      have := h1.2 c (by simp [hk])
      exact absurd h.1.symm this.1
  | .grp cs, .grp ds, s, s', ha, hb, _, _, h => by
    simp only [skey, render, List.cons_append, List.cons.injEq, true_and, List.append_assoc] at h
    have := skeyL_inj cs ds s s' (by simpa [tags] using ha) (by simpa [tags] using hb) (by simpa using h)
    exact ⟨by simp [canon, this.1], this.2⟩
theorem skeyL_inj : ∀ (as bs : List Tree) (r r' : Str), (∀ x ∈ tagsL as, CleanStr x.key) →
    (∀ x ∈ tagsL bs, CleanStr x.key) →
    renderL Tag.key as ++ ')' :: r = renderL Tag.key bs ++ ')' :: r' → canonL as = canonL bs ∧ r = r'
  | [], [], r, r', _, _, h => by simpa [renderL, canonL] using h
  | [], b :: bs, r, r', _, hb, h => by
    obtain ⟨c, q, hq, h1, h2⟩ := skey_head b (fun x hx => hb x (by simp [tagsL, hx]))
    simp only [renderL, List.nil_append, List.append_assoc] at h
    simp only [skey] at hq
    rw [hq] at h
    simp only [List.cons_append, List.cons.injEq] at h
    exact absurd h.1.symm h2
  | a :: as, [], r, r', ha, _, h => by
    obtain ⟨c, q, hq, h1, h2⟩ := skey_head a (fun x hx => ha x (by simp [tagsL, hx]))
    simp only [renderL, List.nil_append, List.append_assoc] at h
    simp only [skey] at hq
    rw [hq] at h
    simp only [List.cons_append, List.cons.injEq] at h
    exact absurd h.1 h2
  | a :: as, b :: bs, r, r', ha, hb, h => by
    have ha1 : ∀ x ∈ tags a, CleanStr x.key := fun x hx => ha x (by simp [tagsL, hx])
    have hb1 : ∀ x ∈ tags b, CleanStr x.key := fun x hx => hb x (by simp [tagsL, hx])
    have ha2 : ∀ x ∈ tagsL as, CleanStr x.key := fun x hx => ha x (by simp [tagsL, hx])
    have hb2 : ∀ x ∈ tagsL bs, CleanStr x.key := fun x hx => hb x (by simp [tagsL, hx])
    simp only [renderL, List.append_assoc] at h
    have key := skey_inj a b _ _ ha1 hb1 (by cases as <;> simp [stop]) (by cases bs <;> simp [stop]) h
    obtain ⟨hab, hrest⟩ := key
    cases as with
    | nil =>
      cases bs with
      | nil => exact ⟨by simp [canonL, hab], by simpa using hrest⟩
      | cons d ds => simp at hrest
    | cons c cs =>
      cases bs with
      | nil => simp at hrest
      | cons d ds =>
        simp only [List.cons_append, List.cons.injEq, true_and] at hrest
        have := skeyL_inj (c :: cs) (d :: ds) r r' ha2 hb2 hrest
        exact ⟨by simp only [canonL] at this ⊢; rw [hab, this.1], this.2⟩
end

/-- **Unique readability.** Clean trees with the same canonical key have the same canonical form. -/
theorem canon_eq_of_skey {a b : Tree} (ha : ∀ x ∈ tags a, CleanStr x.key) (hb : ∀ x ∈ tags b, CleanStr x.key)
    (h : skey a = skey b) : canon a = canon b :=
  (skey_inj a b [] [] ha hb rfl rfl (by simpa using h)).1


/-! ### `_sorted` keeps the children, up to order -/

theorem sortKids_eq_map (lt : Entry → Entry → Bool) (cs : List Tree) :
    sortKids lt cs = cs.map (fun c => (render Tag.text c, sortT lt c)) := by
  induction cs with
  | nil => rfl
  | cons c cs ih => simp [sortKids, ih]

theorem arrange_perm (lt : Entry → Entry → Bool) (E : List Entry) : (arrange lt E).Perm (E.map Prod.snd) := by
  unfold arrange
  apply List.Perm.map
  have hq : (fun p : Entry => isGrp p.2) = (fun p : Entry => !(fun p : Entry => isTag p.2) p) := by
    funext p; exact isGrp_eq_not p.2
  rw [hq]
  exact ((sortBy_perm lt _).append (sortBy_perm lt _)).trans (List.filter_append_perm _ E)

theorem mem_arrange {lt : Entry → Entry → Bool} {E : List Entry} {c : Tree} :
    c ∈ arrange lt E ↔ ∃ e ∈ E, e.2 = c := by
  rw [(arrange_perm lt E).mem_iff]; simp

mutual
theorem tags_sortT (lt : Entry → Entry → Bool) : ∀ (t : Tree) (x : Tag), x ∈ tags (sortT lt t) ↔ x ∈ tags t
  | .tag t, x => by simp [sortT]
  | .grp cs, x => by
    simp only [sortT, tags, mem_tagsL, mem_arrange]
    have := tags_sortKids lt cs x
    simp only [mem_tagsL] at this
    constructor
    · rintro ⟨c, ⟨e, he, rfl⟩, hx⟩; exact this.mp ⟨e, he, hx⟩
    · intro h; obtain ⟨e, he, hx⟩ := this.mpr h; exact ⟨e.2, ⟨e, he, rfl⟩, hx⟩
theorem tags_sortKids (lt : Entry → Entry → Bool) : ∀ (cs : List Tree) (x : Tag),
    (∃ e ∈ sortKids lt cs, x ∈ tags e.2) ↔ x ∈ tagsL cs
  | [], x => by simp [sortKids, tagsL]
  | c :: cs, x => by
    have h1 := tags_sortT lt c x
    have h2 := tags_sortKids lt cs x
    simp only [sortKids, tagsL, List.mem_cons, List.mem_append, exists_eq_or_imp, h1, h2]
end

theorem tags_sortedView (lt : Entry → Entry → Bool) (top : List Tree) (x : Tag) :
    x ∈ tagsL (arrange lt (sortKids lt top)) ↔ x ∈ tagsL top := by
  have := tags_sortT lt (.grp top) x
  simpa [sortT, tags] using this

/-! ### admissible tags: what C02 and C03 guarantee about parsed, resolved tags -/

/-- `P` describes tags (i) whose folded short form is a function of the folded original text (C03: the
text resolves case-insensitively, the remainder is kept verbatim) and (ii) whose text is a token (C02). -/
structure Adm (P : Tag → Prop) : Prop where
  coh : ∀ a b, P a → P b → a.org = b.org → a.key = b.key
  clean : ∀ a, P a → CleanStr a.key

theorem teq_iff {P : Tag → Prop} (hP : Adm P) {a b : Tag} (ha : P a) (hb : P b) :
    teq a b = true ↔ ctag a = ctag b := by
  simp only [teq, Bool.or_eq_true, beq_iff_eq, ctag, Tag.mk.injEq, and_self]
  constructor
  · rintro (h | h)
    · exact h
    · exact hP.coh a b ha hb h
  · exact fun h => Or.inl h

mutual
theorem eqv_iff {P : Tag → Prop} (hP : Adm P) : ∀ (a b : Tree), (∀ x ∈ tags a, P x) → (∀ x ∈ tags b, P x) →
    (eqv teq a b = true ↔ canon a = canon b)
  | .tag t, .tag u, ha, hb => by
    simp only [eqv, canon, Tree.tag.injEq]
    exact teq_iff hP (ha t (by simp [tags])) (hb u (by simp [tags]))
  | .tag _, .grp _, _, _ => by simp [eqv, canon]
  | .grp _, .tag _, _, _ => by simp [eqv, canon]
  | .grp cs, .grp ds, ha, hb => by
    simp only [eqv, canon, Tree.grp.injEq]
    exact eqvL_iff hP cs ds (by simpa [tags] using ha) (by simpa [tags] using hb)
theorem eqvL_iff {P : Tag → Prop} (hP : Adm P) : ∀ (as bs : List Tree), (∀ x ∈ tagsL as, P x) →
    (∀ x ∈ tagsL bs, P x) → (eqvL teq as bs = true ↔ canonL as = canonL bs)
  | [], [], _, _ => by simp [eqvL, canonL]
  | [], _ :: _, _, _ => by simp [eqvL, canonL]
  | _ :: _, [], _, _ => by simp [eqvL, canonL]
  | a :: as, b :: bs, ha, hb => by
    have h1 := eqv_iff hP a b (fun x hx => ha x (by simp [tagsL, hx])) (fun x hx => hb x (by simp [tagsL, hx]))
    have h2 := eqvL_iff hP as bs (fun x hx => ha x (by simp [tagsL, hx])) (fun x hx => hb x (by simp [tagsL, hx]))
    simp only [eqvL, canonL, Bool.and_eq_true, List.cons.injEq, h1, h2]
end

theorem issueOf_congr {a b : Tree} (h : canon a = canon b) : issueOf a = issueOf b := by
  have h1 : isTag a = isTag b := by rw [← isTag_canon a, ← isTag_canon b, h]
  simp [issueOf, h1, skey_eq_of_canon h]

mutual
theorem dupT_congr {P : Tag → Prop} (hP : Adm P) : ∀ (a b : Tree), (∀ x ∈ tags a, P x) → (∀ x ∈ tags b, P x) →
    canon a = canon b → dupT teq a = dupT teq b
  | .tag _, .tag _, _, _, _ => by simp [dupT]
  | .tag _, .grp _, _, _, h => by simp [canon] at h
  | .grp _, .tag _, _, _, h => by simp [canon] at h
  | .grp cs, .grp ds, ha, hb, h => by
    simp only [canon, Tree.grp.injEq] at h
    simp only [dupT]
    exact dupL_congr hP cs ds none none (by simpa [tags] using ha) (by simpa [tags] using hb)
      (by simp) (by simp) rfl h
theorem dupL_congr {P : Tag → Prop} (hP : Adm P) : ∀ (xs ys : List Tree) (prev prev' : Option Tree),
    (∀ x ∈ tagsL xs, P x) → (∀ x ∈ tagsL ys, P x) →
    (∀ p, prev = some p → ∀ x ∈ tags p, P x) → (∀ p, prev' = some p → ∀ x ∈ tags p, P x) →
    prev.map canon = prev'.map canon → canonL xs = canonL ys → dupL teq prev xs = dupL teq prev' ys
  | [], [], _, _, _, _, _, _, _, _ => by simp [dupL]
  | [], _ :: _, _, _, _, _, _, _, _, h => by simp [canonL] at h
  | _ :: _, [], _, _, _, _, _, _, _, h => by simp [canonL] at h
  | a :: as, b :: bs, prev, prev', ha, hb, hp, hp', hpp, h => by
    simp only [canonL, List.cons.injEq] at h
    have ha1 : ∀ x ∈ tags a, P x := fun x hx => ha x (by simp [tagsL, hx])
    have hb1 : ∀ x ∈ tags b, P x := fun x hx => hb x (by simp [tagsL, hx])
    have e1 : eqPrev teq prev a = eqPrev teq prev' b := by
      cases prev with
      | none => cases prev' with
        | none => rfl
        | some q => simp at hpp
      | some p => cases prev' with
        | none => simp at hpp
        | some q =>
          simp only [Option.map_some, Option.some.injEq] at hpp
          simp only [eqPrev]
          rw [Bool.eq_iff_iff, eqv_iff hP a p ha1 (hp p rfl), eqv_iff hP b q hb1 (hp' q rfl), h.1, hpp]
    have e2 := dupT_congr hP a b ha1 hb1 h.1
    have e3 := dupL_congr hP as bs (some a) (some b) (fun x hx => ha x (by simp [tagsL, hx]))
      (fun x hx => hb x (by simp [tagsL, hx])) (by simpa using ha1) (by simpa using hb1) (by simp [h.1]) h.2
    simp only [dupL, e1, e2, e3, issueOf_congr h.1]
end

/-! ### the sorted view does not depend on the order of the children -/

theorem half_congr (p : Tree → Bool) (hp : ∀ t, p (canon t) = p t) (E1 E2 : List Entry)
    (h1 : ∀ e ∈ E1, ∀ x ∈ tags e.2, CleanStr x.key) (h2 : ∀ e ∈ E2, ∀ x ∈ tags e.2, CleanStr x.key)
    (hperm : (E1.map (fun e => canon e.2)).Perm (E2.map (fun e => canon e.2))) :
    (sortBy ltNew (E1.filter (fun e => p e.2))).map (fun e => canon e.2) =
    (sortBy ltNew (E2.filter (fun e => p e.2))).map (fun e => canon e.2) := by
  have hfm : ∀ E : List Entry, (E.filter (fun e => p e.2)).map (fun e => canon e.2) =
      (E.map (fun e => canon e.2)).filter p := by
    intro E
    rw [List.filter_map]
    congr 1
    apply List.filter_congr
    intro e _
    simp [hp]
  have hpw : ∀ E : List Entry, ((sortBy ltNew E).map (fun e => canon e.2)).Pairwise (LeK skey) := by
    intro E
    refine List.Pairwise.map _ ?_ (sortNew_pairwise E)
    intro a b hab
    simpa [LeK, skey_canon] using hab
  apply List.Perm.eq_of_pairwise (le := LeK skey) ?_ (hpw _) (hpw _)
  · refine ((sortBy_perm ltNew _).map _).trans ?_
    refine List.Perm.trans ?_ ((sortBy_perm ltNew _).map _).symm
    rw [hfm, hfm]
    exact hperm.filter p
  · intro a b ha hb hab hba
    obtain ⟨e1, he1, rfl⟩ := List.mem_map.mp ha
    obtain ⟨e2, he2, rfl⟩ := List.mem_map.mp hb
    have m1 : e1 ∈ E1 := (List.mem_filter.mp ((sortBy_perm ltNew _).mem_iff.mp he1)).1
    have m2 : e2 ∈ E2 := (List.mem_filter.mp ((sortBy_perm ltNew _).mem_iff.mp he2)).1
    have hk : skey e1.2 = skey e2.2 := by
      have := strLt_total _ _ hba hab
      simpa [skey_canon] using this
    exact canon_eq_of_skey (h1 e1 m1) (h2 e2 m2) hk

theorem arrange_congr (E1 E2 : List Entry)
    (h1 : ∀ e ∈ E1, ∀ x ∈ tags e.2, CleanStr x.key) (h2 : ∀ e ∈ E2, ∀ x ∈ tags e.2, CleanStr x.key)
    (hperm : (E1.map (fun e => canon e.2)).Perm (E2.map (fun e => canon e.2))) :
    canonL (arrange ltNew E1) = canonL (arrange ltNew E2) := by
  simp only [canonL_eq_map, arrange, List.map_append, List.map_map]
  have ht := half_congr isTag isTag_canon E1 E2 h1 h2 hperm
  have hg := half_congr isGrp isGrp_canon E1 E2 h1 h2 hperm
  simp only [Function.comp_def]
  rw [ht, hg]

/-- `b` is `a` with the children of some groups (or of the top level) reordered -/
inductive Shuffle : Tree → Tree → Prop
  | refl (t : Tree) : Shuffle t t
  | perm {cs ds : List Tree} : cs.Perm ds → Shuffle (.grp cs) (.grp ds)
  | inside {pre post : List Tree} {c d : Tree} : Shuffle c d →
      Shuffle (.grp (pre ++ c :: post)) (.grp (pre ++ d :: post))
  | trans {a b c : Tree} : Shuffle a b → Shuffle b c → Shuffle a c

theorem shuffle_tags {a b : Tree} (h : Shuffle a b) : ∀ x, x ∈ tags a ↔ x ∈ tags b := by
  induction h with
  | refl t => intro x; rfl
  | perm hp => intro x; simp only [tags, mem_tagsL]; constructor <;> rintro ⟨c, hc, hx⟩
               · exact ⟨c, hp.mem_iff.mp hc, hx⟩
               · exact ⟨c, hp.mem_iff.mpr hc, hx⟩
  | inside _ ih => intro x; simp only [tags, mem_tagsL, List.mem_append, List.mem_cons]
                   constructor
                   · rintro ⟨e, (he | rfl | he), hx⟩
                     · exact ⟨e, Or.inl he, hx⟩
                     · exact ⟨_, Or.inr (Or.inl rfl), (ih x).mp hx⟩
                     · exact ⟨e, Or.inr (Or.inr he), hx⟩
                   · rintro ⟨e, (he | rfl | he), hx⟩
                     · exact ⟨e, Or.inl he, hx⟩
                     · exact ⟨_, Or.inr (Or.inl rfl), (ih x).mpr hx⟩
                     · exact ⟨e, Or.inr (Or.inr he), hx⟩
  | trans _ _ ih1 ih2 => intro x; exact (ih1 x).trans (ih2 x)

theorem clean_sortKids {cs : List Tree} (h : ∀ x ∈ tagsL cs, CleanStr x.key) :
    ∀ e ∈ sortKids ltNew cs, ∀ x ∈ tags e.2, CleanStr x.key :=
  fun e he x hx => h x ((tags_sortKids ltNew cs x).mp ⟨e, he, hx⟩)

theorem shuffle_canon {a b : Tree} (h : Shuffle a b) :
    (∀ x ∈ tags a, CleanStr x.key) → canon (sortT ltNew a) = canon (sortT ltNew b) := by
  induction h with
  | refl t => intro _; rfl
  | @perm cs ds hp =>
    intro hc
    have hd : ∀ x ∈ tags (.grp ds), CleanStr x.key := fun x hx => hc x ((shuffle_tags (.perm hp) x).mpr hx)
    simp only [sortT, canon, Tree.grp.injEq]
    apply arrange_congr _ _ (clean_sortKids (by simpa [tags] using hc)) (clean_sortKids (by simpa [tags] using hd))
    simp only [sortKids_eq_map, List.map_map]
    exact hp.map _
  | @inside pre post c d hcd ih =>
    intro hc
    have hd : ∀ x ∈ tags (.grp (pre ++ d :: post)), CleanStr x.key :=
      fun x hx => hc x ((shuffle_tags (.inside hcd) x).mpr hx)
    have ih' := ih (fun x hx => hc x (by simp [tags, mem_tagsL]; exact ⟨c, Or.inr (Or.inl rfl), hx⟩))
    simp only [sortT, canon, Tree.grp.injEq]
    apply arrange_congr _ _ (clean_sortKids (by simpa [tags] using hc)) (clean_sortKids (by simpa [tags] using hd))
    simp only [sortKids_eq_map, List.map_map, List.map_append, List.map_cons, Function.comp_def, ih']
    exact List.Perm.refl _
  | trans h1 _ ih1 ih2 =>
    intro hc
    exact (ih1 hc).trans (ih2 (fun x hx => hc x ((shuffle_tags h1 x).mpr hx)))


/-! ### where the loop reports -/

theorem dupT_sub_dupL (e : Tag → Tag → Bool) : ∀ (l : List Tree) (prev : Option Tree) (c : Tree), c ∈ l →
    ∀ i ∈ dupT e c, i ∈ dupL e prev l
  | [], _, _, h, _, _ => by simp at h
  | d :: ds, prev, c, h, i, hi => by
    simp only [dupL, List.mem_append]
    rcases List.mem_cons.mp h with rfl | h
    · exact Or.inl (Or.inr hi)
    · exact Or.inr (dupT_sub_dupL e ds (some d) c h i hi)

theorem adjacent_reported (e : Tag → Tag → Bool) : ∀ (A : List Tree) (prev : Option Tree) (w z : Tree) (C : List Tree),
    eqv e z w = true → issueOf z ∈ dupL e prev (A ++ w :: z :: C)
  | [], prev, w, z, C, h => by simp [dupL, eqPrev, h]
  | a :: A, prev, w, z, C, h => by
    simp only [List.cons_append, dupL, List.mem_append]
    exact Or.inr (adjacent_reported e A (some a) w z C h)

/-- in a list sorted by `k`, two entries with key `v` force two *adjacent* entries with key `v` -/
theorem adjacent_of_sorted {α : Type} (k : α → Str) (v : Str) : ∀ (S : List α), S.Pairwise (LeK k) →
    2 ≤ S.countP (fun a => k a == v) → ∃ A w z C, S = A ++ w :: z :: C ∧ k w = v ∧ k z = v
  | [], _, h => by simp at h
  | a :: S, hpw, h => by
    rw [List.pairwise_cons] at hpw
    by_cases ha : k a = v
    · have h1 : 1 ≤ S.countP (fun a => k a == v) := by
        simp only [List.countP_cons, ha, beq_self_eq_true, ↓reduceIte] at h; omega
      obtain ⟨z, hz, hzk⟩ := List.countP_pos_iff.mp h1
      cases S with
      | nil => simp at hz
      | cons b S' =>
        refine ⟨[], a, b, S', rfl, ha, ?_⟩
        have hab : LeK k a b := hpw.1 b (by simp)
        rcases List.mem_cons.mp hz with rfl | hz'
        · simpa using hzk
        · have hbz : LeK k b z := (List.pairwise_cons.mp hpw.2).1 z hz'
          have hzv : k z = v := by simpa using hzk
          simp only [LeK, ha, hzv] at hab hbz
          exact strLt_total _ _ hab hbz
    · have : (k a == v) = false := by simpa using ha
      simp only [List.countP_cons, this, Bool.false_eq_true, ↓reduceIte, Nat.add_zero] at h
      obtain ⟨A, w, z, C, rfl, hw, hz⟩ := adjacent_of_sorted k v S hpw.2 h
      exact ⟨a :: A, w, z, C, rfl, hw, hz⟩

/-- `g` occurs in `t` (as `t` itself or a group nested in it) -/
inductive Sub : Tree → Tree → Prop
  | refl (t : Tree) : Sub t t
  | step {g c : Tree} {cs : List Tree} : c ∈ cs → Sub g c → Sub g (.grp cs)

theorem sub_reported {g t : Tree} (h : Sub g t) : ∀ i ∈ dupT teq (sortT ltNew g), i ∈ dupT teq (sortT ltNew t) := by
  induction h with
  | refl => exact fun i hi => hi
  | @step c cs hc _ ih =>
    intro i hi
    simp only [sortT, dupT]
    refine dupT_sub_dupL teq _ none (sortT ltNew c) ?_ i (ih i hi)
    rw [mem_arrange]
    exact ⟨(render Tag.text c, sortT ltNew c), by rw [sortKids_eq_map]; exact List.mem_map.mpr ⟨c, hc, rfl⟩, rfl⟩

theorem sub_tags {g t : Tree} (h : Sub g t) : ∀ x ∈ tags g, x ∈ tags t := by
  induction h with
  | refl => exact fun x hx => hx
  | @step c cs hc _ ih => exact fun x hx => by simp only [tags, mem_tagsL]; exact ⟨c, hc, ih x hx⟩

/-- members equal up to spelling and member order -/
def Same (x y : Tree) : Prop := canon (sortT ltNew x) = canon (sortT ltNew y)

theorem repeated_in_group {P : Tag → Prop} (hP : Adm P) (l1 l2 l3 : List Tree) (x y : Tree)
    (hg : ∀ t ∈ tagsL (l1 ++ x :: (l2 ++ y :: l3)), P t) (hxy : Same x y) :
    ∃ i ∈ dupT teq (sortT ltNew (.grp (l1 ++ x :: (l2 ++ y :: l3)))), i.key = skey (sortT ltNew x) := by
  let cs := l1 ++ x :: (l2 ++ y :: l3)
  let E := sortKids ltNew cs
  have hclean : ∀ e ∈ E, ∀ t ∈ tags e.2, P t := fun e he t ht => hg t ((tags_sortKids ltNew cs t).mp ⟨e, he, ht⟩)
  let v := skey (sortT ltNew x)
  have hvy : skey (sortT ltNew y) = v := (skey_eq_of_canon hxy).symm
  -- the half of the view that holds x and y
  obtain ⟨p, hpc, hpx, hpy⟩ : ∃ p : Tree → Bool, (p = isTag ∨ p = isGrp) ∧ p (sortT ltNew x) = true ∧
      p (sortT ltNew y) = true := by
    have hty : isTag (sortT ltNew y) = isTag (sortT ltNew x) := by
      rw [← isTag_canon, ← isTag_canon (sortT ltNew x), hxy]
    by_cases hx : isTag (sortT ltNew x) = true
    · exact ⟨isTag, Or.inl rfl, hx, by rw [hty]; exact hx⟩
    · exact ⟨isGrp, Or.inr rfl, by rw [isGrp_eq_not]; simpa using hx, by rw [isGrp_eq_not, hty]; simpa using hx⟩
  let S := sortBy ltNew (E.filter (fun e => p e.2))
  have hcount : 2 ≤ S.countP (fun e => skey e.2 == v) := by
    rw [(sortBy_perm ltNew _).countP_eq]
    simp only [E, cs, sortKids_eq_map, List.map_append, List.map_cons, List.filter_append, List.filter_cons, hpx, hpy,
      ↓reduceIte, List.countP_append, List.countP_cons, hvy, v, beq_self_eq_true]
    omega
  obtain ⟨A, w, z, C, hS, hw, hz⟩ := adjacent_of_sorted (fun e : Entry => skey e.2) v S (sortNew_pairwise _) hcount
  have hwS : w ∈ S := by rw [hS]; simp
  have hzS : z ∈ S := by rw [hS]; simp
  have hwE : w ∈ E := (List.mem_filter.mp ((sortBy_perm ltNew _).mem_iff.mp hwS)).1
  have hzE : z ∈ E := (List.mem_filter.mp ((sortBy_perm ltNew _).mem_iff.mp hzS)).1
  have heq : eqv teq z.2 w.2 = true := by
    rw [eqv_iff hP z.2 w.2 (hclean z hzE) (hclean w hwE)]
    exact canon_eq_of_skey (fun t ht => hP.clean t (hclean z hzE t ht)) (fun t ht => hP.clean t (hclean w hwE t ht))
      (by rw [hz, hw])
  refine ⟨issueOf z.2, ?_, by simp [issueOf, hz, v]⟩
  simp only [sortT, dupT]
  -- the sorted view is  tags-half ++ groups-half ; the adjacent pair sits in one of them
  have harr : arrange ltNew E = (sortBy ltNew (E.filter (fun e => isTag e.2))).map Prod.snd ++
      (sortBy ltNew (E.filter (fun e => isGrp e.2))).map Prod.snd := by simp [arrange]
  show issueOf z.2 ∈ dupL teq none (arrange ltNew E)
  rw [harr]
  rcases hpc with rfl | rfl
  · have hSdef : sortBy ltNew (E.filter (fun e => isTag e.2)) = A ++ w :: z :: C := hS
    rw [hSdef]
    simp only [List.map_append, List.map_cons, List.append_assoc, List.cons_append]
    exact adjacent_reported teq _ none w.2 z.2 _ heq
  · have hSdef : sortBy ltNew (E.filter (fun e => isGrp e.2)) = A ++ w :: z :: C := hS
    rw [hSdef]
    simp only [List.map_append, List.map_cons]
    rw [← List.append_assoc]
    exact adjacent_reported teq _ none w.2 z.2 _ heq

theorem dupL_nil (e : Tag → Tag → Bool) : ∀ (L : List Tree) (prev : Option Tree),
    (∀ c ∈ L, dupT e c = []) → L.Pairwise (fun a b => eqv e b a = false) →
    (∀ p, prev = some p → ∀ c ∈ L, eqv e c p = false) → dupL e prev L = []
  | [], _, _, _, _ => by simp [dupL]
  | c :: L, prev, h1, h2, h3 => by
    rw [List.pairwise_cons] at h2
    have e1 : eqPrev e prev c = false := by
      cases prev with
      | none => rfl
      | some p => exact h3 p rfl c (by simp)
    have e2 := h1 c (by simp)
    have e3 := dupL_nil e L (some c) (fun d hd => h1 d (by simp [hd])) h2.2
      (fun p hp d hd => by cases hp; exact h2.1 d hd)
    simp [dupL, e1, e2, e3]

/-- no group of `t` (nor `t` itself) has two members that are equal up to spelling and order -/
def NoRepeat (t : Tree) : Prop := ∀ cs, Sub (.grp cs) t → cs.Pairwise (fun x y => ¬ Same x y)

mutual
theorem noRepeat_nil {P : Tag → Prop} (hP : Adm P) : ∀ (t : Tree), (∀ x ∈ tags t, P x) → NoRepeat t →
    dupT teq (sortT ltNew t) = []
  | .tag _, _, _ => by simp [sortT, dupT]
  | .grp cs, hg, hn => by
    simp only [sortT, dupT]
    have hkids := noRepeatL_nil hP cs (by simpa [tags] using hg)
      (fun c hc cs' hs => hn cs' (Sub.step hc hs))
    have hmem : ∀ c ∈ arrange ltNew (sortKids ltNew cs), ∃ c0 ∈ cs, c = sortT ltNew c0 := by
      intro c hc
      obtain ⟨e, he, rfl⟩ := mem_arrange.mp hc
      rw [sortKids_eq_map] at he
      obtain ⟨c0, hc0, rfl⟩ := List.mem_map.mp he
      exact ⟨c0, hc0, rfl⟩
    apply dupL_nil
    · intro c hc
      obtain ⟨c0, hc0, rfl⟩ := hmem c hc
      exact hkids c0 hc0
    · have hpw : (cs.map (sortT ltNew)).Pairwise (fun a b => canon a ≠ canon b) := by
        rw [List.pairwise_map]
        exact hn cs (Sub.refl _)
      have hperm : (arrange ltNew (sortKids ltNew cs)).Perm (cs.map (sortT ltNew)) := by
        have := arrange_perm ltNew (sortKids ltNew cs)
        simpa [sortKids_eq_map, List.map_map, Function.comp_def] using this
      have hpw' := hpw.perm hperm.symm (fun h => h.symm)
      have hall : ∀ c ∈ arrange ltNew (sortKids ltNew cs), ∀ x ∈ tags c, P x := by
        intro c hc x hx
        exact hg x (by
          have := (tags_sortT ltNew (.grp cs) x).mp (by simp only [sortT, tags, mem_tagsL]; exact ⟨c, hc, hx⟩)
          exact this)
      -- turn `canon a ≠ canon b` into `eqv b a = false`, using membership
      have : ∀ L : List Tree, (∀ c ∈ L, ∀ x ∈ tags c, P x) → L.Pairwise (fun a b => canon a ≠ canon b) →
          L.Pairwise (fun a b => eqv teq b a = false) := by
        intro L
        induction L with
        | nil => simp
        | cons a L ih =>
          intro hL hp
          rw [List.pairwise_cons] at hp ⊢
          refine ⟨fun b hb => ?_, ih (fun c hc => hL c (by simp [hc])) hp.2⟩
          have := eqv_iff hP b a (hL b (by simp [hb])) (hL a (by simp))
          cases h : eqv teq b a with
          | false => rfl
          | true => exact absurd (this.mp h).symm (hp.1 b hb)
      exact this _ hall hpw'
    · intro p hp; cases hp
theorem noRepeatL_nil {P : Tag → Prop} (hP : Adm P) : ∀ (cs : List Tree), (∀ x ∈ tagsL cs, P x) →
    (∀ c ∈ cs, NoRepeat c) → ∀ c ∈ cs, dupT teq (sortT ltNew c) = []
  | [], _, _ => by simp
  | d :: ds, hg, hn =>
    List.forall_mem_cons.mpr
      ⟨noRepeat_nil hP d (fun x hx => hg x (by simp [tagsL, hx])) (hn d (by simp)),
       noRepeatL_nil hP ds (fun x hx => hg x (by simp [tagsL, hx])) (fun c hc => hn c (by simp [hc]))⟩
end

mutual
theorem crashT_guard (e : Tag → Tag → Bool) : ∀ t : Tree, crashT true e t = false
  | .tag _ => by simp [crashT]
  | .grp cs => by simp [crashT, crashL_guard e cs none]
theorem crashL_guard (e : Tag → Tag → Bool) : ∀ (l : List Tree) (prev : Option Tree), crashL true e prev l = false
  | [], _ => by simp [crashL]
  | c :: cs, prev => by simp [crashL, crashT_guard e c, crashL_guard e cs (some c)]
end


/-! ### the sorted view depends on the spelling only through the canonical form -/

mutual
theorem sortT_canon_congr : ∀ (a b : Tree), (∀ x ∈ tags a, CleanStr x.key) → (∀ x ∈ tags b, CleanStr x.key) →
    canon a = canon b → canon (sortT ltNew a) = canon (sortT ltNew b)
  | .tag _, .tag _, _, _, h => by simpa [sortT] using h
  | .tag _, .grp _, _, _, h => by simp [canon] at h
  | .grp _, .tag _, _, _, h => by simp [canon] at h
  | .grp cs, .grp ds, ha, hb, h => by
    simp only [canon, Tree.grp.injEq] at h
    simp only [sortT, canon, Tree.grp.injEq]
    apply arrange_congr _ _ (clean_sortKids (by simpa [tags] using ha)) (clean_sortKids (by simpa [tags] using hb))
    simp only [sortKids_eq_map, List.map_map, Function.comp_def]
    rw [sortKids_canon_congr cs ds (by simpa [tags] using ha) (by simpa [tags] using hb) h]
theorem sortKids_canon_congr : ∀ (cs ds : List Tree), (∀ x ∈ tagsL cs, CleanStr x.key) →
    (∀ x ∈ tagsL ds, CleanStr x.key) → canonL cs = canonL ds →
    cs.map (fun c => canon (sortT ltNew c)) = ds.map (fun c => canon (sortT ltNew c))
  | [], [], _, _, _ => rfl
  | [], _ :: _, _, _, h => by simp [canonL] at h
  | _ :: _, [], _, _, h => by simp [canonL] at h
  | a :: as, b :: bs, ha, hb, h => by
    simp only [canonL, List.cons.injEq] at h
    simp only [List.map_cons, List.cons.injEq]
    exact ⟨sortT_canon_congr a b (fun x hx => ha x (by simp [tagsL, hx])) (fun x hx => hb x (by simp [tagsL, hx])) h.1,
      sortKids_canon_congr as bs (fun x hx => ha x (by simp [tagsL, hx])) (fun x hx => hb x (by simp [tagsL, hx])) h.2⟩
end

/-! ### the delimiter scan does not see blanks -/
namespace Scan

theorem dropWhile_snoc (ws : Char → Bool) (c : Char) (hc : ws c = false) : ∀ pre : Str,
    ∃ Y, (pre ++ [c]).dropWhile ws = Y ++ [c] ∧ (Y = [] ↔ pre.all ws = true)
  | [] => ⟨[], by simp [hc], by simp⟩
  | a :: pre => by
    by_cases ha : ws a = true
    · obtain ⟨Y, h1, h2⟩ := dropWhile_snoc ws c hc pre
      exact ⟨Y, by simp [ha, h1], by simp [ha, h2]⟩
    · have ha' : ws a = false := by simpa using ha
      exact ⟨a :: pre, by simp [ha'], by simp [ha']⟩

/-- `(current_tag + c).strip() == c`, for a non-blank `c`, says that `current_tag` is blank -/
theorem strip_snoc (ws : Char → Bool) (c : Char) (hc : ws c = false) (pre : Str) :
    (strip ws (pre ++ [c]) == [c]) = pre.all ws := by
  obtain ⟨Y, h1, h2⟩ := dropWhile_snoc ws c hc pre
  have hs : strip ws (pre ++ [c]) = Y ++ [c] := by
    simp [strip, h1, hc]
  rw [hs, Bool.eq_iff_iff, ← h2]
  simp

/-- what the loop remembers of its state -/
def Rel (ws : Char → Bool) (a b : St) : Prop :=
  a.last = b.last ∧ a.out = b.out ∧ a.stop = b.stop ∧ a.cur.all ws = b.cur.all ws

theorem step_blank (ws : Char → Bool) (a b : St) (c : Char) (hc : ws c = true) (h : Rel ws a b) :
    Rel ws (step ws a c) b := by
  obtain ⟨al, ac, ao, as⟩ := a
  obtain ⟨bl, bc, bo, bs⟩ := b
  obtain ⟨h1, h2, h3, h4⟩ := h
  simp only at h1 h2 h3 h4
  subst h1 h2 h3
  cases as <;> simp [step, Rel, hc, h4]

theorem step_nonblank (ws : Char → Bool) (a b : St) (c : Char) (hc : ws c = false) (h : Rel ws a b) :
    Rel ws (step ws a c) (step ws b c) := by
  obtain ⟨al, ac, ao, as⟩ := a
  obtain ⟨bl, bc, bo, bs⟩ := b
  obtain ⟨h1, h2, h3, h4⟩ := h
  simp only at h1 h2 h3 h4
  subst h1 h2 h3
  cases as
  · simp only [step, Bool.false_eq_true, ↓reduceIte, hc, strip_snoc ws c hc, h4]
    repeat' split
    all_goals simp [Rel, hc, h4]
  · simp [step, Rel, h4]

theorem run_rel (ws : Char → Bool) : ∀ (s : Str) (a b : St), Rel ws a b →
    Rel ws (s.foldl (step ws) a) ((s.filter (fun c => !ws c)).foldl (step ws) b)
  | [], _, _, h => h
  | c :: s, a, b, h => by
    by_cases hc : ws c = true
    · simp only [List.foldl_cons, List.filter_cons, hc, Bool.not_true, Bool.false_eq_true, ↓reduceIte]
      exact run_rel ws s _ _ (step_blank ws a b c hc h)
    · have hc' : ws c = false := by simpa using hc
      simp only [List.foldl_cons, List.filter_cons, hc', Bool.not_false, ↓reduceIte]
      exact run_rel ws s _ _ (step_nonblank ws a b c hc' h)

end Scan

end HedVerif.Dup

/-! ## The property theorems -/
namespace HedVerif.C04
open HedVerif.Dup

/-- The fixed check never raises: its result is the issue list. -/
theorem empty_groups_total (top : List Tree) : dupIssues top = .ok (issues top) := by
  simp [dupIssues, check, crashL_guard, issues]

/-- Old code: `(),()` makes `found_group[0]` fail (IndexError) — validation raises. -/
theorem empty_groups_counterexample :
    (dupIssuesOld [.grp [], .grp []]).toOption = none ∧ (dupIssues [.grp [], .grp []]).toOption = some [⟨.grp, ['(', ')']⟩] := by
  decide

/-- **Order.** Reordering the members of any group, or of the top level, at any depth and any number
of times leaves the list of duplicate issues (kind and canonical key of the repeated element) unchanged. -/
theorem order_invariant {P : Tag → Prop} (hP : Adm P) (top top' : List Tree)
    (hs : Shuffle (.grp top) (.grp top')) (hg : ∀ x ∈ tagsL top, P x) : issues top = issues top' := by
  have hg' : ∀ x ∈ tagsL top', P x := fun x hx => hg x (by
    have := (shuffle_tags hs x).mpr (by simpa [tags] using hx); simpa [tags] using this)
  have hc := shuffle_canon hs (fun x hx => hP.clean x (hg x (by simpa [tags] using hx)))
  simp only [sortT, canon, Tree.grp.injEq] at hc
  exact dupL_congr hP _ _ none none (fun x hx => hg x ((tags_sortedView ltNew top x).mp hx))
    (fun x hx => hg' x ((tags_sortedView ltNew top' x).mp hx)) (by simp) (by simp) rfl hc

/-- **Spelling (rule input).** The duplicate rule sees a tag only through its resolved, folded short
form: annotations with the same canonical form have the same issues. -/
theorem spelling_invariant {P : Tag → Prop} (hP : Adm P) (top top' : List Tree) (h : canonL top = canonL top')
    (hg : ∀ x ∈ tagsL top, P x) (hg' : ∀ x ∈ tagsL top', P x) : issues top = issues top' := by
  have hc := sortT_canon_congr (.grp top) (.grp top') (fun x hx => hP.clean x (hg x (by simpa [tags] using hx)))
    (fun x hx => hP.clean x (hg' x (by simpa [tags] using hx))) (by simp [canon, h])
  simp only [sortT, canon, Tree.grp.injEq] at hc
  exact dupL_congr hP _ _ none none (fun x hx => hg x ((tags_sortedView ltNew top x).mp hx))
    (fun x hx => hg' x ((tags_sortedView ltNew top' x).mp hx)) (by simp) (by simp) rfl hc

/-- **Spelling (resolution, from C03).** Any two spellings — any suffix form of the path, in any letter
case — of a registered tag resolve to the same node with nothing left over; hence to the same short form. -/
theorem spelling_same_node (fold : List Char → List Char) (tags : List Schema.Name) (i : Nat) (n : Schema.Name)
    (hi : tags[i]? = some n) (hnd : i ∉ (Schema.Vocab.build fold tags).dups)
    (hwf : C03.WF (Schema.Vocab.build fold tags)) (f1 f2 w1 w2 : Schema.Name)
    (h1 : f1 ∈ Schema.forms n) (h2 : f2 ∈ Schema.forms n)
    (c1 : Schema.foldName fold w1 = Schema.foldName fold f1) (c2 : Schema.foldName fold w2 = Schema.foldName fold f2)
    (v1 : (Schema.foldName fold f1).getLast? ≠ some ['#']) (v2 : (Schema.foldName fold f2).getLast? ≠ some ['#']) :
    Schema.findComps (Schema.Vocab.build fold tags) fold w1 = Schema.findComps (Schema.Vocab.build fold tags) fold w2 := by
  rw [C03.direct_hit_case fold tags i n hi hnd hwf f1 w1 h1 c1 v1,
      C03.direct_hit_case fold tags i n hi hnd hwf f2 w2 h2 c2 v2]

/-- **Spacing (delimiter rule).** The delimiter scan reports the same codes for any two strings that
agree after deleting blanks — in particular when blanks are added or removed around commas and
parentheses or at the ends. -/
theorem spacing_invariant (ws : Char → Bool) (s s' : List Char)
    (h : s.filter (fun c => !ws c) = s'.filter (fun c => !ws c)) : Scan.scan ws s = Scan.scan ws s' := by
  have key : ∀ t : List Char, Scan.scan ws t = Scan.scan ws (t.filter (fun c => !ws c)) := by
    intro t
    obtain ⟨h1, h2, _, _⟩ := Scan.run_rel ws t {} {} ⟨rfl, rfl, rfl, rfl⟩
    simp [Scan.scan, Scan.finish, h1, h2]
  rw [key s, key s', h]

/-- **Spacing (tag rules, from C02).** What the other rules receive as the text of a tag is a token of
`split_hed_string`: non-empty, without delimiters, beginning and ending with a non-blank — blanks next
to commas and parentheses never reach them. -/
theorem spacing_tag_tokens (s : List Char) (t : Token) (ht : t ∈ Tok.split s) (htag : t.isTag = true) :
    t.start < t.stop ∧ t.stop ≤ s.length ∧
    (∀ k c, t.start ≤ k → k < t.stop → s[k]? = some c → Tok.isDelim c = false) ∧
    (∀ c, s[t.start]? = some c → c ≠ ' ') ∧ (∀ c, s[t.stop - 1]? = some c → c ≠ ' ') := by
  have h := (C02.tiling s).2 t ht
  simp only [TokOK, htag, ↓reduceIte] at h
  exact ⟨h.1, h.2.1, h.2.2⟩

/-- **Repeats are reported.** Two members of one group — the top level or a group at any depth, at any
two positions — that are equal up to spelling and the order of their own members produce a
TAG_EXPRESSION_REPEATED issue for that element. -/
theorem repeated_anywhere {P : Tag → Prop} (hP : Adm P) (top : List Tree) (hg : ∀ t ∈ tagsL top, P t)
    (l1 l2 l3 : List Tree) (x y : Tree) (hsub : Sub (.grp (l1 ++ x :: (l2 ++ y :: l3))) (.grp top))
    (hxy : Same x y) : ∃ i ∈ issues top, i.key = skey (sortT ltNew x) := by
  obtain ⟨i, hi, hk⟩ := repeated_in_group hP l1 l2 l3 x y
    (fun t ht => hg t (by have := sub_tags hsub t (by simpa [tags] using ht); simpa [tags] using this)) hxy
  have := sub_reported hsub i hi
  exact ⟨i, by simpa [sortT, dupT, issues, sortedView] using this, hk⟩

/-- **No false repeat.** If no group (nor the top level) has two members equal up to spelling and
member order, no duplicate issue is reported. -/
theorem no_false_repeat {P : Tag → Prop} (hP : Adm P) (top : List Tree) (hg : ∀ t ∈ tagsL top, P t)
    (hn : NoRepeat (.grp top)) : issues top = [] := by
  have := noRepeat_nil hP (.grp top) (by simpa [tags] using hg) hn
  simpa [sortT, dupT, issues, sortedView] using this

/-! ### the old code -/

def mk (text key : Dup.Str) : Tree := .tag ⟨text, key, key⟩
def red : Tree := mk ['R','e','d'] ['r','e','d']
def blue : Tree := mk ['B','l','u','e'] ['b','l','u','e']
def green : Tree := mk ['G','r','e','e','n'] ['g','r','e','e','n']
def labelABC : Tree := mk ['L','a','b','e','l','/','A','B','C'] ['l','a','b','e','l','/','a','b','c']
def labelabc : Tree := mk ['L','a','b','e','l','/','a','b','c'] ['l','a','b','e','l','/','a','b','c']
def labelAbd : Tree := mk ['L','a','b','e','l','/','A','b','d'] ['l','a','b','e','l','/','a','b','d']
/-- `Informational-property/Label/abc`: same node and value as `Label/abc`, written with a longer path -/
def labelLong : Tree := .tag ⟨['L','a','b','e','l','/','a','b','c'], ['l','a','b','e','l','/','a','b','c'],
  ['i','n','f','o','r','m','a','t','i','o','n','a','l','-','p','r','o','p','e','r','t','y','/','l','a','b','e','l','/','a','b','c']⟩

def nIssues (r : Except Unit (List Issue)) : Option Nat := r.toOption.map List.length

/-- Old code: `(Red,Blue),(Green),(Blue,Red)` is accepted, but after swapping the members of the last
group (`(Red,Blue),(Green),(Red,Blue)`) or without the unrelated `(Green)` it is rejected; the fixed
code reports one repeat in all three. -/
theorem order_counterexample :
    Shuffle (.grp [.grp [red, blue], .grp [green], .grp [blue, red]]) (.grp [.grp [red, blue], .grp [green], .grp [red, blue]]) ∧
    nIssues (dupIssuesOld [.grp [red, blue], .grp [green], .grp [blue, red]]) = some 0 ∧
    nIssues (dupIssuesOld [.grp [red, blue], .grp [green], .grp [red, blue]]) = some 1 ∧
    nIssues (dupIssuesOld [.grp [red, blue], .grp [blue, red]]) = some 1 ∧
    nIssues (dupIssues [.grp [red, blue], .grp [green], .grp [blue, red]]) = some 1 ∧
    nIssues (dupIssues [.grp [red, blue], .grp [green], .grp [red, blue]]) = some 1 ∧
    nIssues (dupIssues [.grp [red, blue], .grp [blue, red]]) = some 1 := by
  refine ⟨?_, by decide, by decide, by decide, by decide, by decide, by decide⟩
  exact Shuffle.inside (pre := [.grp [red, blue], .grp [green]]) (post := []) (Shuffle.perm (List.Perm.swap _ _ _))

/-- Old code: `Label/ABC, Label/abc` is reported, `Label/ABC, Label/Abd, Label/abc` is not (the
case-sensitive sort puts `Label/Abd` between the two equal tags); the fixed code reports both. -/
theorem case_counterexample :
    nIssues (dupIssuesOld [labelABC, labelabc]) = some 1 ∧
    nIssues (dupIssuesOld [labelABC, labelAbd, labelabc]) = some 0 ∧
    nIssues (dupIssues [labelABC, labelabc]) = some 1 ∧
    nIssues (dupIssues [labelABC, labelAbd, labelabc]) = some 1 := by
  refine ⟨by decide, by decide, by decide, by decide⟩

/-- Old code: the old `__eq__` compares the short forms case-sensitively and otherwise the raw texts, so
`Label/ABC, Label/abc` is reported but `Label/ABC, Informational-property/Label/abc` is not; the fixed
code reports both. -/
theorem spelling_counterexample :
    nIssues (dupIssuesOld [labelABC, labelabc]) = some 1 ∧
    nIssues (dupIssuesOld [labelABC, labelLong]) = some 0 ∧
    nIssues (dupIssues [labelABC, labelLong]) = some 1 := by
  refine ⟨by decide, by decide, by decide⟩

/-! ### the hypotheses can be met -/

/-- tags written in short form with a clean key -/
def ShortClean (t : Tag) : Prop := t.org = t.key ∧ CleanStr t.key

theorem shortClean_adm : Adm ShortClean :=
  ⟨fun a b ha hb h => by rw [← ha.1, ← hb.1, h], fun _ h => h.2⟩

example : ∀ x ∈ tagsL [.grp [red, blue], .grp [green], .grp [blue, red]], ShortClean x := by
  simp [tagsL, tags, red, blue, green, mk, ShortClean, CleanStr]

example : Same (.grp [red, blue]) (.grp [blue, red]) :=
  shuffle_canon (Shuffle.perm (List.Perm.swap _ _ _)) (by simp [tags, tagsL, red, blue, mk, CleanStr])

example : issues [.grp [red, blue], .grp [green], .grp [blue, red]] = [⟨.grp, ['(','b','l','u','e',',','r','e','d',')']⟩] := by
  decide

example : NoRepeat (.tag ⟨['a'], ['a'], ['a']⟩) := by
  intro cs h; cases h

end HedVerif.C04
